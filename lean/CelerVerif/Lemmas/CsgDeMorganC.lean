/-
C10 helper lemmas, part 8c (De Morgan): the loop invariant of `build_simplified_tree` and its
preservation by every iteration; the volume loop; the flags of the first pass only mark leaves
for `new_negated_nodes_`.
-/
import CelerVerif.Lemmas.CsgDeMorganB

namespace CelerVerif.Csg

/-! ### shape of simplified nodes -/

theorem simplified_cases (r : Tree) (n : Node) :
    simplified r n = simplifyNode r n ∨ simplified r n = n := by
  unfold simplified
  simp only
  split
  · left; rfl
  · right; rfl

theorem simplified_joined_not_negated (r : Tree) (op : Op) (ns : List Nat) :
    isNegated (simplified r (.joined op ns)) = false := by
  unfold simplified
  simp only
  split
  · simp only [simplifyNode, simplifyJoined]
    split
    · rfl
    · split <;> rfl
  · rfl

theorem simplified_negated_leaf {r : Tree} {u0 u : Nat} (hl : IsLeaf (r.get u0))
    (h : simplified r (.negated u0) = .negated u) : u = u0 := by
  have hs : simplifyNode r (.negated u0) = simplifyNegated r u0 := rfl
  cases hg : r.get u0 with
  | tru =>
    have : simplifyNegated r u0 = .fls := by unfold simplifyNegated; rw [hg]
    unfold simplified at h; rw [hs, this] at h; simp [noSimp] at h
  | surface k =>
    have : simplifyNegated r u0 = noSimp := by unfold simplifyNegated; rw [hg]
    unfold simplified at h; rw [hs, this] at h; simp at h; exact h.symm
  | fls => rw [hg] at hl; exact absurd hl (by simp [IsLeaf])
  | aliased a => rw [hg] at hl; exact absurd hl (by simp [IsLeaf])
  | negated a => rw [hg] at hl; exact absurd hl (by simp [IsLeaf])
  | joined op ns => rw [hg] at hl; exact absurd hl (by simp [IsLeaf])

theorem simplified_not_negated {r : Tree} {n : Node} (hn : isNegated n = false) :
    isNegated (simplified r n) = false := by
  cases n with
  | negated c => simp [isNegated] at hn
  | joined op ns => exact simplified_joined_not_negated r op ns
  | tru => simp [simplified, simplifyNode, isNegated]
  | fls => simp [simplified, simplifyNode, isNegated]
  | surface k => simp [simplified, simplifyNode, isNegated]
  | aliased a =>
    rcases simplified_cases r (.aliased a) with h | h <;> rw [h] <;> rfl

theorem insert_leaf_get {r : Tree} (b : Built r) {n : Node} (hl : IsLeaf n) :
    IsLeaf ((insert r n).1.get (insert r n).2.1) := by
  have hs : simplifyNode r n = noSimp := by
    cases n <;> first | rfl | exact absurd hl (by simp [IsLeaf])
  have hsim : simplified r n = n := by unfold simplified; simp [hs]
  rcases insert_spec r n with ⟨a, _, hne, _⟩ | ⟨id, hid, h⟩ | ⟨_, h⟩
  · exact absurd hs hne
  · rw [h]
    rw [hsim] at hid
    rcases b.exact _ (lookup_some hid) with h1 | h1 | h1
    · simp only at h1 ⊢; rw [h1]; exact hl
    · have e : n = .fls := h1.1
      rw [e] at hl; exact absurd hl (by simp [IsLeaf])
    · have e : n = .negated 1 := h1.1
      rw [e] at hl; exact absurd hl (by simp [IsLeaf])
  · rw [h]
    simp only
    rw [get_push_size, hsim]; exact hl

/-! ### the loop invariant -/

structure DMInv (t r : Tree) (tr : TrMap) : Prop where
  built : Built r
  tr : ∀ i, TrOk t r (tr i) i
  vol : r.volumes = []

theorem trOk_upd {t r : Tree} {tr : TrMap} (htr : ∀ i, TrOk t r (tr i) i) (i : Nat)
    (f : Matching → Matching) (hf : TrOk t r (f (tr i)) i) : ∀ j, TrOk t r (updTr tr i f j) j := by
  intro j
  unfold updTr
  split
  · rename_i e; subst e; exact hf
  · exact htr j

/-- inserting into the result tree keeps the invariant and extends the tree -/
theorem dmInv_insert {t r : Tree} {tr : TrMap} (h : DMInv t r tr) {n : Node}
    (hn : ∀ c ∈ n.children, c < r.size) (hsmall : r.size < invalid)
    (hneg : ∀ u, simplified r n = .negated u → IsLeaf (r.get u)) :
    DMInv t (insert r n).1 tr ∧ Extends r (insert r n).1 :=
  have e := extends_insert h.built.inv hn hsmall
  ⟨⟨built_insert h.built hn hsmall hneg, fun i => (h.tr i).mono e,
    by rw [insert_volumes]; exact h.vol⟩, e⟩

theorem processNegatedJoined_inv {t r : Tree} {tr : TrMap} (pre : DMPre t) (hso : Sorted t)
    (st : Struct t) (h : DMInv t r tr) (fl : DMFlags) {nodeId : Nat} (hi : nodeId < t.size)
    (hsmall : r.size < invalid) {keep : Bool} {r' : Tree} {tr' : TrMap}
    (hp : processNegatedJoined t fl nodeId r tr = .ok (keep, r', tr')) :
    DMInv t r' tr' ∧ Extends r r' ∧ r'.size ≤ r.size + 1 ∧
    (keep = true → ∀ c, t.get nodeId = .negated c → isJoined (t.get c) = false) := by
  unfold processNegatedJoined at hp
  rw [dealiased_eq pre] at hp
  cases hg : t.get nodeId with
  | negated c =>
    rw [hg] at hp
    simp only [dealiased_eq pre] at hp
    by_cases hj : isJoined (t.get c) = true
    · rw [if_pos hj] at hp
      cases hp
      refine ⟨⟨h.built, ?_, h.vol⟩, Extends.refl r, by omega, fun hk => by cases hk⟩
      apply trOk_upd h.tr
      refine ⟨(h.tr nodeId).unmod, fun hv => ?_, (h.tr nodeId).opp, (h.tr nodeId).neg⟩
      rcases (h.tr c).opp hv with ⟨h1, h2⟩
      refine ⟨h1, fun σ => ?_⟩
      rw [h2 σ, denote_get hso σ hi, hg]; rfl
    · rw [if_neg hj] at hp
      have hjf : isJoined (t.get c) = false := by simpa using hj
      split at hp
      · cases hp
        exact ⟨h, Extends.refl r, by omega, fun _ c' hc' => by cases hc'; exact hjf⟩
      · cases hp
        exact ⟨h, Extends.refl r, by omega, fun _ c' hc' => by cases hc'; exact hjf⟩
  | joined op ns =>
    rw [hg] at hp
    simp only at hp
    by_cases hnj : fl.negJoin nodeId = true
    · rw [if_pos hnj] at hp
      cases hb : buildNegatedNode t tr op ns with
      | error e => rw [hb] at hp; cases hp
      | ok neg =>
        rw [hb] at hp
        cases hp
        have hns : ∀ n ∈ ns, n < t.size := fun n hn =>
          st.closed nodeId hi n (by simp [hg, Node.children, hn])
        rcases buildNegatedNode_sound pre hso h.tr hns hb with ⟨hch, hnn, _, hev⟩
        have hneg : ∀ u, simplified r neg = .negated u → IsLeaf (r.get u) := by
          intro u hu
          have := simplified_not_negated (r := r) hnn
          rw [hu] at this; simp [isNegated] at this
        rcases dmInv_insert h hch hsmall hneg with ⟨hinv, hext⟩
        have hins := insert_inv h.built.inv hch hsmall
        refine ⟨⟨hinv.built, ?_, hinv.vol⟩, hext, (insert_size_le r neg).2,
          fun _ c hc => by cases hc⟩
        apply trOk_upd hinv.tr
        refine ⟨(hinv.tr nodeId).unmod, (hinv.tr nodeId).simp, fun _ => ?_, (hinv.tr nodeId).neg⟩
        refine ⟨hins.2.2.2, fun σ => ?_⟩
        rw [hins.2.2.1 σ, hev σ, denote_get hso σ hi, hg]
    · rw [if_neg hnj] at hp
      cases hp
      exact ⟨h, Extends.refl r, by omega, fun _ c hc => by cases hc⟩
  | tru | fls | surface _ | aliased _ =>
    rw [hg] at hp
    cases hp
    exact ⟨h, Extends.refl r, by omega, fun _ c hc => by cases hc⟩

/-- the first pass marks only leaves for `new_negated_nodes_` -/
def FlagsOk (t : Tree) (fl : DMFlags) : Prop := ∀ i, fl.newNeg i = true → LeafSrc (t.get i)

/-- a negation inserted on top of a leaf keeps the invariant -/
theorem dmInv_insert_negated {t r : Tree} {tr : TrMap} (h : DMInv t r tr) {u : Nat}
    (hu : u < r.size) (hl : IsLeaf (r.get u)) (hsmall : r.size < invalid) :
    DMInv t (insert r (.negated u)).1 tr ∧ Extends r (insert r (.negated u)).1 :=
  dmInv_insert h (by simpa [Node.children] using hu) hsmall
    (fun u' hu' => by rw [simplified_negated_leaf hl hu']; exact hl)

theorem dmStep_inv {t : Tree} {st : DMState} (pre : DMPre t) (hso : Sorted t) (s : Struct t)
    (h : DMInv t st.result st.tr) {fl : DMFlags} (hfl : FlagsOk t fl) {nodeId : Nat}
    (hi : nodeId < t.size) (hsmall : st.result.size + 3 ≤ invalid) {st' : DMState}
    (hs : dmStep t fl st nodeId = .ok st') :
    DMInv t st'.result st'.tr ∧ st'.result.size ≤ st.result.size + 3 := by
  unfold dmStep at hs
  cases hp : processNegatedJoined t fl nodeId st.result st.tr with
  | error e => rw [hp] at hs; cases hs
  | ok res =>
    rcases res with ⟨keep, r1, tr1⟩
    rw [hp] at hs
    simp only at hs
    rcases processNegatedJoined_inv pre hso s h fl hi (by omega) hp with ⟨h1, e1, hsz1, hkeep⟩
    by_cases hk : keep = false
    · rw [if_pos hk] at hs; cases hs; exact ⟨h1, by simp only; omega⟩
    · rw [if_neg hk] at hs
      have hkt : keep = true := by simpa using hk
      rw [dealiased_eq pre] at hs
      cases htn : translateNode tr1 (t.get nodeId) with
      | error e => rw [htn] at hs; cases hs
      | ok newNode =>
        rw [htn] at hs
        simp only at hs
        rcases translateNode_sound pre h1.tr htn with ⟨hch, hev, hnn, hnegc, hleaf⟩
        -- the copy
        have hneg : ∀ u, simplified r1 newNode = .negated u → IsLeaf (r1.get u) := by
          intro u hu
          cases hg : t.get nodeId with
          | negated c =>
            rcases hnegc c hg with ⟨hnode, hvalid⟩
            have hjf := hkeep hkt c hg
            have hlsrc : LeafSrc (t.get c) := ⟨hjf, pre.noDoubleNeg nodeId c hi hg⟩
            have hl := ((h1.tr c).unmod hvalid).2.2 hlsrc
            rw [hnode] at hu
            rw [simplified_negated_leaf hl hu]; exact hl
          | tru | fls | surface _ | aliased _ | joined _ _ =>
            have := simplified_not_negated (r := r1) (hnn (by rw [hg]; rfl))
            rw [hu] at this; simp [isNegated] at this
        rcases dmInv_insert h1 hch (by omega) hneg with ⟨h2, e2⟩
        have hins := insert_inv h1.built.inv hch (by omega)
        have hsz2 := (insert_size_le r1 newNode).2
        have htr2 : ∀ j, TrOk t (insert r1 newNode).1
            (updTr tr1 nodeId (fun m => { m with unmodified := (insert r1 newNode).2.1 }) j) j := by
          apply trOk_upd h2.tr
          refine ⟨fun _ => ⟨hins.2.2.2, fun σ => ?_, fun hl => ?_⟩, (h2.tr nodeId).simp,
            (h2.tr nodeId).opp, (h2.tr nodeId).neg⟩
          · rw [hins.2.2.1 σ, hev σ, denote_get hso σ hi]
          · have hnl : IsLeaf newNode := by rw [hleaf hl]; exact leafSrc_isLeaf pre hl
            exact insert_leaf_get h1.built hnl
        have h2' : DMInv t (insert r1 newNode).1
            (updTr tr1 nodeId (fun m => { m with unmodified := (insert r1 newNode).2.1 })) :=
          ⟨h2.built, htr2, h2.vol⟩
        by_cases hnf : fl.newNeg nodeId = true
        · rw [if_pos hnf] at hs
          cases hs
          have hlsrc := hfl nodeId hnf
          have hnl : IsLeaf newNode := by rw [hleaf hlsrc]; exact leafSrc_isLeaf pre hlsrc
          have hl2 := insert_leaf_get h1.built hnl
          rcases dmInv_insert_negated h2' hins.2.2.2 hl2 (by omega) with ⟨h3, e3⟩
          have hins3 := insert_inv h2.built.inv
            (n := .negated (insert r1 newNode).2.1)
            (by simpa [Node.children] using hins.2.2.2) (by omega)
          have hsz3 := (insert_size_le (insert r1 newNode).1 (.negated (insert r1 newNode).2.1)).2
          have htr3 : ∀ j, TrOk t (insert (insert r1 newNode).1 (.negated (insert r1 newNode).2.1)).1
              (updTr (updTr tr1 nodeId fun m => { m with unmodified := (insert r1 newNode).2.1 })
                nodeId (fun m => { m with newNegation :=
                  (insert (insert r1 newNode).1 (.negated (insert r1 newNode).2.1)).2.1 }) j) j := by
            apply trOk_upd h3.tr
            refine ⟨(h3.tr nodeId).unmod, (h3.tr nodeId).simp, (h3.tr nodeId).opp,
              fun _ => ⟨hins3.2.2.2, fun σ => ?_⟩⟩
            rw [hins3.2.2.1 σ]
            simp only [evalNode]
            rw [hins.2.2.1 σ, hev σ, denote_get hso σ hi]
          exact ⟨⟨h3.built, htr3, h3.vol⟩, by simp only; omega⟩
        · rw [if_neg hnf] at hs
          cases hs
          exact ⟨h2', by simp only; omega⟩

end CelerVerif.Csg
