/- Liveness potential across ExtendFromSecondaries (C02). -/
import CelerVerif.Lemmas.TrackInitPsi2

namespace CelerVerif.TrackInit

theorem sum_map_mul_left {α} (K : Nat) (f : α → Nat) (l : List α) :
    (l.map (fun x => K * f x)).sum = K * (l.map f).sum := by
  induction l with
  | nil => simp
  | cons a l ih => simp only [List.map_cons, List.sum_cons, ih, Nat.mul_add]

/-- pointwise bound between two lists of the same length, summed -/
theorem sum_pointwise {α} (d : α) (f g h : α → Nat) (l l' : List α) (hlen : l'.length = l.length)
    (hp : ∀ j, j < l.length → f (l'.getD j d) + g (l.getD j d) ≤ h (l.getD j d)) :
    (l'.map f).sum + (l.map g).sum ≤ (l.map h).sum := by
  induction l generalizing l' with
  | nil =>
    have : l' = [] := List.eq_nil_of_length_eq_zero (by simpa using hlen)
    subst this; simp
  | cons a l ih =>
    cases l' with
    | nil => simp at hlen
    | cons a' l' =>
      have h0 := hp 0 (by simp)
      simp only [List.getD_cons_zero] at h0
      have := ih l' (by simpa using hlen) (fun j hj => by
        have := hp (j + 1) (by simp; omega)
        simpa using this)
      simp only [List.map_cons, List.sum_cons]
      omega

theorem efs_slot_psi {K : Nat} (hK : 1 ≤ K) (order : Order) (x y : Slot) (hx : x.endOk)
    (hact : y.active = keepOf order x) (hsame : x.status = .alive → y = x) :
    cOf K y + K * qOf order x ≤ aliveTerm K x + K * cvA x := by
  have hcy := cOf_le hK y
  rcases hx with h | h | h
  · -- inactive
    have hk : keepOf order x = false := by simp [keepOf, Slot.active, h]
    have : cOf K y = 0 := by simp [cOf, hact, hk]
    simp [this, qOf, cvA, aliveTerm, Slot.active, h]
  · -- alive: untouched
    have := hsame h
    subst this
    have hq : qOf order y = countValid y.secs := by
      simp [qOf, Slot.active, h, queuedCount_false, allowedOf]
    simp [cOf, aliveTerm, cvA, Slot.active, h, hq]
  · -- killed
    have hxa : x.active = true := by simp [Slot.active, h]
    by_cases hkeep : keepOf order x = true
    · have hall : allowedOf order x = true ∧ countValid x.secs > 0 := by
        simp [keepOf, hxa, h] at hkeep; exact hkeep
      have hq : qOf order x = countValid x.secs - 1 := by
        simp [qOf, hxa, queuedCount_false, hall.1, hall.2]
      rw [hq]
      simp only [aliveTerm, h, cvA, hxa, if_true]
      have h1 : 1 ≤ countValid x.secs := hall.2
      have : K * (countValid x.secs - 1) + K = K * countValid x.secs := by
        rw [← Nat.mul_succ]; congr 1; omega
      simp
      omega
    · have hk : keepOf order x = false := by simpa using hkeep
      have hc0 : cOf K y = 0 := by simp [cOf, hact, hk]
      have hq : qOf order x ≤ countValid x.secs := by
        simp only [qOf, hxa, if_true, queuedCount_false]
        split <;> omega
      simp only [hc0, aliveTerm, h, cvA, hxa, if_true]
      have := Nat.mul_le_mul_left K hq
      simp
      omega

/-- the potential of the occupied slots after the end-of-step action, plus `K` per newly
    queued secondary, is bounded by the survivors' budgets plus `K` per emitted secondary -/
theorem efs_psi {cfg : Cfg} {s s' : State} {K : Nat} (hK : 1 ≤ K) (hL : Lens cfg s)
    (hend : ∀ x ∈ s.slots, x.endOk) (hE : EFSOk cfg s s') :
    psiSlots K s'.slots + K * prefixQ cfg.order s.slots cfg.slots
      ≤ (s.slots.map (aliveTerm K)).sum + K * (s.slots.map cvA).sum := by
  have hq : prefixQ cfg.order s.slots cfg.slots = (s.slots.map (qOf cfg.order)).sum := by
    unfold prefixQ
    rw [List.take_of_length_le (by rw [hL.slots]; exact Nat.le_refl _)]
  have hmain := sum_pointwise Slot.empty (cOf K) (fun x => K * qOf cfg.order x)
    (fun x => aliveTerm K x + K * cvA x) s.slots s'.slots
    (by rw [hE.lens.slots, hL.slots])
    (by
      intro j hj
      have hj' : j < cfg.slots := by rw [← hL.slots]; exact hj
      have hxm : s.slots.getD j Slot.empty ∈ s.slots := by
        rw [getD_getElem _ _ _ hj]; exact List.getElem_mem hj
      exact efs_slot_psi hK cfg.order _ _ (hend _ hxm) (hE.act j hj')
        (fun h => hE.aliveSame j hj' h))
  have h3 : (s.slots.map (fun x => aliveTerm K x + K * cvA x)).sum
      = (s.slots.map (aliveTerm K)).sum + K * (s.slots.map cvA).sum := by
    rw [← sum_map_mul_left]
    induction s.slots with
    | nil => simp
    | cons a l ih => simp only [List.map_cons, List.sum_cons, ih]; omega
  rw [sum_map_mul_left] at hmain
  unfold psiSlots
  rw [hq]; omega

end CelerVerif.TrackInit
