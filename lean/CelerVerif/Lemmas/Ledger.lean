/-
Helper lemmas for C01: the ledger model (Model/Ledger.lean) read at ℝ.
-/
import CelerVerif.Num.Real
import CelerVerif.Model.Ledger
import Mathlib.Tactic.Linarith
import Mathlib.Tactic.Ring

namespace CelerVerif.Ledger
open CelerVerif

/-- rewrite `Num ℝ` operations into ordinary real arithmetic -/
macro "led_simp" loc:(Lean.Parser.Tactic.location)? : tactic => `(tactic|
  simp only [NumR.gt_real, NumR.ge_real, NumR.le_real, NumR.lt_real, NumR.eq_real,
    NumR.hsub_real, NumR.hadd_real, NumR.hmul_real, NumR.lit0, NumR.lit2,
    Bool.and_eq_true, Bool.or_eq_true, Bool.not_eq_true', decide_eq_true_eq,
    Bool.not_eq_eq_eq_not, Bool.not_true, Bool.not_false] $[$loc]?)

/-! ### energy-loss handlers -/

theorem meanELoss_bounds (e low mean : ℝ) (c : Bool) (h0 : 0 ≤ mean) (h1 : mean ≤ e) :
    0 ≤ meanELoss e low mean c ∧ meanELoss e low mean c ≤ e := by
  unfold meanELoss
  split_ifs <;> constructor <;> linarith

theorem fluctClamp_bounds (e mean s : ℝ) (c : Bool) (h0 : 0 ≤ mean) (h1 : mean ≤ e)
    (hs : 0 ≤ s) : 0 ≤ fluctClamp e mean s c ∧ fluctClamp e mean s c ≤ e := by
  unfold fluctClamp
  split_ifs with h2 h3 h4
  · constructor <;> linarith
  · constructor <;> linarith
  · led_simp at h3
    have : s < e := not_le.mp h3
    constructor <;> linarith
  · constructor <;> linarith

theorem fluctELoss_bounds (e low mean s : ℝ) (c : Bool) (h0 : 0 ≤ mean) (h1 : mean ≤ e)
    (hs : 0 ≤ s) : 0 ≤ fluctELoss e low mean s c ∧ fluctELoss e low mean s c ≤ e := by
  have hc := fluctClamp_bounds e mean s c h0 h1 hs
  unfold fluctELoss
  simp only []
  split_ifs <;> constructor <;> linarith [hc.1, hc.2]

/-- `ElossApplier`: whatever the handler returns within `[0, E]` is moved from the particle to
    the deposition, nothing else -/
theorem elossApplier_sum (appl bnd rest : Bool) (e dep : ℝ) (calcE : Bool → ℝ)
    (hc : ∀ c, 0 ≤ calcE c ∧ calcE c ≤ e) (he : 0 ≤ e) :
    (elossApplier appl bnd rest e dep calcE).e + (elossApplier appl bnd rest e dep calcE).dep
        = e + dep
      ∧ 0 ≤ (elossApplier appl bnd rest e dep calcE).e
      ∧ (elossApplier appl bnd rest e dep calcE).e ≤ e
      ∧ dep ≤ (elossApplier appl bnd rest e dep calcE).dep := by
  unfold elossApplier
  have h := hc (!bnd)
  split_ifs with h1 h2 <;> refine ⟨?_, ?_, ?_, ?_⟩ <;> dsimp only <;> (try led_simp) <;> linarith

/-- a track killed by the applier has exactly zero kinetic energy -/
theorem elossApplier_stop (appl bnd rest : Bool) (e dep : ℝ) (calcE : Bool → ℝ)
    (h : (elossApplier appl bnd rest e dep calcE).stop = .killedRange) :
    (elossApplier appl bnd rest e dep calcE).e = 0 := by
  unfold elossApplier at h ⊢
  split_ifs at h ⊢ with h1 h2 h3 h4 h5 h6 <;> dsimp only at h ⊢ <;>
    first
      | (led_simp at h3; linarith)
      | (led_simp at h5; linarith)

/-! ### total energy (kinetic + 2mc² for antiparticles) of secondaries -/

/-- 2mc² of an antiparticle, 0 otherwise (ℝ reading of `rest2`) -/
theorem rest2_real (P : Particles ℝ) (pid : Nat) :
    rest2 P pid = if P.anti pid then 2 * P.mass pid else 0 := by
  unfold rest2
  split_ifs <;> led_simp

noncomputable def secT (P : Particles ℝ) (s : Sec ℝ) : ℝ := s.e + rest2 P s.pid
noncomputable def sumT (P : Particles ℝ) (l : List (Sec ℝ)) : ℝ := (l.map (secT P)).sum
noncomputable def sumTo (P : Particles ℝ) (l : List (Option (Sec ℝ))) : ℝ := sumT P (keepSecs l)

@[simp] theorem sumT_nil (P : Particles ℝ) : sumT P [] = 0 := rfl
@[simp] theorem sumT_cons (P : Particles ℝ) (s : Sec ℝ) (l : List (Sec ℝ)) :
    sumT P (s :: l) = secT P s + sumT P l := by simp [sumT]
theorem sumT_append (P : Particles ℝ) (a b : List (Sec ℝ)) :
    sumT P (a ++ b) = sumT P a + sumT P b := by simp [sumT]

/-- the cut loop moves the total energy of every sub-cut secondary (kinetic + 2mc² for
    antiparticles) into the deposition and leaves the others untouched -/
theorem cutLoop_balance (P : Particles ℝ) (secs : List (Option (Sec ℝ))) (d : ℝ) :
    (cutLoop P d secs).1 + sumTo P (cutLoop P d secs).2 = d + sumTo P secs := by
  induction secs generalizing d with
  | nil => simp [cutLoop, sumTo, keepSecs]
  | cons s rest ih =>
    cases s with
    | none =>
      simp only [cutLoop]
      have := ih d
      simp only [sumTo, keepSecs] at this ⊢
      exact this
    | some s =>
      simp only [cutLoop]
      split_ifs with h1 h2
      · have := ih (d + s.e + 2 * P.mass s.pid)
        simp only [sumTo, keepSecs, sumT_cons, secT, rest2_real, h2, if_true] at this ⊢
        led_simp
        linarith
      · have := ih (d + s.e)
        simp only [sumTo, keepSecs, sumT_cons, secT, rest2_real, h2] at this ⊢
        led_simp
        simp only [Bool.false_eq_true, if_false] at this ⊢
        linarith
      · have := ih d
        simp only [sumTo, keepSecs, sumT_cons, secT] at this ⊢
        linarith

/-- the cut loop only ever adds to the deposition when kinetic energies and masses are ≥ 0 -/
theorem cutLoop_mono (P : Particles ℝ) (hm : ∀ p, 0 ≤ P.mass p)
    (secs : List (Option (Sec ℝ))) (hs : ∀ s ∈ keepSecs secs, 0 ≤ s.e) (d : ℝ) :
    d ≤ (cutLoop P d secs).1 := by
  induction secs generalizing d with
  | nil => simp [cutLoop]
  | cons s rest ih =>
    cases s with
    | none =>
      simp only [cutLoop]
      exact ih (by intro s hs'; exact hs s (by simpa [keepSecs] using hs')) d
    | some s =>
      have hse : 0 ≤ s.e := hs s (by simp [keepSecs])
      have hr : ∀ t ∈ keepSecs rest, 0 ≤ t.e := by
        intro t ht; exact hs t (by simp [keepSecs, ht])
      simp only [cutLoop]
      split_ifs with h1 h2
      · have := ih hr (d + s.e + 2 * P.mass s.pid)
        led_simp
        linarith [hm s.pid]
      · have := ih hr (d + s.e)
        led_simp
        linarith
      · exact ih hr d

/-! ### the interactor's contract (property C04) -/

/-- what the ledger assumes of an interaction result for an incident track of particle `pid`
    with kinetic energy `kin`: total energy (kinetic + 2mc² of antiparticles) is conserved, an
    absorbed track is left with zero kinetic energy, energies are non-negative -/
def InteractorOK (P : Particles ℝ) (pid : Nat) (kin : ℝ) (r : Interaction ℝ) : Prop :=
  match r.action with
  | .scattered => kin = r.energy + r.edep + sumTo P r.secs ∧ 0 ≤ r.energy
  | .absorbed => kin + rest2 P pid = r.edep + sumTo P r.secs ∧ r.energy = 0
  | _ => True

theorem applyInteraction_balance (P : Particles ℝ) (pc : Bool) (pid : Nat) (e dep : ℝ)
    (r : Interaction ℝ) (h : InteractorOK P pid e r) :
    e + dep + (if (applyInteraction P pc e dep r).killed then rest2 P pid else 0)
      = (applyInteraction P pc e dep r).e + (applyInteraction P pc e dep r).dep
        + sumTo P (applyInteraction P pc e dep r).secs := by
  unfold InteractorOK at h
  unfold applyInteraction
  cases ha : r.action <;> simp only [ha] at h ⊢
  · -- scattered
    have hb := cutLoop_balance P r.secs r.edep
    cases pc <;> simp <;> (try led_simp) <;> linarith [h.1]
  · -- absorbed
    have hb := cutLoop_balance P r.secs r.edep
    cases pc <;> simp <;> (try led_simp) <;> linarith [h.1, h.2]
  · simp [sumTo, keepSecs]
  · simp [sumTo, keepSecs]

theorem trackingCut_sum (P : Particles ℝ) (pid : Nat) (e dep : ℝ) :
    (trackingCut P pid e dep).1 = 0
      ∧ (trackingCut P pid e dep).2 = dep + e + rest2 P pid := by
  unfold trackingCut
  rw [rest2_real]
  split_ifs <;> simp only [] <;> led_simp <;> constructor <;> ring

end CelerVerif.Ledger
