/-
Normals and sense flips: the vector each `calc_normal` normalises is the gradient of the
surface function up to a positive factor; the sense changes across every simple crossing.
-/
import CelerVerif.Lemmas.SurfIsectCases

namespace CelerVerif.Surf
open CelerVerif

/-- positive factor between the true gradient of `quadric` and `Surface.gradient`
    (spheres, cylinders and cones drop the factor 2) -/
def Surface.gradScale : Surface ℝ → ℝ
  | .planeAligned .. => 1
  | .plane .. => 1
  | .simpleQuadric .. => 1
  | .generalQuadric .. => 1
  | _ => 2

theorem gradScale_pos (s : Surface ℝ) : 0 < s.gradScale := by
  cases s <;> simp [Surface.gradScale]

/-- **gradient**: the directional derivative of the surface function along `v` at `pos`
    (= the linear coefficient 2B of the ray polynomial) is `gradScale · (gradient pos · v)` -/
theorem gradient_is_derivative (s : Surface ℝ) (pos v : Vec3 ℝ) :
    2 * (s.rayCoeffs pos v).2.1
      = s.gradScale * ((s.gradient pos).x * v.x + (s.gradient pos).y * v.y + (s.gradient pos).z * v.z) := by
  cases s with
  | planeAligned ax p => cases ax <;> simp [Surface.rayCoeffs, Surface.gradient, Surface.gradScale, Vec3.ax, Vec3.get, Vec3.set, Axis.toNat] <;> ring
  | plane n d => simp [Surface.rayCoeffs, Surface.gradient, Surface.gradScale]; ring
  | cylCentered ax r2 => cases ax <;> simp only [Surface.rayCoeffs, Surface.gradient, Surface.gradScale] <;> surf_ring
  | cylAligned ax ou ov r2 => cases ax <;> simp only [Surface.rayCoeffs, Surface.gradient, Surface.gradScale] <;> surf_ring
  | sphereCentered r2 => simp only [Surface.rayCoeffs, Surface.gradient, Surface.gradScale]
  | sphere o r2 => simp only [Surface.rayCoeffs, Surface.gradient, Surface.gradScale]
  | coneAligned ax o tsq => cases ax <;> simp only [Surface.rayCoeffs, Surface.gradient, Surface.gradScale] <;> surf_ring
  | simpleQuadric a b c d e f g => simp only [Surface.rayCoeffs, Surface.gradient, Surface.gradScale]; surf_ring
  | generalQuadric a b c d e f g h i j => simp only [Surface.rayCoeffs, Surface.gradient, Surface.gradScale]; surf_ring

/-- `make_unit_vector` returns a unit vector for every non-zero input -/
theorem makeUnit_unit (g : Vec3 ℝ) (hg : 0 < g.x * g.x + g.y * g.y + g.z * g.z) :
    unitDir (makeUnit g) := by
  unfold unitDir makeUnit
  simp only [Vec3.norm, Vec3.dot]
  num_simp
  set n2 := g.z * g.z + (g.y * g.y + g.x * g.x) with hn2
  have hpos : 0 < n2 := by rw [hn2]; linarith
  have hs : Real.sqrt n2 * Real.sqrt n2 = n2 := Real.mul_self_sqrt (le_of_lt hpos)
  have hne : Real.sqrt n2 ≠ 0 := by
    intro h0; rw [h0] at hs; linarith
  field_simp
  nlinarith [hs]

/-- the second-order coefficient of the ray polynomial does not depend on the position -/
theorem rayPoly_shift (s : Surface ℝ) (pos dir : Vec3 ℝ) (t e : ℝ) :
    s.rayPoly pos dir (t + e) - s.rayPoly pos dir t
      = (2 * (s.rayCoeffs pos dir).1 * t + 2 * (s.rayCoeffs pos dir).2.1) * e
        + (s.rayCoeffs pos dir).1 * e * e := by
  unfold Surface.rayPoly; ring

/-- **sense flip**: across a simple root t₀ of the ray polynomial the surface function takes
    opposite strict signs on both sides, arbitrarily close to t₀ -/
theorem rayPoly_flips (s : Surface ℝ) (pos dir : Vec3 ℝ) (t0 : ℝ)
    (hroot : s.rayPoly pos dir t0 = 0)
    (hsimple : 2 * (s.rayCoeffs pos dir).1 * t0 + 2 * (s.rayCoeffs pos dir).2.1 ≠ 0) :
    ∃ δ > 0, ∀ e, 0 < e → e < δ →
      s.rayPoly pos dir (t0 - e) * s.rayPoly pos dir (t0 + e) < 0 := by
  set A := (s.rayCoeffs pos dir).1 with hA
  set D := 2 * A * t0 + 2 * (s.rayCoeffs pos dir).2.1 with hD
  refine ⟨|D| / (|A| + 1), div_pos (abs_pos.mpr hsimple) (by positivity), ?_⟩
  intro e he hlt
  have h1 := rayPoly_shift s pos dir t0 e
  have h2 := rayPoly_shift s pos dir t0 (-e)
  rw [hroot, sub_zero] at h1 h2
  have e1 : s.rayPoly pos dir (t0 + e) = D * e + A * e * e := by rw [h1]
  have e2 : s.rayPoly pos dir (t0 - e) = -(D * e) + A * e * e := by
    have : t0 - e = t0 + -e := by ring
    rw [this, h2]; ring
  rw [e1, e2]
  have hAe : |A| * e < |D| := by
    have hpos : 0 < |A| + 1 := by positivity
    have := (lt_div_iff₀ hpos).mp hlt
    nlinarith [abs_nonneg A]
  have hsq : (A * e) * (A * e) < D * D := by
    have h4 := mul_self_lt_mul_self (by positivity : (0 : ℝ) ≤ |A| * e) hAe
    have ha : |A| * |A| = A * A := abs_mul_abs_self A
    have hd : |D| * |D| = D * D := abs_mul_abs_self D
    have h5 : |A| * e * (|A| * e) = A * e * (A * e) := by
      rw [show |A| * e * (|A| * e) = (|A| * |A|) * (e * e) by ring, ha]; ring
    rw [h5, hd] at h4
    exact h4
  have hneg := mul_pos (mul_pos he he) (sub_pos.mpr hsq)
  nlinarith [hneg]

end CelerVerif.Surf
