/-
RectArrayTracker: the distance-limited search is the unlimited answer truncated at the limit.
-/
import CelerVerif.Lemmas.NavTrack

namespace CelerVerif.Nav
open CelerVerif CelerVerif.Surf
noncomputable section

/-- a candidate of `RectArrayTracker::intersect_impl` always names a surface and has a finite
    distance -/
def GoodCand : Option (Isect ℝ) → Prop
  | none => True
  | some c => c.surf.id.isSome = true ∧ ∃ d, c.dist = some d

theorem goodCand_ite (b : Prop) [Decidable b] (c : Isect ℝ) (h1 : c.surf.id.isSome = true)
    (h2 : ∃ d, c.dist = some d) : GoodCand (if b then some c else none) := by
  by_cases hb : b
  · rw [if_pos hb]; exact ⟨h1, h2⟩
  · rw [if_neg hb]; trivial

theorem axisCand_good (r : RectArray ℝ) (st : LocalState ℝ) (coords : Array ℕ) (ax : ℕ) :
    GoodCand (r.axisCand st coords ax) := by
  unfold RectArray.axisCand
  simp only []
  by_cases h0 : Num.eq (st.dir.get ax) (Num.ofNat 0) = true
  · rw [if_pos h0]; trivial
  · rw [if_neg h0]
    exact goodCand_ite _ _ rfl ⟨_, rfl⟩

/-- accumulator invariant: either "nothing yet" or a found surface -/
def GoodAcc (a : Isect ℝ) : Prop := a = Isect.none' ∨ a.surf.id.isSome = true

theorem truncate_of_within (m : Option ℝ) (a : Isect ℝ) (h1 : a.surf.id.isSome = true)
    (h2 : dle a.dist m = true) : truncate m a = a := by
  simp [truncate, h1, h2]

theorem truncate_of_beyond (m : Option ℝ) (a : Isect ℝ) (h2 : dle a.dist m = false) :
    truncate m a = Isect.none' := by
  simp [truncate, h2]

/-- one step of the axis loop preserves "limited accumulator = truncated unlimited accumulator" -/
theorem stepCand_truncate (m : ℝ) (hm : m < (maxFinite : ℝ)) (af : Isect ℝ) (haf : GoodAcc af)
    (c : Option (Isect ℝ)) (hc : GoodCand c) :
    stepCand (.notFurther (some m)) (truncate (some m) af) c
      = truncate (some m) (stepCand .finite af c) ∧ GoodAcc (stepCand .finite af c) := by
  cases c with
  | none => exact ⟨rfl, haf⟩
  | some c =>
    obtain ⟨hcs, d, hcd⟩ := hc
    simp only [stepCand]
    rw [ok_limited m hm c.dist]
    have hacc : GoodAcc (if ((Valid.finite : Valid ℝ).ok c.dist && dlt c.dist af.dist) = true
        then c else af) := by
      split
      · exact Or.inr hcs
      · exact haf
    refine ⟨?_, hacc⟩
    by_cases hok : (Valid.finite : Valid ℝ).ok c.dist = true
    · by_cases hcm : dle c.dist (some m) = true
      · -- candidate within the limit
        by_cases hin : (af.surf.id.isSome && dle af.dist (some m)) = true
        · have hb : af.surf.id.isSome = true ∧ dle af.dist (some m) = true := by simpa using hin
          rw [truncate_of_within _ af hb.1 hb.2]
          by_cases hlt : dlt c.dist af.dist = true
          · simp [hok, hcm, hlt, truncate_of_within _ c hcs hcm]
          · simp [hok, hcm, hlt, truncate_of_within _ af hb.1 hb.2]
        · -- unlimited accumulator is beyond the limit (or empty): limited one is empty
          have htr : truncate (some m) af = Isect.none' := by
            unfold truncate; rw [if_neg hin]
          rw [htr]
          have hlt1 : dlt c.dist (Isect.none' : Isect ℝ).dist = true := by
            rw [hcd]; rfl
          have hlt2 : dlt c.dist af.dist = true := by
            rcases haf with rfl | hs
            · exact hlt1
            · have : dle af.dist (some m) = false := by
                cases hd : dle af.dist (some m) with
                | false => rfl
                | true => exact absurd (by simp [hs, hd]) hin
              rw [dlt_iff]
              have h1 := (dle_iff c.dist (some m)).1 hcm
              have h2 : ¬ top af.dist ≤ top (some m) := by
                rw [← dle_iff]; simp [this]
              exact lt_of_le_of_lt h1 (not_le.1 h2)
          simp [hok, hcm, hlt1, hlt2, truncate_of_within _ c hcs hcm]
      · -- candidate beyond the limit: the limited step ignores it
        have hcm' : dle c.dist (some m) = false := by simpa using hcm
        simp only [hok, hcm', Bool.and_false, Bool.false_and, Bool.false_eq_true, if_false,
          Bool.true_and]
        by_cases hlt : dlt c.dist af.dist = true
        · simp only [hlt, if_true]
          rw [truncate_of_beyond _ c hcm']
          -- af is further than c, hence beyond the limit too
          unfold truncate
          have : dle af.dist (some m) = false := by
            cases hd : dle af.dist (some m) with
            | false => rfl
            | true =>
              exfalso
              have h1 := (dle_iff af.dist (some m)).1 hd
              have h2 := (dlt_iff c.dist af.dist).1 hlt
              have h3 : ¬ top c.dist ≤ top (some m) := by rw [← dle_iff]; simp [hcm']
              exact h3 (le_trans (le_of_lt h2) h1)
          simp [this]
        · simp [hlt]
    · have hok' : (Valid.finite : Valid ℝ).ok c.dist = false := by simpa using hok
      simp [hok']

/-- ★ RectArrayTracker: `intersect(state, max)` is `intersect(state)` truncated at `max` -/
theorem rect_limited_eq_truncated (r : RectArray ℝ) (st : LocalState ℝ) (m : ℝ)
    (hm : m < (maxFinite : ℝ)) :
    r.intersectImpl st (.notFurther (some m)) = truncate (some m) (r.intersectImpl st .finite) := by
  unfold RectArray.intersectImpl
  simp only []
  set coords := toCoords r.dims (st.volume.getD 0)
  have h0 : GoodAcc (Isect.none' : Isect ℝ) := Or.inl rfl
  have t0 : (Isect.none' : Isect ℝ) = truncate (some m) Isect.none' := (truncate_none _).symm
  obtain ⟨e1, g1⟩ := stepCand_truncate m hm _ h0 _ (axisCand_good r st coords 0)
  obtain ⟨e2, g2⟩ := stepCand_truncate m hm _ g1 _ (axisCand_good r st coords 1)
  obtain ⟨e3, _⟩ := stepCand_truncate m hm _ g2 _ (axisCand_good r st coords 2)
  rw [← e3, ← e2, ← e1, ← t0]

end
end CelerVerif.Nav
