/-
C10 helper lemmas, part 8e (De Morgan): DEFINEDNESS of the first pass.  The parents matrix
(`Matrix2D` as a flat bit vector), `add_negation_for_operands` terminates within the recursion
budget and never applies `std::get<Joined>` to a non-join, and the exact facts about the flags
that the second pass relies on (`FlagsSpec`).
-/
import CelerVerif.Lemmas.CsgDeMorganD

namespace CelerVerif.Csg

/-! ### generic fold lemmas -/

/-- definedness + invariant of a `foldE` over `List.range' s m`, the invariant may depend on the
    position -/
theorem foldE_range'_ok {α ε : Type} (f : α → Nat → Except ε α) (P : Nat → α → Prop) :
    ∀ (m s : Nat) (a : α),
    (∀ k a, s ≤ k → k < s + m → P k a → ∃ a', f a k = .ok a' ∧ P (k + 1) a') →
    P s a → ∃ a', foldE f (List.range' s m) a = .ok a' ∧ P (s + m) a' := by
  intro m
  induction m with
  | zero => intro s a _ hp; exact ⟨a, rfl, hp⟩
  | succ m ih =>
    intro s a hstep hp
    rcases hstep s a (Nat.le_refl _) (by omega) hp with ⟨a1, h1, hp1⟩
    rcases ih (s + 1) a1 (fun k a hk1 hk2 => hstep k a (by omega) (by omega)) hp1 with ⟨a', h2, hp2⟩
    refine ⟨a', ?_, by rw [show s + (m + 1) = s + 1 + m by omega]; exact hp2⟩
    rw [List.range'_succ]
    unfold foldE
    rw [h1]
    exact h2

theorem foldE_range_ok {α ε : Type} (f : α → Nat → Except ε α) (P : Nat → α → Prop) (n : Nat)
    (a : α) (hstep : ∀ k a, k < n → P k a → ∃ a', f a k = .ok a' ∧ P (k + 1) a') (hp : P 0 a) :
    ∃ a', foldE f (List.range n) a = .ok a' ∧ P n a' := by
  rw [List.range_eq_range']
  have := foldE_range'_ok f P n 0 a (fun k a _ hk => hstep k a (by omega)) hp
  simpa using this

/-! ### the parents matrix -/

theorem idx_lt {n c p : Nat} (hc : c < n) (hp : p < n) : c * n + p < n * n := by
  have : (c + 1) * n ≤ n * n := Nat.mul_le_mul_right n hc
  rw [Nat.add_mul] at this
  omega

theorem idx_inj {n c p c' p' : Nat} (hp : p < n) (hp' : p' < n) (h : c * n + p = c' * n + p') :
    c = c' ∧ p = p' := by
  have hn : 0 < n := by omega
  have h1 : (n * c + p) / n = (n * c' + p') / n := by rw [Nat.mul_comm n c, Nat.mul_comm n c', h]
  rw [Nat.mul_add_div hn, Nat.mul_add_div hn, Nat.div_eq_of_lt hp, Nat.div_eq_of_lt hp'] at h1
  have h2 : c = c' := by omega
  subst h2
  exact ⟨rfl, by omega⟩

/-- the matrix has the right shape -/
structure FlWf (fl : DMFlags) (n : Nat) : Prop where
  size : fl.size = n
  psize : fl.parents.size = n * n

theorem setParent_wf {fl : DMFlags} {n : Nat} (w : FlWf fl n) (c p : Nat) :
    FlWf (fl.setParent c p) n :=
  ⟨w.size, by simp [DMFlags.setParent, w.psize]⟩

/-- `parents_[{c, p}] = true` sets exactly that bit -/
theorem parent_setParent {fl : DMFlags} {n : Nat} (w : FlWf fl n) {c p c' p' : Nat}
    (hc : c < n) (hp : p < n) (hp' : p' < n) :
    (fl.setParent c p).parent c' p' = (decide (c' = c ∧ p' = p) || fl.parent c' p') := by
  unfold DMFlags.setParent DMFlags.parent
  simp only [Array.getD_eq_getD_getElem?, Array.getElem?_setIfInBounds, w.size]
  have hlt : c * n + p < fl.parents.size := by rw [w.psize]; exact idx_lt hc hp
  by_cases he : c * n + p = c' * n + p'
  · rcases idx_inj hp hp' he with ⟨rfl, rfl⟩
    simp [hlt]
  · rw [if_neg he]
    have : ¬ (c' = c ∧ p' = p) := by
      rintro ⟨rfl, rfl⟩; exact he rfl
    simp [this]

/-- the two assignments made for a (child, parent) pair -/
def setPars (fl : DMFlags) (o k : Nat) : DMFlags := (fl.setParent o k).setParent o 1

theorem setPars_wf {fl : DMFlags} {n : Nat} (w : FlWf fl n) (o k : Nat) : FlWf (setPars fl o k) n :=
  setParent_wf (setParent_wf w o k) o 1

theorem parent_setPars {fl : DMFlags} {n : Nat} (w : FlWf fl n) {o k x p : Nat}
    (ho : o < n) (hk : k < n) (h1 : 1 < n) (hp : p < n) :
    (setPars fl o k).parent x p = (decide (x = o ∧ (p = k ∨ p = 1)) || fl.parent x p) := by
  unfold setPars
  rw [parent_setParent (setParent_wf w o k) ho h1 hp, parent_setParent w ho hk hp]
  by_cases h : x = o <;> by_cases h2 : p = k <;> by_cases h3 : p = 1 <;> simp [h, h2, h3]

theorem foldl_setPars {n k : Nat} (hk : k < n) (h1 : 1 < n) : ∀ (ns : List Nat) (fl : DMFlags),
    FlWf fl n → (∀ o ∈ ns, o < n) →
    FlWf (ns.foldl (fun fl o => setPars fl o k) fl) n ∧
    (ns.foldl (fun fl o => setPars fl o k) fl).newNeg = fl.newNeg ∧
    (ns.foldl (fun fl o => setPars fl o k) fl).negJoin = fl.negJoin ∧
    ∀ x p, p < n → (ns.foldl (fun fl o => setPars fl o k) fl).parent x p =
      (decide (x ∈ ns ∧ (p = k ∨ p = 1)) || fl.parent x p) := by
  intro ns
  induction ns with
  | nil => intro fl w _; exact ⟨w, rfl, rfl, fun x p _ => by simp⟩
  | cons o os ih =>
    intro fl w hns
    rw [List.foldl_cons]
    rcases ih (setPars fl o k) (setPars_wf w o k) (fun x hx => hns x (List.mem_cons_of_mem _ hx))
      with ⟨w', hnn, hnj, hpar⟩
    refine ⟨w', by rw [hnn]; rfl, by rw [hnj]; rfl, fun x p hp => ?_⟩
    rw [hpar x p hp, parent_setPars w (hns o (by simp)) hk h1 hp]
    by_cases h : x = o <;> by_cases h2 : x ∈ os <;> by_cases h3 : p = k ∨ p = 1 <;>
      simp [h, h2, h3]

theorem foldl_setVol {n : Nat} (h0 : 0 < n) : ∀ (vs : List Nat) (fl : DMFlags),
    FlWf fl n → (∀ v ∈ vs, v < n) →
    FlWf (vs.foldl (fun fl v => fl.setParent v 0) fl) n ∧
    (vs.foldl (fun fl v => fl.setParent v 0) fl).newNeg = fl.newNeg ∧
    (vs.foldl (fun fl v => fl.setParent v 0) fl).negJoin = fl.negJoin ∧
    ∀ x p, p < n → (vs.foldl (fun fl v => fl.setParent v 0) fl).parent x p =
      (decide (x ∈ vs ∧ p = 0) || fl.parent x p) := by
  intro vs
  induction vs with
  | nil => intro fl w _; exact ⟨w, rfl, rfl, fun x p _ => by simp⟩
  | cons o os ih =>
    intro fl w hns
    rw [List.foldl_cons]
    rcases ih (fl.setParent o 0) (setParent_wf w o 0) (fun x hx => hns x (List.mem_cons_of_mem _ hx))
      with ⟨w', hnn, hnj, hpar⟩
    refine ⟨w', by rw [hnn]; rfl, by rw [hnj]; rfl, fun x p hp => ?_⟩
    rw [hpar x p hp, parent_setParent w (hns o (by simp)) h0 hp]
    by_cases h : x = o <;> by_cases h2 : x ∈ os <;> by_cases h3 : p = 0 <;> simp [h, h2, h3]

/-! ### `add_negation_for_operands` -/

/-- operand `o` of a negated join is marked as the first pass requires -/
def Marked (t : Tree) (fl : DMFlags) (o : Nat) : Prop :=
  (isJoined (t.get o) = true → fl.negJoin o = true) ∧
  (isJoined (t.get o) = false → isNegated (t.get o) = false → fl.newNeg o = true)

/-- all operands of join `j` are marked -/
def Closed (t : Tree) (fl : DMFlags) (j : Nat) : Prop :=
  ∀ op ns, t.get j = .joined op ns → ∀ o ∈ ns, Marked t fl o

/-- the flags only grow, the matrix is untouched -/
structure FlLe (fl fl' : DMFlags) : Prop where
  parents : fl'.parents = fl.parents
  size : fl'.size = fl.size
  newNeg : ∀ i, fl.newNeg i = true → fl'.newNeg i = true
  negJoin : ∀ i, fl.negJoin i = true → fl'.negJoin i = true

theorem FlLe.refl (fl : DMFlags) : FlLe fl fl := ⟨rfl, rfl, fun _ h => h, fun _ h => h⟩

theorem FlLe.trans {a b c : DMFlags} (h1 : FlLe a b) (h2 : FlLe b c) : FlLe a c :=
  ⟨by rw [h2.parents, h1.parents], by rw [h2.size, h1.size],
    fun i h => h2.newNeg i (h1.newNeg i h), fun i h => h2.negJoin i (h1.negJoin i h)⟩

theorem Closed.mono' {t : Tree} {fl fl' : DMFlags} {j : Nat} (h : Closed t fl j)
    (hnn : ∀ i, fl.newNeg i = true → fl'.newNeg i = true)
    (hnj : ∀ i, fl.negJoin i = true → fl'.negJoin i = true) : Closed t fl' j :=
  fun op ns hg o ho =>
    And.intro (fun hj => hnj o ((h op ns hg o ho).1 hj)) (fun hj hn => hnn o ((h op ns hg o ho).2 hj hn))

theorem Marked.mono {t : Tree} {fl fl' : DMFlags} {o : Nat} (h : Marked t fl o) (le : FlLe fl fl') :
    Marked t fl' o :=
  And.intro (fun hj => le.negJoin o (h.1 hj)) (fun hj hn => le.newNeg o (h.2 hj hn))

theorem Closed.mono {t : Tree} {fl fl' : DMFlags} {j : Nat} (h : Closed t fl j) (le : FlLe fl fl') :
    Closed t fl' j := h.mono' le.newNeg le.negJoin

theorem FlLe.parent {fl fl' : DMFlags} (le : FlLe fl fl') (x p : Nat) :
    fl'.parent x p = fl.parent x p := by
  unfold DMFlags.parent; rw [le.parents, le.size]

/-- result of `add_negation_for_operands(j)` started in `fl` -/
structure AddNegRes (t : Tree) (fl fl' : DMFlags) : Prop where
  le : FlLe fl fl'
  fresh : ∀ k, fl'.negJoin k = true → fl.negJoin k = false → Closed t fl' k

/-- ★ `add_negation_for_operands(j)` on a join `j` stays within the recursion budget `j + 1`,
    never hits `std::get<Joined>` on a non-join, marks all operands of `j`, and every join it
    newly marks has all its operands marked -/
theorem addNeg_ok {t : Tree} (pre : DMPre t) (hso : Sorted t) :
    ∀ (fuel j : Nat) (fl : DMFlags), j < fuel → j < t.size → isJoined (t.get j) = true →
    ∃ fl', addNegationForOperands t fuel j fl = .ok fl' ∧ AddNegRes t fl fl' ∧ Closed t fl' j := by
  intro fuel
  induction fuel with
  | zero => intro j fl h; omega
  | succ fuel ih =>
    intro j fl hj hjs hjoin
    unfold addNegationForOperands
    rw [dealiased_eq pre]
    cases hg : t.get j with
    | joined op operands =>
      simp only
      -- the loop over the operands
      have loop : ∀ (l : List Nat) (cur : DMFlags), (∀ o ∈ l, o < fuel ∧ o < t.size) →
          ∃ cur', foldE (fun fl operand =>
              if isJoined (dealiased t operand) = true then
                addNegationForOperands t fuel operand
                  { fl with negJoin := setFlag fl.negJoin operand }
              else if (!isNegated (dealiased t operand)) = true then
                .ok { fl with newNeg := setFlag fl.newNeg operand }
              else .ok fl) l cur = .ok cur' ∧ AddNegRes t cur cur' ∧
            ∀ o ∈ l, Marked t cur' o := by
        intro l
        induction l with
        | nil =>
          intro cur _
          exact ⟨cur, rfl, ⟨FlLe.refl cur, fun k h1 h2 => by rw [h1] at h2; cases h2⟩,
            fun o ho => by cases ho⟩
        | cons o os ihl =>
          intro cur hl
          have ho := hl o (by simp)
          -- one operand
          have step : ∃ cur1, (if isJoined (dealiased t o) = true then
                addNegationForOperands t fuel o { cur with negJoin := setFlag cur.negJoin o }
              else if (!isNegated (dealiased t o)) = true then
                (.ok { cur with newNeg := setFlag cur.newNeg o } : Except String DMFlags)
              else .ok cur) = .ok cur1 ∧ AddNegRes t cur cur1 ∧ Marked t cur1 o := by
            rw [dealiased_eq pre]
            by_cases hjo : isJoined (t.get o) = true
            · rw [if_pos hjo]
              rcases ih o { cur with negJoin := setFlag cur.negJoin o } ho.1 ho.2 hjo
                with ⟨cur1, h1, r1, c1⟩
              have le0 : FlLe cur { cur with negJoin := setFlag cur.negJoin o } :=
                ⟨rfl, rfl, fun _ h => h, fun i h => by simp [setFlag, h]⟩
              refine ⟨cur1, h1, ⟨le0.trans r1.le, fun k hk1 hk2 => ?_⟩,
                And.intro (fun _ => r1.le.negJoin o (by simp [setFlag]))
                  (fun h => by rw [hjo] at h; cases h)⟩
              by_cases hko : k = o
              · subst hko; exact c1
              · exact r1.fresh k hk1 (by simp [setFlag, hko, hk2])
            · rw [if_neg hjo]
              have hjo' : isJoined (t.get o) = false := by simpa using hjo
              by_cases hno : (!isNegated (t.get o)) = true
              · rw [if_pos hno]
                refine ⟨_, rfl, ⟨⟨rfl, rfl, fun i h => by simp [setFlag, h], fun _ h => h⟩,
                  fun k h1 h2 => ?_⟩, And.intro (fun h => by rw [hjo'] at h; cases h)
                  (fun _ _ => by simp [setFlag])⟩
                simp only at h1; rw [h1] at h2; cases h2
              · rw [if_neg hno]
                refine ⟨cur, rfl, ⟨FlLe.refl cur, fun k h1 h2 => by rw [h1] at h2; cases h2⟩,
                  And.intro (fun h => by rw [hjo'] at h; cases h) (fun _ h => ?_)⟩
                rw [h] at hno; simp at hno
          rcases step with ⟨cur1, h1, r1, m1⟩
          rcases ihl cur1 (fun x hx => hl x (List.mem_cons_of_mem _ hx)) with ⟨cur', h2, r2, m2⟩
          refine ⟨cur', ?_, ⟨r1.le.trans r2.le, fun k hk1 hk2 => ?_⟩, fun x hx => ?_⟩
          · unfold foldE; rw [h1]; exact h2
          · cases hk : cur1.negJoin k with
            | true => exact (r1.fresh k hk hk2).mono r2.le
            | false => exact r2.fresh k hk1 hk
          · rcases List.mem_cons.1 hx with rfl | hx
            · exact m1.mono r2.le
            · exact m2 x hx
      have hops : ∀ o ∈ operands, o < fuel ∧ o < t.size := by
        intro o ho
        have h1 : o < j := hso j hjs o (by simp [hg, Node.children, ho])
        exact ⟨by omega, by omega⟩
      rcases loop operands fl hops with ⟨fl', h1, r1, m1⟩
      refine ⟨fl', h1, r1, fun op' ns' hg' o ho => ?_⟩
      rw [hg] at hg'
      cases hg'
      exact m1 o ho
    | tru | fls | aliased _ | negated _ | surface _ => rw [hg] at hjoin; cases hjoin

/-! ### `find_join_negations` -/

/-- invariant of the first loop of `find_join_negations` after nodes `0 … k-1` -/
structure FJInv (t : Tree) (k : Nat) (fl : DMFlags) : Prop where
  wf : FlWf fl t.size
  par : ∀ i, i < k → ∀ c ∈ (t.get i).children, fl.parent c i = true ∧ fl.parent c 1 = true
  negJoin : ∀ i c, i < k → t.get i = .negated c → isJoined (t.get c) = true → fl.negJoin c = true
  closed : ∀ j, fl.negJoin j = true → Closed t fl j
  upper : ∀ x p, x < t.size → p < t.size → 2 ≤ p → fl.parent x p = true → x < p

theorem fjInv_step {t : Tree} {k : Nat} {fl fl' : DMFlags} (inv : FJInv t k fl) (hk : k < t.size)
    (hso : Sorted t) (s : Struct t) (wf : FlWf fl' t.size)
    (hpar : ∀ x p, p < t.size → fl'.parent x p =
      (decide (x ∈ (t.get k).children ∧ (p = k ∨ p = 1)) || fl.parent x p))
    (hnn : ∀ i, fl.newNeg i = true → fl'.newNeg i = true)
    (hnj : ∀ i, fl.negJoin i = true → fl'.negJoin i = true)
    (hnew : ∀ c, t.get k = .negated c → isJoined (t.get c) = true → fl'.negJoin c = true)
    (hfresh : ∀ j, fl'.negJoin j = true → fl.negJoin j = false → Closed t fl' j) :
    FJInv t (k + 1) fl' := by
  have h1 : 1 < t.size := s.size2
  refine ⟨wf, fun i hi c hc => ?_, fun i c hi hg hj => ?_, fun j hj => ?_, fun x p hx hp h2 hpx => ?_⟩
  · by_cases hik : i = k
    · subst hik
      rw [hpar c i hk, hpar c 1 h1]
      simp [hc]
    · have := inv.par i (by omega) c hc
      rw [hpar c i (by omega), hpar c 1 h1, this.1, this.2]
      simp
  · by_cases hik : i = k
    · subst hik; exact hnew c hg hj
    · exact hnj c (inv.negJoin i c (by omega) hg hj)
  · cases hjo : fl.negJoin j with
    | true => exact (inv.closed j hjo).mono' hnn hnj
    | false => exact hfresh j hj hjo
  · rw [hpar x p hp] at hpx
    simp only [Bool.or_eq_true, decide_eq_true_eq] at hpx
    rcases hpx with ⟨hmem, hpk⟩ | hpx
    · have : p = k := by omega
      subst this
      exact hso p hk x hmem
    · exact inv.upper x p hx hp h2 hpx

/-- ★ one iteration of the first loop is defined and keeps the invariant -/
theorem fjStep_ok {t : Tree} (pre : DMPre t) (hso : Sorted t) (s : Struct t) {k : Nat}
    {fl : DMFlags} (inv : FJInv t k fl) (hk : k < t.size) :
    ∃ fl', fjStep t fl k = .ok fl' ∧ FJInv t (k + 1) fl' := by
  have h1 : 1 < t.size := s.size2
  unfold fjStep
  rw [dealiased_eq pre]
  cases hg : t.get k with
  | negated c =>
    simp only [dealiased_eq pre]
    have hck : c < k := hso k hk c (by simp [hg, Node.children])
    have hcs : c < t.size := by omega
    have hp1 : ∀ x p, p < t.size → ((fl.setParent c k).setParent c 1).parent x p =
        (decide (x ∈ (Node.negated c).children ∧ (p = k ∨ p = 1)) || fl.parent x p) := by
      intro x p hp
      have := parent_setPars inv.wf (o := c) (k := k) (x := x) hcs hk h1 hp
      unfold setPars at this
      rw [this]; simp [Node.children]
    by_cases hj : isJoined (t.get c) = true
    · rw [if_pos hj]
      rcases addNeg_ok pre hso (t.size + 1) c
        { ((fl.setParent c k).setParent c 1) with
          negJoin := setFlag ((fl.setParent c k).setParent c 1).negJoin c } (by omega) hcs hj
        with ⟨fl', h, res, hcl⟩
      refine ⟨fl', h, ?_⟩
      rw [← hg] at hp1
      apply fjInv_step inv hk hso s
      · exact ⟨by rw [res.le.size]; exact inv.wf.size,
          by rw [res.le.parents]; exact (setPars_wf inv.wf c k).psize⟩
      · intro x p hp
        rw [res.le.parent x p, ← hp1 x p hp]; rfl
      · intro i hi; exact res.le.newNeg i hi
      · intro i hi; exact res.le.negJoin i (by simp [setFlag, DMFlags.setParent, hi])
      · intro c' hc' _
        rw [hg] at hc'; cases hc'
        exact res.le.negJoin c (by simp [setFlag])
      · intro j hj1 hj2
        by_cases hjc : j = c
        · subst hjc; exact hcl
        · exact res.fresh j hj1 (by simp [setFlag, DMFlags.setParent, hjc, hj2])
    · rw [if_neg hj]
      refine ⟨_, rfl, ?_⟩
      rw [← hg] at hp1
      apply fjInv_step inv hk hso s (setPars_wf inv.wf c k) hp1 (fun i hi => hi) (fun i hi => hi)
      · intro c' hc' hj'
        rw [hg] at hc'; cases hc'
        exact absurd hj' hj
      · intro j hj1 hj2
        have : fl.negJoin j = true := hj1
        rw [this] at hj2; cases hj2
  | joined op ns =>
    simp only
    refine ⟨_, rfl, ?_⟩
    have hns : ∀ o ∈ ns, o < t.size := fun o ho =>
      Nat.lt_trans (hso k hk o (by simp [hg, Node.children, ho])) hk
    have e : (fun (fl : DMFlags) (o : Nat) => (fl.setParent o k).setParent o 1)
        = (fun fl o => setPars fl o k) := rfl
    rw [e]
    rcases foldl_setPars hk h1 ns fl inv.wf hns with ⟨wf', hnn, hnj, hpar⟩
    apply fjInv_step inv hk hso s wf'
    · intro x p hp; rw [hpar x p hp, hg]; rfl
    · intro i hi; rw [hnn]; exact hi
    · intro i hi; rw [hnj]; exact hi
    · intro c hc; rw [hg] at hc; cases hc
    · intro j hj1 hj2
      rw [hnj] at hj1; rw [hj1] at hj2; cases hj2
  | aliased a => exact absurd hg (pre.noAlias k a)
  | tru | fls | surface _ =>
    simp only
    refine ⟨fl, rfl, ?_⟩
    apply fjInv_step inv hk hso s inv.wf
    · intro x p hp; rw [hg]; simp [Node.children]
    · exact fun i hi => hi
    · exact fun i hi => hi
    · intro c hc; rw [hg] at hc; cases hc
    · intro j hj1 hj2; rw [hj1] at hj2; cases hj2

/-- what the second pass needs to know about the result of the first pass -/
structure FlagsSpec (t : Tree) (fl : DMFlags) : Prop where
  inv : FJInv t t.size fl
  vol : ∀ v ∈ t.volumes, fl.parent v 0 = true

/-- ★ the first pass is defined (no recursion-budget exhaustion, no `std::get<Joined>` on a
    non-join) and computes flags satisfying `FlagsSpec` -/
theorem findJoinNegations_ok {t : Tree} (pre : DMPre t) (inv : TreeInv t)
    (hvol : ∀ v ∈ t.volumes, v < t.size) :
    ∃ fl, findJoinNegations t = .ok fl ∧ FlagsSpec t fl := by
  have s := inv.struct
  have h0 : 0 < t.size := by have := s.size2; omega
  unfold findJoinNegations
  simp only
  have init : FJInv t 0
      { newNeg := fun _ => false, negJoin := fun _ => false,
        parents := Array.replicate (t.size * t.size) false, size := t.size } := by
    refine ⟨⟨rfl, by simp⟩, fun i hi => (by omega), fun i c hi => (by omega),
      fun j hj => (by cases hj), fun x p _ _ _ hp => ?_⟩
    simp only [DMFlags.parent, Array.getD_eq_getD_getElem?, Array.getElem?_replicate] at hp
    split at hp <;> cases hp
  rcases foldE_range_ok (fjStep t) (FJInv t) t.size _
    (fun k a hk hp => fjStep_ok pre inv.sorted s hp hk) init with ⟨fl1, hf, inv1⟩
  rw [hf]
  refine ⟨_, rfl, ?_⟩
  rcases foldl_setVol h0 t.volumes fl1 inv1.wf hvol with ⟨wf', hnn, hnj, hpar⟩
  refine ⟨⟨wf', fun i hi c hc => ?_, fun i c hi hg hj => ?_, fun j hj => ?_,
    fun x p hx hp h2 hpx => ?_⟩, fun v hv => ?_⟩
  · have := inv1.par i hi c hc
    rw [hpar c i hi, hpar c 1 s.size2, this.1, this.2]; simp
  · rw [hnj]; exact inv1.negJoin i c hi hg hj
  · rw [hnj] at hj
    exact (inv1.closed j hj).mono' (fun i hi => by rw [hnn]; exact hi)
      (fun i hi => by rw [hnj]; exact hi)
  · rw [hpar x p hp] at hpx
    simp only [Bool.or_eq_true, decide_eq_true_eq] at hpx
    rcases hpx with ⟨_, hp0⟩ | hpx
    · omega
    · exact inv1.upper x p hx hp h2 hpx
  · rw [hpar v 0 h0]; simp [hv]

end CelerVerif.Csg
