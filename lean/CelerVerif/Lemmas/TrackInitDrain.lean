/- Conditional liveness: if the physics kills every track in its first step and emits nothing,
   the loop drains (queued = alive = 0) after finitely many steps (C02). -/
import CelerVerif.Lemmas.TrackInitReach
import CelerVerif.Lemmas.TrackInitITC3

namespace CelerVerif.TrackInit

/-- an outcome list that kills every track without secondaries -/
def DrainOracle (cfg : Cfg) (o : List Outcome) : Prop :=
  cfg.slots ≤ o.length ∧ ∀ x ∈ o, x.status = .killed ∧ x.secs = []

theorem DrainOracle.ok {cfg : Cfg} {o : List Outcome} (h : DrainOracle cfg o) : OracleOk o :=
  fun x hx => Or.inr (Or.inl (h.2 x hx).1)

/-- a slot that is empty or holds a track that died without secondaries -/
def Slot.drained (x : Slot) : Prop := x.status = .inactive ∨ (x.status = .killed ∧ x.secs = [])

theorem drained_keep_q (order : Order) (x : Slot) (h : x.drained) :
    keepOf order x = false ∧ qOf order x = 0 := by
  rcases h with h | ⟨h1, h2⟩
  · simp [keepOf, qOf, Slot.active, h]
  · simp [keepOf, qOf, Slot.active, h1, h2, countValid_nil, queuedCount]

theorem front_drained {cfg : Cfg} {s : State} (hL : Lens cfg s) (o : List Outcome)
    (hd : DrainOracle cfg o) :
    ∀ x ∈ (trackingCut (interact o (preStep s))).slots, x.drained := by
  simp only [trackingCut, interact, preStep]
  intro x hx
  obtain ⟨z, hz, rfl⟩ := List.mem_map.mp hx
  have hk : (s.slots.map preStepSlot).length - o.length = 0 := by
    rw [List.length_map, hL.slots]; have := hd.1; omega
  rw [hk] at hz
  simp only [List.replicate_zero, List.append_nil] at hz
  have := all_zipWith interactSlot (fun z => (cutSlot z).drained) (s.slots.map preStepSlot) o
    (by
      intro a ha b hb
      obtain ⟨a0, _, rfl⟩ := List.mem_map.mp ha
      obtain ⟨b1, b2⟩ := hd.2 b hb
      unfold Slot.drained cutSlot interactSlot preStepSlot
      cases h : a0.status <;> simp [h, b1, b2]) z hz
  exact this

theorem prefixQ_zero (order : Order) (l : List Slot) (h : ∀ x ∈ l, qOf order x = 0) (k : Nat) :
    prefixQ order l k = 0 := by
  unfold prefixQ
  have : ∀ l' : List Slot, (∀ x ∈ l', qOf order x = 0) → ((l'.map (qOf order)).sum = 0) := by
    intro l' hl'
    induction l' with
    | nil => rfl
    | cons a t ih =>
      simp only [List.map_cons, List.sum_cons, hl' a (by simp), Nat.zero_add]
      exact ih (fun x hx => hl' x (by simp [hx]))
  exact this _ (fun x hx => h x (List.mem_of_mem_take hx))

/-- what one draining step guarantees -/
structure DrainOk (cfg : Cfg) (s1 s' : State) : Prop where
  inv : Inv cfg s'
  empty : liveL s'.slots = []
  nvac : s'.c.numVacancies = cfg.slots
  alive : s'.c.numAlive = 0
  queued : s'.c.numInitializers = (s1.c.numInitializers + s1.pending.length)
      - min s1.c.numVacancies (s1.c.numInitializers + s1.pending.length)

theorem stepBody_drain {cfg : Cfg} {s1 : State} (hIT : ITSpec cfg) (hP : Pre cfg s1)
    (o : List Outcome) (hd : DrainOracle cfg o) :
    ∃ s', stepBody o s1 = .ok s' ∧ DrainOk cfg s1 s' := by
  have hsp := stepBody_spec hIT hP o hd.ok
  have hE1 := efp_spec hP.lens hP.core hP.evs hP.fit
  unfold stepBody at hsp ⊢
  generalize extendFromPrimaries s1 = s2 at hE1 hsp ⊢
  obtain ⟨p1, p2, p3, p4, p5, p6⟩ := hE1.same
  have hni := hE1.ninit
  have hT := hIT s2 hE1.lens hE1.core (by rw [hni]; exact hP.fit)
    (by rw [p2, p1]; exact hP.vac) (by rw [p3, p2]; exact hP.nvac)
    (by rw [p1]; exact hP.status) (by rw [p1, p3]; exact hP.occupied)
  generalize initializeTracks s2 = s3 at hT hsp ⊢
  obtain ⟨hM, t1, t2, t3, t4⟩ := hT
  have hF := front_keeps hM.lens hM.core o hd.ok
  have hdr := front_drained hM.lens o hd
  generalize trackingCut (interact o (preStep s3)) = s4 at hF hdr hsp ⊢
  obtain ⟨f1, f2, f3, f4, f5, f6⟩ := hF
  have hE := efs_spec (cfg := cfg) f1 (by rw [f5]; exact f2) f3
  have hq0 : prefixQ cfg.order s4.slots cfg.slots = 0 :=
    prefixQ_zero _ _ (fun x hx => (drained_keep_q cfg.order x (hdr x hx)).2) _
  cases hres : extendFromSecondaries s4 with
  | error p =>
    obtain ⟨e, s'⟩ := p
    rw [hres] at hE
    have := hE.2.over
    rw [hq0, f5] at this
    have := hM.cap
    omega
  | ok s' =>
    rw [hres] at hE
    have hinv := (hsp.1 s' hres).inv
    have hact : ∀ x ∈ s'.slots, x.active = false := by
      intro x hx
      obtain ⟨i, hi, rfl⟩ := List.getElem_of_mem hx
      have hi' : i < cfg.slots := by rw [← hE.lens.slots]; exact hi
      have h1 := hE.act i hi'
      rw [getD_getElem _ _ _ hi] at h1
      rw [h1]
      have hi4 : i < s4.slots.length := by rw [f1.slots]; exact hi'
      rw [getD_getElem _ _ _ hi4]
      exact (drained_keep_q cfg.order _ (hdr _ (List.getElem_mem hi4))).1
    have hlive : liveL s'.slots = [] := by
      unfold liveL
      rw [List.filter_eq_nil_iff.mpr (fun x hx => by simp [hact x hx])]; rfl
    have hocc := hinv.occupied
    rw [hlive] at hocc
    refine ⟨s', rfl, hinv, hlive, by simpa using hocc, ?_, ?_⟩
    · rw [hE.nalive]; simp at hocc; omega
    · rw [hE.ninit, hq0, f5, t1, p3, hni]; simp

end CelerVerif.TrackInit
