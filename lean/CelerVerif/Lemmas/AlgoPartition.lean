/- Helper lemmas for C18: the Hoare-style `partition_impl`. -/
import CelerVerif.Lemmas.AlgoArray

namespace CelerVerif.Algo
variable {α : Type} [Inhabited α]

theorem scanFwd_spec (p : α → Bool) (a : Array α) (first last : Nat) (h : first ≤ last) :
    first ≤ scanFwd p a first last ∧ scanFwd p a first last ≤ last ∧
    (∀ i, first ≤ i → i < scanFwd p a first last → p a[i]! = true) ∧
    (scanFwd p a first last < last → p a[scanFwd p a first last]! = false) := by
  fun_induction scanFwd p a first last with
  | case1 first hlt hp ih =>
    obtain ⟨h1, h2, h3, h4⟩ := ih (by omega)
    refine ⟨by omega, h2, ?_, h4⟩
    intro i hi1 hi2
    by_cases hie : i = first
    · subst hie; exact hp
    · exact h3 i (by omega) hi2
  | case2 first hlt hp =>
    exact ⟨Nat.le_refl _, by omega, fun i h1 h2 => by omega, fun _ => by simpa using hp⟩
  | case3 first hge =>
    exact ⟨Nat.le_refl _, h, fun i h1 h2 => by omega, fun h' => by omega⟩

theorem scanBack_spec (p : α → Bool) (a : Array α) (first last : Nat) (h : first < last) :
    first ≤ scanBack p a first last ∧ scanBack p a first last < last ∧
    (∀ i, scanBack p a first last < i → i < last → p a[i]! = false) ∧
    (scanBack p a first last ≠ first → p a[scanBack p a first last]! = true) := by
  induction last with
  | zero => omega
  | succ last ih =>
    unfold scanBack
    by_cases hm : first = last
    · subst hm
      simp only [beq_self_eq_true, ↓reduceIte]
      exact ⟨Nat.le_refl _, by omega, fun i h1 h2 => by omega, fun h' => absurd rfl h'⟩
    · have hne : (first == last) = false := by simpa using hm
      simp only [hne, Bool.false_eq_true, ↓reduceIte]
      by_cases hp : p a[last]! = true
      · simp only [hp, Bool.not_true, Bool.false_eq_true, ↓reduceIte]
        exact ⟨by omega, by omega, fun i h1 h2 => by omega, fun _ => by simp⟩
      · have hp' : p a[last]! = false := by simpa using hp
        simp only [hp', Bool.not_false, ↓reduceIte]
        obtain ⟨h1, h2, h3, h4⟩ := ih (by omega)
        refine ⟨h1, by omega, ?_, h4⟩
        intro i hi1 hi2
        by_cases hie : i = last
        · subst hie; exact hp'
        · exact h3 i hi1 (by omega)

/-- loop invariant of `partition_impl` ⇒ its postcondition -/
theorem partitionLoop_spec (p : α → Bool) (orig : Array α) (fuel : Nat) (a : Array α)
    (first last : Nat) (hfl : first ≤ last) (hln : last ≤ a.size) (hfuel : last - first < fuel)
    (hperm : a.Perm orig)
    (htrue : ∀ i, i < first → p a[i]! = true)
    (hfalse : ∀ i, last ≤ i → i < a.size → p a[i]! = false) :
    (partitionLoop p fuel a first last).1.Perm orig ∧
    (partitionLoop p fuel a first last).2 ≤ a.size ∧
    (∀ i, i < (partitionLoop p fuel a first last).2 →
      p (partitionLoop p fuel a first last).1[i]! = true) ∧
    (∀ i, (partitionLoop p fuel a first last).2 ≤ i → i < a.size →
      p (partitionLoop p fuel a first last).1[i]! = false) := by
  induction fuel generalizing a first last with
  | zero => omega
  | succ fuel ih =>
    unfold partitionLoop
    obtain ⟨f1, f2, f3, f4⟩ := scanFwd_spec p a first last hfl
    generalize hf : scanFwd p a first last = f at *
    by_cases hfe : f = last
    · subst hfe
      simp only [beq_self_eq_true, ↓reduceIte]
      refine ⟨hperm, hln, ?_, hfalse⟩
      intro i hi
      by_cases h1 : i < first
      · exact htrue i h1
      · exact f3 i (by omega) hi
    · have hne : (f == last) = false := by simpa using hfe
      simp only [hne, Bool.false_eq_true, ↓reduceIte]
      have hflt : f < last := by omega
      have hpf := f4 hflt
      obtain ⟨b1, b2, b3, b4⟩ := scanBack_spec p a f last hflt
      generalize hl : scanBack p a f last = l at *
      by_cases hle : f = l
      · subst hle
        simp only [beq_self_eq_true, ↓reduceIte]
        refine ⟨hperm, by omega, ?_, ?_⟩
        · intro i hi
          by_cases h1 : i < first
          · exact htrue i h1
          · exact f3 i (by omega) hi
        · intro i hi1 hi2
          by_cases h1 : i = f
          · subst h1; exact hpf
          · by_cases h2 : i < last
            · exact b3 i (by omega) h2
            · exact hfalse i (by omega) hi2
      · have hne2 : (f == l) = false := by simpa using hle
        simp only [hne2, Bool.false_eq_true, ↓reduceIte]
        have hpl := b4 (fun h' => hle h'.symm)
        have hfs : f < a.size := by omega
        have hls : l < a.size := by omega
        have hsz : (a.swapIfInBounds f l).size = a.size := Array.size_swapIfInBounds
        have ht' : ∀ i, i < f + 1 → p (a.swapIfInBounds f l)[i]! = true := by
          intro i hi
          rw [get_swap a f l i hfs hls]
          by_cases h1 : i = f
          · subst h1; simp [hpl]
          · have h2 : i ≠ l := by omega
            simp only [h1, h2, ↓reduceIte]
            by_cases h3 : i < first
            · exact htrue i h3
            · exact f3 i (by omega) (by omega)
        have hf' : ∀ i, l ≤ i → i < (a.swapIfInBounds f l).size →
            p (a.swapIfInBounds f l)[i]! = false := by
          intro i hi1 hi2
          rw [get_swap a f l i hfs hls]
          have h1 : i ≠ f := by omega
          by_cases h2 : i = l
          · subst h2; simp [h1, hpf]
          · simp only [h1, h2, ↓reduceIte]
            by_cases h3 : i < last
            · exact b3 i (by omega) h3
            · exact hfalse i (by omega) (by omega)
        have := ih (a.swapIfInBounds f l) (f + 1) l (by omega) (by omega) (by omega)
          ((swap_perm a f l hfs hls).trans hperm) ht' hf'
        rw [hsz] at this
        exact this

end CelerVerif.Algo
