/- kernel-checked inverse certificate: z^((2^160-1)/31) + 1 is a unit modulo P -/
import CelerVerif.Lemmas.XorwowPeriod

namespace CelerVerif.Xorwow

theorem orderCert_31 : orderCert 31 = true := by decide +kernel

end CelerVerif.Xorwow
