/- Translations / transformations of points and surfaces at ℝ. -/
import CelerVerif.Lemmas.SurfRay

namespace CelerVerif.Surf
open CelerVerif

/-- columns of `m` are orthonormal: `mᵀ m = I` -/
def Mat3.orthoCols (m : Mat3 ℝ) : Prop :=
  m.r0.x * m.r0.x + m.r1.x * m.r1.x + m.r2.x * m.r2.x = 1 ∧
  m.r0.y * m.r0.y + m.r1.y * m.r1.y + m.r2.y * m.r2.y = 1 ∧
  m.r0.z * m.r0.z + m.r1.z * m.r1.z + m.r2.z * m.r2.z = 1 ∧
  m.r0.x * m.r0.y + m.r1.x * m.r1.y + m.r2.x * m.r2.y = 0 ∧
  m.r0.x * m.r0.z + m.r1.x * m.r1.z + m.r2.x * m.r2.z = 0 ∧
  m.r0.y * m.r0.z + m.r1.y * m.r1.z + m.r2.y * m.r2.z = 0

/-- rows of `m` are orthonormal: `m mᵀ = I` -/
def Mat3.orthoRows (m : Mat3 ℝ) : Prop :=
  m.r0.x * m.r0.x + m.r0.y * m.r0.y + m.r0.z * m.r0.z = 1 ∧
  m.r1.x * m.r1.x + m.r1.y * m.r1.y + m.r1.z * m.r1.z = 1 ∧
  m.r2.x * m.r2.x + m.r2.y * m.r2.y + m.r2.z * m.r2.z = 1 ∧
  m.r0.x * m.r1.x + m.r0.y * m.r1.y + m.r0.z * m.r1.z = 0 ∧
  m.r0.x * m.r2.x + m.r0.y * m.r2.y + m.r0.z * m.r2.z = 0 ∧
  m.r1.x * m.r2.x + m.r1.y * m.r2.y + m.r1.z * m.r2.z = 0

macro "xf_simp" loc:(Lean.Parser.Tactic.location)? : tactic => `(tactic|
  simp only [Transformation.up, Transformation.down, Transformation.rotUp, Transformation.rotDown,
    gemv, gemvT, Mat3.row, Vec3.get, Vec3.sub, Vec3.add, translateUp, translateDown,
    Vec3.mk.injEq] $[$loc]?)

theorem vec3_ext {a b : Vec3 ℝ} (hx : a.x = b.x) (hy : a.y = b.y) (hz : a.z = b.z) : a = b := by
  cases a; cases b; simp_all

theorem translate_down_up (tra p : Vec3 ℝ) : translateDown tra (translateUp tra p) = p := by
  apply vec3_ext <;> xf_simp <;> num_simp <;> ring

theorem translate_up_down (tra p : Vec3 ℝ) : translateUp tra (translateDown tra p) = p := by
  apply vec3_ext <;> xf_simp <;> num_simp <;> ring

theorem transform_down_up (t : Transformation ℝ) (h : t.rot.orthoCols) (p : Vec3 ℝ) :
    t.down (t.up p) = p := by
  obtain ⟨h1, h2, h3, h4, h5, h6⟩ := h
  apply vec3_ext <;> xf_simp <;> num_simp
  · linear_combination p.x * h1 + p.y * h4 + p.z * h5
  · linear_combination p.x * h4 + p.y * h2 + p.z * h6
  · linear_combination p.x * h5 + p.y * h6 + p.z * h3

theorem transform_up_down (t : Transformation ℝ) (h : t.rot.orthoRows) (p : Vec3 ℝ) :
    t.up (t.down p) = p := by
  obtain ⟨h1, h2, h3, h4, h5, h6⟩ := h
  apply vec3_ext <;> xf_simp <;> num_simp
  · linear_combination (p.x - t.tra.x) * h1 + (p.y - t.tra.y) * h4 + (p.z - t.tra.z) * h5
  · linear_combination (p.x - t.tra.x) * h4 + (p.y - t.tra.y) * h2 + (p.z - t.tra.z) * h6
  · linear_combination (p.x - t.tra.x) * h5 + (p.y - t.tra.y) * h6 + (p.z - t.tra.z) * h3

/-- rotating a direction up preserves its length -/
theorem rotUp_norm (t : Transformation ℝ) (h : t.rot.orthoCols) (d : Vec3 ℝ) :
    (t.rotUp d).x * (t.rotUp d).x + (t.rotUp d).y * (t.rotUp d).y + (t.rotUp d).z * (t.rotUp d).z
      = d.x * d.x + d.y * d.y + d.z * d.z := by
  obtain ⟨h1, h2, h3, h4, h5, h6⟩ := h
  xf_simp; num_simp
  linear_combination d.x * d.x * h1 + d.y * d.y * h2 + d.z * d.z * h3
    + 2 * d.x * d.y * h4 + 2 * d.x * d.z * h5 + 2 * d.y * d.z * h6

theorem rotDown_rotUp (t : Transformation ℝ) (h : t.rot.orthoCols) (d : Vec3 ℝ) :
    t.rotDown (t.rotUp d) = d := by
  obtain ⟨h1, h2, h3, h4, h5, h6⟩ := h
  apply vec3_ext <;> xf_simp <;> num_simp
  · linear_combination d.x * h1 + d.y * h4 + d.z * h5
  · linear_combination d.x * h4 + d.y * h2 + d.z * h6
  · linear_combination d.x * h5 + d.y * h6 + d.z * h3

/-- translating a surface: the surface function at the translated point is unchanged -/
theorem translate_quadric (s : Surface ℝ) (tra pos : Vec3 ℝ) :
    (s.translate tra).quadric (translateUp tra pos) = s.quadric pos := by
  cases s with
  | planeAligned ax p => cases ax <;> simp only [Surface.translate, Surface.quadric] <;> xf_simp <;> surf_ring
  | plane n d => simp only [Surface.translate, Surface.quadric]; xf_simp; surf_ring
  | cylCentered ax r2 => cases ax <;> simp only [Surface.translate, Surface.quadric] <;> xf_simp <;> surf_ring
  | cylAligned ax ou ov r2 => cases ax <;> simp only [Surface.translate, Surface.quadric] <;> xf_simp <;> surf_ring
  | sphereCentered r2 => simp only [Surface.translate, Surface.quadric]; xf_simp; surf_ring
  | sphere o r2 => simp only [Surface.translate, Surface.quadric]; xf_simp; surf_ring
  | coneAligned ax o tsq => cases ax <;> simp only [Surface.translate, Surface.quadric] <;> xf_simp <;> surf_ring
  | simpleQuadric a b c d e f g => simp only [Surface.translate, Surface.quadric]; xf_simp; surf_ring
  | generalQuadric a b c d e f g h i j => simp only [Surface.translate, Surface.quadric]; xf_simp; surf_ring

end CelerVerif.Surf
