/- kernel-checked inverse certificate: z^((2^160-1)/414721) + 1 is a unit modulo P -/
import CelerVerif.Lemmas.XorwowPeriod

namespace CelerVerif.Xorwow

theorem orderCert_414721 : orderCert 414721 = true := by decide +kernel

end CelerVerif.Xorwow
