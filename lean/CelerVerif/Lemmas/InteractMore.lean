/-
Muon bremsstrahlung, Rayleigh form-factor sampling, brems photon-energy proposal and the
Bethe–Heitler ε formulas at ℝ.
-/
import CelerVerif.Lemmas.InteractRelax
import Mathlib.Analysis.SpecialFunctions.Trigonometric.Basic

namespace CelerVerif.Interact
open CelerVerif

/-! ### muon bremsstrahlung -/

theorem muBremsLoop_spec (dcs : ℝ → ℝ) (cut E env : ℝ) : ∀ (fuel : ℕ) (script : Script ℝ)
    (k : ℝ) (rest : Script ℝ), muBremsLoop dcs cut E env fuel script = some (k, rest) →
    ∃ u1, u1 ∈ script ∧ k = reciprocal cut E u1 ∧ (∀ u ∈ rest, u ∈ script) := by
  intro fuel
  induction fuel with
  | zero => intro script k rest h; simp [muBremsLoop] at h
  | succ n ih =>
    intro script k rest h
    match script, h with
    | u1 :: u2 :: tl, h =>
      simp only [muBremsLoop] at h
      split_ifs at h with hr
      · obtain ⟨a, ha, he, hrest⟩ := ih tl k rest h
        exact ⟨a, by simp [ha], he, fun u hu => by simp [hrest u hu]⟩
      · simp only [Option.some.injEq, Prod.mk.injEq] at h
        obtain ⟨h1, h3⟩ := h
        exact ⟨u1, by simp, h1.symm, fun u hu => by rw [← h3] at hu; simp [hu]⟩
    | [], h => simp [muBremsLoop] at h
    | [_], h => simp [muBremsLoop] at h

/-- decomposition of `MuBremsstrahlungInteractor::operator()` -/
theorem mubrems_done {dcs : ℝ → ℝ} {cap size : ℕ} {E M cut : ℝ} {d : Vec3 ℝ} {script : Script ℝ}
    {i : Interaction ℝ} {sz : ℕ} {rest : Script ℝ}
    (h : muBremsWith dcs cap size E M cut d script = .done i sz rest) :
    size + 1 ≤ cap ∧ sz = size + 1 ∧ ∃ k uc uPhi u1, u1 ∈ script ∧ k = reciprocal cut E u1
      ∧ i = bremFinal E d (momentum E M) k (muBremsCosTheta E M k uc) uPhi := by
  unfold muBremsWith at h
  cases ha : alloc cap size 1 with
  | none => rw [ha] at h; simp at h
  | some s' =>
    rw [ha] at h
    obtain ⟨h1, h2⟩ := alloc_some ha
    simp only [] at h
    split at h
    · simp at h
    · rename_i k rst hl
      obtain ⟨u1, hu1, hk, _⟩ := muBremsLoop_spec _ _ _ _ _ _ _ _ hl
      match rst, h with
      | uc :: uPhi :: tl, h =>
        simp only [Outcome.done.injEq] at h
        exact ⟨h1, by omega, k, uc, uPhi, u1, hu1, hk, h.1.symm⟩
      | [], h => simp at h
      | [_], h => simp at h

theorem muBremsAngleArg_real (E M k u : ℝ) :
    muBremsAngleArg E M k u
      = u * ((lorentzFactor E M * pi * (1 / 2) * Num.min (1 : ℝ) (lorentzFactor E M * M / k - 1))
            * (lorentzFactor E M * pi * (1 / 2) * Num.min (1 : ℝ) (lorentzFactor E M * M / k - 1)))
        / (1 + (lorentzFactor E M * pi * (1 / 2) * Num.min (1 : ℝ) (lorentzFactor E M * M / k - 1))
            * (lorentzFactor E M * pi * (1 / 2) * Num.min (1 : ℝ) (lorentzFactor E M * M / k - 1))) := by
  unfold muBremsAngleArg
  inum
  rw [half_real]
  have : (@OfScientific.ofScientific ℝ Num.instOfScientific 10 true 1) = (1 : ℝ) := by
    rw [sci_real]; norm_num
  rw [this]

/-- the argument of `sqrt(a/(1−a))` is well defined: `0 ≤ a < 1` -/
theorem muBremsAngleArg_range (E M k u : ℝ) (h0 : 0 ≤ u) (h1 : u < 1) :
    0 ≤ muBremsAngleArg E M k u ∧ muBremsAngleArg E M k u < 1 := by
  rw [muBremsAngleArg_real]
  generalize lorentzFactor E M * pi * (1 / 2) * Num.min (1 : ℝ) (lorentzFactor E M * M / k - 1) = r
  have hr : 0 ≤ r * r := mul_self_nonneg r
  constructor
  · apply div_nonneg (mul_nonneg h0 hr) (by linarith)
  · rw [div_lt_one (by linarith)]
    nlinarith

theorem muBremsCosTheta_range (E M k u : ℝ) :
    -1 ≤ muBremsCosTheta E M k u ∧ muBremsCosTheta E M k u ≤ 1 := by
  unfold muBremsCosTheta
  inum
  exact ⟨Real.neg_one_le_cos _, Real.cos_le_one _⟩

/-! ### Rayleigh -/

theorem rayleighLoop_spec (p : RayleighParams ℝ) (factor : ℝ) (weight prob : Vec3 ℝ) :
    ∀ (fuel : ℕ) (script : Script ℝ) (c : ℝ) (rest : Script ℝ),
    rayleighLoop p factor weight prob fuel script = some (c, rest) →
    ∃ u1 u2 u3, u1 ∈ script ∧ u2 ∈ script ∧ u3 ∈ script
      ∧ rayleighTrial p factor weight prob u1 u2 u3 = (c, false) ∧ (∀ u ∈ rest, u ∈ script) := by
  intro fuel
  induction fuel with
  | zero => intro script c rest h; simp [rayleighLoop] at h
  | succ n ih =>
    intro script c rest h
    match script, h with
    | u1 :: u2 :: u3 :: tl, h =>
      simp only [rayleighLoop] at h
      split_ifs at h with hr
      · obtain ⟨a, b, e, ha, hb, he, ht, hrest⟩ := ih tl c rest h
        exact ⟨a, b, e, by simp [ha], by simp [hb], by simp [he], ht,
          fun u hu => by simp [hrest u hu]⟩
      · simp only [Option.some.injEq, Prod.mk.injEq] at h
        obtain ⟨h1, h3⟩ := h
        refine ⟨u1, u2, u3, by simp, by simp, by simp, ?_, fun u hu => by rw [← h3] at hu; simp [hu]⟩
        have hb : (rayleighTrial p factor weight prob u1 u2 u3).2 = false := by simpa using hr
        rw [← h1, ← hb]
    | [], h => simp [rayleighLoop] at h
    | [_], h => simp [rayleighLoop] at h
    | [_, _], h => simp [rayleighLoop] at h

theorem fitSlice_real : (fitSlice : ℝ) = 1 / 50 := by
  unfold fitSlice; rw [sci_real]; norm_num

/-- the sampled form-factor variable is non-negative for `y ∈ [0,1)`, `0 < 1/n ≤ 2` -/
theorem rayleighX_nonneg (ninv y : ℝ) (hn0 : 0 < ninv) (hn2 : ninv ≤ 2) (hy0 : 0 ≤ y) (hy1 : y < 1) :
    0 ≤ rayleighX ninv y := by
  unfold rayleighX fastpow
  inum
  rw [fitSlice_real, half_real]
  split_ifs with h
  · have h1 : 0 ≤ 1 - (ninv + 2) * y / 3 := by nlinarith
    have h2 : 0 ≤ 1 / 2 * (ninv + 1) * y * (1 - (ninv + 2) * y / 3) := by positivity
    have h3 : 0 ≤ y * ninv := by positivity
    nlinarith
  · have hl : Real.log (1 - y) ≤ 0 := Real.log_nonpos (by linarith) (by linarith)
    have : 1 ≤ Real.exp (-ninv * Real.log (1 - y)) := Real.one_le_exp (by nlinarith)
    linarith

/-! ### brems proposal, Bethe–Heitler ε -/

/-- `k ∈ [k_min, k_max]` on the CLOSED interval of uniforms at ℝ -/
theorem bremsProposal_range (kmin kmax dc u : ℝ) (hk : 0 < kmin) (hkk : kmin ≤ kmax) (hdc : 0 ≤ dc)
    (h0 : 0 ≤ u) (h1 : u ≤ 1) :
    kmin ≤ bremsProposal kmin kmax dc u ∧ bremsProposal kmin kmax dc u ≤ kmax := by
  unfold bremsProposal
  inum
  have ha : 0 < kmin * kmin + dc := by positivity
  have hab : kmin * kmin + dc ≤ kmax * kmax + dc := by nlinarith
  obtain ⟨r1, r2⟩ := reciprocal_range _ _ u ha hab h0 h1
  constructor
  · apply Real.le_sqrt_of_sq_le; nlinarith
  · apply Real.sqrt_le_iff.mpr
    constructor
    · linarith
    · nlinarith

theorem bhEps_range (epsMin t : ℝ) (he : epsMin ≤ 1 / 2) (h0 : 0 ≤ t) (h1 : t ≤ 1) :
    (epsMin ≤ bhEpsF1 epsMin t ∧ bhEpsF1 epsMin t ≤ 1 / 2)
      ∧ (epsMin ≤ bhEpsF2 epsMin t ∧ bhEpsF2 epsMin t ≤ 1 / 2) := by
  unfold bhEpsF1 bhEpsF2
  inum
  rw [half_real]
  have : 0 ≤ (1 / 2 - epsMin) * t := mul_nonneg (by linarith) h0
  have : (1 / 2 - epsMin) * t ≤ (1 / 2 - epsMin) * 1 := mul_le_mul_of_nonneg_left h1 (by linarith)
  refine ⟨⟨by linarith, by linarith⟩, ⟨by linarith, by linarith⟩⟩

end CelerVerif.Interact
