/-
Generator-level lemmas at ℝ for the optical model: what a successful run of each sampling
loop / generator returns, in terms of the script values it consumed.
-/
import CelerVerif.Lemmas.OpticalVec
import Mathlib.Analysis.SpecialFunctions.Log.Basic

namespace CelerVerif.Optical
open CelerVerif

/-- every script value is a canonical uniform (the code's engines return values in [0,1)) -/
def inUnit (s : List ℝ) : Prop := ∀ x ∈ s, 0 ≤ x ∧ x ≤ 1

theorem inUnit_sub {s t : List ℝ} (h : inUnit s) (hs : ∀ x ∈ t, x ∈ s) : inUnit t :=
  fun x hx => h x (hs x hx)

theorem uniform_eval_real (a b u : ℝ) : (Uniform.mk' a b).eval u = (b - a) * u + a := by
  simp only [Uniform.mk', Uniform.eval]; opt_simp

theorem uniform01_eval (u : ℝ) : (Uniform.mk' (Num.ofNat 0 : ℝ) (Num.ofNat 1)).eval u = u := by
  rw [uniform_eval_real]; simp

theorem unit01_real (u : ℝ) : unit01 u = u := by
  simp only [unit01]; rw [uniform_eval_real]; opt_simp; ring

theorem costOf_real (u : ℝ) : costOf u = 2 * u - 1 := by
  simp only [costOf]; rw [uniform_eval_real]; opt_simp; ring

theorem costOf_range (u : ℝ) (h0 : 0 ≤ u) (h1 : u ≤ 1) : -1 ≤ costOf u ∧ costOf u ≤ 1 := by
  rw [costOf_real]; constructor <;> linarith

/-! ### step position and time -/

theorem stepPos_real (d : Dist ℝ) (u : ℝ) :
    stepPos d u = ⟨d.prePos.x + u * (d.postPos.x - d.prePos.x),
                   d.prePos.y + u * (d.postPos.y - d.prePos.y),
                   d.prePos.z + u * (d.postPos.z - d.prePos.z)⟩ := by
  simp only [stepPos, Vec3.sub, Vec3.axpy]
  opt_simp
  apply vec3_ext <;> simp only [] <;> ring

/-- physical constants are positive -/
structure Consts.Pos (K : Consts ℝ) : Prop where
  cLight : 0 < K.cLight
  hc : 0 < K.hc
  mev : 0 < K.mev

theorem half_real : (OfScientific.ofScientific 5 true 1 : ℝ) = 1 / 2 := by norm_num

theorem stepTime_ge (K : Consts ℝ) (hK : K.Pos) (d : Dist ℝ) (u : ℝ)
    (hu0 : 0 ≤ u) (hu1 : u ≤ 1) (hv0 : 0 < d.preSpeed) (hv1 : 0 < d.postSpeed)
    (hL : 0 ≤ d.stepLength) : d.time ≤ stepTime K d u := by
  simp only [stepTime]
  opt_simp
  have hhalf : (@OfScientific.ofScientific ℝ Num.instOfScientific 5 true 1) = 1 / 2 := by
    show (OfScientific.ofScientific 5 true 1 : ℝ) = 1 / 2
    norm_num
  rw [hhalf]
  have hc := hK.cLight
  have hden : 0 < d.preSpeed * K.cLight + u * (1 / 2) * ((d.postSpeed - d.preSpeed) * K.cLight) := by
    have : d.preSpeed * K.cLight + u * (1 / 2) * ((d.postSpeed - d.preSpeed) * K.cLight)
        = K.cLight * (d.preSpeed * (1 - u / 2) + d.postSpeed * (u / 2)) := by ring
    rw [this]
    apply mul_pos hc
    have h1 : 0 < d.preSpeed * (1 - u / 2) := mul_pos hv0 (by linarith)
    have h2 : 0 ≤ d.postSpeed * (u / 2) := mul_nonneg (le_of_lt hv1) (by linarith)
    linarith
  have : 0 ≤ u * d.stepLength /
      (d.preSpeed * K.cLight + u * (1 / 2) * ((d.postSpeed - d.preSpeed) * K.cLight)) :=
    div_nonneg (mul_nonneg hu0 hL) (le_of_lt hden)
  linarith

/-- exponential sample at ℝ: −log(u)/λ ≥ 0 for u ∈ [0,1], λ > 0 -/
theorem expoAt_nonneg (lambda u : ℝ) (hl : 0 < lambda) (h0 : 0 ≤ u) (h1 : u ≤ 1) :
    0 ≤ expoAt lambda u := by
  simp only [expoAt]; opt_simp
  have hlog : Real.log u ≤ 0 := Real.log_nonpos h0 h1
  have : -1 / lambda ≤ 0 := by
    apply div_nonpos_of_nonpos_of_nonneg <;> linarith
  exact mul_nonneg_of_nonpos_of_nonpos hlog this

/-! ### scintillation direction / polarisation -/

theorem scintDirection_unit (cost phi : ℝ) (h1 : -1 ≤ cost) (h2 : cost ≤ 1) :
    vdot (scintDirection cost phi) (scintDirection cost phi) = 1 :=
  fromSpherical_unit cost phi h1 h2

/-- cosine handed to `from_spherical` for the in-plane polarisation vector -/
noncomputable def scintC' (cost : ℝ) : ℝ := (if 0 < cost then -1 else 1) * Real.sqrt (1 - cost * cost)

/-- the polarisation before normalisation -/
noncomputable def scintPolRaw (cost phi s c : ℝ) : Vec3 ℝ :=
  ⟨c * (fromSpherical (scintC' cost) phi).x + s * (-Real.sin phi),
   c * (fromSpherical (scintC' cost) phi).y + s * Real.cos phi,
   c * (fromSpherical (scintC' cost) phi).z + s * 0⟩

theorem scintPolarization_eq (cost phi s c : ℝ) :
    scintPolarization cost phi s c = makeUnitVector (scintPolRaw cost phi s c) := by
  simp only [scintPolarization, scintPolRaw, scintC']
  opt_simp

theorem scintC'_sq (cost : ℝ) (h1 : -1 ≤ cost) (h2 : cost ≤ 1) :
    scintC' cost * scintC' cost = 1 - cost * cost := by
  have hs := sqrt_one_sub_sq cost h1 h2
  unfold scintC'; split_ifs <;> nlinarith

theorem scintC'_range (cost : ℝ) (h1 : -1 ≤ cost) (h2 : cost ≤ 1) :
    -1 ≤ scintC' cost ∧ scintC' cost ≤ 1 := by
  have hsq := scintC'_sq cost h1 h2
  constructor <;> nlinarith [mul_self_nonneg cost, mul_self_nonneg (scintC' cost + 1),
    mul_self_nonneg (scintC' cost - 1)]

/-- direction · (un-normalised polarisation) = 0 -/
theorem scint_dir_vdot_raw (cost phi s c : ℝ) (h1 : -1 ≤ cost) (h2 : cost ≤ 1) :
    vdot (scintDirection cost phi) (scintPolRaw cost phi s c) = 0 := by
  have hT := fromSpherical_vdot cost (scintC' cost) phi
  have hsq := scintC'_sq cost h1 h2
  have hrt : Real.sqrt (1 - scintC' cost * scintC' cost) = |cost| := by
    rw [hsq, show 1 - (1 - cost * cost) = cost * cost by ring]
    exact Real.sqrt_mul_self_eq_abs cost
  rw [hrt] at hT
  have hzero : Real.sqrt (1 - cost * cost) * |cost| + cost * scintC' cost = 0 := by
    unfold scintC'
    split_ifs with hpos
    · rw [abs_of_pos hpos]; ring
    · rw [abs_of_nonpos (not_lt.mp hpos)]; ring
  simp only [scintDirection, scintPolRaw]
  have hd := fromSpherical_eq cost phi
  simp only [vdot] at hT ⊢
  rw [hd] at hT ⊢
  simp only [] at hT ⊢
  linear_combination c * hT + c * hzero

/-- |un-normalised polarisation|² = c² + s² -/
theorem scintPolRaw_norm (cost phi s c : ℝ) (h1 : -1 ≤ cost) (h2 : cost ≤ 1) :
    vdot (scintPolRaw cost phi s c) (scintPolRaw cost phi s c) = c * c + s * s := by
  obtain ⟨r1, r2⟩ := scintC'_range cost h1 h2
  have hu := fromSpherical_unit (scintC' cost) phi r1 r2
  have he := fromSpherical_eq (scintC' cost) phi
  have ht : Real.cos phi * Real.cos phi + Real.sin phi * Real.sin phi = 1 := by
    nlinarith [Real.cos_sq_add_sin_sq phi]
  simp only [scintPolRaw]
  simp only [vdot] at hu ⊢
  rw [he] at hu ⊢
  simp only [] at hu ⊢
  linear_combination (c * c) * hu + (s * s) * ht

theorem scintPolarization_unit (cost phi s c : ℝ) (h1 : -1 ≤ cost) (h2 : cost ≤ 1)
    (hsc : s ≠ 0 ∨ c ≠ 0) :
    vdot (scintPolarization cost phi s c) (scintPolarization cost phi s c) = 1 := by
  rw [scintPolarization_eq]
  apply makeUnit_unit
  rw [scintPolRaw_norm cost phi s c h1 h2]
  rcases hsc with h | h
  · have := mul_self_pos.mpr h; nlinarith [mul_self_nonneg c]
  · have := mul_self_pos.mpr h; nlinarith [mul_self_nonneg s]

theorem scint_dir_perp_pol_vec (cost phi s c : ℝ) (h1 : -1 ≤ cost) (h2 : cost ≤ 1) :
    vdot (scintDirection cost phi) (scintPolarization cost phi s c) = 0 := by
  rw [scintPolarization_eq, vdot_makeUnit_right, scint_dir_vdot_raw cost phi s c h1 h2, zero_mul]

/-! ### Cerenkov direction / polarisation -/

/-- pre-rotation vectors are perpendicular for cosθ ∈ [0,1] -/
theorem cer_frame_perp (c phi : ℝ) (h0 : 0 ≤ c) (h1 : c ≤ 1) :
    vdot (fromSpherical c phi) (fromSpherical (-(Real.sqrt (1 - c * c))) phi) = 0 := by
  rw [fromSpherical_vdot]
  have hs := sqrt_one_sub_sq c (by linarith) h1
  have : 1 - -Real.sqrt (1 - c * c) * -Real.sqrt (1 - c * c) = c * c := by
    rw [neg_mul_neg, hs]; ring
  rw [this, Real.sqrt_mul_self h0]; ring

theorem cer_polcos_range (c : ℝ) (h0 : 0 ≤ c) (h1 : c ≤ 1) :
    -1 ≤ -(Real.sqrt (1 - c * c)) ∧ -(Real.sqrt (1 - c * c)) ≤ 1 := by
  have hs := sqrt_one_sub_sq c (by linarith) h1
  have hn := Real.sqrt_nonneg (1 - c * c)
  constructor <;> nlinarith [mul_self_nonneg c]

/-! ### loops: what a successful run returns -/

theorem energyInner_spec (g : CerGen ℝ) :
    ∀ (s : List ℝ) (p : ℝ × ℝ) (rest : List ℝ), g.energyInner s = some (p, rest) →
      (∃ u ∈ s, p = g.propose u) ∧ ¬ (1 < p.2) ∧ (∀ x ∈ rest, x ∈ s) := by
  intro s
  induction s with
  | nil => intro p rest h; simp [CerGen.energyInner] at h
  | cons u t ih =>
    intro p rest h
    simp only [CerGen.energyInner] at h
    split_ifs at h with hrej
    · obtain ⟨⟨u', hu', hp⟩, hacc, hsub⟩ := ih p rest h
      exact ⟨⟨u', List.mem_cons_of_mem _ hu', hp⟩, hacc, fun x hx => List.mem_cons_of_mem _ (hsub x hx)⟩
    · simp only [Option.some.injEq, Prod.mk.injEq] at h
      obtain ⟨hp, hr⟩ := h
      subst hp; subst hr
      refine ⟨⟨u, List.mem_cons_self, rfl⟩, ?_, fun x hx => List.mem_cons_of_mem _ hx⟩
      opt_simp at hrej
      exact hrej

/-- **first acceptance**: the inner energy loop returns the proposal of the first script
    value whose cos θ is not above 1 -/
theorem energyInner_first_accept (g : CerGen ℝ) (pre : List ℝ) (u : ℝ) (rest : List ℝ)
    (hpre : ∀ x ∈ pre, 1 < (g.propose x).2) (hu : ¬ 1 < (g.propose u).2) :
    g.energyInner (pre ++ u :: rest) = some (g.propose u, rest) := by
  induction pre with
  | nil =>
    simp only [List.nil_append, CerGen.energyInner]
    rw [if_neg]; opt_simp; exact hu
  | cons a t ih =>
    simp only [List.cons_append, CerGen.energyInner]
    rw [if_pos]
    · exact ih (fun x hx => hpre x (List.mem_cons_of_mem _ hx))
    · opt_simp; exact hpre a List.mem_cons_self

theorem energyOuter_spec (g : CerGen ℝ) :
    ∀ (fuel : Nat) (s : List ℝ) (e c sin2 : ℝ) (rest : List ℝ),
      g.energyOuter fuel s = some ((e, c, sin2), rest) →
      (∃ u ∈ s, (e, c) = g.propose u) ∧ ¬ (1 < c) ∧ sin2 = 1 - c * c ∧ (∀ x ∈ rest, x ∈ s) := by
  intro fuel
  induction fuel with
  | zero => intro s e c sin2 rest h; simp [CerGen.energyOuter] at h
  | succ n ih =>
    intro s e c sin2 rest h
    simp only [CerGen.energyOuter] at h
    split at h
    · simp at h
    · next e' c' s1 hin =>
      obtain ⟨⟨u, hu, hp⟩, hacc, hsub⟩ := energyInner_spec g s (e', c') s1 hin
      split at h
      · simp at h
      · next u2 s2 =>
        split_ifs at h with hrej
        · obtain ⟨⟨u', hu', hp'⟩, hacc', hs2, hsub'⟩ := ih s2 e c sin2 rest h
          exact ⟨⟨u', hsub u' (List.mem_cons_of_mem _ hu'), hp'⟩, hacc', hs2,
            fun x hx => hsub x (List.mem_cons_of_mem _ (hsub' x hx))⟩
        · simp only [Option.some.injEq, Prod.mk.injEq] at h
          obtain ⟨⟨he, hc, hs⟩, hr⟩ := h
          subst he; subst hc; subst hr
          refine ⟨⟨u, hu, hp⟩, hacc, ?_, fun x hx => hsub x (List.mem_cons_of_mem _ hx)⟩
          rw [← hs]; opt_simp

theorem stepFraction_spec (g : CerGen ℝ) :
    ∀ (n : Nat) (s : List ℝ), s.length ≤ n → ∀ (u : ℝ) (rest : List ℝ),
      g.stepFraction s = some (u, rest) → u ∈ s ∧ (∀ x ∈ rest, x ∈ s) := by
  intro n
  induction n with
  | zero =>
    intro s hs u rest h
    have : s = [] := List.length_eq_zero_iff.mp (Nat.le_zero.mp hs)
    subst this; simp [CerGen.stepFraction] at h
  | succ n ih =>
    intro s hs u rest h
    match s, hs, h with
    | [], _, h => simp [CerGen.stepFraction] at h
    | [_], _, h => simp [CerGen.stepFraction] at h
    | u0 :: u1 :: t, hs, h =>
      simp only [CerGen.stepFraction] at h
      split_ifs at h with hrej
      · have hl : t.length ≤ n := by simp at hs; omega
        obtain ⟨hu, hsub⟩ := ih t hl u rest h
        exact ⟨List.mem_cons_of_mem _ (List.mem_cons_of_mem _ hu),
          fun x hx => List.mem_cons_of_mem _ (List.mem_cons_of_mem _ (hsub x hx))⟩
      · simp only [Option.some.injEq, Prod.mk.injEq] at h
        obtain ⟨hu, hr⟩ := h
        subst hr
        rw [← hu]
        refine ⟨?_, fun x hx => List.mem_cons_of_mem _ (List.mem_cons_of_mem _ hx)⟩
        have : unit01 u0 = u0 := unit01_real u0
        rw [this]; exact List.mem_cons_self

/-- shape of a generated Cerenkov photon -/
theorem cer_photon_spec (K : Consts ℝ) (g : CerGen ℝ) (s : List ℝ) (p : Photon ℝ) (rest : List ℝ)
    (h : g.photon K s = some (p, rest)) :
    ∃ ue ∈ s, ∃ uphi ∈ s, ∃ u ∈ s,
      ¬ (1 < (g.propose ue).2) ∧
      p = ⟨(g.propose ue).1, stepPos g.dist u,
           g.direction (g.propose ue).2 (g.samplePhi.eval uphi),
           g.polarization (1 - (g.propose ue).2 * (g.propose ue).2) (g.samplePhi.eval uphi),
           stepTime K g.dist u⟩ := by
  simp only [CerGen.photon] at h
  split at h
  · simp at h
  · next e c sin2 s1 hout =>
    obtain ⟨⟨ue, hue, hp⟩, hacc, hs2, hsub1⟩ := energyOuter_spec g _ s e c sin2 s1 hout
    split at h
    · simp at h
    · next uphi s2 =>
      split at h
      · simp at h
      · next u s3 hsf =>
        obtain ⟨hu, _⟩ := stepFraction_spec g s2.length s2 (le_refl _) u s3 hsf
        simp only [Option.some.injEq, Prod.mk.injEq] at h
        obtain ⟨hph, _⟩ := h
        have he : e = (g.propose ue).1 := by rw [← hp]
        have hc : c = (g.propose ue).2 := by rw [← hp]
        refine ⟨ue, hue, uphi, hsub1 uphi List.mem_cons_self, u,
          hsub1 u (List.mem_cons_of_mem _ hu), ?_, ?_⟩
        · rw [← hc]; exact hacc
        · rw [← hph, hs2, he, hc]


/-! ### scintillation generator -/

theorem scintStepU_spec (d : Dist ℝ) (s : List ℝ) (u : ℝ) (rest : List ℝ)
    (h : scintStepU d s = some (u, rest)) :
    (u = 1 ∨ u ∈ s) ∧ (∀ x ∈ rest, x ∈ s) := by
  simp only [scintStepU] at h
  split_ifs at h with hn
  · simp only [Option.some.injEq, Prod.mk.injEq] at h
    obtain ⟨hu, hr⟩ := h
    subst hr
    refine ⟨Or.inl ?_, fun x hx => hx⟩
    rw [← hu]; opt_simp
  · split at h
    · simp at h
    · next u0 r =>
      simp only [Option.some.injEq, Prod.mk.injEq] at h
      obtain ⟨hu, hr⟩ := h
      subst hr
      rw [unit01_real] at hu
      exact ⟨Or.inr (by rw [← hu]; exact List.mem_cons_self), fun x hx => List.mem_cons_of_mem _ hx⟩

theorem riseLoop_spec (expm1 : ℝ → ℝ) (fall rise : ℝ) :
    ∀ (n : Nat) (s : List ℝ), s.length ≤ n → ∀ (t : ℝ) (rest : List ℝ),
      riseLoop expm1 fall rise s = some (t, rest) →
      (∃ u ∈ s, t = expoAt (1 / fall) u) ∧ (∀ x ∈ rest, x ∈ s) := by
  intro n
  induction n with
  | zero =>
    intro s hs t rest h
    have : s = [] := List.length_eq_zero_iff.mp (Nat.le_zero.mp hs)
    subst this; simp [riseLoop] at h
  | succ n ih =>
    intro s hs t rest h
    match s, hs, h with
    | [], _, h => simp [riseLoop] at h
    | [_], _, h => simp [riseLoop] at h
    | u1 :: u2 :: r, hs, h =>
      simp only [riseLoop] at h
      split_ifs at h with hrej
      · have hl : r.length ≤ n := by simp at hs; omega
        obtain ⟨⟨u, hu, ht⟩, hsub⟩ := ih r hl t rest h
        exact ⟨⟨u, List.mem_cons_of_mem _ (List.mem_cons_of_mem _ hu), ht⟩,
          fun x hx => List.mem_cons_of_mem _ (List.mem_cons_of_mem _ (hsub x hx))⟩
      · simp only [Option.some.injEq, Prod.mk.injEq] at h
        obtain ⟨ht, hr⟩ := h
        subst hr
        refine ⟨⟨u1, List.mem_cons_self, ?_⟩,
          fun x hx => List.mem_cons_of_mem _ (List.mem_cons_of_mem _ hx)⟩
        rw [← ht]; opt_simp

theorem scintDelay_spec (expm1 : ℝ → ℝ) (comp : ScintComp ℝ) (s : List ℝ) (t : ℝ) (rest : List ℝ)
    (h : scintDelay expm1 comp s = some (t, rest)) :
    (∃ u ∈ s, t = expoAt (1 / comp.fallTime) u) ∧ (∀ x ∈ rest, x ∈ s) := by
  simp only [scintDelay] at h
  split_ifs at h with hz
  · split at h
    · simp at h
    · next uT r =>
      simp only [Option.some.injEq, Prod.mk.injEq] at h
      obtain ⟨ht, hr⟩ := h
      subst hr
      refine ⟨⟨uT, List.mem_cons_self, ?_⟩, fun x hx => List.mem_cons_of_mem _ hx⟩
      rw [← ht]; opt_simp
  · exact riseLoop_spec expm1 comp.fallTime comp.riseTime s.length s (le_refl _) t rest h

theorem normalSample_sub (K : Consts ℝ) (mean sd : ℝ) (spare : Option ℝ) (s : List ℝ)
    (r : ℝ × Option ℝ) (rest : List ℝ) (h : normalSample K mean sd spare s = some (r, rest)) :
    ∀ x ∈ rest, x ∈ s := by
  simp only [normalSample] at h
  split at h
  · simp only [Option.some.injEq, Prod.mk.injEq] at h
    obtain ⟨_, hr⟩ := h; subst hr; exact fun x hx => hx
  · split at h
    · simp only [Option.some.injEq, Prod.mk.injEq] at h
      obtain ⟨_, hr⟩ := h; subst hr
      exact fun x hx => List.mem_cons_of_mem _ (List.mem_cons_of_mem _ hx)
    · simp at h

/-- shape of a generated scintillation photon -/
theorem scint_photon_spec (K : Consts ℝ) (sincospi : ℝ → ℝ × ℝ) (expm1 : ℝ → ℝ) (d : Dist ℝ)
    (m : ScintInput ℝ) (spare : Option ℝ) (s : List ℝ) (p : Photon ℝ) (sp' : Option ℝ)
    (rest : List ℝ) (h : scintPhoton K sincospi expm1 d m spare s = some ((p, sp'), rest)) :
    ∃ comp ∈ m.components, ∃ lam : ℝ, ∃ s1 s2 : List ℝ,
      normalSample K comp.lambdaMean comp.lambdaSigma spare s1 = some ((lam, sp'), s2) ∧
      (∀ x ∈ s1, x ∈ s) ∧
      ∃ uC ∈ s, ∃ uP ∈ s, ∃ uPol ∈ s, ∃ u, (u = 1 ∨ u ∈ s) ∧ ∃ uT ∈ s,
        p = ⟨wavelengthToEnergy K lam, stepPos d u,
             scintDirection (costOf uC) (phiOf K uP),
             scintPolarization (costOf uC) (phiOf K uP) (sincospi uPol).1 (sincospi uPol).2,
             stepTime K d u + expoAt (1 / comp.fallTime) uT⟩ := by
  simp only [scintPhoton] at h
  split at h
  · simp at h
  · next uSel s1 =>
    split at h
    · simp at h
    · next comp hcomp =>
      split at h
      · simp at h
      · next lam spare' s2 hnorm =>
        have hsub2 := normalSample_sub K _ _ spare s1 _ s2 hnorm
        split at h
        · next uC uP uPol s3 =>
          split at h
          · simp at h
          · next u s4 hstep =>
            obtain ⟨hu, hsub4⟩ := scintStepU_spec d s3 u s4 hstep
            split at h
            · simp at h
            · next delay s5 hdel =>
              obtain ⟨⟨uT, huT, hdelay⟩, _⟩ := scintDelay_spec expm1 comp s4 delay s5 hdel
              simp only [Option.some.injEq, Prod.mk.injEq] at h
              obtain ⟨⟨hp, hsp⟩, _⟩ := h
              subst hsp
              have m1 : ∀ x ∈ s1, x ∈ uSel :: s1 := fun x hx => List.mem_cons_of_mem _ hx
              have m2 : ∀ x ∈ uC :: uP :: uPol :: s3, x ∈ uSel :: s1 := fun x hx => m1 x (hsub2 x hx)
              have m3 : ∀ x ∈ s3, x ∈ uSel :: s1 := fun x hx =>
                m2 x (List.mem_cons_of_mem _ (List.mem_cons_of_mem _ (List.mem_cons_of_mem _ hx)))
              refine ⟨comp, List.mem_of_getElem? hcomp, lam, s1, _, hnorm, m1,
                uC, m2 uC List.mem_cons_self,
                uP, m2 uP (List.mem_cons_of_mem _ List.mem_cons_self),
                uPol, m2 uPol (List.mem_cons_of_mem _ (List.mem_cons_of_mem _ List.mem_cons_self)),
                u, ?_, uT, m3 uT (hsub4 uT huT), ?_⟩
              · rcases hu with hu | hu
                · exact Or.inl hu
                · exact Or.inr (m3 u hu)
              · rw [← hp, hdelay, unit01_real]
        · simp at h

/-! ### grids and the Cerenkov threshold -/

theorem clampNonneg_zero : clampNonneg (0 : ℝ) = 0 := by
  simp only [clampNonneg]; opt_simp; simp

/-- well-formed refractive-index grid as far as the threshold logic reads it: same number of
    x and y entries, first x below last x, first y below last y (both implied by the strict
    monotonicity that optical `MaterialParams` validates, for ≥ 2 entries) -/
structure Grid.EndsOrdered (g : Grid ℝ) : Prop where
  sizes : g.ys.size = g.xs.size
  xfl : g.front < g.back
  yfl : g.y 0 < g.y (g.size - 1)

theorem Grid.eval_back (g : Grid ℝ) (h : g.front < g.back) : g.eval g.back = g.y (g.size - 1) := by
  simp only [Grid.eval]; opt_simp
  rw [if_neg (not_le.mpr h), if_pos (le_refl _)]

/-- **threshold**: dN/dx vanishes when 1/β is at or above the refractive index at the top of a
    (monotone) grid, i.e. when 1/(nβ) ≥ 1 for every tabulated n -/
theorem dndx_zero_below (K : Consts ℝ) (m : CerMat ℝ) (z beta : ℝ) (hg : m.ri.EndsOrdered)
    (hb : m.ri.y (m.ri.size - 1) ≤ 1 / beta) : dndx K m z beta = 0 := by
  have hback := Grid.eval_back m.ri hg.xfl
  simp only [dndx]
  opt_simp
  rw [hback]
  by_cases hgt : m.ri.y (m.ri.size - 1) < 1 / beta
  · rw [if_pos hgt]
  · rw [if_neg hgt]
    have heq : 1 / beta = m.ri.y (m.ri.size - 1) := le_antisymm (not_lt.mp hgt) hb
    have hn0 : ¬ (1 / beta < m.ri.y 0) := by rw [heq]; exact not_lt.mpr (le_of_lt hg.yfl)
    rw [if_neg hn0]
    -- the inverse calculator at 1/β = last n returns the last energy
    have hinv : m.ri.inverse.eval (1 / beta) = m.ri.back := by
      simp only [Grid.eval, Grid.inverse, Grid.front, Grid.back, Grid.x, Grid.y, Grid.size]
      opt_simp
      have hy0 : m.ri.ys.getD 0 0 = m.ri.y 0 := by
        simp only [Grid.y]; opt_simp
      have hyl : m.ri.ys.getD (m.ri.ys.size - 1) 0 = m.ri.y (m.ri.size - 1) := by
        simp only [Grid.y, Grid.size, hg.sizes]; opt_simp
      rw [hy0, hyl, heq, if_neg (not_le.mpr hg.yfl), if_pos (le_refl _), hg.sizes]
    rw [hinv]
    have : m.ri.back - m.ri.back
        - (m.integral.eval m.ri.back - m.integral.eval m.ri.back) * (1 / beta * (1 / beta)) = 0 := by
      ring
    rw [this, zero_mul, mul_zero]
    exact clampNonneg_zero

end CelerVerif.Optical
