/-
Field propagation at ℝ: real-arithmetic reading of the model pieces (fmin/fmax, chord,
is_intercept_close, update_length, branch conditions).
-/
import CelerVerif.Num.Real
import CelerVerif.Model.FieldProp
import CelerVerif.Lemmas.SurfSolver
import Mathlib.Tactic.Ring
import Mathlib.Tactic.Linarith
import Mathlib.Tactic.FieldSimp
import Mathlib.Tactic.Positivity
import Mathlib.Tactic.NormNum

set_option linter.unusedSimpArgs false

namespace CelerVerif.FieldProp
open CelerVerif

theorem fmin_real (a b : ℝ) : fmin a b = min a b := by
  unfold fmin
  simp only [Num.ne, NumR.eq_real, not_true_eq_false, decide_true, Bool.not_true,
    Bool.false_eq_true, if_false]
  by_cases h : b < a
  · simp [h, min_eq_right (le_of_lt h)]
  · simp [h, min_eq_left (not_lt.mp h)]

theorem fmax_real (a b : ℝ) : fmax a b = max a b := by
  unfold fmax
  simp only [Num.ne, NumR.eq_real, not_true_eq_false, decide_true, Bool.not_true,
    Bool.false_eq_true, if_false]
  by_cases h : a < b
  · simp [h, max_eq_right (le_of_lt h)]
  · simp [h, max_eq_left (not_lt.mp h)]

theorem lit01 : ((0.1 : ℝ)) = 1 / 10 := by norm_num

/-- the model literal `0.1` read at ℝ -/
theorem bump_real (c : Cfg ℝ) : c.bump = c.deltaInt * (1 / 10) := by
  unfold Cfg.bump
  show c.deltaInt * (OfScientific.ofScientific 1 true 1 : ℝ) = _
  norm_num

/-- squared length of the chord vector -/
def dsq (src dst : Vec3 ℝ) : ℝ :=
  (dst.x - src.x) * (dst.x - src.x) + (dst.y - src.y) * (dst.y - src.y)
    + (dst.z - src.z) * (dst.z - src.z)

theorem dsq_nonneg (src dst : Vec3 ℝ) : 0 ≤ dsq src dst := by
  unfold dsq
  exact add_nonneg (add_nonneg (mul_self_nonneg _) (mul_self_nonneg _)) (mul_self_nonneg _)

theorem chord_length (src dst : Vec3 ℝ) : (makeChord src dst).length = Real.sqrt (dsq src dst) := by
  simp only [makeChord, Vec3.norm, Vec3R.dot_real, Vec3.sub, NumR.sqrt_real, NumR.hsub_real, dsq]

theorem chord_length_nonneg (src dst : Vec3 ℝ) : 0 ≤ (makeChord src dst).length := by
  rw [chord_length]; exact Real.sqrt_nonneg _

theorem chord_length_sq (src dst : Vec3 ℝ) :
    (makeChord src dst).length * (makeChord src dst).length = dsq src dst := by
  rw [chord_length]; exact Real.mul_self_sqrt (dsq_nonneg _ _)

theorem chord_dir (src dst : Vec3 ℝ) :
    (makeChord src dst).dir = ⟨(dst.x - src.x) / (makeChord src dst).length,
      (dst.y - src.y) / (makeChord src dst).length, (dst.z - src.z) / (makeChord src dst).length⟩ := by
  simp only [makeChord, Vec3.sub, NumR.hsub_real, NumR.hdiv_real]

/-- `is_intercept_close` from the chord start along the chord direction towards the chord end:
    the intercept at distance `d` is within `tol` of the end point iff `|d − length| ≤ |tol|` -/
theorem interceptClose_iff (src dst : Vec3 ℝ) (d tol : ℝ) (hl : (makeChord src dst).length ≠ 0) :
    isInterceptClose src (makeChord src dst).dir d dst tol = true
      ↔ (d - (makeChord src dst).length) * (d - (makeChord src dst).length) ≤ tol * tol := by
  have hsq := chord_length_sq src dst
  set L := (makeChord src dst).length with hL
  rw [chord_dir]
  unfold isInterceptClose
  num_simp
  have key : 0 + (src.x - dst.x + d * ((dst.x - src.x) / L)) * (src.x - dst.x + d * ((dst.x - src.x) / L))
      + (src.y - dst.y + d * ((dst.y - src.y) / L)) * (src.y - dst.y + d * ((dst.y - src.y) / L))
      + (src.z - dst.z + d * ((dst.z - src.z) / L)) * (src.z - dst.z + d * ((dst.z - src.z) / L))
      = (d - L) * (d - L) := by
    have e : ∀ u : ℝ, -u + d * (u / L) = u * ((d - L) / L) := by
      intro u; field_simp; ring
    have ex : src.x - dst.x + d * ((dst.x - src.x) / L) = (dst.x - src.x) * ((d - L) / L) := by
      rw [← e]; ring
    have ey : src.y - dst.y + d * ((dst.y - src.y) / L) = (dst.y - src.y) * ((d - L) / L) := by
      rw [← e]; ring
    have ez : src.z - dst.z + d * ((dst.z - src.z) / L) = (dst.z - src.z) * ((d - L) / L) := by
      rw [← e]; ring
    rw [ex, ey, ez]
    have : 0 + (dst.x - src.x) * ((d - L) / L) * ((dst.x - src.x) * ((d - L) / L))
        + (dst.y - src.y) * ((d - L) / L) * ((dst.y - src.y) * ((d - L) / L))
        + (dst.z - src.z) * ((d - L) / L) * ((dst.z - src.z) * ((d - L) / L))
        = dsq src dst * (((d - L) / L) * ((d - L) / L)) := by unfold dsq; ring
    rw [this, ← hsq]; field_simp
  rw [key]

theorem sq_le_sq_iff_abs (x t : ℝ) (ht : 0 ≤ t) : x * x ≤ t * t ↔ |x| ≤ t := by
  constructor
  · intro h
    by_contra hc
    have hc' : t < |x| := not_le.mp hc
    have : t * t < |x| * |x| := mul_self_lt_mul_self ht hc'
    rw [abs_mul_abs_self] at this
    linarith
  · intro h
    have h0 : 0 ≤ |x| := abs_nonneg x
    have := mul_self_le_mul_self h0 h
    rwa [abs_mul_abs_self] at this

/-- `update_length` at ℝ -/
theorem updateLength_real (s : PState ℝ) (a : Answer ℝ) :
    updateLength s a = a.sub.step * a.lin.distance / (makeChord s.state.pos a.sub.state.pos).length := by
  simp only [updateLength, NumR.hmul_real, NumR.hdiv_real]

end CelerVerif.FieldProp
