/-
`calc_intersections` of every quadric class: soundness (returned distances are positive and
land on the surface) and completeness (no positive crossing is omitted), at ℝ.
-/
import CelerVerif.Lemmas.SurfRay
import Mathlib.Tactic.NormNum

namespace CelerVerif.Surf
open CelerVerif

theorem sqrtQuadratic_real : (sqrtQuadratic : ℝ) = 1e-5 := rfl
theorem minA_real : (minA : ℝ) = 1e-10 := by
  unfold minA; rw [NumR.sq_real, sqrtQuadratic_real]; norm_num
theorem minA_pos : (0 : ℝ) < minA := by rw [minA_real]; norm_num
theorem sqTol_real : Num.sq (sqrtQuadratic : ℝ) = 1e-10 := minA_real

theorem solver_sound_scaled (a hb c t : ℝ) (ha : a ≠ 0)
    (h : Isect2.mem t ((QSolver.mk' a hb).solve c)) :
    0 < t ∧ a * t * t + 2 * hb * t + c = 0 := by
  obtain ⟨h1, h2⟩ := solve_sound _ _ _ h
  rw [mk'_scaled a hb c t ha] at h2
  exact ⟨h1, by rwa [div_eq_zero_iff, or_iff_left ha] at h2⟩

theorem solver_complete_scaled (a hb c t : ℝ) (ha : a ≠ 0) (ht : 0 < t)
    (hr : a * t * t + 2 * hb * t + c = 0) : Isect2.mem t ((QSolver.mk' a hb).solve c) := by
  apply solve_complete _ _ _ ht
  rw [mk'_scaled a hb c t ha, hr, zero_div]

theorem solverOn_sound_scaled (a hb t : ℝ) (ha : a ≠ 0)
    (h : Isect2.mem t (QSolver.mk' a hb).solveOn) : 0 < t ∧ a * t * t + 2 * hb * t = 0 := by
  obtain ⟨h1, h2⟩ := solveOn_sound _ _ h
  have := mk'_scaled a hb 0 t ha
  simp only [zero_mul, add_zero] at this
  rw [this] at h2
  exact ⟨h1, by rwa [div_eq_zero_iff, or_iff_left ha] at h2⟩

/-- `solve_general`, off surface: with |a| ≥ min_a the results are exactly the positive roots;
    with a = 0 exactly the result is the root of the linear equation (≥ 0, and > 0 if c ≠ 0) -/
theorem solveGeneral_sound (a hb c t : ℝ) (hA : minA ≤ |a| ∨ a = 0)
    (h : Isect2.mem t (solveGeneral a hb c false)) :
    0 ≤ t ∧ (c ≠ 0 → 0 < t) ∧ a * t * t + 2 * hb * t + c = 0 := by
  unfold solveGeneral at h
  simp only [Bool.false_eq_true, if_false, Bool.not_false, if_true] at h
  num_simp at h
  split_ifs at h with h1
  · have ha : a ≠ 0 := by
      intro h0; rw [h0, abs_zero] at h1; linarith [minA_pos]
    obtain ⟨p, r⟩ := solver_sound_scaled a hb c t ha h
    exact ⟨le_of_lt p, fun _ => p, r⟩
  · have ha : a = 0 := by
      rcases hA with h' | h'
      · exact absurd h' h1
      · exact h'
    subst ha
    unfold Isect2.mem solveAlongSurface at h
    num_simp at h
    split_ifs at h with h3 h4
    · simp at h
    · simp only [Option.some.injEq, reduceCtorEq, or_false] at h
      have hb0 : hb ≠ 0 := by
        intro h0; rw [h0, abs_zero] at h3; linarith [minA_pos]
      have h20 : 2 * hb ≠ 0 := mul_ne_zero two_ne_zero hb0
      have ht : t = -c / (2 * hb) := h.symm
      have hroot : 2 * hb * t + c = 0 := by rw [ht]; field_simp; ring
      refine ⟨by rw [ht]; exact not_lt.mp h4, ?_, by linarith⟩
      intro hc
      rcases lt_or_eq_of_le (show 0 ≤ t by rw [ht]; exact not_lt.mp h4) with hlt | heq
      · exact hlt
      · exfalso; rw [← heq] at hroot; simp at hroot; exact hc hroot
    · simp at h

theorem solveGeneral_complete (a hb c t : ℝ) (hA : minA ≤ |a|) (ht : 0 < t)
    (hr : a * t * t + 2 * hb * t + c = 0) : Isect2.mem t (solveGeneral a hb c false) := by
  unfold solveGeneral
  simp only [Bool.false_eq_true, if_false, Bool.not_false, if_true]
  num_simp
  have ha : a ≠ 0 := by intro h0; rw [h0, abs_zero] at hA; linarith [minA_pos]
  simp only [hA, if_true]
  exact solver_complete_scaled a hb c t ha ht hr

theorem planeIsect_sound (nd : ℝ) (num : Unit → ℝ) (t : ℝ)
    (h : Isect2.mem t (planeIsect nd false num)) : 0 < t ∧ nd * t - num () = 0 := by
  unfold Isect2.mem planeIsect at h
  num_simp at h
  split_ifs at h with h1 h2
  · simp only [Option.some.injEq, reduceCtorEq, or_false] at h
    have hnd : nd ≠ 0 := by simpa using h1
    subst h
    exact ⟨h2, by field_simp; ring⟩
  · simp at h
  · simp at h

theorem planeIsect_complete (nd : ℝ) (num : Unit → ℝ) (t : ℝ) (hnd : nd ≠ 0) (ht : 0 < t)
    (hr : nd * t - num () = 0) : Isect2.mem t (planeIsect nd false num) := by
  unfold Isect2.mem planeIsect
  num_simp
  have : num () / nd = t := by field_simp; linarith
  simp [hnd, this, ht]

end CelerVerif.Surf
