/- Interleaving semantics of StackAllocator::operator(): per-thread attributes, the schedule
   invariant and generic list facts (C16). -/
import CelerVerif.Model.Stack

namespace CelerVerif.Stack

/-! ### generic list facts -/

theorem sum_map_set {α} (f : α → Nat) (l : List α) (i : Nat) (h : i < l.length) (x : α) :
    ((l.set i x).map f).sum + f l[i] = (l.map f).sum + f x := by
  induction l generalizing i with
  | nil => simp at h
  | cons a l ih =>
    cases i with
    | zero => simp; omega
    | succ k =>
      simp at h
      have := ih k h
      simp only [List.set_cons_succ, List.map_cons, List.sum_cons, List.getElem_cons_succ]
      omega

theorem sum_map_le {α} (f g : α → Nat) (l : List α) (h : ∀ x ∈ l, f x ≤ g x) :
    (l.map f).sum ≤ (l.map g).sum := by
  induction l with
  | nil => simp
  | cons a l ih =>
    have h1 := h a (by simp)
    have h2 := ih (fun x hx => h x (by simp [hx]))
    simp only [List.map_cons, List.sum_cons]; omega

theorem sum_map_zero {α} (f : α → Nat) (l : List α) (h : (l.map f).sum = 0) :
    ∀ x ∈ l, f x = 0 := by
  induction l with
  | nil => simp
  | cons a l ih =>
    simp only [List.map_cons, List.sum_cons] at h
    intro x hx
    simp only [List.mem_cons] at hx
    rcases hx with rfl | hx
    · omega
    · exact ih (by omega) x hx

theorem le_sum_map_of_mem {α} (f : α → Nat) (l : List α) {x : α} (h : x ∈ l) :
    f x ≤ (l.map f).sum := by
  induction l with
  | nil => simp at h
  | cons a l ih =>
    simp only [List.mem_cons] at h
    simp only [List.map_cons, List.sum_cons]
    rcases h with rfl | h
    · omega
    · have := ih h; omega

/-! ### per-thread attributes -/

/-- contribution to the number of elements fetch-added so far -/
def fOf (t : Thread) : Nat :=
  match t.pc with
  | .init => 0
  | _ => t.n

/-- the thread holds (or will certainly be granted) its range -/
def committedB (cap : Nat) (t : Thread) : Bool :=
  match t.pc with
  | .ok _ => true
  | .fetched a => decide (a + t.n ≤ cap)
  | _ => false

/-- the thread is the one that crossed the capacity and will restore the size -/
def overB (cap : Nat) (t : Thread) : Bool :=
  match t.pc with
  | .restoring _ => true
  | .fetched a => decide (a ≤ cap ∧ cap < a + t.n)
  | _ => false

def startOf (t : Thread) : Nat :=
  match t.pc with
  | .fetched a => a
  | .restoring a => a
  | .ok a => a
  | _ => 0

def gOf (cap : Nat) (t : Thread) : Nat := if committedB cap t then t.n else 0
def oOf (cap : Nat) (t : Thread) : Nat := if overB cap t then 1 else 0

def sumF (l : List Thread) : Nat := (l.map fOf).sum
def sumG (cap : Nat) (l : List Thread) : Nat := (l.map (gOf cap)).sum
def sumO (cap : Nat) (l : List Thread) : Nat := (l.map (oOf cap)).sum
def total (l : List Thread) : Nat := (l.map (·.n)).sum

theorem gOf_le_fOf (cap : Nat) (t : Thread) : gOf cap t ≤ fOf t := by
  unfold gOf fOf committedB
  cases h : t.pc <;> simp
  split <;> omega

theorem fOf_le_n (t : Thread) : fOf t ≤ t.n := by
  unfold fOf; cases t.pc <;> simp

theorem sumG_le_sumF (cap : Nat) (l : List Thread) : sumG cap l ≤ sumF l :=
  sum_map_le _ _ l (fun x _ => gOf_le_fOf cap x)

theorem sumF_le_total (l : List Thread) : sumF l ≤ total l :=
  sum_map_le _ _ l (fun x _ => fOf_le_n x)

/-- the invariant maintained along every schedule -/
structure IInv (base cap tot : Nat) (s : Sys) : Prop where
  cap_eq : s.cap = cap
  tot_eq : total s.threads = tot
  size_le : s.size ≤ base + sumF s.threads
  fetched_le : ∀ t ∈ s.threads, ∀ a, t.pc = .fetched a → a + t.n ≤ base + sumF s.threads
  range : ∀ t ∈ s.threads, committedB cap t = true →
    base ≤ startOf t ∧ startOf t + t.n ≤ base + sumG cap s.threads
  disj : ∀ (i j : Nat) (ti tj : Thread), i ≠ j → s.threads[i]? = some ti → s.threads[j]? = some tj →
    committedB cap ti = true → committedB cap tj = true →
    startOf ti + ti.n ≤ startOf tj ∨ startOf tj + tj.n ≤ startOf ti
  l_le : base + sumG cap s.threads ≤ cap
  over_start : ∀ t ∈ s.threads, overB cap t = true → startOf t = base + sumG cap s.threads
  mode : (s.size = base + sumG cap s.threads ∧ sumO cap s.threads = 0) ∨
         (cap < s.size ∧ sumO cap s.threads = 1)

theorem getElem?_set_cases {α} (l : List α) (i j : Nat) (x y : α) (hi : i < l.length)
    (h : (l.set i x)[j]? = some y) : (j = i ∧ y = x) ∨ (j ≠ i ∧ l[j]? = some y) := by
  rw [List.getElem?_set] at h
  by_cases hij : i = j
  · subst hij
    simp [hi] at h
    exact Or.inl ⟨rfl, h.symm⟩
  · simp [hij] at h
    exact Or.inr ⟨fun h' => hij h'.symm, h⟩

end CelerVerif.Stack
