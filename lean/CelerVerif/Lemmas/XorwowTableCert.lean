/-
Kernel-checked certificates over the *regenerated* jump tables
(`Generated/Xorwow.lean`, rewritten from XorwowRngParams.cc on every run).
-/
import CelerVerif.Lemmas.XorwowCert
import CelerVerif.Model.Xorwow

namespace CelerVerif.Xorwow
open CelerVerif.Generated.Xorwow

/-- packed polynomial of row i of a table -/
def J (tab : List (List Nat)) (i : Nat) : Nat := (tabGet tab i).pack

/-- the regenerated packed constants agree with the regenerated words -/
theorem packed_ok :
    (List.range 32).all (fun i => J jumpWords i == jumpPacked.getD i 0
        && J jumpSubWords i == jumpSubPacked.getD i 0) = true := by
  decide +kernel

/-- table recurrences: each row is the 4th power of the previous one modulo P -/
def tableStepsOK (tab : List Nat) : Bool :=
  (List.range 31).all fun i => sqN 2 (tab.getD i 0) == some (tab.getD (i + 1) 0)

theorem jump_steps : tableStepsOK jumpPacked = true := by decide +kernel
theorem jumpSub_steps : tableStepsOK jumpSubPacked = true := by decide +kernel
theorem jump_base : jumpPacked.getD 0 0 = 2 := by decide +kernel
/-- 2^67 = 4^31 · 2^5 -/
theorem jumpSub_base : sqN 5 (jumpPacked.getD 31 0) = some (jumpSubPacked.getD 0 0) := by
  decide +kernel


end CelerVerif.Xorwow
