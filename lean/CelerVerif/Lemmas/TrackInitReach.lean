/- Reachable states of the Stepper protocol satisfy the invariant (C02). -/
import CelerVerif.Lemmas.TrackInitStep3

namespace CelerVerif.TrackInit

/-- the invariant of a state whose slots are all empty and that has no pending work -/
theorem inv_of_empty {cfg : Cfg} {s : State} (hL : Lens cfg s)
    (hsl : ∀ x ∈ s.slots, x.active = false) (hni : s.c.numInitializers = 0)
    (hnv : s.c.numVacancies = cfg.slots) (hvac : s.vacancies = List.range cfg.slots)
    (hp : s.pending = []) (hcr : s.created = []) (hst : s.started = [])
    (hfi : s.finished = []) : Inv cfg s := by
  have hlive : liveL s.slots = [] := by
    unfold liveL
    rw [List.filter_eq_nil_iff.mpr (fun x hx => by simp [hsl x hx])]; rfl
  refine ⟨hL, ?_, by omega, ?_, by rw [hnv, hvac]; simp, ?_, hp, by rw [hlive, hnv]; simp⟩
  · refine ⟨by omega, ?_, (by rw [hcr]; exact List.nodup_nil), ?_, ?_, ?_, ?_⟩
    · intro r hr; rw [hcr] at hr; cases hr
    · intro r; rw [hcr, hst, hni]; simp [pendL]
    · intro r; rw [hst, hlive, hfi]; simp
    · intro r hr; rw [hcr] at hr; cases hr
    · intro x hx hxa; rw [hsl x hx] at hxa; cases hxa
  · rw [hvac]
    symm
    apply List.filter_eq_self.mpr
    intro i hi
    have hi' : i < s.slots.length := by rw [hL.slots]; simpa using hi
    rw [getD_getElem _ _ _ hi', hsl _ (List.getElem_mem hi')]; rfl
  · intro x hx
    have := hsl x hx
    left
    simp [Slot.active] at this; exact this

theorem inv_init (cfg : Cfg) : Inv cfg (State.init cfg) := by
  apply inv_of_empty
  · exact ⟨rfl, by simp [State.init], by simp [State.init], by simp [State.init],
      by simp [State.init], by simp [State.init]⟩
  · intro x hx
    simp only [State.init, List.mem_replicate] at hx
    rw [hx.2]; rfl
  all_goals rfl

theorem inv_reset {cfg : Cfg} {s : State} (hL : Lens cfg s) (hp : s.pending = []) :
    Inv cfg (reset s) := by
  apply inv_of_empty
  · exact ⟨hL.cfg_eq, by simp [reset, hL.slots], hL.inits, hL.parents, hL.secCounts, hL.counters⟩
  · intro x hx
    simp only [reset, List.mem_map] at hx
    obtain ⟨y, _, rfl⟩ := hx
    rfl
  · rfl
  · simp [reset, hL.cfg_eq]
  · simp [reset, hL.cfg_eq]
  · exact hp
  all_goals rfl

/-- no live track and nothing queued -/
def Idle (s : State) : Prop := s.c.numInitializers = 0 ∧ ∀ x ∈ s.slots, x.active = false

theorem inv_reseed {cfg : Cfg} {s : State} (hI : Inv cfg s) (hid : Idle s) : Inv cfg (reseed s) := by
  have hlive : liveL s.slots = [] := by
    unfold liveL
    rw [List.filter_eq_nil_iff.mpr (fun x hx => by simp [hid.2 x hx])]; rfl
  refine ⟨⟨hI.lens.cfg_eq, hI.lens.slots, hI.lens.inits, hI.lens.parents, hI.lens.secCounts,
    by simp [reseed, hI.lens.counters]⟩, ?_, hI.cap, hI.vac, hI.nvac, hI.status, hI.pending,
    hI.occupied⟩
  refine ⟨hI.core.ni_le, ?_, List.nodup_nil, ?_, ?_, ?_, hI.core.hasId⟩
  · intro r hr; cases hr
  · intro r
    show ([] : List Rec).count r = ([] : List Rec).count r + (pendL s.initializers _).count r
    have h0 : (reseed s).c.numInitializers = 0 := hid.1
    rw [h0]; simp [pendL]
  · intro r
    show ([] : List Rec).count r = (liveL s.slots).count r + ([] : List Rec).count r
    rw [hlive]; simp
  · intro r hr; cases hr

/-- the Stepper's two entry points: `operator()()` and `operator()(primaries)` -/
def stepAny (ps : List Primary) (o : List Outcome) (s : State) : Except (Err × State) State :=
  match ps with
  | [] => step o s
  | _ => stepWith ps o s

theorem step_eq_body (o : List Outcome) (s : State) :
    step o s = stepBody o { s with c := { s.c with numGenerated := 0 } } := rfl

theorem pre_of_inv {cfg : Cfg} {s : State} (hI : Inv cfg s) (ps : List Primary)
    (hps : ∀ p ∈ ps, p.ev < cfg.maxEvents)
    (hfit : ps.length + s.c.numInitializers ≤ cfg.capacity) :
    Pre cfg { s with pending := ps, c := { s.c with numGenerated := 0 } } :=
  ⟨⟨hI.lens.cfg_eq, hI.lens.slots, hI.lens.inits, hI.lens.parents, hI.lens.secCounts,
      hI.lens.counters⟩,
   ⟨hI.core.ni_le, hI.core.below, hI.core.nodup, hI.core.once, hI.core.slots, hI.core.parent,
      hI.core.hasId⟩,
   hps, by show s.c.numInitializers + ps.length ≤ cfg.capacity; omega,
   hI.vac, hI.nvac, hI.status, hI.occupied⟩

theorem events_all {maxEv : Nat} (ps : List Primary) :
    (ps.all fun p => decide (p.ev < maxEv)) = true ↔ ∀ p ∈ ps, p.ev < maxEv := by
  simp [List.all_eq_true]

theorem stepWith_fit (ps : List Primary) (o : List Outcome) (s : State) (hp : s.pending = [])
    (hev : ∀ p ∈ ps, p.ev < s.cfg.maxEvents)
    (hfit : ps.length + s.c.numInitializers ≤ s.cfg.capacity) :
    stepWith ps o s
      = stepBody o { s with pending := ps, c := { s.c with numGenerated := 0 } } := by
  have h1 : insertPrimaries ps s = .ok { s with pending := ps } := by
    unfold insertPrimaries
    rw [if_neg (by omega), if_neg (by rw [hp]; simp)]
  unfold stepWith
  rw [if_neg (by rw [(events_all ps).mpr hev]; simp), h1]
  exact step_eq_body o { s with pending := ps }

theorem stepWith_nofit (ps : List Primary) (o : List Outcome) (s : State)
    (hev : ∀ p ∈ ps, p.ev < s.cfg.maxEvents)
    (hfit : ¬ ps.length + s.c.numInitializers ≤ s.cfg.capacity) :
    stepWith ps o s = .error (.capacity, s) := by
  have h1 : insertPrimaries ps s = .error .capacity := by
    unfold insertPrimaries
    rw [if_pos hfit]
  unfold stepWith
  rw [if_neg (by rw [(events_all ps).mpr hev]; simp), h1]

/-- the Stepper refuses primaries whose event id is not below `max_events`, before anything is
    touched -/
theorem stepWith_bad_event (ps : List Primary) (o : List Outcome) (s : State)
    (hev : ¬ ∀ p ∈ ps, p.ev < s.cfg.maxEvents) :
    stepWith ps o s = .error (.maxEvents, s) := by
  unfold stepWith
  rw [if_pos]
  intro h
  exact hev ((events_all ps).mp h)

theorem step_nil_eq (o : List Outcome) (s : State) (hp : s.pending = []) :
    step o s
      = stepBody o { s with pending := ([] : List Primary), c := { s.c with numGenerated := 0 } } := by
  have hs : { s with pending := ([] : List Primary), c := { s.c with numGenerated := 0 } }
      = { s with c := { s.c with numGenerated := 0 } } := by
    cases s; simp_all
  rw [hs]; exact step_eq_body o s

/-- one call of the Stepper from a state satisfying the invariant -/
theorem stepAny_spec {cfg : Cfg} {s : State} (hIT : ITSpec cfg) (hI : Inv cfg s)
    (ps : List Primary) (hps : ∀ p ∈ ps, p.ev < cfg.maxEvents) (o : List Outcome)
    (ho : OracleOk o) :
    (∀ s', stepAny ps o s = .ok s' →
      StepOk cfg { s with pending := ps, c := { s.c with numGenerated := 0 } } s') ∧
    (∀ e s', stepAny ps o s = .error (e, s') → Lens cfg s' ∧ s'.pending = []) := by
  cases ps with
  | nil =>
    have hpre := pre_of_inv hI [] hps (by simp; exact hI.cap)
    have hb := stepBody_spec hIT hpre o ho
    have hgoal : stepAny [] o s = step o s := rfl
    rw [hgoal, step_nil_eq o s hI.pending]
    exact ⟨hb.1, fun e s' h => (hb.2 e s' h).2⟩
  | cons p ps =>
    have hgoal : stepAny (p :: ps) o s = stepWith (p :: ps) o s := rfl
    rw [hgoal]
    by_cases hfit : (p :: ps).length + s.c.numInitializers ≤ cfg.capacity
    · have hpre := pre_of_inv hI (p :: ps) hps hfit
      have hb := stepBody_spec hIT hpre o ho
      rw [stepWith_fit (p :: ps) o s hI.pending (by rw [hI.lens.cfg_eq]; exact hps)
        (by rw [hI.lens.cfg_eq]; exact hfit)]
      exact ⟨hb.1, fun e s' h => (hb.2 e s' h).2⟩
    · rw [stepWith_nofit (p :: ps) o s (by rw [hI.lens.cfg_eq]; exact hps)
        (by rw [hI.lens.cfg_eq]; exact hfit)]
      constructor
      · intro s' h; cases h
      · intro e s' h
        injection h with h; injection h with _ h2
        subst h2
        exact ⟨hI.lens, hI.pending⟩

/-- the states the Stepper protocol can reach: construction, steps with or without new
    primaries (event ids below `max_events`) and any physics outcome, reset at any time
    (also from the state left by a failed step), reseed at idle states -/
inductive Reachable (cfg : Cfg) : State → Prop where
  | init : Reachable cfg (State.init cfg)
  | step {s s' : State} (ps : List Primary) (o : List Outcome) : Reachable cfg s →
      (∀ p ∈ ps, p.ev < cfg.maxEvents) → OracleOk o → stepAny ps o s = .ok s' → Reachable cfg s'
  | reset {s : State} : Reachable cfg s → Reachable cfg (reset s)
  | resetAfterError {s s' : State} {e : Err} (ps : List Primary) (o : List Outcome) :
      Reachable cfg s → (∀ p ∈ ps, p.ev < cfg.maxEvents) → OracleOk o →
      stepAny ps o s = .error (e, s') → Reachable cfg (TrackInit.reset s')
  | reseed {s : State} : Reachable cfg s → Idle s → Reachable cfg (TrackInit.reseed s)

theorem inv_of_reachable {cfg : Cfg} (hIT : ITSpec cfg) {s : State} (h : Reachable cfg s) :
    Inv cfg s := by
  induction h with
  | init => exact inv_init cfg
  | step ps o _ hps ho hstep ih => exact ((stepAny_spec hIT ih ps hps o ho).1 _ hstep).inv
  | reset _ ih => exact inv_reset ih.lens ih.pending
  | resetAfterError ps o _ hps ho hstep ih =>
    have := (stepAny_spec hIT ih ps hps o ho).2 _ _ hstep
    exact inv_reset this.1 this.2
  | reseed _ hid ih => exact inv_reseed ih hid

end CelerVerif.TrackInit
