/-
Helper lemmas for C05: the step model (Model/Step.lean) read at ℝ.
-/
import CelerVerif.Num.Real
import CelerVerif.Model.Step
import Mathlib.Tactic.Linarith
import Mathlib.Tactic.Ring
import Mathlib.Tactic.Positivity
import Mathlib.Tactic.FieldSimp

namespace CelerVerif.Step
open CelerVerif
open CelerVerif.Ledger (Status)

macro "stp_simp" loc:(Lean.Parser.Tactic.location)? : tactic => `(tactic|
  simp only [NumR.gt_real, NumR.ge_real, NumR.le_real, NumR.lt_real, NumR.eq_real,
    NumR.hsub_real, NumR.hadd_real, NumR.hmul_real, NumR.hdiv_real, NumR.lit0, NumR.lit1,
    NumR.lit2, NumR.sqrt_real, NumR.fma_real,
    Bool.and_eq_true, Bool.or_eq_true, Bool.not_eq_true', decide_eq_true_eq,
    Bool.not_eq_eq_eq_not, Bool.not_true, Bool.not_false] $[$loc]?)

/-- `x ≤ o` where `none` is +∞ -/
def LeInf (x : ℝ) : Option ℝ → Prop
  | none => True
  | some b => x ≤ b

/-- order on step lengths with `none = +∞` -/
def OptLe : Option ℝ → Option ℝ → Prop
  | _, none => True
  | none, some _ => False
  | some a, some b => a ≤ b

theorem leInf_iff (a : ℝ) (o : Option ℝ) : leInf a o = true ↔ LeInf a o := by
  cases o <;> simp [leInf, LeInf]
theorem ltInf_some (a b : ℝ) : ltInf a (some b) = true ↔ a < b := by simp [ltInf]

/-! ### SimTrackView::step_limit and the propagation applier only shorten -/

theorem simStepLimit_le (cur : StepLimit ℝ) (s : ℝ) (a : Act) :
    OptLe (simStepLimit cur s a).step cur.step := by
  unfold simStepLimit
  split_ifs with h
  · cases hc : cur.step with
    | none => simp [OptLe]
    | some b => rw [hc] at h; simp only [OptLe]; exact le_of_lt ((ltInf_some s b).mp h)
  · cases cur.step <;> simp [OptLe]

/-- ties (and longer candidates) keep the earlier step and action -/
theorem simStepLimit_tie (cur : StepLimit ℝ) (s b : ℝ) (a : Act) (hc : cur.step = some b)
    (h : b ≤ s) : simStepLimit cur s a = cur := by
  unfold simStepLimit
  rw [hc]
  have : ¬ (ltInf s (some b) = true) := by rw [ltInf_some]; exact not_lt.mpr h
  simp [this]

theorem propagation_le (cur : StepLimit ℝ) (cl ab : Bool) (p : Propagation ℝ)
    (hp : ∀ s, cur.step = some s → p.distance ≤ s) :
    OptLe (propagationApplier cur cl ab p).step cur.step := by
  unfold propagationApplier
  cases hc : cur.step with
  | none => simp only []; split_ifs <;> simp [OptLe]
  | some s =>
    have hd := hp s hc
    simp only []
    split_ifs <;> simp only [OptLe, hc] <;> first | exact hd | exact le_refl _

/-- the action changes only together with a (non-strict) shortening to the propagated distance -/
theorem propagation_action (cur : StepLimit ℝ) (cl ab : Bool) (p : Propagation ℝ)
    (h : (propagationApplier cur cl ab p).action ≠ cur.action) :
    (propagationApplier cur cl ab p).step = some p.distance := by
  unfold propagationApplier at h ⊢
  cases hc : cur.step with
  | none => simp only [hc] at h ⊢; split_ifs <;> rfl
  | some s =>
    simp only [hc] at h ⊢
    split_ifs at h ⊢ <;> first | rfl | exact absurd rfl h

theorem linearPropagate_le (s bd : ℝ) : (linearPropagate (some s) bd).distance ≤ s := by
  unfold linearPropagate
  split_ifs with h
  · simp only []; rw [leInf_iff] at h; exact h
  · simp

theorem linearPropagate_pos (o : Option ℝ) (bd : ℝ) (hb : 0 < bd) (ho : ∀ s, o = some s → 0 < s) :
    0 < (linearPropagate o bd).distance := by
  unfold linearPropagate
  split_ifs with h
  · exact hb
  · cases o with
    | none => exact hb
    | some d => exact ho d rfl

/-! ### physics limit -/

/-- every limit chosen by `calc_physics_step_limit` is at most the discrete-interaction
    distance -/
theorem limit_le_discrete (sc : Scalars ℝ) (st el np : Bool) (mfp xs range : ℝ)
    (hm : 0 ≤ mfp) (hx : 0 ≤ xs) :
    OptLe (calcPhysicsStepLimit sc st el np mfp xs range).step
      (if st then some 0 else discreteStep mfp xs) := by
  unfold calcPhysicsStepLimit
  split_ifs with h1 h2 h3 h4 h5 h6
  · simp [OptLe]
  · -- fixed < range step ≤ discrete
    stp_simp at h4
    rw [leInf_iff] at h3
    cases hd : discreteStep mfp xs with
    | none => simp [OptLe]
    | some d => rw [hd] at h3; simp only [OptLe]; simp only [LeInf] at h3; linarith [h4.2]
  · rw [leInf_iff] at h3
    cases hd : discreteStep mfp xs with
    | none => simp [OptLe]
    | some d => rw [hd] at h3; simpa [OptLe, LeInf] using h3
  · cases hd : discreteStep mfp xs with
    | none => simp [OptLe]
    | some d =>
      rw [hd] at h5
      simp only [Bool.and_eq_true] at h5
      have := (ltInf_some _ _).mp h5.2
      simp only [OptLe]; linarith
  · cases discreteStep mfp xs <;> simp [OptLe]
  · cases discreteStep mfp xs <;> simp [OptLe]
  · cases discreteStep mfp xs <;> simp [OptLe]

/-! ### MFP bookkeeping -/

theorem trackUpdater_mfp (psa : Act) (mfp step xs : ℝ) (n : Nat) (hne : psa ≠ .discrete) :
    (trackUpdater .alive psa mfp step xs n).1 = mfp - step * xs := by
  unfold trackUpdater
  have : (psa != Act.discrete) = true := by simp [hne]
  simp [this]

theorem trackUpdater_discrete (mfp step xs : ℝ) (n : Nat) :
    (trackUpdater .alive .discrete mfp step xs n).1 = mfp := by
  unfold trackUpdater; simp

/-! ### status machine -/

theorem preStep_rank (s : Status) : s.rank ≤ (preStepStatus s).rank := by
  cases s <;> simp [preStepStatus, Status.rank]

theorem preStep_not_init (s : Status) : preStepStatus s ≠ .initializing := by
  cases s <;> simp [preStepStatus]

theorem along_rank (s : Status) (e k : Bool) : s.rank ≤ (alongStatus s e k).rank := by
  cases s <;> cases e <;> cases k <;> simp [alongStatus, Status.rank]

theorem post_rank (s : Status) (psa : Act) (a b c d : Bool) :
    s.rank ≤ (postStatus s psa a b c d).rank := by
  cases s <;> cases psa <;> cases a <;> cases b <;> cases c <;> cases d <;>
    simp [postStatus, boundaryStatus, Status.rank]

/-! ### time, displacement -/

theorem timeUpdater_ge (st : Status) (t step e m : ℝ) (hs : 0 ≤ step) :
    t ≤ timeUpdater st t step e m := by
  unfold timeUpdater
  split_ifs with h1 h2
  · exact le_refl _
  · stp_simp at h2
    stp_simp
    have : 0 ≤ step / speed e m := div_nonneg hs (le_of_lt h2)
    linarith
  · exact le_refl _

/-- straight-line displacement of `move` -/
theorem move_displacement (pos dir : Vec3 ℝ) (d : ℝ) (hd : 0 ≤ d)
    (hu : dir.x * dir.x + dir.y * dir.y + dir.z * dir.z = 1) :
    Vec3.norm (Vec3.sub (move pos dir d) pos) = d := by
  unfold move Vec3.norm Vec3.sub
  simp only [Vec3R.axpy_real, Vec3R.dot_real, NumR.sqrt_real, NumR.hsub_real]
  have : (d * dir.x + pos.x - pos.x) * (d * dir.x + pos.x - pos.x)
      + (d * dir.y + pos.y - pos.y) * (d * dir.y + pos.y - pos.y)
      + (d * dir.z + pos.z - pos.z) * (d * dir.z + pos.z - pos.z) = d * d := by
    have : (d * dir.x + pos.x - pos.x) * (d * dir.x + pos.x - pos.x)
      + (d * dir.y + pos.y - pos.y) * (d * dir.y + pos.y - pos.y)
      + (d * dir.z + pos.z - pos.z) * (d * dir.z + pos.z - pos.z)
        = d * d * (dir.x * dir.x + dir.y * dir.y + dir.z * dir.z) := by ring
    rw [this, hu]; ring
  rw [this]
  exact Real.sqrt_mul_self hd

/-! ### frame model of the inter-step actions -/

theorem initializeTracks_length {β : Type} (inits : List (Nat × Nat × β)) (slots : List (Slot β)) :
    (initializeTracks slots inits).length = slots.length := by
  induction inits generalizing slots with
  | nil => rfl
  | cons a rest ih =>
    obtain ⟨v, tid, pt⟩ := a
    simp only [initializeTracks]
    rw [ih]; simp

theorem initializeTracks_get {β : Type} (inits : List (Nat × Nat × β)) (slots : List (Slot β))
    (i : Nat) (hv : ∀ x ∈ inits, x.1 ≠ i) :
    (initializeTracks slots inits)[i]? = slots[i]? := by
  induction inits generalizing slots with
  | nil => rfl
  | cons a rest ih =>
    obtain ⟨v, tid, pt⟩ := a
    simp only [initializeTracks]
    rw [ih _ (fun x hx => hv x (List.mem_cons_of_mem _ hx))]
    have : v ≠ i := hv (v, tid, pt) List.mem_cons_self
    simp [List.getElem?_set, this]

end CelerVerif.Step
