/- InitializeTracks under TrackOrder::init_charge as a whole action (C02). -/
import CelerVerif.Lemmas.TrackInitITC2
import CelerVerif.Lemmas.TrackInitStep3

namespace CelerVerif.TrackInit

/-- the pending multiset seen through the partitioned indices -/
theorem pend_partition_count (s1 : State) (n : Nat) (hn : n ≤ s1.c.numInitializers)
    (hlen : s1.c.numInitializers ≤ s1.initializers.length) (r : Rec) :
    (pendL s1.initializers s1.c.numInitializers).count r
      = (pendL s1.initializers (s1.c.numInitializers - n) ++
          (List.range n).map (fOfPos s1 n)).count r := by
  have h1 := pendL_split s1.initializers (s1.c.numInitializers - n) n (by omega)
  have hm : s1.c.numInitializers - n + n = s1.c.numInitializers := by omega
  rw [hm] at h1
  rw [h1, List.count_append, List.count_append]
  congr 1
  -- the tail, through the partition
  have h2 : (List.range n).map (fOfPos s1 n)
      = (partList (stencilOf s1 n) n).map
          (fun i => (s1.initializers.getD (i + s1.c.numInitializers - n) default).ident) := by
    have := map_range_getD_self (partList (stencilOf s1 n) n)
      (fun i => (s1.initializers.getD (i + s1.c.numInitializers - n) default).ident)
    rw [partList_length] at this
    rw [← this]
    rfl
  rw [h2, partList_map_count]
  congr 1
  apply List.map_congr_left
  intro i _
  have : i + (s1.c.numInitializers - n) = i + s1.c.numInitializers - n := by omega
  rw [this]

theorem take_range (n m : Nat) (h : n ≤ m) : (List.range m).take n = List.range n := by
  apply List.ext_getElem
  · simp; omega
  · intro i h1 h2
    simp

theorem it_spec_charge {cfg : Cfg} {s : State} (hord : cfg.order = .initCharge) (hL : Lens cfg s)
    (hC : Core s s.c.numInitializers) (hcap : s.c.numInitializers ≤ cfg.capacity)
    (hvac : s.vacancies = (List.range cfg.slots).filter
      (fun i => !(s.slots.getD i Slot.empty).active))
    (hnvac : s.c.numVacancies = s.vacancies.length)
    (hst : ∀ x ∈ s.slots, x.stepOk)
    (hocc : (liveL s.slots).length + s.c.numVacancies = cfg.slots) :
    Mid cfg (initializeTracks s) ∧
    (initializeTracks s).c.numInitializers
      = s.c.numInitializers - min s.c.numVacancies s.c.numInitializers ∧
    (initializeTracks s).c.numVacancies
      = s.c.numVacancies - min s.c.numVacancies s.c.numInitializers ∧
    (initializeTracks s).pending = s.pending ∧
    (initializeTracks s).c.numGenerated = s.c.numGenerated := by
  have hso : s.cfg.order = .initCharge := by rw [hL.cfg_eq]; exact hord
  have hvnd : s.vacancies.Nodup := by
    rw [hvac]; exact List.Pairwise.sublist List.filter_sublist List.nodup_range
  have hvlt : ∀ v ∈ s.vacancies, v < cfg.slots := by
    intro v hv; rw [hvac] at hv; simpa using (List.mem_filter.mp hv).1
  have hvinact : ∀ j, j < s.vacancies.length →
      (s.slots.getD (s.vacancies.getD j 0) Slot.empty).active = false := by
    intro j hj'
    rw [getD_getElem _ _ _ hj']
    have hm : s.vacancies[j] ∈ (List.range cfg.slots).filter
        (fun i => !(s.slots.getD i Slot.empty).active) := by
      have h1 : s.vacancies[j] ∈ s.vacancies := List.getElem_mem hj'
      exact hvac ▸ h1
    simpa using (List.mem_filter.mp hm).2
  unfold initializeTracks
  simp only [hso, if_true]
  by_cases hn : min s.c.numVacancies s.c.numInitializers > 0
  · simp only [hn, if_true]
    have hnle : min s.c.numVacancies s.c.numInitializers ≤ s.slots.length := by
      rw [hL.slots]; have := Nat.min_le_left s.c.numVacancies s.c.numInitializers; omega
    -- the state after fill_sequence + stable_partition
    generalize hs1 : ({ s with indices := (partitionIndices ({ s with indices := List.range s.slots.length } : State) (min s.c.numVacancies s.c.numInitializers)) } : State) = s1
    have e_in : s1.initializers = s.initializers := by rw [← hs1]
    have e_c : s1.c = s.c := by rw [← hs1]
    have e_v : s1.vacancies = s.vacancies := by rw [← hs1]
    have e_sl : s1.slots = s.slots := by rw [← hs1]
    have hL1 : Lens cfg s1 := by
      rw [← hs1]
      exact ⟨hL.cfg_eq, hL.slots, hL.inits, hL.parents, hL.secCounts, hL.counters⟩
    have hidx : ∀ p, p < min s.c.numVacancies s.c.numInitializers →
        s1.indices.getD p 0 = piOf s1 (min s.c.numVacancies s.c.numInitializers) p := by
      intro p hp
      have hst' : stencilOf s1 (min s.c.numVacancies s.c.numInitializers)
          = fun i => isNeutral (s.initializers.getD
              (s.c.numInitializers - min s.c.numVacancies s.c.numInitializers + i)
              default).particle := by
        funext i; unfold stencilOf; rw [e_in, e_c]
      have hidx1 : s1.indices = partList (stencilOf s1 (min s.c.numVacancies s.c.numInitializers))
          (min s.c.numVacancies s.c.numInitializers) ++
          (List.range s.slots.length).drop (min s.c.numVacancies s.c.numInitializers) := by
        rw [hst', ← hs1]
        show partitionIndices ({ s with indices := List.range s.slots.length } : State)
          (min s.c.numVacancies s.c.numInitializers) = _
        unfold partitionIndices
        simp only [take_range _ _ hnle]
        rfl
      unfold piOf
      rw [hidx1, List.getD_eq_getElem?_getD, List.getD_eq_getElem?_getD,
        List.getElem?_append_left (by rw [partList_length]; exact hp)]
    have hcore0 : CoreP s1 (pendL s1.initializers
        (s1.c.numInitializers - min s.c.numVacancies s.c.numInitializers) ++
        (List.range (min s.c.numVacancies s.c.numInitializers - 0)).map
          (fOfPos s1 (min s.c.numVacancies s.c.numInitializers))) := by
      have hC1 : Core s1 s1.c.numInitializers := by
        rw [← hs1]
        exact ⟨hC.ni_le, hC.below, hC.nodup, hC.once, hC.slots, hC.parent, hC.hasId⟩
      apply hC1.toP.congr
      intro r
      rw [Nat.sub_zero]
      exact pend_partition_count s1 _ (by rw [e_c]; exact Nat.min_le_right _ _)
        (by rw [e_c, e_in, hL.inits]; exact hcap) r
    have h0 : ITInvC cfg s1 (min s.c.numVacancies s.c.numInitializers) 0 s1 :=
      ⟨hL1, hcore0, by simp,
       by
        intro p hp
        have := vIdxOf_lt s1 (min s.c.numVacancies s.c.numInitializers) p (by omega)
          (by rw [e_c]; exact Nat.min_le_left _ _)
        rw [e_v, e_sl]
        exact hvinact _ (by rw [e_c] at this; omega),
       ⟨rfl, rfl, rfl, rfl, rfl, rfl, rfl, rfl, rfl, rfl⟩,
       fun x hx => Or.inl (hst x (by rw [← e_sl]; exact hx))⟩
    have hloop := it_loop_charge (cfg := cfg) (s1 := s1) hord
      (n := min s.c.numVacancies s.c.numInitializers)
      (by rw [e_c]; exact Nat.min_le_left _ _) (by rw [e_c]; exact Nat.min_le_right _ _)
      (by rw [e_c, e_v]; omega) (by rw [e_v]; exact hvnd) (by rw [e_v]; exact hvlt) hidx
      (min s.c.numVacancies s.c.numInitializers) (Nat.le_refl _) h0
    rw [e_c] at hloop
    generalize (List.range (min s.c.numVacancies s.c.numInitializers)).foldl
      (initTrack s.c (min s.c.numVacancies s.c.numInitializers)) s1 = s2 at hloop
    obtain ⟨f1, f2, f3, f4, f5, f6, f7, f8, f9, f10⟩ := hloop.same
    have hcoreF : Core s2 (s.c.numInitializers - min s.c.numVacancies s.c.numInitializers) := by
      have := hloop.core
      rw [Nat.sub_self] at this
      simp only [List.range_zero, List.map_nil, List.append_nil] at this
      rw [e_c, ← f2] at this
      exact this.toCore (by rw [hloop.lens.inits]; omega)
    refine ⟨⟨⟨hloop.lens.cfg_eq, hloop.lens.slots, hloop.lens.inits, by simp; exact hloop.lens.parents,
      hloop.lens.secCounts, hloop.lens.counters⟩, ?_, ?_, ?_, ?_, hloop.status⟩, ?_, ?_, ?_, ?_⟩
    · simp only [f3, e_c]
      exact core_frame hcoreF rfl rfl rfl rfl rfl rfl hcoreF.hasId
    · simp only [f3, e_c]; omega
    · simp only [f3, e_c]
      have := hloop.live
      rw [e_sl] at this
      have hm := Nat.min_le_left s.c.numVacancies s.c.numInitializers
      omega
    · simp only [f3, e_c, hloop.lens.cfg_eq]
    · simp only [f3, e_c]
    · simp only [f3, e_c]
    · simp only [f4]; rw [← hs1]
    · simp only [f3, e_c]
  · have hz : min s.c.numVacancies s.c.numInitializers = 0 := by omega
    simp only [hn, if_false]
    refine ⟨⟨⟨hL.cfg_eq, hL.slots, hL.inits, hL.parents, hL.secCounts, hL.counters⟩,
      core_frame hC rfl rfl rfl rfl rfl rfl hC.hasId, hcap, hocc, by simp [hL.cfg_eq],
      fun x hx => Or.inl (hst x hx)⟩,
      by simp [hz], by simp [hz], by trivial, by trivial⟩

theorem itSpec_charge {cfg : Cfg} (hord : cfg.order = .initCharge) : ITSpec cfg :=
  fun _ hL hC hcap hvac hnvac hst hocc => it_spec_charge hord hL hC hcap hvac hnvac hst hocc

/-- InitializeTracks meets its specification for both layouts of new tracks -/
theorem itSpec_all (cfg : Cfg) : ITSpec cfg := by
  by_cases h : cfg.order = .initCharge
  · exact itSpec_charge h
  · exact itSpec_none h

end CelerVerif.TrackInit
