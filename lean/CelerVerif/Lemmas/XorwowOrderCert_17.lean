/- kernel-checked inverse certificate: z^((2^160-1)/17) + 1 is a unit modulo P -/
import CelerVerif.Lemmas.XorwowPeriod

namespace CelerVerif.Xorwow

theorem orderCert_17 : orderCert 17 = true := by decide +kernel

end CelerVerif.Xorwow
