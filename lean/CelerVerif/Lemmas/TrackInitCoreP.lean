/- Accounting invariant relative to an arbitrary list of pending identities (needed when the
   initializers are not consumed from the back: TrackOrder::init_charge) (C02). -/
import CelerVerif.Lemmas.TrackInitBasic

namespace CelerVerif.TrackInit

structure CoreP (s : State) (P : List Rec) : Prop where
  below : ∀ r ∈ s.created, r.ev < s.trackCounters.length ∧ r.tid < ctr s r.ev
  nodup : (s.created.map Rec.key).Nodup
  once : ∀ r, s.created.count r = s.started.count r + P.count r
  slots : ∀ r, s.started.count r = (liveL s.slots).count r + s.finished.count r
  parent : ∀ r ∈ s.created, ∀ p, r.parent = some p →
    p < r.tid ∧ ∃ q ∈ s.started, q.ev = r.ev ∧ q.tid = p
  hasId : ∀ x ∈ s.slots, x.active = true → x.tid.isSome = true

theorem Core.toP {s : State} {ni : Nat} (h : Core s ni) : CoreP s (pendL s.initializers ni) :=
  ⟨h.below, h.nodup, h.once, h.slots, h.parent, h.hasId⟩

theorem CoreP.toCore {s : State} {ni : Nat} (h : CoreP s (pendL s.initializers ni))
    (hni : ni ≤ s.initializers.length) : Core s ni :=
  ⟨hni, h.below, h.nodup, h.once, h.slots, h.parent, h.hasId⟩

theorem CoreP.congr {s : State} {P Q : List Rec} (h : CoreP s P) (hPQ : ∀ r, P.count r = Q.count r) :
    CoreP s Q :=
  ⟨h.below, h.nodup, fun r => by rw [← hPQ r]; exact h.once r, h.slots, h.parent, h.hasId⟩

/-- the last pending identity is started in an empty slot -/
theorem coreP_start {s s' : State} {P : List Rec} {r : Rec} {i : Nat} (hC : CoreP s (P ++ [r]))
    (hi : i < s.slots.length) (hin : (s.slots[i]).active = false) {y : Slot}
    (hy : y.active = true) (hyid : y.ident = r) (hytid : y.tid.isSome = true)
    (hc : s'.trackCounters = s.trackCounters) (hcr : s'.created = s.created)
    (hst : s'.started = s.started ++ [r]) (hfi : s'.finished = s.finished)
    (hsl : s'.slots = s.slots.set i y) : CoreP s' P := by
  refine ⟨?_, ?_, ?_, ?_, ?_, ?_⟩
  · intro q hq; rw [hcr] at hq
    have := hC.below q hq
    unfold ctr at *; rw [hc]; exact this
  · rw [hcr]; exact hC.nodup
  · intro q
    rw [hcr, hst]
    have := hC.once q
    simp only [List.count_append] at this ⊢
    omega
  · intro q
    rw [hst, hfi, hsl]
    have h1 := hC.slots q
    have h2 := liveL_set_count s.slots i hi y q
    simp only [liveL_single, hin, hy, if_true, hyid] at h2
    simp only [List.count_append]
    simp at h2
    omega
  · intro q hq p hpar; rw [hcr] at hq
    obtain ⟨h1, q', hq', h2⟩ := hC.parent q hq p hpar
    exact ⟨h1, q', by rw [hst]; simp [hq'], h2⟩
  · rw [hsl]
    intro x hx hxa
    rcases List.mem_or_eq_of_mem_set hx with h | h
    · exact hC.hasId x h hxa
    · subst h; exact hytid

end CelerVerif.TrackInit
