/- Helper lemmas for C18: HyperslabIndexer / HyperslabInverseIndexer, RaggedRightIndexer. -/
import CelerVerif.Lemmas.AlgoArray

namespace CelerVerif.Algo

/-! ### hyperslab -/

/-- value of `result` after the loop of `HyperslabIndexer::operator()` has consumed
    coordinates `0..k` -/
def hslabG (dims coords : Array Nat) : Nat → Nat
  | 0 => coords[0]!
  | k + 1 => dims[k + 1]! * hslabG dims coords k + coords[k + 1]!

/-- product of the first `m` dimensions -/
def prodUpto (dims : Array Nat) : Nat → Nat
  | 0 => 1
  | m + 1 => prodUpto dims m * dims[m]!

theorem hyperslabLoop_eq (dims coords : Array Nat) (n r i : Nat) (hi : 1 ≤ i) (hin : i ≤ n)
    (hr : r = hslabG dims coords (i - 1)) :
    hyperslabLoop dims coords n r i = hslabG dims coords (n - 1) := by
  fun_induction hyperslabLoop dims coords n r i with
  | case1 r i hlt ih =>
    apply ih (by omega) (by omega)
    subst hr
    have : i + 1 - 1 = (i - 1) + 1 := by omega
    rw [this, hslabG]
    have : i - 1 + 1 = i := by omega
    rw [this]
  | case2 r i hge =>
    have : i = n := by omega
    subst this; exact hr

theorem hyperslabIndex_eq (dims coords : Array Nat) (hn : 1 ≤ dims.size) :
    hyperslabIndex dims coords = hslabG dims coords (dims.size - 1) :=
  hyperslabLoop_eq dims coords dims.size _ 1 (Nat.le_refl _) hn rfl

theorem hslabG_congr (dims c c' : Array Nat) (k : Nat) (h : ∀ j, j ≤ k → c[j]! = c'[j]!) :
    hslabG dims c k = hslabG dims c' k := by
  induction k with
  | zero => exact h 0 (Nat.le_refl _)
  | succ k ih =>
    simp only [hslabG]
    rw [ih (fun j hj => h j (by omega)), h (k + 1) (Nat.le_refl _)]

theorem hslabG_lt (dims coords : Array Nat) (k : Nat) (h : ∀ j, j ≤ k → coords[j]! < dims[j]!) :
    hslabG dims coords k < prodUpto dims (k + 1) := by
  induction k with
  | zero => simp only [hslabG, prodUpto, Nat.one_mul]; exact h 0 (Nat.le_refl _)
  | succ k ih =>
    have ih' := ih (fun j hj => h j (by omega))
    have hc := h (k + 1) (Nat.le_refl _)
    simp only [hslabG]
    rw [prodUpto]
    have h1 : dims[k + 1]! * (hslabG dims coords k + 1) ≤ dims[k + 1]! * prodUpto dims (k + 1) :=
      Nat.mul_le_mul_left _ ih'
    rw [Nat.mul_add, Nat.mul_one] at h1
    rw [Nat.mul_comm (prodUpto dims (k + 1))]
    omega

theorem hslabG_ge (dims coords : Array Nat) (k : Nat) (h0 : dims[0]! ≤ coords[0]!) :
    prodUpto dims (k + 1) ≤ hslabG dims coords k := by
  induction k with
  | zero => simp only [hslabG, prodUpto, Nat.one_mul]; exact h0
  | succ k ih =>
    simp only [hslabG]
    rw [prodUpto, Nat.mul_comm]
    have := Nat.mul_le_mul_left dims[k + 1]! ih
    omega

/-- the inverse loop started on `hslabG … i` writes back the coordinates `0..i` -/
theorem hyperslabInvLoop_of_index (dims coords : Array Nat) (i : Nat) (arr : Array Nat)
    (hsz : i < arr.size) (hc : ∀ j, 1 ≤ j → j ≤ i → coords[j]! < dims[j]!) :
    (hyperslabInvLoop dims i arr (hslabG dims coords i)).size = arr.size ∧
    ∀ k, (hyperslabInvLoop dims i arr (hslabG dims coords i))[k]! =
      if k ≤ i then coords[k]! else arr[k]! := by
  induction i generalizing arr with
  | zero =>
    simp only [hyperslabInvLoop, hslabG, Array.size_setIfInBounds, true_and]
    intro k
    rw [get_set]
    by_cases hk : k = 0
    · subst hk; simp [hsz]
    · have : ¬ (0 = k ∧ 0 < arr.size) := by omega
      rw [if_neg this, if_neg (by omega)]
  | succ i ih =>
    have hlt := hc (i + 1) (by omega) (Nat.le_refl _)
    have hmod : hslabG dims coords (i + 1) % dims[i + 1]! = coords[i + 1]! := by
      simp only [hslabG]
      rw [Nat.mul_add_mod, Nat.mod_eq_of_lt hlt]
    have hdiv : (hslabG dims coords (i + 1) - coords[i + 1]!) / dims[i + 1]! =
        hslabG dims coords i := by
      simp only [hslabG]
      rw [Nat.add_sub_cancel, Nat.mul_div_cancel_left _ (by omega)]
    unfold hyperslabInvLoop
    simp only [hmod, hdiv]
    obtain ⟨h1, h2⟩ := ih (arr.setIfInBounds (i + 1) coords[i + 1]!) (by simp; omega)
      (fun j hj1 hj2 => hc j hj1 (by omega))
    refine ⟨by rw [h1]; simp, ?_⟩
    intro k
    rw [h2 k, get_set]
    by_cases hk : k ≤ i
    · rw [if_pos hk, if_pos (by omega)]
    · rw [if_neg hk]
      by_cases hk2 : k = i + 1
      · subst hk2; simp [hsz]
      · have : ¬ (i + 1 = k ∧ i + 1 < arr.size) := by omega
        rw [if_neg this, if_neg (by omega)]

/-- the inverse loop produces coordinates whose index is the input, whatever the input -/
theorem hyperslabInvLoop_index (dims : Array Nat) (i : Nat) (arr : Array Nat) (index : Nat)
    (hsz : i < arr.size) :
    (hyperslabInvLoop dims i arr index).size = arr.size ∧
    hslabG dims (hyperslabInvLoop dims i arr index) i = index ∧
    (∀ k, i < k → (hyperslabInvLoop dims i arr index)[k]! = arr[k]!) ∧
    (∀ k, 1 ≤ k → k ≤ i → 0 < dims[k]! → (hyperslabInvLoop dims i arr index)[k]! < dims[k]!) := by
  induction i generalizing arr index with
  | zero =>
    simp only [hyperslabInvLoop, hslabG, Array.size_setIfInBounds, true_and]
    refine ⟨get_set_eq _ _ _ hsz, fun k hk => get_set_ne _ _ _ _ (by omega), fun k h1 h2 => by omega⟩
  | succ i ih =>
    unfold hyperslabInvLoop
    simp only
    obtain ⟨h1, h2, h3, h4⟩ := ih (arr.setIfInBounds (i + 1) (index % dims[i + 1]!))
      ((index - index % dims[i + 1]!) / dims[i + 1]!) (by simp; omega)
    have hsz' : i + 1 < (arr.setIfInBounds (i + 1) (index % dims[i + 1]!)).size := by simp; omega
    have hk1 := h3 (i + 1) (by omega)
    rw [get_set_eq _ _ _ hsz] at hk1
    refine ⟨by rw [h1]; simp, ?_, ?_, ?_⟩
    · simp only [hslabG]
      rw [h2, hk1]
      have e : (index - index % dims[i + 1]!) / dims[i + 1]! = index / dims[i + 1]! := by
        rcases Nat.eq_zero_or_pos dims[i + 1]! with h0 | hpos
        · simp [h0]
        · have := Nat.div_add_mod index dims[i + 1]!
          have e2 : index - index % dims[i + 1]! = dims[i + 1]! * (index / dims[i + 1]!) := by omega
          rw [e2, Nat.mul_div_cancel_left _ hpos]
      rw [e]
      exact Nat.div_add_mod index dims[i + 1]!
    · intro k hk
      rw [h3 k (by omega), get_set_ne _ _ _ _ (by omega)]
    · intro k hk1' hk2 hpos
      by_cases hke : k = i + 1
      · subst hke; rw [hk1]; exact Nat.mod_lt _ hpos
      · exact h4 k hk1' (by omega) hpos

theorem hyperslabSize_eq (dims : Array Nat) : hyperslabSize dims = prodUpto dims dims.size := by
  unfold hyperslabSize
  apply Array.foldl_induction (motive := fun m b => b = prodUpto dims m)
  · rfl
  · intro i b hb
    subst hb
    simp [prodUpto, getElem!_pos]

/-! ### ragged right -/

/-- `offsets[i]` of `RaggedRightIndexerData::from_sizes` -/
def prefixSum (sizes : Array Nat) : Nat → Nat
  | 0 => 0
  | i + 1 => sizes[i]! + prefixSum sizes i

theorem prefixSum_mono (sizes : Array Nat) (i j : Nat) (h : i ≤ j) :
    prefixSum sizes i ≤ prefixSum sizes j := by
  induction j with
  | zero => have : i = 0 := by omega
            subst this; exact Nat.le_refl _
  | succ j ih =>
    by_cases hij : i = j + 1
    · subst hij; exact Nat.le_refl _
    · have := ih (by omega)
      simp only [prefixSum]; omega

theorem raggedOffsetsLoop_spec (sizes offs : Array Nat) (i : Nat) (hi : i ≤ sizes.size)
    (hsz : offs.size = i + 1) (hoff : ∀ k, k ≤ i → offs[k]! = prefixSum sizes k) :
    (raggedOffsetsLoop sizes offs i).size = sizes.size + 1 ∧
    ∀ k, k ≤ sizes.size → (raggedOffsetsLoop sizes offs i)[k]! = prefixSum sizes k := by
  fun_induction raggedOffsetsLoop sizes offs i with
  | case1 offs i hlt ih =>
    apply ih (by omega) (by simp; omega)
    intro k hk
    by_cases hke : k = i + 1
    · subst hke
      have : (offs.push (sizes[i]! + offs[i]!))[i + 1]! = sizes[i]! + offs[i]! := by
        generalize sizes[i]! + offs[i]! = x
        grind
      rw [this, hoff i (Nat.le_refl _), prefixSum]
    · have : (offs.push (sizes[i]! + offs[i]!))[k]! = offs[k]! := by
        generalize sizes[i]! + offs[i]! = x
        grind
      rw [this, hoff k (by omega)]
  | case2 offs i hge =>
    have : i = sizes.size := by omega
    subst this
    exact ⟨hsz, hoff⟩

theorem raggedOffsets_spec (sizes : Array Nat) :
    (raggedOffsets sizes).size = sizes.size + 1 ∧
    ∀ k, k ≤ sizes.size → (raggedOffsets sizes)[k]! = prefixSum sizes k := by
  apply raggedOffsetsLoop_spec sizes #[0] 0 (Nat.zero_le _) rfl
  intro k hk
  have : k = 0 := by omega
  subst this; rfl

theorem raggedInvLoop_spec (offsets : Array Nat) (n : Nat) (index : Nat) (fuel i : Nat)
    (hi : i < n) (hfuel : n ≤ fuel + i) (hlo : offsets[i]! ≤ index) (hhi : index < offsets[n]!) :
    i ≤ raggedInvLoop offsets index fuel i ∧ raggedInvLoop offsets index fuel i < n ∧
    offsets[raggedInvLoop offsets index fuel i]! ≤ index ∧
    index < offsets[raggedInvLoop offsets index fuel i + 1]! := by
  induction fuel generalizing i with
  | zero => omega
  | succ fuel ih =>
    unfold raggedInvLoop
    by_cases hge : index ≥ offsets[i + 1]!
    · rw [if_pos hge]
      have hin : i + 1 < n := by
        rcases Nat.lt_or_ge (i + 1) n with h | h
        · exact h
        · have : i + 1 = n := by omega
          rw [this] at hge; omega
      obtain ⟨h1, h2, h3, h4⟩ := ih (i + 1) hin (by omega) hge
      exact ⟨by omega, h2, h3, h4⟩
    · rw [if_neg hge]
      exact ⟨Nat.le_refl _, hi, hlo, by omega⟩

end CelerVerif.Algo
