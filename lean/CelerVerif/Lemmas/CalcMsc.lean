/-
C14 helper lemmas (9): MscStepToGeo beyond `geom ≤ true` — Eq. 8.10 (`geoFromSlope`): sign,
closed form, Bernoulli bound; all four exits are defined and non-negative; the round trip
through MscStepFromGeo.
-/
import CelerVerif.Lemmas.CalcLoss
import Mathlib.Analysis.SpecialFunctions.Pow.Real
import Mathlib.Analysis.Convex.SpecificFunctions.Basic

namespace CelerVerif.Calc
open CelerVerif

/-! ### Eq. 8.10 -/

theorem geoFromSlope_real (lam alpha s : ℝ) :
    geoFromSlope lam alpha s
      = (1 - Real.exp ((1 + 1 / (alpha * lam)) * Real.log s)) / (alpha * (1 + 1 / (alpha * lam))) := by
  unfold geoFromSlope
  simp only [fastpow_real]
  calc_simp

/-- closed form with a real power, for a positive slope -/
theorem geoFromSlope_rpow (lam alpha s : ℝ) (hs : 0 < s) :
    geoFromSlope lam alpha s
      = (1 - s ^ (1 + 1 / (alpha * lam))) / (alpha * (1 + 1 / (alpha * lam))) := by
  rw [geoFromSlope_real, Real.rpow_def_of_pos hs, mul_comm (Real.log s)]

/-- sign: whenever `alpha` and `log s` have opposite signs (MFP slope below 1 for positive
    alpha, above 1 for negative alpha) the geometrical path of Eq. 8.10 is non-negative -/
theorem geoFromSlope_nonneg (lam alpha s : ℝ) (h : alpha * Real.log s ≤ 0) :
    0 ≤ geoFromSlope lam alpha s := by
  rw [geoFromSlope_real]
  set w := 1 + 1 / (alpha * lam) with hw
  set u := w * Real.log s with hu
  have hD : 0 ≤ (alpha * w) * (-u) := by
    have : (alpha * w) * (-u) = (w * w) * (-(alpha * Real.log s)) := by rw [hu]; ring
    rw [this]
    exact mul_nonneg (mul_self_nonneg w) (by linarith)
  rcases lt_trichotomy u 0 with hneg | hzero | hpos
  · have hN : 0 ≤ 1 - Real.exp u := by
      have := Real.exp_le_one_iff.mpr (le_of_lt hneg); linarith
    have hDen : 0 ≤ alpha * w := by
      by_contra hc
      have : (alpha * w) * (-u) < 0 := mul_neg_of_neg_of_pos (not_le.mp hc) (by linarith)
      linarith
    exact div_nonneg hN hDen
  · rw [hzero, Real.exp_zero]; simp
  · have hN : 1 - Real.exp u ≤ 0 := by
      have := Real.one_le_exp (le_of_lt hpos); linarith
    have hDen : alpha * w ≤ 0 := by
      by_contra hc
      have : (alpha * w) * (-u) < 0 := mul_neg_of_pos_of_neg (not_le.mp hc) (by linarith)
      linarith
    exact div_nonneg_of_nonpos hN hDen

/-- range-limited / low-energy exit: `alpha = 1/range`, slope `1 − t/range`, `w = 1 + range/λ`.
    Bernoulli: the un-clamped Eq. 8.10 value does not exceed the true path -/
theorem geoFromSlope_le_true (lam range t : ℝ) (hlam : 0 < lam) (hrange : 0 < range) (_ht0 : 0 ≤ t)
    (ht : t < range) : geoFromSlope lam (1 / range) (1 - 1 / range * t) ≤ t := by
  have hs : 0 < 1 - 1 / range * t := by
    have : 1 / range * t < 1 := by rw [one_div, inv_mul_lt_iff₀ hrange]; linarith
    linarith
  rw [geoFromSlope_rpow _ _ _ hs]
  set w := 1 + 1 / (1 / range * lam) with hw
  have hw1 : 1 ≤ w := by
    have : 0 < 1 / (1 / range * lam) := by positivity
    linarith
  have hbern := one_add_mul_self_le_rpow_one_add (s := -(1 / range * t))
    (by
      have : 1 / range * t ≤ 1 := by rw [one_div, inv_mul_le_iff₀ hrange]; linarith
      linarith) hw1
  have e1 : 1 + -(1 / range * t) = 1 - 1 / range * t := by ring
  rw [e1] at hbern
  have hden : 0 < 1 / range * w := by positivity
  rw [div_le_iff₀ hden]
  have : t * (1 / range * w) = w * (1 / range * t) := by ring
  rw [this]
  linarith

/-! ### every exit of MscStepToGeo is defined and non-negative -/

/-- positivity of the inverse range for a positive argument -/
theorem XsGrid.WF.invRange_pos {d : XsGrid ℝ} (w : d.WF) (hp : d.Pos) (hi : d.Incr) {r : ℝ}
    (hr : 0 < r) : ∃ e, d.invRange r = some e ∧ 0 < e := by
  by_cases h : r ≤ d.y (d.size - 1)
  · obtain ⟨e, he, hpos, _⟩ := w.range_invRange hp hi hr h
    exact ⟨e, he, hpos⟩
  · exact ⟨_, w.invRange_above hi (le_of_lt (not_le.mp h)), Real.exp_pos _⟩

theorem mscMfp_pos {mxs : XsGrid ℝ} (wm : mxs.WF) (hpm : mxs.Pos) {e : ℝ} (he : 0 < e) :
    ∃ l, mscMfp floorIdx mxs e = some l ∧ 0 < l := by
  obtain ⟨s, hs, hpos⟩ := calc_pos mxs wm hpm e he
  refine ⟨1 / (s / (e * e)), ?_, by positivity⟩
  unfold mscMfp
  rw [hs]
  simp only [Option.map_some]
  calc_simp

theorem mscDtrl_pos : (0 : ℝ) < mscDtrl := by rw [mscDtrl_real]; norm_num

/-- ★ all four exits of `MscStepToGeo::operator()`: defined, `0 ≤ geom ≤ true` -/
theorem mscStepToGeo_nonneg (expm1 : ℝ → ℝ) (hex : ∀ x, expm1 x = Real.exp x - 1)
    (rng mxs : XsGrid ℝ) (wr : rng.WF) (hpr : rng.Pos) (hir : rng.Incr) (wm : mxs.WF)
    (hpm : mxs.Pos) (emass E lam range t : ℝ) (hlam : 0 < lam) (hrange : 0 < range)
    (ht0 : 0 ≤ t) (ht : t ≤ range) :
    ∃ res, mscStepToGeo floorIdx expm1 rng mxs emass E lam range t = some res ∧
      0 ≤ res.step ∧ res.step ≤ t := by
  by_cases hsmall : t < range * mscDtrl
  · obtain ⟨res, h, _, h0, _⟩ :=
      mscStepToGeo_small expm1 hex rng mxs emass E lam range t hlam ht0 hsmall
    exact ⟨res, h, h0, mscStepToGeo_le _ _ _ _ _ _ _ _ _ h⟩
  · have hbig : range * mscDtrl ≤ t := not_lt.mp hsmall
    have htpos : 0 < t := lt_of_lt_of_le (mul_pos hrange mscDtrl_pos) hbig
    -- it suffices to exhibit the result and show the un-clamped value is non-negative
    suffices hmain : ∃ res, mscStepToGeo floorIdx expm1 rng mxs emass E lam range t = some res ∧
        0 ≤ res.step from by
      obtain ⟨res, h, h0⟩ := hmain
      exact ⟨res, h, h0, mscStepToGeo_le _ _ _ _ _ _ _ _ _ h⟩
    unfold mscStepToGeo
    simp only []
    calc_simp
    by_cases h1 : t < mscMinStep
    · rw [if_pos h1]
      exact ⟨_, rfl, by simp [fmin_real, ht0]⟩
    rw [if_neg h1, if_neg hsmall]
    by_cases h3 : E < emass ∨ t = range
    · rw [if_pos h3]
      refine ⟨_, rfl, ?_⟩
      simp only [fmin_real, fmax_real]
      apply le_min _ ht0
      apply geoFromSlope_nonneg
      have ha : 0 < 1 / range := by positivity
      have hle : max (1 - 1 / range * t) 0 ≤ 1 := by
        apply max_le _ zero_le_one
        have : 0 ≤ 1 / range * t := by positivity
        linarith
      have hlog : Real.log (max (1 - 1 / range * t) 0) ≤ 0 :=
        Real.log_nonpos (le_max_right _ _) hle
      exact mul_nonpos_of_nonneg_of_nonpos (le_of_lt ha) hlog
    · rw [if_neg h3]
      have htr : t < range := lt_of_le_of_ne ht (fun h => h3 (Or.inr h))
      obtain ⟨e, he, hepos⟩ := wr.invRange_pos hpr hir (show 0 < range - t by linarith)
      obtain ⟨l1, hl1, hl1pos⟩ := mscMfp_pos wm hpm hepos
      rw [he]
      simp only []
      rw [hl1]
      refine ⟨_, rfl, ?_⟩
      simp only [fmin_real]
      apply le_min _ ht0
      apply geoFromSlope_nonneg
      -- alpha = (λ − λ₁)/(λ t) and log(λ₁/λ) have opposite signs
      have hden : 0 < lam * t := mul_pos hlam htpos
      rcases le_total l1 lam with hle | hge
      · have h1' : 0 ≤ (lam - l1) / (lam * t) := div_nonneg (by linarith) (le_of_lt hden)
        have h2' : Real.log (l1 / lam) ≤ 0 :=
          Real.log_nonpos (le_of_lt (div_pos hl1pos hlam)) ((div_le_one hlam).mpr hle)
        exact mul_nonpos_of_nonneg_of_nonpos h1' h2'
      · have h1' : (lam - l1) / (lam * t) ≤ 0 := div_nonpos_of_nonpos_of_nonneg (by linarith)
          (le_of_lt hden)
        have h2' : 0 ≤ Real.log (l1 / lam) := Real.log_nonneg ((one_le_div hlam).mpr hge)
        exact mul_nonpos_of_nonpos_of_nonneg h1' h2'

/-- closed form of the range-limited / low-energy exit (Eq. 8.10 with `alpha = 1/range`) for
    `t < range`: the final `min` is inert (Bernoulli) -/
theorem mscStepToGeo_lowEnergy (expm1 : ℝ → ℝ) (rng mxs : XsGrid ℝ) (emass E lam range t : ℝ)
    (hlam : 0 < lam) (hrange : 0 < range) (hmin : mscMinStep ≤ t)
    (hbig : range * mscDtrl ≤ t) (ht : t < range) (hE : E < emass) :
    mscStepToGeo floorIdx expm1 rng mxs emass E lam range t
      = some ⟨(1 - (1 - t / range) ^ (1 + range / lam)) / (1 / range * (1 + range / lam)),
              1 / range⟩ := by
  have ht0 : 0 ≤ t := le_trans (le_of_lt mscMinStep_pos) hmin
  have hs : 0 < 1 - 1 / range * t := by
    have : 1 / range * t < 1 := by rw [one_div, inv_mul_lt_iff₀ hrange]; linarith
    linarith
  unfold mscStepToGeo
  simp only []
  calc_simp
  rw [if_neg (not_lt.mpr hmin), if_neg (not_lt.mpr hbig), if_pos (Or.inl hE)]
  simp only [fmin_real, fmax_real]
  rw [max_eq_left (le_of_lt hs), min_eq_left (geoFromSlope_le_true lam range t hlam hrange ht0 ht),
    geoFromSlope_rpow _ _ _ hs]
  have e1 : 1 - 1 / range * t = 1 - t / range := by ring
  have e2 : 1 + 1 / (1 / range * lam) = 1 + range / lam := by
    field_simp
  rw [e1, e2]

/-! ### the round trip -/

/-- ★ ONE statement over the case split the code makes: whatever exit `MscStepToGeo` takes,
    feeding its geometrical path and its `alpha` back into `MscStepFromGeo` gives a true path
    between that geometrical path and the original true path -/
theorem msc_roundtrip_between' (expm1 log1p : ℝ → ℝ) (rng mxs : XsGrid ℝ)
    (emass E lam range t : ℝ) (res : GeoResult ℝ)
    (h : mscStepToGeo floorIdx expm1 rng mxs emass E lam range t = some res) :
    res.step ≤ mscStepFromGeo log1p t res.alpha range lam res.step ∧
      mscStepFromGeo log1p t res.alpha range lam res.step ≤ t :=
  mscStepFromGeo_between log1p t res.alpha range lam res.step
    (mscStepToGeo_le expm1 rng mxs emass E lam range t res h)

/-- exact round trip, small-step exit (`alpha = 0`): `−λ·log1p(−g/λ)` undoes
    `g = λ(1 − exp(−t/λ))` (when `g` is not below `min_step`, where the code returns `g`) -/
theorem msc_roundtrip_small (log1p : ℝ → ℝ) (hl : ∀ x, log1p x = Real.log (1 + x))
    (lam range t : ℝ) (hlam : 0 < lam)
    (hg : mscMinStep ≤ lam * (1 - Real.exp (-t / lam))) :
    mscStepFromGeo log1p t 0 range lam (lam * (1 - Real.exp (-t / lam))) = t := by
  set g := lam * (1 - Real.exp (-t / lam)) with hgdef
  have hgt : g ≤ t := by
    have h1e : 1 - t / lam ≤ Real.exp (-t / lam) := by
      have := Real.add_one_le_exp (-t / lam)
      have e : -t / lam = -(t / lam) := by ring
      rw [e] at this ⊢
      linarith
    have : g ≤ lam * (t / lam) := by
      rw [hgdef]; exact mul_le_mul_of_nonneg_left (by linarith) (le_of_lt hlam)
    have e : lam * (t / lam) = t := by field_simp
    linarith
  have hval : -lam * log1p (-g / lam) = t := by
    rw [hl]
    have : 1 + -g / lam = Real.exp (-t / lam) := by
      rw [hgdef]; field_simp; ring
    rw [this, Real.log_exp]
    field_simp
  unfold mscStepFromGeo
  simp only []
  calc_simp
  rw [if_neg (not_lt.mpr hg), smallStepAlpha_real, if_pos rfl, hval,
    if_neg (not_lt.mpr (le_trans hg hgt)), clamp_real, if_neg (not_lt.mpr hgt),
    if_neg (lt_irrefl t)]

/-- exact round trip, range-limited / low-energy exit (`alpha = 1/range`, `t < range`) -/
theorem msc_roundtrip_lowEnergy (log1p : ℝ → ℝ) (lam range t : ℝ) (hlam : 0 < lam)
    (hrange : 0 < range) (ht0 : 0 ≤ t) (ht : t < range)
    (hg : mscMinStep ≤ geoFromSlope lam (1 / range) (1 - 1 / range * t)) :
    mscStepFromGeo log1p t (1 / range) range lam
      (geoFromSlope lam (1 / range) (1 - 1 / range * t)) = t := by
  have hs : 0 < 1 - 1 / range * t := by
    have : 1 / range * t < 1 := by rw [one_div, inv_mul_lt_iff₀ hrange]; linarith
    linarith
  have hgt := geoFromSlope_le_true lam range t hlam hrange ht0 ht
  have ha : (1 / range : ℝ) ≠ 0 := by positivity
  set w := 1 + 1 / (1 / range * lam) with hw
  have hwpos : 0 < w := by
    have : 0 < 1 / (1 / range * lam) := by positivity
    linarith
  set s := 1 - 1 / range * t with hsdef
  have hG : geoFromSlope lam (1 / range) s = (1 - Real.exp (w * Real.log s)) / (1 / range * w) :=
    geoFromSlope_real _ _ _
  have hx : 1 / range * w * geoFromSlope lam (1 / range) s = 1 - Real.exp (w * Real.log s) := by
    rw [hG]; field_simp
  have hxle : 1 - Real.exp (w * Real.log s) ≤ 1 := by
    have := Real.exp_pos (w * Real.log s); linarith
  unfold mscStepFromGeo
  simp only []
  simp only [fmin_real, fastpow_real]
  calc_simp
  rw [if_neg (not_lt.mpr hg), smallStepAlpha_real, if_neg ha, ← hw, hx, min_eq_left hxle]
  have h1 : 1 - (1 - Real.exp (w * Real.log s)) = Real.exp (w * Real.log s) := by ring
  rw [h1, Real.log_exp]
  have h2 : 1 / w * (w * Real.log s) = Real.log s := by field_simp
  rw [h2, Real.exp_log hs]
  have h3 : (1 - s) / (1 / range) = t := by rw [hsdef]; field_simp; ring
  rw [h3, min_eq_left (le_of_lt ht), clamp_real, if_neg (not_lt.mpr hgt), if_neg (lt_irrefl t)]

end CelerVerif.Calc
