/- kernel-checked inverse certificate: z^((2^160-1)/5) + 1 is a unit modulo P -/
import CelerVerif.Lemmas.XorwowPeriod

namespace CelerVerif.Xorwow

theorem orderCert_5 : orderCert 5 = true := by decide +kernel

end CelerVerif.Xorwow
