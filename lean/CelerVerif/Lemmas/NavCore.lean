/-
List-level lemmas about the unit-tracker control logic of Model/Nav.lean at ℝ:
order on distances with the +∞ sentinel, `minHit`, `insertHit`/`sortHits`, `firstExit`,
`firstEntered`, and their behaviour under the distance filter of a limited search.
-/
import Mathlib.Order.WithBot
import Mathlib.Data.List.Pairwise
import Mathlib.Tactic.Linarith
import CelerVerif.Num.Real
import CelerVerif.Model.Nav

namespace CelerVerif.Nav
open CelerVerif

/-- distances as `WithTop ℝ` (`none` = +∞) -/
def top : Option ℝ → WithTop ℝ
  | none => ⊤
  | some a => (a : WithTop ℝ)

theorem dlt_iff (a b : Option ℝ) : dlt a b = true ↔ top a < top b := by
  cases a <;> cases b <;> simp [dlt, top]

theorem dle_iff (a b : Option ℝ) : dle a b = true ↔ top a ≤ top b := by
  cases a <;> cases b <;> simp [dle, top]

theorem dlt_false_iff (a b : Option ℝ) : dlt a b = false ↔ top b ≤ top a := by
  rw [← not_lt, ← dlt_iff]; simp

/-- key of a hit -/
def Hit.key (h : Hit ℝ) : WithTop ℝ := top h.dist

/-- `p` is downward closed for the distance order -/
def DownClosed (p : Hit ℝ → Bool) : Prop :=
  ∀ x y : Hit ℝ, x.key ≤ y.key → p y = true → p x = true

theorem downClosed_dle (m : Option ℝ) : DownClosed (fun h => dle h.dist m) := by
  intro x y hxy hy
  rw [dle_iff] at *
  exact le_trans hxy hy

/-! ### minHit -/

theorem minHit_eq_none (l : List (Hit ℝ)) : minHit l = none ↔ l = [] := by
  cases l with
  | nil => simp [minHit]
  | cons h t =>
    simp only [minHit, reduceCtorEq, iff_false]
    cases minHit t with
    | none => simp
    | some m => simp only []; split <;> simp

theorem minHit_mem (l : List (Hit ℝ)) (m : Hit ℝ) (h : minHit l = some m) : m ∈ l := by
  induction l generalizing m with
  | nil => simp [minHit] at h
  | cons x t ih =>
    simp only [minHit] at h
    cases hm : minHit t with
    | none => rw [hm] at h; simp at h; simp [h]
    | some m' =>
      rw [hm] at h; simp only [] at h
      split at h
      · simp at h; subst h; exact List.mem_cons_of_mem _ (ih _ hm)
      · simp at h; simp [h]

/-- the result of `min_element` is a lower bound -/
theorem minHit_le (l : List (Hit ℝ)) (m : Hit ℝ) (h : minHit l = some m) :
    ∀ x ∈ l, m.key ≤ x.key := by
  induction l generalizing m with
  | nil => simp [minHit] at h
  | cons x t ih =>
    simp only [minHit] at h
    cases hm : minHit t with
    | none =>
      rw [hm] at h; simp at h; subst h
      have : t = [] := (minHit_eq_none t).1 hm
      subst this; intro y hy; simp at hy; subst hy; exact le_refl _
    | some m' =>
      rw [hm] at h; simp only [] at h
      have ih' := ih m' hm
      split at h
      · next hlt =>
        simp at h; subst h
        intro y hy
        rcases List.mem_cons.1 hy with rfl | hy
        · exact le_of_lt ((dlt_iff _ _).1 hlt)
        · exact ih' y hy
      · next hlt =>
        simp at h; subst h
        have hle : x.key ≤ m'.key := (dlt_false_iff _ _).1 (by simpa using hlt)
        intro y hy
        rcases List.mem_cons.1 hy with rfl | hy
        · exact le_refl _
        · exact le_trans hle (ih' y hy)

/-- … and the FIRST such element: everything before it is strictly further -/
theorem minHit_first (l : List (Hit ℝ)) (m : Hit ℝ) (h : minHit l = some m) :
    ∃ a b, l = a ++ m :: b ∧ ∀ x ∈ a, m.key < x.key := by
  induction l generalizing m with
  | nil => simp [minHit] at h
  | cons x t ih =>
    simp only [minHit] at h
    cases hm : minHit t with
    | none =>
      rw [hm] at h; simp at h; subst h
      exact ⟨[], t, rfl, by simp⟩
    | some m' =>
      rw [hm] at h; simp only [] at h
      split at h
      · next hlt =>
        simp at h; subst h
        obtain ⟨a, b, hab, hlt'⟩ := ih m' hm
        refine ⟨x :: a, b, by rw [hab]; rfl, ?_⟩
        intro y hy
        rcases List.mem_cons.1 hy with rfl | hy
        · exact (dlt_iff _ _).1 hlt
        · exact hlt' y hy
      · simp at h; subst h; exact ⟨[], t, rfl, by simp⟩

/-- limited search, simple volumes: the minimum of the hits not further than the limit is the
    unlimited minimum if that is within the limit, and nothing otherwise -/
theorem minHit_filter (p : Hit ℝ → Bool) (hp : DownClosed p) (l : List (Hit ℝ)) :
    minHit (l.filter p) = (minHit l).filter p := by
  induction l with
  | nil => simp [minHit]
  | cons h t ih =>
    by_cases hph : p h = true
    · rw [List.filter_cons_of_pos hph]
      simp only [minHit]
      rw [ih]
      cases hm : minHit t with
      | none => simp [Option.filter, hph]
      | some m =>
        by_cases hlt : dlt m.dist h.dist = true
        · have hpm : p m = true := hp m h (le_of_lt ((dlt_iff _ _).1 hlt)) hph
          simp [Option.filter, hpm, hlt]
        · by_cases hpm : p m = true
          · simp [Option.filter, hpm, hlt, hph]
          · simp [Option.filter, hpm, hlt, hph]
    · have hph' : p h = false := by simpa using hph
      rw [List.filter_cons_of_neg (by simpa using hph)]
      rw [ih]
      simp only [minHit]
      cases hm : minHit t with
      | none => simp [Option.filter, hph']
      | some m =>
        by_cases hlt : dlt m.dist h.dist = true
        · simp [hlt]
        · have hle : h.key ≤ m.key := (dlt_false_iff _ _).1 (by simpa using hlt)
          have : p m = false := by
            by_contra hc
            exact hph (hp h m hle (by simpa using hc))
          simp [Option.filter, this, hph', hlt]

/-! ### sorting -/

/-- ascending -/
def Sorted (l : List (Hit ℝ)) : Prop := l.Pairwise fun a b => a.key ≤ b.key

theorem insertHit_mem (h x : Hit ℝ) (l : List (Hit ℝ)) : x ∈ insertHit h l ↔ x = h ∨ x ∈ l := by
  induction l with
  | nil => simp [insertHit]
  | cons y ys ih =>
    simp only [insertHit]
    split
    · simp only [List.mem_cons, ih]; tauto
    · simp

theorem insertHit_sorted (h : Hit ℝ) (l : List (Hit ℝ)) (hs : Sorted l) : Sorted (insertHit h l) := by
  induction l with
  | nil => simp [insertHit, Sorted]
  | cons y ys ih =>
    simp only [insertHit]
    have hs' := List.pairwise_cons.1 hs
    split
    · next hlt =>
      have hyh : y.key ≤ h.key := le_of_lt ((dlt_iff _ _).1 hlt)
      refine List.pairwise_cons.2 ⟨?_, ih hs'.2⟩
      intro z hz
      rcases (insertHit_mem h z ys).1 hz with rfl | hz
      · exact hyh
      · exact hs'.1 z hz
    · next hlt =>
      have hhy : h.key ≤ y.key := (dlt_false_iff _ _).1 (by simpa using hlt)
      refine List.pairwise_cons.2 ⟨?_, hs⟩
      intro z hz
      rcases List.mem_cons.1 hz with rfl | hz
      · exact hhy
      · exact le_trans hhy (hs'.1 z hz)

theorem sortHits_sorted (l : List (Hit ℝ)) : Sorted (sortHits l) := by
  induction l with
  | nil => simp [sortHits, Sorted]
  | cons h t ih => exact insertHit_sorted h _ ih

theorem sortHits_mem (l : List (Hit ℝ)) (x : Hit ℝ) : x ∈ sortHits l ↔ x ∈ l := by
  induction l with
  | nil => simp [sortHits]
  | cons h t ih => simp [sortHits, insertHit_mem, ih]

theorem insertHit_filter (p : Hit ℝ → Bool) (h : Hit ℝ) (l : List (Hit ℝ)) (hs : Sorted l) :
    (insertHit h l).filter p = if p h then insertHit h (l.filter p) else l.filter p := by
  induction l with
  | nil => by_cases hph : p h = true <;> simp [insertHit, hph]
  | cons y ys ih =>
    have hs' := List.pairwise_cons.1 hs
    simp only [insertHit]
    split
    · next hlt =>
      by_cases hpy : p y = true
      · rw [List.filter_cons_of_pos hpy, ih hs'.2, List.filter_cons_of_pos hpy]
        by_cases hph : p h = true
        · simp only [hph, if_true, insertHit]
          rw [if_pos hlt]
        · simp [hph]
      · rw [List.filter_cons_of_neg hpy, ih hs'.2, List.filter_cons_of_neg hpy]
    · next hlt =>
      have hhy : h.key ≤ y.key := (dlt_false_iff _ _).1 (by simpa using hlt)
      by_cases hph : p h = true
      · simp only [hph, if_true, List.filter_cons_of_pos]
        -- the head of the filtered tail is at least y ≥ h
        cases hf : (y :: ys).filter p with
        | nil => simp [insertHit]
        | cons z zs =>
          have hz : z ∈ y :: ys := by
            have : z ∈ (y :: ys).filter p := by rw [hf]; simp
            exact (List.mem_filter.1 this).1
          have hyz : y.key ≤ z.key := by
            rcases List.mem_cons.1 hz with rfl | hz
            · exact le_refl _
            · exact hs'.1 z hz
          have : dlt z.dist h.dist = false :=
            (dlt_false_iff _ _).2 (le_trans hhy hyz)
          simp [insertHit, this]
      · have hph' : p h = false := by simpa using hph
        simp [hph']

/-- the distance filter commutes with the (stable) sort -/
theorem sortHits_filter (p : Hit ℝ → Bool) (l : List (Hit ℝ)) :
    (sortHits l).filter p = sortHits (l.filter p) := by
  induction l with
  | nil => simp [sortHits]
  | cons h t ih =>
    simp only [sortHits]
    rw [insertHit_filter p h _ (sortHits_sorted t), ih]
    by_cases hph : p h = true
    · simp [hph, List.filter_cons_of_pos, sortHits]
    · simp [hph, sortHits]

/-- the first element of the sorted list is the result of `min_element` (first minimal) -/
theorem sortHits_head (l : List (Hit ℝ)) : (sortHits l).head? = minHit l := by
  induction l with
  | nil => rfl
  | cons h t ih =>
    simp only [sortHits, minHit]
    cases hs : sortHits t with
    | nil =>
      rw [hs] at ih; simp only [List.head?_nil] at ih
      rw [← ih]; rfl
    | cons x xs =>
      rw [hs] at ih; simp only [List.head?_cons] at ih
      rw [← ih]
      simp only [insertHit]
      split <;> rfl

/-! ### firstExit / firstEntered -/

/-- crossing one hit flips the sense of its face -/
def flip1 (s : Array Bool) (h : Hit ℝ) : Array Bool :=
  s.setIfInBounds h.face (!(s.getD h.face false))

/-- the sense vector after crossing the given hits in order -/
def flipAll (s : Array Bool) : List (Hit ℝ) → Array Bool
  | [] => s
  | h :: t => flipAll (flip1 s h) t

theorem firstExit_nil (inside : Array Bool → Bool) (s : Array Bool) :
    firstExit inside s ([] : List (Hit ℝ)) = none := rfl

theorem firstExit_cons (inside : Array Bool → Bool) (s : Array Bool) (h : Hit ℝ) (t : List (Hit ℝ)) :
    firstExit inside s (h :: t) =
      if inside (flip1 s h) = false then some (h, s.getD h.face false)
      else firstExit inside (flip1 s h) t := by
  show (if (!inside (flip1 s h)) = true then _ else _) = _
  cases inside (flip1 s h) <;> rfl

theorem flipAll_append (s : Array Bool) (a b : List (Hit ℝ)) :
    flipAll s (a ++ b) = flipAll (flipAll s a) b := by
  induction a generalizing s with
  | nil => rfl
  | cons h t ih => exact ih (flip1 s h)

theorem firstExit_mem (inside : Array Bool → Bool) (s : Array Bool) (l : List (Hit ℝ))
    (r : Hit ℝ × Bool) (h : firstExit inside s l = some r) : r.1 ∈ l := by
  induction l generalizing s with
  | nil => rw [firstExit_nil] at h; exact absurd h (by simp)
  | cons x t ih =>
    rw [firstExit_cons] at h
    split at h
    · have : r = (x, s.getD x.face false) := (Option.some.inj h).symm
      rw [this]; exact List.mem_cons_self
    · exact List.mem_cons_of_mem _ (ih _ h)

/-- characterisation of `firstExit`: it returns the hit of index `a.length` iff the logic is
    true after each of the first `a.length` crossings and false after the next one -/
theorem firstExit_some (inside : Array Bool → Bool) (s : Array Bool) (l : List (Hit ℝ))
    (r : Hit ℝ × Bool) (hr : firstExit inside s l = some r) :
    ∃ a b, l = a ++ r.1 :: b ∧
      (∀ k, k ≠ 0 → k ≤ a.length → inside (flipAll s (l.take k)) = true) ∧
      inside (flipAll s (a ++ [r.1])) = false ∧
      r.2 = (flipAll s a).getD r.1.face false := by
  induction l generalizing s with
  | nil => rw [firstExit_nil] at hr; exact absurd hr (by simp)
  | cons x t ih =>
    rw [firstExit_cons] at hr
    by_cases hin : inside (flip1 s x) = false
    · rw [if_pos hin] at hr
      have : r = (x, s.getD x.face false) := (Option.some.inj hr).symm
      subst this
      refine ⟨[], t, rfl, ?_, ?_, rfl⟩
      · intro k hk0 hkle
        exact absurd (Nat.le_zero.1 hkle) hk0
      · exact hin
    · rw [if_neg hin] at hr
      have hin' : inside (flip1 s x) = true := by simpa using hin
      obtain ⟨a, b, hab, hk, hout, hold⟩ := ih (flip1 s x) hr
      refine ⟨x :: a, b, by rw [hab]; rfl, ?_, ?_, ?_⟩
      · intro k hk0 hkle
        cases k with
        | zero => exact absurd rfl hk0
        | succ k =>
          show inside (flipAll (flip1 s x) (t.take k)) = true
          by_cases hk00 : k = 0
          · subst hk00; exact hin'
          · exact hk k hk00 (by simpa using hkle)
      · exact hout
      · exact hold

theorem firstExit_none (inside : Array Bool → Bool) (s : Array Bool) (l : List (Hit ℝ))
    (hr : firstExit inside s l = none) :
    ∀ k, k ≠ 0 → k ≤ l.length → inside (flipAll s (l.take k)) = true := by
  induction l generalizing s with
  | nil => intro k hk0 hkle; exact absurd (Nat.le_zero.1 hkle) hk0
  | cons x t ih =>
    rw [firstExit_cons] at hr
    by_cases hin : inside (flip1 s x) = false
    · rw [if_pos hin] at hr; exact absurd hr (by simp)
    · rw [if_neg hin] at hr
      have hin' : inside (flip1 s x) = true := by simpa using hin
      intro k hk0 hkle
      cases k with
      | zero => exact absurd rfl hk0
      | succ k =>
        show inside (flipAll (flip1 s x) (t.take k)) = true
        by_cases hk00 : k = 0
        · subst hk00; exact hin'
        · exact ih (flip1 s x) hr k hk00 (by simpa using hkle)

/-- limited search, complex volumes: scanning only the hits not further than the limit gives
    the unlimited exit if it is within the limit, and nothing otherwise -/
theorem firstExit_filter (inside : Array Bool → Bool) (p : Hit ℝ → Bool) (hp : DownClosed p)
    (s : Array Bool) (l : List (Hit ℝ)) (hs : Sorted l) :
    firstExit inside s (l.filter p) = (firstExit inside s l).filter (fun r => p r.1) := by
  induction l generalizing s with
  | nil => rfl
  | cons x t ih =>
    have hs' := List.pairwise_cons.1 hs
    by_cases hpx : p x = true
    · rw [List.filter_cons_of_pos hpx, firstExit_cons, firstExit_cons]
      by_cases hin : inside (flip1 s x) = false
      · rw [if_pos hin, if_pos hin]; simp [Option.filter, hpx]
      · rw [if_neg hin, if_neg hin]; exact ih _ hs'.2
    · have hnone : (x :: t).filter p = [] := by
        rw [List.filter_eq_nil_iff]
        intro y hy
        rcases List.mem_cons.1 hy with rfl | hy
        · exact hpx
        · intro hc; exact hpx (hp x y (hs'.1 y hy) hc)
      rw [hnone, firstExit_nil]
      cases hr : firstExit inside s (x :: t) with
      | none => rfl
      | some r =>
        have hmem := firstExit_mem inside s (x :: t) r hr
        have : p r.1 = false := by
          have := (List.filter_eq_nil_iff.1 hnone) r.1 hmem
          simpa using this
        simp [Option.filter, this]

theorem firstEntered_mem (e : Hit ℝ → Option Bool) (l : List (Hit ℝ)) (r : Hit ℝ × Bool)
    (h : firstEntered e l = some r) : r.1 ∈ l := by
  induction l with
  | nil => simp [firstEntered] at h
  | cons x t ih =>
    simp only [firstEntered] at h
    split at h
    · simp at h; subst h; simp
    · exact List.mem_cons_of_mem _ (ih h)

theorem firstEntered_filter (e : Hit ℝ → Option Bool) (p : Hit ℝ → Bool) (hp : DownClosed p)
    (l : List (Hit ℝ)) (hs : Sorted l) :
    firstEntered e (l.filter p) = (firstEntered e l).filter (fun r => p r.1) := by
  induction l with
  | nil => simp [firstEntered]
  | cons x t ih =>
    have hs' := List.pairwise_cons.1 hs
    by_cases hpx : p x = true
    · rw [List.filter_cons_of_pos hpx]
      simp only [firstEntered]
      split
      · simp [Option.filter, hpx]
      · exact ih hs'.2
    · have hnone : (x :: t).filter p = [] := by
        rw [List.filter_eq_nil_iff]
        intro y hy
        rcases List.mem_cons.1 hy with rfl | hy
        · exact hpx
        · intro hc; exact hpx (hp x y (hs'.1 y hy) hc)
      rw [hnone]
      show none = _
      cases hr : firstEntered e (x :: t) with
      | none => rfl
      | some r =>
        have hmem := firstEntered_mem e (x :: t) r hr
        have : p r.1 = false := by
          have := (List.filter_eq_nil_iff.1 hnone) r.1 hmem
          simpa using this
        simp [Option.filter, this]

end CelerVerif.Nav
