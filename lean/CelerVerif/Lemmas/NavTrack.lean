/-
Lemmas about the tracker / track-view logic of Model/Nav.lean at ℝ:
limited search = truncated unlimited search, the level loop of `find_next_step_impl`,
the `set_dir` boundary flag, and single-level ray tracing against point location.
-/
import CelerVerif.Lemmas.NavCore
import CelerVerif.Lemmas.SurfSolver

namespace CelerVerif.Nav
open CelerVerif CelerVerif.Surf
noncomputable section

/-! ### limited search = truncated unlimited search (unit tracker) -/

/-- the unlimited answer truncated at the limit `m` -/
def truncate (m : Option ℝ) (r : Isect ℝ) : Isect ℝ :=
  if r.surf.id.isSome && dle r.dist m then r else Isect.none'

theorem truncate_none (m : Option ℝ) : truncate m Isect.none' = Isect.none' := by
  simp [truncate, Isect.none']

/-- with a finite limit below `max()`, the limited validity test is the unlimited one followed
    by the distance filter -/
theorem ok_limited (m : ℝ) (hm : m < (maxFinite : ℝ)) (d : Option ℝ) :
    (Valid.notFurther (some m)).ok d = ((Valid.finite : Valid ℝ).ok d && dle d (some m)) := by
  cases d with
  | none => simp [Valid.ok, dle]
  | some x =>
    simp only [Valid.ok, dle]
    by_cases hx : x ≤ m
    · have h1 : Num.le x m = true := by rw [NumR.le_real]; exact hx
      have h2 : Num.lt x (maxFinite : ℝ) = true := by rw [NumR.lt_real]; exact lt_of_le_of_lt hx hm
      simp [h1, h2]
    · have h1 : Num.le x m = false := by rw [NumR.le_real_false]; exact not_le.1 hx
      simp [h1]

theorem hitsOfFace_limited (m : ℝ) (hm : m < (maxFinite : ℝ)) (i : ℕ)
    (f : Option (List (Option ℝ))) :
    hitsOfFace (.notFurther (some m)) i f
      = (hitsOfFace .finite i f).filter (fun h => dle h.dist (some m)) := by
  cases f with
  | none => rfl
  | some ds =>
    simp only [hitsOfFace]
    induction ds with
    | nil => rfl
    | cons d t ih =>
      simp only [List.filter_cons, ok_limited m hm d]
      by_cases h1 : (Valid.finite : Valid ℝ).ok d = true
      · by_cases h2 : dle d (some m) = true
        · simp [h1, h2, ih]
        · simp [h1, h2, ih]
      · simp [h1, ih]

theorem gatherHitsFrom_limited (m : ℝ) (hm : m < (maxFinite : ℝ)) (i : ℕ)
    (pf : List (Option (List (Option ℝ)))) :
    gatherHitsFrom (.notFurther (some m)) i pf
      = (gatherHitsFrom .finite i pf).filter (fun h => dle h.dist (some m)) := by
  induction pf generalizing i with
  | nil => rfl
  | cons f fs ih =>
    simp only [gatherHitsFrom, List.filter_append, hitsOfFace_limited m hm, ih]

theorem pickSimple_filter (u : SimpleUnit ℝ) (st : LocalState ℝ) (vol : Volume ℝ)
    (m : Option ℝ) (hits : List (Hit ℝ)) :
    u.pickSimple st vol (hits.filter fun h => dle h.dist m) = truncate m (u.pickSimple st vol hits) := by
  unfold SimpleUnit.pickSimple
  rw [minHit_filter _ (downClosed_dle m)]
  cases hmin : minHit hits with
  | none => simp [Option.filter, truncate_none]
  | some h =>
    by_cases hph : dle h.dist m = true
    · simp [Option.filter, hph, truncate]
    · have hph' : dle h.dist m = false := by simpa using hph
      simp [Option.filter, hph', truncate]

theorem pickComplex_filter (u : SimpleUnit ℝ) (st : LocalState ℝ) (vol : Volume ℝ)
    (m : Option ℝ) (sorted : List (Hit ℝ)) (hs : Sorted sorted) :
    u.pickComplex st vol (sorted.filter fun h => dle h.dist m)
      = truncate m (u.pickComplex st vol sorted) := by
  unfold SimpleUnit.pickComplex
  rw [firstExit_filter _ _ (downClosed_dle m) _ _ hs]
  cases hfe : firstExit (evalLogic vol.logic)
      (calcSenses u vol st.pos (toOnFace vol st.surface)).1 sorted with
  | none => simp [Option.filter, truncate_none]
  | some r =>
    obtain ⟨h, old⟩ := r
    by_cases hph : dle h.dist m = true
    · simp [Option.filter, hph, truncate]
    · have hph' : dle h.dist m = false := by simpa using hph
      simp [Option.filter, hph', truncate]

theorem pickBackground_filter (g : Geo ℝ) (u : SimpleUnit ℝ) (st : LocalState ℝ)
    (m : Option ℝ) (sorted : List (Hit ℝ)) (hs : Sorted sorted) :
    u.pickBackground g st (sorted.filter fun h => dle h.dist m)
      = truncate m (u.pickBackground g st sorted) := by
  unfold SimpleUnit.pickBackground
  rw [firstEntered_filter _ _ (downClosed_dle m) _ hs]
  cases hfe : firstEntered (bgEntered g u st) sorted with
  | none => simp [Option.filter, truncate_none]
  | some r =>
    obtain ⟨h, sn⟩ := r
    by_cases hph : dle h.dist m = true
    · simp [Option.filter, hph, truncate]
    · have hph' : dle h.dist m = false := by simpa using hph
      simp [Option.filter, hph', truncate]

/-- the `isEmpty` shortcut of `intersect_impl` is redundant -/
theorem pickHit_eq (g : Geo ℝ) (u : SimpleUnit ℝ) (st : LocalState ℝ) (vol : Volume ℝ)
    (hits : List (Hit ℝ)) :
    u.pickHit g st vol hits =
      if vol.simpleIntersection then u.pickSimple st vol hits
      else if vol.internalSurfaces then u.pickComplex st vol (sortHits hits)
      else u.pickBackground g st (sortHits hits) := by
  unfold SimpleUnit.pickHit
  cases hits with
  | nil =>
    simp only [List.isEmpty_nil, if_true, sortHits, SimpleUnit.pickSimple, SimpleUnit.pickComplex,
      SimpleUnit.pickBackground, minHit, firstExit, firstEntered]
    split <;> [rfl; (split <;> rfl)]
  | cons x t => simp only [List.isEmpty_cons, Bool.false_eq_true, if_false]

/-- the choice among the hits not further than the limit is the truncated choice among all -/
theorem pickHit_filter (g : Geo ℝ) (u : SimpleUnit ℝ) (st : LocalState ℝ) (vol : Volume ℝ)
    (m : Option ℝ) (hits : List (Hit ℝ)) :
    u.pickHit g st vol (hits.filter fun h => dle h.dist m) = truncate m (u.pickHit g st vol hits) := by
  rw [pickHit_eq, pickHit_eq]
  by_cases hsimple : vol.simpleIntersection = true
  · simp only [hsimple, if_true]; exact pickSimple_filter u st vol m hits
  · simp only [hsimple, Bool.false_eq_true, if_false]
    rw [← sortHits_filter]
    by_cases hint : vol.internalSurfaces = true
    · simp only [hint, if_true]; exact pickComplex_filter u st vol m _ (sortHits_sorted hits)
    · simp only [hint, Bool.false_eq_true, if_false]
      exact pickBackground_filter g u st m _ (sortHits_sorted hits)

/-! ### the level loop of find_next_step_impl -/

/-- the distance a level contributes (`+∞` when it finds no surface) -/
def found (r : Isect ℝ) : WithTop ℝ := if r.surf.id.isSome then top r.dist else ⊤

/-- contract of a per-level limited search w.r.t. the unlimited one: found within the limit ⇒
    the unlimited answer; otherwise "no surface, distance = limit" -/
def LimitedOf (lim : ℕ → Option ℝ → Isect ℝ) (unl : ℕ → Isect ℝ) : Prop :=
  ∀ lev m, lim lev m =
    if (unl lev).surf.id.isSome && dle (unl lev).dist m then unl lev
    else { (Isect.none' : Isect ℝ) with dist := m }

theorem findImplLoopG_spec (lim : ℕ → Option ℝ → Isect ℝ) (unl : ℕ → Isect ℝ)
    (hc : LimitedOf lim unl) (ls : List ℕ) (i0 : Isect ℝ) (l0 : ℕ) :
    let r := findImplLoopG lim ls i0 l0
    -- (a) the result is the minimum over the start value and all levels
    (top r.1.dist ≤ top i0.dist ∧ ∀ l ∈ ls, top r.1.dist ≤ found (unl l)) ∧
    -- (b) it is attained: either nothing beat the start value …
    ((r = (i0, l0) ∧ ∀ l ∈ ls, top i0.dist ≤ found (unl l)) ∨
    -- … or it is the unlimited answer of the FIRST level attaining the minimum
     (∃ a l b, ls = a ++ l :: b ∧ r = (unl l, l) ∧ (unl l).surf.id.isSome = true ∧
        top (unl l).dist < top i0.dist ∧ (∀ l' ∈ a, top (unl l).dist < found (unl l')) ∧
        ∀ l' ∈ b, top (unl l).dist ≤ found (unl l'))) := by
  induction ls generalizing i0 l0 with
  | nil => simp [findImplLoopG]
  | cons lev rest ih =>
    simp only [findImplLoopG]
    rw [hc lev i0.dist]
    by_cases hf : ((unl lev).surf.id.isSome && dle (unl lev).dist i0.dist) = true
    · -- found within the current best
      rw [if_pos hf]
      have hboth : (unl lev).surf.id.isSome = true ∧ dle (unl lev).dist i0.dist = true := by
        simpa using hf
      have hsome : (unl lev).surf.id.isSome = true := hboth.1
      have hle : top (unl lev).dist ≤ top i0.dist := (dle_iff _ _).1 hboth.2
      by_cases hlt : dlt (unl lev).dist i0.dist = true
      · rw [if_pos hlt]
        have hlt' := (dlt_iff _ _).1 hlt
        have ih' := ih (unl lev) lev
        obtain ⟨⟨h1, h2⟩, h3⟩ := ih'
        refine ⟨⟨le_trans h1 (le_of_lt hlt'), ?_⟩, ?_⟩
        · intro l hl
          rcases List.mem_cons.1 hl with rfl | hl
          · simpa [found, hsome] using h1
          · exact h2 l hl
        · right
          rcases h3 with ⟨hr, hall⟩ | ⟨a, l, b, hab, hr, hs, hlt2, ha, hb⟩
          · exact ⟨[], lev, rest, rfl, hr, hsome, hlt', by simp, hall⟩
          · refine ⟨lev :: a, l, b, by rw [hab]; rfl, hr, hs, lt_trans hlt2 hlt', ?_, hb⟩
            intro l' hl'
            rcases List.mem_cons.1 hl' with rfl | hl'
            · simpa [found, hsome] using hlt2
            · exact ha l' hl'
      · rw [if_neg hlt]
        have hge : top i0.dist ≤ top (unl lev).dist := (dlt_false_iff _ _).1 (by simpa using hlt)
        obtain ⟨⟨h1, h2⟩, h3⟩ := ih i0 l0
        refine ⟨⟨h1, ?_⟩, ?_⟩
        · intro l hl
          rcases List.mem_cons.1 hl with rfl | hl
          · simpa [found, hsome] using le_trans h1 hge
          · exact h2 l hl
        · rcases h3 with ⟨hr, hall⟩ | ⟨a, l, b, hab, hr, hs, hlt2, ha, hb⟩
          · left
            refine ⟨hr, ?_⟩
            intro l hl
            rcases List.mem_cons.1 hl with rfl | hl
            · simpa [found, hsome] using hge
            · exact hall l hl
          · right
            refine ⟨lev :: a, l, b, by rw [hab]; rfl, hr, hs, hlt2, ?_, hb⟩
            intro l' hl'
            rcases List.mem_cons.1 hl' with rfl | hl'
            · simpa [found, hsome] using lt_of_lt_of_le hlt2 hge
            · exact ha l' hl'
    · -- not found within the current best: the limited search answers (none, limit)
      rw [if_neg hf]
      have hnlt : dlt ({ (Isect.none' : Isect ℝ) with dist := i0.dist }).dist i0.dist = false := by
        rw [dlt_false_iff]
      rw [if_neg (by rw [hnlt]; simp)]
      have hge : top i0.dist ≤ found (unl lev) := by
        unfold found
        by_cases hs : (unl lev).surf.id.isSome = true
        · rw [if_pos hs]
          have hd : ¬ dle (unl lev).dist i0.dist = true := by
            intro hcon
            exact hf (by simp [hs, hcon])
          have := (dle_iff (unl lev).dist i0.dist).not.1 hd
          exact le_of_lt (not_le.1 this)
        · rw [if_neg hs]; exact le_top
      obtain ⟨⟨h1, h2⟩, h3⟩ := ih i0 l0
      refine ⟨⟨h1, ?_⟩, ?_⟩
      · intro l hl
        rcases List.mem_cons.1 hl with rfl | hl
        · exact le_trans h1 hge
        · exact h2 l hl
      · rcases h3 with ⟨hr, hall⟩ | ⟨a, l, b, hab, hr, hs, hlt2, ha, hb⟩
        · left
          refine ⟨hr, ?_⟩
          intro l hl
          rcases List.mem_cons.1 hl with rfl | hl
          · exact hge
          · exact hall l hl
        · right
          refine ⟨lev :: a, l, b, by rw [hab]; rfl, hr, hs, hlt2, ?_, hb⟩
          intro l' hl'
          rcases List.mem_cons.1 hl' with rfl | hl'
          · exact lt_of_lt_of_le hlt2 hge
          · exact ha l' hl'

/-! ### set_dir -/

theorem dot_rotUp (t : Transform ℝ) (n d : Vec3 ℝ) :
    Vec3.dot (t.rotUp n) d = Vec3.dot n (t.rotDown d) := by
  cases t with
  | none => rfl
  | translation _ => rfl
  | transformation tr =>
    simp only [Transform.rotUp, Transform.rotDown, Transformation.rotUp, Transformation.rotDown,
      gemv, gemvT, Mat3.row, Vec3.get, Vec3R.dot_real]
    num_simp
    ring

/-- the global direction `d` expressed in the frame of level `k`: rotated down through the
    levels `0 … k-1` -/
def dirAtLevel (g : Geo ℝ) (s : State ℝ) : ℕ → Vec3 ℝ → Vec3 ℝ
  | 0, d => d
  | k + 1, d => (levelTransform g s k).rotDown (dirAtLevel g s k d)

theorem dot_rotateUpFrom (g : Geo ℝ) (s : State ℝ) (k : ℕ) (n d : Vec3 ℝ) :
    Vec3.dot (rotateUpFrom g s k n) d = Vec3.dot n (dirAtLevel g s k d) := by
  induction k generalizing n with
  | zero => rfl
  | succ k ih =>
    simp only [rotateUpFrom, dirAtLevel]
    rw [ih, dot_rotUp]

/-- the rotations above the surface level composed explicitly: `R₀ (R₁ (… R_{k-1} n))`, the
    daughter-to-parent rotation of level `k-1` applied FIRST and that of level 0 LAST -/
def normalUp (g : Geo ℝ) (s : State ℝ) (k : ℕ) (n : Vec3 ℝ) : Vec3 ℝ :=
  (List.range k).foldr (fun j v => (levelTransform g s j).rotUp v) n

theorem rotateUpFrom_eq_normalUp (g : Geo ℝ) (s : State ℝ) (k : ℕ) (n : Vec3 ℝ) :
    rotateUpFrom g s k n = normalUp g s k n := by
  induction k generalizing n with
  | zero => rfl
  | succ k ih =>
    show rotateUpFrom g s k ((levelTransform g s k).rotUp n) = _
    rw [ih]
    unfold normalUp
    rw [List.range_succ, List.foldr_append]
    rfl

/-- the REVERSED composition `R_{k-1} (… R₁ (R₀ n))` (levels visited in ascending order: what a
    rotate-up loop without `.step(-1)` computes) -/
def normalUpAscending (g : Geo ℝ) (s : State ℝ) (k : ℕ) (n : Vec3 ℝ) : Vec3 ℝ :=
  (List.range k).foldl (fun v j => (levelTransform g s j).rotUp v) n

/-- `set_dir`'s flag with the rotations composed in the reversed order -/
def setDirFlipsAscending (g : Geo ℝ) (s : State ℝ) (newdir : Vec3 ℝ) (sl : ℕ) : Bool :=
  let normal := normalUpAscending g s sl (localNormal g s sl)
  let old := (s.lev 0).dir
  (Num.ge (Vec3.dot normal newdir) (Num.ofNat 0)) != (Num.ge (Vec3.dot normal old) (Num.ofNat 0))

/-- `set_dir`'s flag with the normal evaluated at the GLOBAL position instead of the local
    position of the surface level -/
def setDirFlipsGlobalPos (g : Geo ℝ) (s : State ℝ) (newdir : Vec3 ℝ) (sl : ℕ) : Bool :=
  let normal := rotateUpFrom g s sl (g.normal (s.lev sl).uid (s.lev 0).pos (s.surf.getD 0))
  let old := (s.lev 0).dir
  (Num.ge (Vec3.dot normal newdir) (Num.ofNat 0)) != (Num.ge (Vec3.dot normal old) (Num.ofNat 0))

/-! ### single-level ray trace vs point location (events with parity semantics) -/

/-- `firstExit` also returning the sense vector after the exit and the remaining events -/
def exitRest (inside : Array Bool → Bool) :
    Array Bool → List (Hit ℝ) → Option (Hit ℝ × Array Bool × List (Hit ℝ))
  | _, [] => none
  | s, h :: t =>
    if inside (flip1 s h) = false then some (h, flip1 s h, t) else exitRest inside (flip1 s h) t

theorem exitRest_fst (inside : Array Bool → Bool) (s : Array Bool) (l : List (Hit ℝ)) :
    (exitRest inside s l).map (·.1) = (firstExit inside s l).map (·.1) := by
  induction l generalizing s with
  | nil => rfl
  | cons h t ih =>
    rw [firstExit_cons]
    simp only [exitRest]
    by_cases hin : inside (flip1 s h) = false
    · simp [hin]
    · simp only [hin, if_false]; exact ih _

theorem exitRest_length (inside : Array Bool → Bool) (s : Array Bool) (l : List (Hit ℝ))
    (r : Hit ℝ × Array Bool × List (Hit ℝ)) (h : exitRest inside s l = some r) :
    r.2.2.length < l.length := by
  induction l generalizing s with
  | nil => simp [exitRest] at h
  | cons x t ih =>
    simp only [exitRest] at h
    by_cases hin : inside (flip1 s x) = false
    · simp only [hin, if_true] at h
      have : r = (x, flip1 s x, t) := (Option.some.inj h).symm
      subst this; simp
    · simp only [hin, if_false] at h
      have := ih _ h
      simp only [List.length_cons]; omega

/-- the navigator on one level: from the sense vector `cur` (the open interval we are in) and
    the remaining crossing events, repeatedly (find_next_step = `firstExit` with the logic of
    the current volume; cross_boundary = the volume whose logic holds just behind the exit).
    `loc senses` is the volume whose logic is true for `senses` (volumes partition the sense
    vectors).  Output: (volume entered, distance of the crossing). -/
def navTrace (loc : Array Bool → ℕ) : ℕ → Array Bool → List (Hit ℝ) → List (ℕ × Option ℝ)
  | 0, _, _ => []
  | fuel + 1, cur, evs =>
    match exitRest (fun s => loc s == loc cur) cur evs with
    | none => []
    | some (h, s', rest) => (loc s', h.dist) :: navTrace loc fuel s' rest

/-- independent point location along the ray: on every open interval between consecutive
    events the senses are the start senses flipped once per event passed (parity semantics);
    a crossing is reported wherever the located volume changes (`v` = volume located on the
    current interval) -/
def locTrace (loc : Array Bool → ℕ) : ℕ → Array Bool → List (Hit ℝ) → List (ℕ × Option ℝ)
  | _, _, [] => []
  | v, s, h :: t =>
    if loc (flip1 s h) == v then locTrace loc v (flip1 s h) t
    else (loc (flip1 s h), h.dist) :: locTrace loc (loc (flip1 s h)) (flip1 s h) t

theorem locTrace_exitRest (loc : Array Bool → ℕ) (v : ℕ) (cur : Array Bool) (evs : List (Hit ℝ)) :
    locTrace loc v cur evs =
      match exitRest (fun s => loc s == v) cur evs with
      | none => []
      | some (h, s', rest) => (loc s', h.dist) :: locTrace loc (loc s') s' rest := by
  induction evs generalizing cur with
  | nil => rfl
  | cons h t ih =>
    simp only [locTrace, exitRest]
    by_cases hin : (loc (flip1 cur h) == v) = true
    · simp only [hin, if_true, Bool.true_eq_false, if_false]
      exact ih _
    · have hin' : (loc (flip1 cur h) == v) = false := by simpa using hin
      simp [hin']

theorem navTrace_eq_locTrace (loc : Array Bool → ℕ) (fuel : ℕ) (cur : Array Bool)
    (evs : List (Hit ℝ)) (hf : evs.length ≤ fuel) :
    navTrace loc fuel cur evs = locTrace loc (loc cur) cur evs := by
  induction fuel generalizing cur evs with
  | zero =>
    have : evs = [] := List.length_eq_zero_iff.1 (Nat.le_zero.1 hf)
    subst this; rfl
  | succ fuel ih =>
    rw [locTrace_exitRest]
    simp only [navTrace]
    cases he : exitRest (fun s => loc s == loc cur) cur evs with
    | none => rfl
    | some r =>
      obtain ⟨h, s', rest⟩ := r
      have hlen := exitRest_length _ _ _ _ he
      simp only []
      rw [ih s' rest (by simp only [] at hlen; omega)]

theorem locTrace_length (loc : Array Bool → ℕ) (v : ℕ) (s : Array Bool) (evs : List (Hit ℝ)) :
    (locTrace loc v s evs).length ≤ evs.length := by
  induction evs generalizing v s with
  | nil => simp [locTrace]
  | cons h t ih =>
    simp only [locTrace]
    split
    · exact le_trans (ih _ _) (by simp)
    · simp only [List.length_cons]; exact Nat.succ_le_succ (ih _ _)

end
end CelerVerif.Nav
