/- Helper lemmas for C18: `make_heap`, `pop_heap`, `sort_heap`, `heapsort`. -/
import CelerVerif.Lemmas.AlgoHeap

namespace CelerVerif.Algo
variable {α : Type} [Inhabited α]

/-! ### make_heap -/

theorem makeHeapLoop_size (lt : α → α → Bool) (n : Nat) (a : Array α) (s : Nat) :
    (makeHeapLoop lt n a s).size = a.size := by
  induction s generalizing a with
  | zero => exact siftDown_size ..
  | succ s ih => unfold makeHeapLoop; rw [ih, siftDown_size]

theorem makeHeapLoop_perm (lt : α → α → Bool) (n : Nat) (a : Array α) (s : Nat)
    (hn : n ≤ a.size) : (makeHeapLoop lt n a s).Perm a := by
  induction s generalizing a with
  | zero => exact siftDown_perm lt a n 0 hn
  | succ s ih =>
    unfold makeHeapLoop
    exact (ih _ (by rw [siftDown_size]; exact hn)).trans (siftDown_perm lt a n (s + 1) hn)

theorem makeHeapLoop_frame (lt : α → α → Bool) (n : Nat) (a : Array α) (s : Nat) (i : Nat)
    (hi : n ≤ i) : (makeHeapLoop lt n a s)[i]! = a[i]! := by
  induction s generalizing a with
  | zero => exact siftDown_frame lt a n 0 i hi
  | succ s ih => unfold makeHeapLoop; rw [ih, siftDown_frame lt a n (s + 1) i hi]

theorem makeHeapLoop_heap (lt : α → α → Bool) (h : StrictWeakOrder lt) (n : Nat) (a : Array α)
    (s : Nat) (hn : n ≤ a.size) (hh : HeapFrom lt a n (s + 1)) :
    HeapFrom lt (makeHeapLoop lt n a s) n 0 := by
  induction s generalizing a with
  | zero => exact siftDown_heap lt h a n 0 hn hh
  | succ s ih =>
    unfold makeHeapLoop
    exact ih _ (by rw [siftDown_size]; exact hn) (siftDown_heap lt h a n (s + 1) hn hh)

theorem makeHeap_size (lt : α → α → Bool) (a : Array α) (n : Nat) :
    (makeHeap lt a n).size = a.size := by
  unfold makeHeap; split
  · exact makeHeapLoop_size ..
  · rfl

theorem makeHeap_perm (lt : α → α → Bool) (a : Array α) (n : Nat) (hn : n ≤ a.size) :
    (makeHeap lt a n).Perm a := by
  unfold makeHeap; split
  · exact makeHeapLoop_perm lt n a _ hn
  · exact Array.Perm.refl _

theorem makeHeap_frame (lt : α → α → Bool) (a : Array α) (n : Nat) (i : Nat) (hi : n ≤ i) :
    (makeHeap lt a n)[i]! = a[i]! := by
  unfold makeHeap; split
  · exact makeHeapLoop_frame lt n a _ i hi
  · rfl

theorem makeHeap_heap (lt : α → α → Bool) (h : StrictWeakOrder lt) (a : Array α) (n : Nat)
    (hn : n ≤ a.size) : HeapFrom lt (makeHeap lt a n) n 0 := by
  unfold makeHeap; split
  · apply makeHeapLoop_heap lt h n a _ hn
    intro i hi0 hil hp
    omega
  · intro i hi0 hil hp
    omega

/-- the root of a heap is not less than any element of the heap -/
theorem heap_root_max (lt : α → α → Bool) (h : StrictWeakOrder lt) (a : Array α) (len : Nat)
    (hh : HeapFrom lt a len 0) (i : Nat) (hi : i < len) : lt a[0]! a[i]! = false := by
  induction i using Nat.strongRecOn with
  | _ i ih =>
    by_cases h0 : i = 0
    · subst h0; exact h.irrefl _
    · have hp := ih ((i - 1) / 2) (by omega) (by omega)
      have hc := hh i (by omega) hi (Nat.zero_le _)
      exact h.le_trans hc hp

/-! ### pop_heap / sort_heap -/

theorem popHeap_size (lt : α → α → Bool) (a : Array α) (len : Nat) :
    (popHeap lt a len).size = a.size := by
  unfold popHeap; split
  · rw [siftDown_size]; simp
  · rfl

theorem popHeap_perm (lt : α → α → Bool) (a : Array α) (len : Nat) (hl : len ≤ a.size) :
    (popHeap lt a len).Perm a := by
  unfold popHeap; split
  · have hsz : (a.swapIfInBounds 0 (len - 1)).size = a.size := by simp
    exact (siftDown_perm lt _ (len - 1) 0 (by omega)).trans
      (swap_perm a 0 (len - 1) (by omega) (by omega))
  · exact Array.Perm.refl _

theorem sortHeap_size (lt : α → α → Bool) (a : Array α) (n : Nat) :
    (sortHeap lt a n).size = a.size := by
  induction n generalizing a with
  | zero => rfl
  | succ n ih =>
    unfold sortHeap; split
    · rw [ih, popHeap_size]
    · rfl

theorem sortHeap_perm (lt : α → α → Bool) (a : Array α) (n : Nat) (hn : n ≤ a.size) :
    (sortHeap lt a n).Perm a := by
  induction n generalizing a with
  | zero => exact Array.Perm.refl _
  | succ n ih =>
    unfold sortHeap; split
    · exact (ih _ (by rw [popHeap_size]; omega)).trans (popHeap_perm lt a (n + 1) hn)
    · exact Array.Perm.refl _

/-- invariant of `sort_heap`: `[0,n)` is a heap, `[n, size)` is sorted and bounds `[0,n)` from
    above -/
structure SortInv (lt : α → α → Bool) (a : Array α) (n : Nat) : Prop where
  hn : n ≤ a.size
  heap : HeapFrom lt a n 0
  suffix : ∀ i j, n ≤ i → i < j → j < a.size → lt a[j]! a[i]! = false
  bound : ∀ i j, i < n → n ≤ j → j < a.size → lt a[j]! a[i]! = false

theorem popHeap_inv (lt : α → α → Bool) (h : StrictWeakOrder lt) (a : Array α) (n : Nat)
    (hn1 : 1 ≤ n) (inv : SortInv lt a (n + 1)) : SortInv lt (popHeap lt a (n + 1)) n := by
  obtain ⟨hn, heap, suffix, bound⟩ := inv
  have hroot := heap_root_max lt h a (n + 1) heap
  unfold popHeap
  rw [if_pos (by omega)]
  simp only [Nat.add_sub_cancel]
  have h0s : 0 < a.size := by omega
  have hns : n < a.size := by omega
  have hsw : ∀ k, (a.swapIfInBounds 0 n)[k]! =
      if k = 0 then a[n]! else if k = n then a[0]! else a[k]! := fun k => get_swap a 0 n k h0s hns
  have hsz : (a.swapIfInBounds 0 n).size = a.size := by simp
  -- heap condition below the root survives the swap
  have hh1 : HeapFrom lt (a.swapIfInBounds 0 n) n 1 := by
    intro i hi0 hil hp
    rw [hsw, hsw, if_neg (by omega), if_neg (by omega), if_neg (by omega), if_neg (by omega)]
    exact heap i hi0 (by omega) (Nat.zero_le _)
  -- every element of the new prefix is bounded by every element of the new suffix
  have hP : ∀ i, i < n → ∀ j, n ≤ j → j < a.size →
      lt (a.swapIfInBounds 0 n)[j]! (a.swapIfInBounds 0 n)[i]! = false := by
    intro i hi j hj1 hj2
    rw [hsw, hsw]
    by_cases hjn : j = n
    · rw [if_neg (by omega), if_pos hjn]
      by_cases hi0 : i = 0
      · rw [if_pos hi0]; exact hroot n (by omega)
      · rw [if_neg hi0, if_neg (by omega)]; exact hroot i (by omega)
    · rw [if_neg (by omega), if_neg hjn]
      by_cases hi0 : i = 0
      · rw [if_pos hi0]; exact bound n j (by omega) (by omega) hj2
      · rw [if_neg hi0, if_neg (by omega)]; exact bound i j (by omega) (by omega) hj2
  refine ⟨by rw [siftDown_size, hsz]; omega, siftDown_heap lt h _ n 0 (by omega) hh1, ?_, ?_⟩
  · intro i j hi hij hj
    rw [siftDown_size, hsz] at hj
    rw [siftDown_frame lt _ n 0 j (by omega), siftDown_frame lt _ n 0 i hi, hsw, hsw]
    rw [if_neg (by omega), if_neg (by omega), if_neg (by omega)]
    by_cases hin : i = n
    · rw [if_pos hin]; exact bound 0 j (by omega) (by omega) hj
    · rw [if_neg hin]; exact suffix i j (by omega) hij hj
  · intro i j hi hj1 hj2
    rw [siftDown_size, hsz] at hj2
    rw [siftDown_frame lt _ n 0 j hj1]
    exact siftDown_forall lt _ n 0 (by omega)
      (fun x => lt (a.swapIfInBounds 0 n)[j]! x = false) (fun k hk => hP k hk j hj1 hj2) i hi

theorem sortHeap_sorted (lt : α → α → Bool) (h : StrictWeakOrder lt) (a : Array α) (n : Nat)
    (inv : SortInv lt a n) : SortedBy lt (sortHeap lt a n) := by
  induction n generalizing a with
  | zero =>
    intro i j hij hj
    exact inv.suffix i j (Nat.zero_le _) hij hj
  | succ n ih =>
    unfold sortHeap
    split
    · exact ih _ (popHeap_inv lt h a n (by omega) inv)
    · have hn0 : n = 0 := by omega
      subst hn0
      intro i j hij hj
      by_cases hi : i = 0
      · subst hi; exact inv.bound 0 j (by omega) (by omega) hj
      · exact inv.suffix i j (by omega) hij hj

/-! ### heapsort -/

theorem partialSortLoop_done (lt : α → α → Bool) (middle last : Nat) (a : Array α) (i : Nat)
    (h : last ≤ i) : partialSortLoop lt middle last a i = a := by
  unfold partialSortLoop
  rw [if_neg (by omega)]

theorem heapsort_eq (lt : α → α → Bool) (a : Array α) :
    heapsort lt a = sortHeap lt (makeHeap lt a a.size) a.size := by
  unfold heapsort partialSort
  simp only [makeHeap_size]
  rw [partialSortLoop_done lt _ _ _ _ (Nat.le_refl _)]

end CelerVerif.Algo
