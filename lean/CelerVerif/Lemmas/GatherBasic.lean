/- Helper lemmas for Props/C17 (step gathering, compaction, calorimeter, diagnostics). -/
import CelerVerif.Model.Gather
import Mathlib.Data.List.Induction

namespace CelerVerif.Gather
variable {α : Type} [DepVal α]

/-! ### launching: thread → slot indirection -/

theorem launch_cons {ρ σ : Type} (f : ρ → σ → σ) (reads : Nat → ρ) (a : Nat) (l : List Nat)
    (st : List σ) : launch f reads (a :: l) st = launch f reads l (st.modify a (f (reads a))) := rfl

/-- applying slot-local updates for a duplicate-free list of slots, in any order, updates exactly
    the listed slots once -/
theorem launch_eq_mapIdx {ρ σ : Type} (f : ρ → σ → σ) (reads : Nat → ρ) (slots : List Nat)
    (hnd : slots.Nodup) (st : List σ) :
    launch f reads slots st = st.mapIdx (fun i s => if i ∈ slots then f (reads i) s else s) := by
  induction slots generalizing st with
  | nil =>
    apply List.ext_getElem?
    intro i
    simp [launch, List.getElem?_mapIdx]
  | cons a l ih =>
    rw [launch_cons, ih (List.nodup_cons.mp hnd).2]
    have ha : a ∉ l := (List.nodup_cons.mp hnd).1
    apply List.ext_getElem?
    intro i
    simp only [List.getElem?_mapIdx, List.getElem?_modify, List.mem_cons]
    cases h : st[i]? with
    | none => simp
    | some s =>
      by_cases hia : a = i
      · subst hia
        simp [ha]
      · have : ¬ i = a := fun e => hia e.symm
        simp [hia, this]

/-! ### element-wise view of one gather step -/

/-- one slot over one step -/
def stepSlot (p : Params) (pre : Option (PointRead α)) (post : Option (PostRead α))
    (s : SlotData α) : SlotData α :=
  gatherPostSlot p post (if hasPreAction p then gatherPreSlot p pre s else s)

theorem gatherStep_getElem? (p : Params) (pre : List (Option (PointRead α)))
    (post : List (Option (PostRead α))) (st : StepState α) (i : Nat) :
    (gatherStep p pre post st)[i]? =
      (st[i]?).map (stepSlot p (pre.getD i none) (post.getD i none)) := by
  unfold gatherStep gatherPost gatherPre mapSlots stepSlot
  by_cases h : hasPreAction p
  · simp [h, List.getElem?_mapIdx, Option.map_map, Function.comp_def]
  · simp [h, List.getElem?_mapIdx]

theorem gatherStep_length (p : Params) (pre : List (Option (PointRead α)))
    (post : List (Option (PostRead α))) (st : StepState α) :
    (gatherStep p pre post st).length = st.length := by
  unfold gatherStep gatherPost gatherPre mapSlots
  by_cases h : hasPreAction p <;> simp [h]

theorem hasPre_of_det {p : Params} (h : p.detector.isSome = true) : hasPreAction p = true := by
  simp [hasPreAction, h]

/-! ### compaction (copy_steps) -/

theorem validIdx_pairwise (st : StepState α) : (validIdx st).Pairwise (· < ·) :=
  List.Pairwise.filter _ List.pairwise_lt_range

theorem validIdx_nodup (st : StepState α) : (validIdx st).Nodup :=
  (validIdx_pairwise st).imp (fun h => Nat.ne_of_lt h)

theorem mem_validIdx (st : StepState α) (i : Nat) :
    i ∈ validIdx st ↔ ∃ s, st[i]? = some s ∧ s.detector.isSome = true := by
  unfold validIdx
  rw [List.mem_filter, List.mem_range]
  constructor
  · rintro ⟨_, h⟩
    unfold validAt at h
    cases hs : st[i]? with
    | none => simp [hs] at h
    | some s => exact ⟨s, rfl, by simpa [hs] using h⟩
  · rintro ⟨s, hs, hd⟩
    refine ⟨?_, by simp [validAt, hs, hd]⟩
    exact (List.getElem?_eq_some_iff.mp hs).1

/-- the compacted slots are the slots at the valid indices, in index order -/
theorem validSlots_eq (st : StepState α) :
    validSlots st = (validIdx st).filterMap (fun i => st[i]?) := by
  unfold validSlots validIdx
  induction st using List.reverseRecOn with
  | nil => simp
  | append_singleton l a ih =>
    have h1 : (List.range l.length).filter (validAt (l ++ [a]))
        = (List.range l.length).filter (validAt l) := by
      apply List.filter_congr
      intro i hi
      have hi' : i < l.length := List.mem_range.mp hi
      simp [validAt, List.getElem?_append_left hi']
    have h2 : ∀ L : List Nat, (∀ i ∈ L, i < l.length) →
        L.filterMap (fun i => (l ++ [a])[i]?) = L.filterMap (fun i => l[i]?) := by
      intro L
      induction L with
      | nil => simp
      | cons x L ihL =>
        intro h
        have hx : x < l.length := h x (by simp)
        rw [List.filterMap_cons, List.filterMap_cons, List.getElem?_append_left hx,
          ihL (fun i hi => h i (List.mem_cons_of_mem _ hi))]
    rw [List.filter_append, List.length_append, List.length_singleton, List.range_succ,
      List.filter_append, List.filterMap_append, h1, h2 _ (fun i hi =>
        List.mem_range.mp (List.mem_filter.mp hi).1), ← ih]
    congr 1
    by_cases h : a.detector.isSome = true <;> simp [h, validAt]

theorem validSlots_length (st : StepState α) : (validSlots st).length = (validIdx st).length := by
  rw [validSlots_eq]
  have : ∀ (l : List Nat), (∀ i ∈ l, i < st.length) →
      (l.filterMap (fun i => st[i]?)).length = l.length := by
    intro l
    induction l with
    | nil => simp
    | cons a l ih =>
      intro h
      have ha : a < st.length := h a (by simp)
      have ih' := ih (fun i hi => h i (List.mem_cons_of_mem _ hi))
      rw [List.filterMap_cons, List.getElem?_eq_getElem ha]
      simp [ih']
  apply this
  intro i hi
  obtain ⟨s, hs, _⟩ := (mem_validIdx st i).mp hi
  exact (List.getElem?_eq_some_iff.mp hs).1

/-! ### calorimeter -/

/-- deposits added to detector `d` by a list of delivered slots, in order, starting from `c` -/
def depositFold (d : Nat) (l : List (SlotData α)) (c : α) : α :=
  (l.filter (fun s => s.detector == some d)).foldl (fun acc s => DepVal.add acc s.edep) c

theorem caloSlot_getElem? (calo : List α) (s : SlotData α) (d : Nat) :
    (caloSlot calo s)[d]? =
      (calo[d]?).map (fun c => if s.detector = some d then DepVal.add c s.edep else c) := by
  unfold caloSlot
  cases hd : s.detector with
  | none => simp
  | some d' =>
    simp only [List.getElem?_modify]
    cases calo[d]? with
    | none => simp
    | some c =>
      by_cases h : d' = d
      · subst h; simp
      · simp [h]

theorem caloAccum_getElem? (st : StepState α) (calo : List α) (d : Nat) :
    (caloAccum st calo)[d]? = (calo[d]?).map (depositFold d (validSlots st)) := by
  unfold caloAccum
  induction st generalizing calo with
  | nil =>
    have : depositFold d ([] : List (SlotData α)) = id := by funext c; simp [depositFold]
    simp [validSlots, this]
  | cons s st ih =>
    rw [List.foldl_cons, ih, caloSlot_getElem?]
    cases calo[d]? with
    | none => simp
    | some c =>
      simp only [Option.map_some, Option.some.injEq]
      unfold validSlots depositFold
      cases hd : s.detector with
      | none => simp [hd]
      | some d' =>
        by_cases h : d' = d
        · subst h
          simp [hd, List.filter_cons]
        · have h' : ¬ (some d' = some d) := fun e => h (Option.some.inj e)
          simp [hd, List.filter_cons, h]

theorem caloAccum_length (st : StepState α) (calo : List α) :
    (caloAccum st calo).length = calo.length := by
  unfold caloAccum
  induction st generalizing calo with
  | nil => rfl
  | cons s st ih =>
    rw [List.foldl_cons, ih]
    unfold caloSlot
    cases s.detector <;> simp

theorem depositFold_append (d : Nat) (l₁ l₂ : List (SlotData α)) (c : α) :
    depositFold d (l₁ ++ l₂) c = depositFold d l₂ (depositFold d l₁ c) := by
  simp [depositFold, List.filter_append, List.foldl_append]

/-! ### diagnostics -/

theorem bump_getElem? (counts : List Nat) (bin b : Nat) :
    (bump counts bin)[b]? = (counts[b]?).map (fun c => if bin = b then c + 1 else c) := by
  unfold bump
  rw [List.getElem?_modify]
  rfl

/-- the bin hit by one slot reading in the action diagnostic -/
def adiagBin (nbins : Nat) (r : Option (PostRead α)) : Option Nat :=
  match r with
  | none => none
  | some r =>
    if isTrackValid r.status then
      match r.particle, r.action with
      | some p, some a => some (p * nbins + a)
      | _, _ => none
    else none

theorem adiagSlot_getElem? (nbins : Nat) (counts : List Nat) (r : Option (PostRead α)) (b : Nat) :
    (adiagSlot nbins counts r)[b]? =
      (counts[b]?).map (fun c => if adiagBin nbins r = some b then c + 1 else c) := by
  unfold adiagSlot adiagBin
  cases r with
  | none => simp
  | some r =>
    by_cases hv : isTrackValid r.status = true
    · cases hp : r.particle with
      | none => simp [hv, hp]
      | some p =>
        cases ha : r.action with
        | none => simp [hv, hp, ha]
        | some a => simp [hv, hp, ha, bump_getElem?]
    · simp [hv]

theorem adiagStep_getElem? (nbins : Nat) (reads : List (Option (PostRead α))) (counts : List Nat)
    (b : Nat) :
    (adiagStep nbins reads counts)[b]? =
      (counts[b]?).map (· + reads.countP (fun r => adiagBin nbins r == some b)) := by
  unfold adiagStep
  induction reads generalizing counts with
  | nil => simp
  | cons r rs ih =>
    rw [List.foldl_cons, ih, adiagSlot_getElem?, List.countP_cons]
    cases counts[b]? with
    | none => simp
    | some c =>
      by_cases h : adiagBin nbins r = some b
      · simp [h]; omega
      · simp [h]

def sdiagBin (nbins : Nat) (r : Option (PostRead α)) : Option Nat :=
  match r with
  | none => none
  | some r =>
    if isTrackValid r.status && r.status == stKilled then
      match r.particle with
      | some p => some (p * nbins + min r.numSteps (nbins - 1))
      | none => none
    else none

theorem sdiagSlot_getElem? (nbins : Nat) (counts : List Nat) (r : Option (PostRead α)) (b : Nat) :
    (sdiagSlot nbins counts r)[b]? =
      (counts[b]?).map (fun c => if sdiagBin nbins r = some b then c + 1 else c) := by
  unfold sdiagSlot sdiagBin
  cases r with
  | none => simp
  | some r =>
    by_cases hv : (isTrackValid r.status && r.status == stKilled) = true
    · cases hp : r.particle with
      | none => simp [hv, hp]
      | some p => simp [hv, hp, bump_getElem?]
    · simp [hv]

theorem sdiagStep_getElem? (nbins : Nat) (reads : List (Option (PostRead α))) (counts : List Nat)
    (b : Nat) :
    (sdiagStep nbins reads counts)[b]? =
      (counts[b]?).map (· + reads.countP (fun r => sdiagBin nbins r == some b)) := by
  unfold sdiagStep
  induction reads generalizing counts with
  | nil => simp
  | cons r rs ih =>
    rw [List.foldl_cons, ih, sdiagSlot_getElem?, List.countP_cons]
    cases counts[b]? with
    | none => simp
    | some c =>
      by_cases h : sdiagBin nbins r = some b
      · simp [h]; omega
      · simp [h]

/-- a (particle, action) pair is recovered from its bin when the action index is in range -/
theorem bin_inj {n p a p' a' : Nat} (ha : a < n) (ha' : a' < n) (h : p * n + a = p' * n + a') :
    p = p' ∧ a = a' := by
  have hn : 0 < n := Nat.lt_of_le_of_lt (Nat.zero_le _) ha
  have h1 : (n * p + a) / n = (n * p' + a') / n := by rw [Nat.mul_comm n p, Nat.mul_comm n p', h]
  rw [Nat.mul_add_div hn, Nat.mul_add_div hn, Nat.div_eq_of_lt ha, Nat.div_eq_of_lt ha'] at h1
  have hp : p = p' := by omega
  subst hp
  exact ⟨rfl, by omega⟩

end CelerVerif.Gather
