#!/usr/bin/env python3
"""Independent confirmation that a seeded change compiles and that the repository's tests of
the affected area still pass with it: applies each seeded/<ID>-m<k>/patch.diff in the scratch
worktree /tmp/confirm (own build dir with ALL test executables), rebuilds, runs ctest on the
area's tests, reverts.  Results -> seeded/TESTS.json.  Never touches /repo.
The scratch worktree is created by hand (and removed afterwards):
  git -C /repo worktree add --detach /tmp/confirm HEAD
  cmake -S /tmp/confirm -B /tmp/confirm/_build -G Ninja -DCMAKE_BUILD_TYPE=Release -DCELERITAS_BUILD_TESTS=ON \
    -DCELERITAS_USE_MPI=OFF -DCELERITAS_USE_OpenMP=ON -DCMAKE_CXX_FLAGS=-Wno-error -DCMAKE_PREFIX_PATH=/root/miniconda
  ninja -C /tmp/confirm/_build ;  ... ;  git -C /repo worktree remove --force /tmp/confirm"""
import json
import os
import re
import subprocess
import sys

VERIF = os.path.dirname(os.path.dirname(os.path.abspath(__file__)))
SEED = os.path.join(VERIF, "seeded")
WT = os.environ.get("CONFIRM_WT", "/tmp/confirm")   # CONFIRM_WT=/repo uses /repo/_build (only when
# nothing else is running against /repo; the patch is reverted after each change)
AREA = {
    "C01": "celeritas/(phys|global|track|em/|user)", "C02": "celeritas/(track|global|user)",
    "C03": "orange/", "C04": "celeritas/(em/|phys)", "C05": "celeritas/(phys|global|track|field|geo)",
    "C06": "celeritas/(track|global|random|user)", "C07": "celeritas/(global|user)|corecel/(data|sys)",
    "C08": "celeritas/(field|global)", "C09": "orange/", "C10": "orange/", "C11": "orange/|celeritas/em/",
    "C12": "orange/", "C13": "celeritas/random", "C14": "celeritas/(grid|phys|em/)|corecel/grid",
    "C15": "celeritas/(random|em/distribution|em/)|celeritas/optical", "C16": "celeritas/(track|global|phys|user)|corecel/data",
    "C17": "celeritas/(user|global)", "C18": "corecel/|orange/", "C19": "orange/|geocel/",
    "C20": "celeritas/optical|corecel/math",
}


def sh(cmd, **kw):
    p = subprocess.run(cmd, shell=True, stdout=subprocess.PIPE, stderr=subprocess.STDOUT, text=True, **kw)
    return p.returncode, p.stdout


def demo(n):
    """the change's own demonstration, built and run inside the scratch worktree (whatever
    state it is in: with or without the patch).  Returns the exit status or None."""
    src = os.path.join(SEED, n)
    if not os.path.exists(os.path.join(src, "demo.sh")):
        return None
    d = os.path.join("/tmp", "confirm_demo_dir", n)
    sh(f"rm -rf {d}; mkdir -p {d}; cp -r {src}/. {d}/")
    wt = "/tmp/seed-" + n.split("-")[0].lower()
    wt2 = wt.replace("/tmp/seed-", "/tmp/seed2-")
    sh(f"grep -rlZ -e '{wt}' -e '{wt2}' {d} | xargs -0 -r sed -i 's#{wt2}#{WT}#g; s#{wt}#{WT}#g'")
    B = f"{WT}/_build"
    sh(f"nice -n 10 ninja -C {B} -j6 libcorecel.so libgeocel.so liborange.so libceleritas.so "
       f"test/celeritas/libtestcel_celeritas.so 2>&1 | tail -3")
    envs = (f"R={WT} B={B} SRC={WT} BUILD={B} CELER_SRC={WT} CELER_BUILD={B} REPO_ROOT={WT} "
            f"BUILD_DIR={B} CELER_SOURCE_ROOT={WT} ROOT={WT} CELER_ROOT={WT} WT={WT} "
            f"CFG={B}/include C05_SRC={WT} C05_BUILD={B}")
    script = open(os.path.join(d, "demo.sh")).read()
    if "$ROOT/seeded" in script:   # header-only demos addressed through the seeding tree
        sh(f"sed -i 's#\\$ROOT/seeded/m[0-9]*#{d}#g' {d}/demo.sh")
    rc, out = sh(f"{envs} timeout 1800 sh {d}/demo.sh {WT} {B}", cwd=d)
    sh(f"rm -rf {d}")
    return rc


def main():
    names = sys.argv[1:] or sorted(d for d in os.listdir(SEED) if re.match(r"C\d\d-m\d+$", d))
    resf = os.path.join(SEED, "TESTS.json")
    results = json.load(open(resf)) if os.path.exists(resf) else {}
    for n in names:
        if n in results and results[n].get("done"):
            continue
        pid = n.split("-")[0]
        sh(f"git -C {WT} checkout -- .")
        rc, out = sh(f"git -C {WT} apply {os.path.join(SEED, n, 'patch.diff')}")
        if rc != 0:
            results[n] = {"done": True, "applies": False}
            continue
        rc, out = sh(f"nice -n 10 ninja -C {WT}/_build -j6 -k 0 2>&1 | tail -3")
        compiled = "FAILED" not in out or "GeantVolumeMapper" in out
        rc2, out2 = sh(f"CELER_DISABLE_PARALLEL=1 ctest --test-dir {WT}/_build -j6 --timeout 900 -R '{AREA[pid]}' 2>&1 | tail -40")
        m = re.search(r"(\d+)% tests passed, (\d+) tests failed out of (\d+)", out2)
        failed = re.findall(r"^\s+\d+ - (\S+) \((?:Failed|Timeout|SEGFAULT|Subprocess aborted|Child aborted|Exception)", out2, re.M)
        failed = [f for f in failed if "MpiCommunicator" not in f]
        results[n] = {"done": True, "applies": True, "build_tail": out[-300:], "area_regex": AREA[pid],
                      "tests_total": int(m.group(3)) if m else None,
                      "tests_failed": failed, "tests_pass": bool(m) and not failed}
        results[n]["demo_exit_with_change"] = demo(n)
        sh(f"git -C {WT} checkout -- .")
        results[n]["demo_exit_without_change"] = demo(n)
        results[n]["demo_confirms"] = (results[n]["demo_exit_with_change"] not in (0, None)
                                       and results[n]["demo_exit_without_change"] == 0)
        print(n, "tests pass" if results[n]["tests_pass"] else f"TESTS FAIL {failed}", results[n]["tests_total"],
              "demo with/without:", results[n]["demo_exit_with_change"], results[n]["demo_exit_without_change"], flush=True)
        json.dump(results, open(resf, "w"), indent=1, sort_keys=True)
    sh(f"git -C {WT} checkout -- .")
    return 0


if __name__ == "__main__":
    sys.exit(main())
