"""Single source for MANIFEST.json (tools/gen_manifest.py writes it from here)."""

# harness name -> repo libraries it links
HARNESSES = {
    "xorwow": ["corecel", "celeritas"],
}

LEVEL_NOTE_COMMON = (
    "Trusted: Lean 4.33 kernel; axioms propext/Classical.choice/Quot.sound only (audited by "
    "#print axioms on every run, no native_decide/bv_decide/sorry); tools/translate.py; the C++ "
    "harness + generators + diff that tie the hand-written model to the code; g++/libstdc++/libm."
)

CHECKS = {
    "C13": {
        "category": "proof",
        "technique": "Lean 4 proof: GF(2)[z]/(P) certificates by kernel evaluation over regenerated "
                     "jump tables + induction; differential correspondence model vs real engine",
        "text": "Theorems over the model for all 2^160 states, all Weyl values and all n<2^64: "
                "discard n = n draws; discard_subsequence k = k*2^67 steps; exact period 2^160-1 "
                "(Cayley-Hamilton + order certificates + Lucas primality of the factors); streams "
                "of different (event,slot) disjoint; canonical numerator < 2^53. Jump tables and "
                "all constants are regenerated from the source each run so a changed table breaks "
                "a kernel-checked certificate; the engine's control flow is hand-modelled and "
                "compared with the real XorwowRngEngine/XorwowRngParams/reseed_rng on random and "
                "adversarial op scripts; impl-side oracle discard(a+b)=discard(a);discard(b) etc. "
                "searches a failing input when anything breaks.",
        "design_ref": "DESIGN.md §6 C13",
        "note": "Hypotheses: n,k < 2^64 (ull_int); streams_disjoint assumes non-zero seed state and "
                "event*size+slot < 2^64 (beyond that reseed_rng wraps). IEEE exactness of n*2^-53 "
                "for n<2^53 is assumed, checked at run time by the harness. " ,
    },
}

NOT_APPLICABLE = {}
