"""Collects MANIFEST data from tools/checks/cXX.py (each defines LEVEL, MANIFEST, HARNESS)."""
import importlib
import os
import sys

HERE = os.path.dirname(os.path.abspath(__file__))
sys.path.insert(0, HERE)

LEVEL_NOTE_COMMON = (
    "Trusted: Lean 4.33 kernel; axioms propext/Classical.choice/Quot.sound only (audited by "
    "#print axioms on every run, no native_decide/bv_decide/sorry); tools/translate.py; the C++ "
    "harness + generators + diff that tie the hand-written model to the code; g++/libstdc++/libm."
)

# checks that the coordinator has verified on the unchanged tree (several seeds); a check
# module that exists but is not listed here is work in progress and is not claimed
ENABLED = ["C%02d" % i for i in range(1, 21)]

CHECKS, HARNESSES = {}, {}
for _pid in ENABLED:
    if os.path.exists(os.path.join(HERE, "checks", _pid.lower() + ".py")):
        _m = importlib.import_module("checks." + _pid.lower())
        if getattr(_m, "MANIFEST", None):
            CHECKS[_pid] = _m.MANIFEST
            HARNESSES.update(getattr(_m, "HARNESS", {}))

# properties deliberately not claimed, with the reason (see DESIGN.md §7)
NOT_APPLICABLE = {}
