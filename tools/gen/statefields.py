"""Generated/StateFields.lean (C06): for each per-slot state struct of the core state the list of
data members, and for each `*TrackView::operator=(Initializer)` / InitTracksExecutor /
reseed / reset the list of members it assigns — parsed from the CURRENT headers."""
import re

from translate import (HEADER, TranslateError, must, read, strip_comments, write_if_changed)


def struct_body(src, name, what=None):
    m = must(r"struct " + name + r"\s*\{", src, what or ("struct " + name))
    i = m.end()
    depth = 1
    while i < len(src) and depth:
        c = src[i]
        depth += (c == "{") - (c == "}")
        i += 1
    if depth:
        raise TranslateError(f"struct {name}: unbalanced braces")
    return src[m.end():i - 1]


def strip_nested(body):
    """remove the contents of nested braces (method bodies, initialisers)"""
    out, depth = [], 0
    for c in body:
        if c == "{":
            depth += 1
            continue
        if c == "}":
            depth -= 1
            out.append(";")     # a method body ends a declaration
            continue
        if depth == 0:
            out.append(c)
    return "".join(out)


def members(src, name):
    body = strip_nested(struct_body(src, name))
    out = []
    for stmt in body.split(";"):
        s = " ".join(stmt.split())
        if not s or "(" in s or ")" in s:
            continue
        if re.match(r"(using|template|explicit|static|friend|typedef|public:|private:)\b", s):
            continue
        s = re.sub(r"^(public:|private:|protected:)\s*", "", s)
        m = re.match(r"^[\w:<>,\s\*&]+?\b(\w+)$", s)
        if not m:
            raise TranslateError(f"struct {name}: cannot parse member declaration {s!r}")
        if re.match(r"(using|template)\b", s):
            continue
        out.append(m.group(1))
    if not out:
        raise TranslateError(f"struct {name}: no data members found")
    return out


def func_body(src, header_re, what):
    m = must(header_re + r"\s*\{", src, what, re.S)
    i = m.end()
    depth = 1
    while i < len(src) and depth:
        c = src[i]
        depth += (c == "{") - (c == "}")
        i += 1
    return src[m.end():i - 1]


def assigned_states(body):
    return re.findall(r"states_\.(\w+)\[track_slot_\]\s*(?:=|\+=)", body)


def gen_statefields():
    out = {}
    # ---------------- sim
    sim_d = strip_comments(read("src/celeritas/track/SimData.hh"))
    sim_v = strip_comments(read("src/celeritas/track/SimTrackView.hh"))
    out["sim"] = members(sim_d, "SimStateData")
    b = func_body(sim_v, r"SimTrackView& SimTrackView::operator=\(Initializer_t const& other\)",
                  "SimTrackView::operator=(Initializer)")
    out["simInit"] = assigned_states(b)
    # ---------------- particle
    par_d = strip_comments(read("src/celeritas/phys/ParticleData.hh"))
    par_v = strip_comments(read("src/celeritas/phys/ParticleTrackView.hh"))
    out["particle"] = members(par_d, "ParticleStateData")
    b = func_body(par_v, r"ParticleTrackView::operator=\(Initializer_t const& other\)",
                  "ParticleTrackView::operator=(Initializer)")
    out["particleInit"] = assigned_states(b)
    # ---------------- physics
    phy_d = strip_comments(read("src/celeritas/phys/PhysicsData.hh"))
    phy_v = strip_comments(read("src/celeritas/phys/PhysicsTrackView.hh"))
    out["physicsTrack"] = members(phy_d, "PhysicsTrackState")
    out["physics"] = members(phy_d, "PhysicsStateData")
    b = func_body(phy_v, r"PhysicsTrackView::operator=\(Initializer_t const&\)",
                  "PhysicsTrackView::operator=(Initializer)")
    out["physicsInit"] = re.findall(r"this->state\(\)\.(\w+)\s*=", b)
    # what pre-step resets before any read (PreStepExecutor, active slots)
    pre = strip_comments(read("src/celeritas/phys/detail/PreStepExecutor.hh"))
    pb = func_body(pre, r"PreStepExecutor::operator\(\)\(celeritas::CoreTrackView const& track\)",
                   "PreStepExecutor::operator()")
    must(r"step\.reset_energy_deposition\(\);\s*step\.secondaries\(\{\}\);\s*step\.element\(\{\}\);",
         pb, "pre-step reset of energy deposition / secondaries / element")
    must(r"if \(track\.thread_id\(\) == ThreadId\{0\}\)\s*\{\s*auto alloc = "
         r"track\.make_physics_step_view\(\)\.make_secondary_allocator\(\);\s*alloc\.clear\(\);",
         pb, "pre-step clears the secondary stack")
    must(r"sim\.reset_step_limit\(calc_physics_step_limit\(mat, particle, phys, step\)\);", pb,
         "pre-step computes the physics step limit")
    psu = strip_comments(read("src/celeritas/phys/PhysicsStepUtils.hh"))
    lb = func_body(psu, r"calc_physics_step_limit\(MaterialTrackView const& material,[^)]*\)",
                   "calc_physics_step_limit")
    must(r"pstep\.per_process_xs\(ppid\) = ", lb, "per-process xs written by the step limiter")
    must(r"pstep\.macro_xs\(total_macro_xs\);", lb, "macro xs written by the step limiter")
    must(r"physics\.dedx_range\(", lb, "dedx range written by the step limiter")
    # ---------------- material
    mat_d = strip_comments(read("src/celeritas/mat/MaterialData.hh"))
    mat_v = strip_comments(read("src/celeritas/mat/MaterialTrackView.hh"))
    out["material"] = members(mat_d, "MaterialStateData")
    out["materialTrack"] = members(mat_d, "MaterialTrackState")
    b = func_body(mat_v, r"MaterialTrackView::operator=\(Initializer_t const& other\)",
                  "MaterialTrackView::operator=(Initializer)")
    must(r"this->state\(\) = other;", b, "MaterialTrackView::operator= assigns the whole state")
    out["materialInit"] = ["state"]
    # ---------------- geometry (ORANGE)
    geo_d = strip_comments(read("src/orange/OrangeData.hh"))
    geo_v = strip_comments(read("src/orange/OrangeTrackView.hh"))
    geo = members(geo_d, "OrangeStateData")
    if "max_depth" not in geo:
        raise TranslateError("OrangeStateData::max_depth disappeared")
    out["geo"] = [g for g in geo if g != "max_depth"]

    def setter_targets(name):
        bb = func_body(geo_v, r"OrangeTrackView::" + name + r"\([^)]*\)", "OrangeTrackView::" + name)
        return re.findall(r"states_\.(\w+)\[track_slot_\]\s*=", bb)

    def geo_assigned(header, what):
        bb = func_body(geo_v, header, what)
        got = []
        for call in re.findall(r"this->(\w+)\(", bb):
            if call in ("level", "boundary", "surface", "clear_surface", "clear_next", "next_step",
                        "next_surf", "next_surface_level"):
                got += setter_targets(call)
                if call == "clear_next":
                    got += setter_targets("next_step")
        for f in re.findall(r"lsa\.(\w+)\(\)\s*=", bb):
            got.append(f)
        if re.search(r"lsa = init\.other\.make_lsa\(lev\);", bb):
            lsa_src = strip_comments(read("src/orange/detail/LevelStateAccessor.hh"))
            cb = func_body(lsa_src, r"LevelStateAccessor::operator=\(LevelStateAccessor const& other\)",
                           "LevelStateAccessor::operator=")
            fs = re.findall(r"this->(\w+)\(\) = other\.\1\(\);", cb)
            if not fs:
                raise TranslateError("LevelStateAccessor::operator= copies nothing")
            got += fs
        return sorted(set(got))

    out["geoInit"] = geo_assigned(r"OrangeTrackView::operator=\(Initializer_t const& init\)",
                                  "OrangeTrackView::operator=(Initializer)")
    out["geoInitDetailed"] = geo_assigned(
        r"OrangeTrackView::operator=\(DetailedInitializer const& init\)",
        "OrangeTrackView::operator=(DetailedInitializer)")
    lsa = strip_comments(read("src/orange/detail/LevelStateAccessor.hh"))
    for f in ("vol", "pos", "dir", "universe"):
        must(r"states_->" + f + r"\[", lsa, "LevelStateAccessor::" + f)
    # ---------------- rng
    rng_d = strip_comments(read("src/celeritas/random/XorwowRngData.hh"))
    out["rng"] = members(rng_d, "XorwowRngStateData")
    rs = strip_comments(read("src/celeritas/random/RngReseed.cc"))
    must(r"ull_int size = state\.size\(\);.*?for \(TrackSlotId::size_type i = 0; i < size; \+\+i\)"
         r"\s*\{\s*RngEngine::Initializer_t init;\s*init\.seed = params\.seed;\s*"
         r"init\.subsequence = event_id\.unchecked_get\(\) \* size \+ i;\s*"
         r"RngEngine engine\(params, state, TrackSlotId\{i\}\);\s*engine = init;", rs,
         "reseed_rng loop over every slot", re.S)
    # ---------------- track initialisation bookkeeping
    ti_d = strip_comments(read("src/celeritas/track/TrackInitData.hh"))
    out["init"] = members(ti_d, "TrackInitStateData")
    ite = strip_comments(read("src/celeritas/track/detail/InitTracksExecutor.hh"))
    calls = []
    for pat, name in [(r"vacancy\.make_sim_view\(\) = init\.sim;", "sim"),
                      (r"vacancy\.make_particle_view\(\) = init\.particle;", "particle"),
                      (r"geo = GeoTrackView::DetailedInitializer\{parent_geo, init\.geo\.dir\};",
                       "geoDetailed"),
                      (r"geo = init\.geo;", "geo"),
                      (r"vacancy\.make_material_view\(\) = \{matid\};", "material"),
                      (r"vacancy\.make_physics_view\(\) = \{\};", "physics")]:
        must(pat, ite, "InitTracksExecutor assigns " + name)
        calls.append(name)
    out["initExecutor"] = calls
    # ---------------- event boundary: Stepper::reseed and CoreState::reset
    st = strip_comments(read("src/celeritas/global/Stepper.cc"))
    must(r"reseed_rng\(get_ref<M>\(\*params_->rng\(\)\),\s*state_->ref\(\)\.rng,\s*"
         r"state_->stream_id\(\),\s*event_id\);\s*params_->init\(\)->reset_track_ids\("
         r"state_->stream_id\(\), &state_->ref\(\)\.init\);", st, "Stepper::reseed")
    cs = strip_comments(read("src/celeritas/global/CoreState.cc"))
    must(r"counters_ = CoreStateCounters\{\};\s*counters_\.num_vacancies = this->size\(\);\s*"
         r"fill\(TrackStatus::inactive, &this->ref\(\)\.sim\.status\);\s*"
         r"fill_sequence\(&this->ref\(\)\.init\.vacancies, this->stream_id\(\)\);", cs,
         "CoreState::reset")
    core = strip_comments(read("src/celeritas/global/CoreTrackData.hh"))
    out["core"] = members(core, "CoreStateData")

    def lst(xs):
        return "[" + ", ".join('"%s"' % x for x in xs) + "]"

    text = HEADER + "namespace CelerVerif.Generated.StateFields\n\n"
    doc = {
        "core": "members of CoreStateData",
        "sim": "members of SimStateData", "simInit": "assigned by SimTrackView::operator=(Initializer)",
        "particle": "members of ParticleStateData",
        "particleInit": "assigned by ParticleTrackView::operator=(Initializer)",
        "physics": "members of PhysicsStateData",
        "physicsTrack": "members of PhysicsTrackState (the per-slot struct in PhysicsStateData::state)",
        "physicsInit": "assigned by PhysicsTrackView::operator=(Initializer)",
        "material": "members of MaterialStateData", "materialTrack": "members of MaterialTrackState",
        "materialInit": "assigned by MaterialTrackView::operator=(Initializer) (whole struct)",
        "geo": "per-slot members of OrangeStateData (max_depth excluded)",
        "geoInit": "assigned by OrangeTrackView::operator=(Initializer) incl. the setters it calls",
        "geoInitDetailed": "assigned by OrangeTrackView::operator=(DetailedInitializer)",
        "rng": "members of XorwowRngStateData (assigned for every slot by reseed_rng)",
        "init": "members of TrackInitStateData",
        "initExecutor": "sub-states assigned by InitTracksExecutor::operator()",
    }
    for k in ["core", "sim", "simInit", "particle", "particleInit", "physics", "physicsTrack",
              "physicsInit", "material", "materialTrack", "materialInit", "geo", "geoInit",
              "geoInitDetailed", "rng", "init", "initExecutor"]:
        text += f"/-- {doc[k]} -/\ndef {k} : List String := {lst(out[k])}\n\n"
    text += "end CelerVerif.Generated.StateFields\n"
    return write_if_changed("StateFields.lean", text)


GENERATORS = {"statefields": gen_statefields}
