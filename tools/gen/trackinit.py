"""Generated/TrackInitEnums.lean from celeritas/Types.hh (C02, C16): enumerator names, values and
order of TrackStatus and TrackOrder, so that a renumbering/reordering of the enums breaks the
`decide` theorem `enums_match_source` in Props/C02.lean."""
import re

from translate import HEADER, TranslateError, must, read, strip_comments, write_if_changed


def parse_enum(src, name):
    m = must(r"enum\s+class\s+" + name + r"\b[^{;]*\{(.*?)\}\s*;", src, "enum class " + name, re.S)
    out, val, seen = [], -1, {}
    for item in m.group(1).split(","):
        item = item.strip()
        if not item:
            continue
        mm = re.fullmatch(r"([A-Za-z_][A-Za-z_0-9]*)(?:\s*=\s*([A-Za-z_0-9]+))?", item)
        if not mm:
            raise TranslateError(f"enum {name}: cannot parse enumerator `{item}`")
        ident, init = mm.group(1), mm.group(2)
        if init is None:
            val += 1
        elif init.isdigit():
            val = int(init)
        elif init in seen:
            val = seen[init]
        else:
            raise TranslateError(f"enum {name}: unknown initializer `{init}`")
        seen[ident] = val
        out.append((ident, val))
    if not out:
        raise TranslateError(f"enum {name}: no enumerators")
    return out


def lean_list(items):
    return "[" + ", ".join(f'("{n}", {v})' for n, v in items) + "]"


def gen_trackinit():
    src = strip_comments(read("src/celeritas/Types.hh"))
    status = parse_enum(src, "TrackStatus")
    order = parse_enum(src, "TrackOrder")
    text = HEADER + f"""
namespace CelerVerif.Generated.TrackInit

/-- enumerators of `enum class TrackStatus` (celeritas/Types.hh) with their values, in
    declaration order -/
def trackStatus : List (String × Nat) := {lean_list(status)}

/-- enumerators of `enum class TrackOrder` (celeritas/Types.hh) with their values, in
    declaration order -/
def trackOrder : List (String × Nat) := {lean_list(order)}

end CelerVerif.Generated.TrackInit
"""
    return write_if_changed("TrackInitEnums.lean", text)


GENERATORS = {"trackinit": gen_trackinit}
