"""Generated/TrackInitEnums.lean from celeritas/Types.hh (C02, C16): enumerator names, values and
order of TrackStatus and TrackOrder, so that a renumbering/reordering of the enums breaks the
`decide` theorem `enums_match_source` in Props/C02.lean."""
import re

from translate import HEADER, TranslateError, must, read, strip_comments, write_if_changed


def parse_enum(src, name):
    m = must(r"enum\s+class\s+" + name + r"\b[^{;]*\{(.*?)\}\s*;", src, "enum class " + name, re.S)
    out, val, seen = [], -1, {}
    for item in m.group(1).split(","):
        item = item.strip()
        if not item:
            continue
        mm = re.fullmatch(r"([A-Za-z_][A-Za-z_0-9]*)(?:\s*=\s*([A-Za-z_0-9]+))?", item)
        if not mm:
            raise TranslateError(f"enum {name}: cannot parse enumerator `{item}`")
        ident, init = mm.group(1), mm.group(2)
        if init is None:
            val += 1
        elif init.isdigit():
            val = int(init)
        elif init in seen:
            val = seen[init]
        else:
            raise TranslateError(f"enum {name}: unknown initializer `{init}`")
        seen[ident] = val
        out.append((ident, val))
    if not out:
        raise TranslateError(f"enum {name}: no enumerators")
    return out


def lean_list(items):
    return "[" + ", ".join(f'("{n}", {v})' for n, v in items) + "]"


TRACK_INIT_SOURCES = [
    "src/celeritas/track/InitializeTracksAction.cc",
    "src/celeritas/track/ExtendFromPrimariesAction.cc",
    "src/celeritas/track/ExtendFromSecondariesAction.cc",
    "src/celeritas/track/detail/InitTracksExecutor.hh",
    "src/celeritas/track/detail/LocateAliveExecutor.hh",
    "src/celeritas/track/detail/ProcessSecondariesExecutor.hh",
    "src/celeritas/track/detail/ProcessPrimariesExecutor.hh",
    "src/celeritas/track/detail/TrackInitAlgorithms.cc",
    "src/celeritas/track/detail/TrackInitAlgorithms.hh",
    "src/celeritas/track/detail/Utils.hh",
]


def order_mentions():
    """(sorted enumerators of TrackOrder compared anywhere in the track-initialisation sources,
    number of occurrences of the thread->slot map `track_slots` there)"""
    names, slots = set(), 0
    for f in TRACK_INIT_SOURCES:
        src = strip_comments(read(f))
        names |= set(re.findall(r"TrackOrder::([A-Za-z_0-9]+)", src))
        slots += len(re.findall(r"\btrack_slots\b", src))
    return sorted(names), slots


def gen_trackinit():
    src = strip_comments(read("src/celeritas/Types.hh"))
    status = parse_enum(src, "TrackStatus")
    order = parse_enum(src, "TrackOrder")
    mentions, nslots = order_mentions()
    text = HEADER + f"""
namespace CelerVerif.Generated.TrackInit

/-- enumerators of `enum class TrackStatus` (celeritas/Types.hh) with their values, in
    declaration order -/
def trackStatus : List (String × Nat) := {lean_list(status)}

/-- enumerators of `enum class TrackOrder` (celeritas/Types.hh) with their values, in
    declaration order -/
def trackOrder : List (String × Nat) := {lean_list(order)}

/-- every `TrackOrder::<x>` that occurs in the track-initialisation sources
    (InitializeTracksAction.cc, ExtendFrom*Action.cc, detail/*Executor.hh,
    detail/TrackInitAlgorithms.*, detail/Utils.hh) -/
def trackOrderMentions : List String := [{", ".join('"%s"' % n for n in mentions)}]

/-- occurrences of the thread->slot indirection `track_slots` in those sources -/
def trackSlotsMentions : Nat := {nslots}

end CelerVerif.Generated.TrackInit
"""
    return write_if_changed("TrackInitEnums.lean", text)


GENERATORS = {"trackinit": gen_trackinit}
