"""Generated/TrackInitEnums.lean from celeritas/Types.hh (C02, C16): enumerator names, values and
order of TrackStatus and TrackOrder, so that a renumbering/reordering of the enums breaks the
`decide` theorem `enums_match_source` in Props/C02.lean."""
import re

from translate import HEADER, TranslateError, must, read, strip_comments, write_if_changed


def parse_enum(src, name):
    m = must(r"enum\s+class\s+" + name + r"\b[^{;]*\{(.*?)\}\s*;", src, "enum class " + name, re.S)
    out, val, seen = [], -1, {}
    for item in m.group(1).split(","):
        item = item.strip()
        if not item:
            continue
        mm = re.fullmatch(r"([A-Za-z_][A-Za-z_0-9]*)(?:\s*=\s*([A-Za-z_0-9]+))?", item)
        if not mm:
            raise TranslateError(f"enum {name}: cannot parse enumerator `{item}`")
        ident, init = mm.group(1), mm.group(2)
        if init is None:
            val += 1
        elif init.isdigit():
            val = int(init)
        elif init in seen:
            val = seen[init]
        else:
            raise TranslateError(f"enum {name}: unknown initializer `{init}`")
        seen[ident] = val
        out.append((ident, val))
    if not out:
        raise TranslateError(f"enum {name}: no enumerators")
    return out


def lean_list(items):
    return "[" + ", ".join(f'("{n}", {v})' for n, v in items) + "]"


TRACK_INIT_SOURCES = [
    "src/celeritas/track/InitializeTracksAction.cc",
    "src/celeritas/track/ExtendFromPrimariesAction.cc",
    "src/celeritas/track/ExtendFromSecondariesAction.cc",
    "src/celeritas/track/detail/InitTracksExecutor.hh",
    "src/celeritas/track/detail/LocateAliveExecutor.hh",
    "src/celeritas/track/detail/ProcessSecondariesExecutor.hh",
    "src/celeritas/track/detail/ProcessPrimariesExecutor.hh",
    "src/celeritas/track/detail/TrackInitAlgorithms.cc",
    "src/celeritas/track/detail/TrackInitAlgorithms.hh",
    "src/celeritas/track/detail/Utils.hh",
]


def order_mentions():
    """(sorted enumerators of TrackOrder compared anywhere in the track-initialisation sources,
    number of occurrences of the thread->slot map `track_slots` there)"""
    names, slots = set(), 0
    for f in TRACK_INIT_SOURCES:
        src = strip_comments(read(f))
        names |= set(re.findall(r"TrackOrder::([A-Za-z_0-9]+)", src))
        slots += len(re.findall(r"\btrack_slots\b", src))
    return sorted(names), slots


def physics_facts():
    """facts about the `physics-failure` action and the Stepper's event-id validation"""
    data = strip_comments(read("src/celeritas/phys/PhysicsData.hh"))
    m = must(r"ActionId\s+failure_action\(\)\s*const\s*\{\s*return\s+ActionId\s*\{\s*"
             r"model_to_action\s*\+\s*num_models\s*(?:([+-])\s*(\d+)\s*)?\}\s*;", data,
             "PhysicsParamsScalars::failure_action()")
    add = int(m.group(2)) if m.group(1) == "+" else 0
    sub = int(m.group(2)) if m.group(1) == "-" else 0
    par = strip_comments(read("src/celeritas/phys/PhysicsParams.cc"))
    ctor = must(r"Create actions.*?Construct data|using std::make_shared;(.*?)HostValue host_data;",
                par, "PhysicsParams constructor action registration", re.S).group(0)
    order = []
    for mm in re.finditer(r'make_shared<ImplicitPhysicsAction>\(\s*action_reg\.next_id\(\)\s*,\s*'
                          r'"([^"]+)"|make_shared<detail::(PreStepAction|DiscreteSelectAction)>'
                          r'|this->(build_models)\(inp\.action_registry\)', ctor):
        order.append(mm.group(1) or {"PreStepAction": "pre-step",
                                     "DiscreteSelectAction": "physics-discrete-select",
                                     "build_models": "<models>"}[mm.group(2) or mm.group(3)])
    if "<models>" not in order or "physics-failure" not in order:
        raise TranslateError("PhysicsParams: registration of models / physics-failure not found")
    step = strip_comments(read("src/celeritas/global/Stepper.cc"))
    m = must(r"CELER_VALIDATE\(\s*max_id->event_id\s*(<=|<|>=|>|!=|==)\s*"
             r"params_->init\(\)->max_events\(\)", step, "Stepper event-id validation")
    return add, sub, order, m.group(1)


def gen_trackinit():
    src = strip_comments(read("src/celeritas/Types.hh"))
    status = parse_enum(src, "TrackStatus")
    order = parse_enum(src, "TrackOrder")
    mentions, nslots = order_mentions()
    text = HEADER + f"""
namespace CelerVerif.Generated.TrackInit

/-- enumerators of `enum class TrackStatus` (celeritas/Types.hh) with their values, in
    declaration order -/
def trackStatus : List (String × Nat) := {lean_list(status)}

/-- enumerators of `enum class TrackOrder` (celeritas/Types.hh) with their values, in
    declaration order -/
def trackOrder : List (String × Nat) := {lean_list(order)}

/-- every `TrackOrder::<x>` that occurs in the track-initialisation sources
    (InitializeTracksAction.cc, ExtendFrom*Action.cc, detail/*Executor.hh,
    detail/TrackInitAlgorithms.*, detail/Utils.hh) -/
def trackOrderMentions : List String := [{", ".join('"%s"' % n for n in mentions)}]

/-- occurrences of the thread->slot indirection `track_slots` in those sources -/
def trackSlotsMentions : Nat := {nslots}

end CelerVerif.Generated.TrackInit
"""
    c1 = write_if_changed("TrackInitEnums.lean", text)
    add, sub, reg, op = physics_facts()
    text2 = HEADER + f"""
namespace CelerVerif.Generated.PhysicsActions

/-- `PhysicsParamsScalars::failure_action()` returns
    `ActionId{{model_to_action + num_models + failureExprAdd - failureExprSub}}` -/
def failureExprAdd : Nat := {add}
def failureExprSub : Nat := {sub}

/-- actions registered by the PhysicsParams constructor, in registration (= id) order;
    `<models>` stands for the `num_models` model actions emitted by `build_models` -/
def registrationOrder : List String := [{", ".join('"%s"' % x for x in reg)}]

/-- comparison in `Stepper::operator()(primaries)`:
    `CELER_VALIDATE(max_id->event_id <op> params_->init()->max_events(), ...)` -/
def eventCheckOp : String := "{op}"

end CelerVerif.Generated.PhysicsActions
"""
    c2 = write_if_changed("PhysicsActions.lean", text2)
    return c1 or c2


GENERATORS = {"trackinit": gen_trackinit}
