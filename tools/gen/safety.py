"""Generated/SafetySource.lean (C11): what the CURRENT source says about the safety path —
  * `simple_safety()` of every surface class,
  * the shape of `OrangeTrackView::find_safety()` (all levels, running celeritas::min) and of the
    `find_safety(real_type max_step)` overload (forwards to the no-argument one),
  * the signatures of the two trackers' `safety(pos, vol)` (no max-distance argument),
  * every call site of `find_safety` outside the geometry track views (the consumers), with the
    number of arguments it passes, i.e. which overload it calls.
Pattern-guarded: an edit to any of the modelled statements raises TranslateError."""
import os
import re

from translate import (HEADER, REPO, TranslateError, must, read, strip_comments, write_if_changed)

CLASSES = ["PlaneAligned", "Plane", "CylCentered", "CylAligned", "SphereCentered", "Sphere",
           "ConeAligned", "SimpleQuadric", "GeneralQuadric", "Involute"]


def simple_flags():
    out = {}
    for c in CLASSES:
        src = strip_comments(read(f"src/orange/surf/{c}.hh"))
        m = must(r"static CELER_CONSTEXPR_FUNCTION bool simple_safety\(\)\s*\{\s*return (true|false);\s*\}",
                 src, f"{c}::simple_safety()")
        out[c] = (m.group(1) == "true")
    return out


def count_args(src, start):
    """number of top-level arguments of the call whose '(' is at src[start]"""
    depth, i, args, seen = 0, start, 0, False
    while i < len(src):
        ch = src[i]
        if ch in "([{":
            depth += 1
        elif ch in ")]}":
            depth -= 1
            if depth == 0:
                return args + (1 if seen else 0), src[start + 1:i]
        elif ch == "," and depth == 1:
            args += 1
        elif depth >= 1 and not ch.isspace():
            seen = True
        i += 1
    raise TranslateError("unbalanced call expression")


def consumer_calls():
    """(relative file, ordinal in file, nargs, argument text) of every `.find_safety(` call under
    src/celeritas and src/accel"""
    calls = []
    for top in ("src/celeritas", "src/accel"):
        base = os.path.join(REPO, top)
        for root, _, files in sorted(os.walk(base)):
            for fn in sorted(files):
                if not fn.endswith((".hh", ".cc", ".cu", ".h")):
                    continue
                rel = os.path.relpath(os.path.join(root, fn), REPO)
                src = strip_comments(read(rel))
                k = 0
                for m in re.finditer(r"[\.>]\s*find_safety\s*\(", src):
                    n, text = count_args(src, m.end() - 1)
                    calls.append((rel, k, n, " ".join(text.split())))
                    k += 1
    return calls


def source_facts():
    tv = strip_comments(read("src/orange/OrangeTrackView.hh"))
    # declarations: exactly the two overloads
    decls = re.findall(r"real_type find_safety\(([^)]*)\);", tv)
    if sorted(d.strip() for d in decls) != ["", "real_type max_step"]:
        raise TranslateError(f"OrangeTrackView::find_safety overload set changed: {decls}")
    # find_safety(): all levels 0..level(), running min, nothing else
    must(r"real_type OrangeTrackView::find_safety\(\)\s*\{\s*"
         r"CELER_EXPECT\(!this->is_on_boundary\(\)\);\s*"
         r"TrackerVisitor visit_tracker\{params_\};\s*"
         r"real_type min_safety_dist = numeric_limits<real_type>::infinity\(\);\s*"
         r"for \(auto lev : range\(LevelId\{this->level\(\) \+ 1\}\)\)\s*\{\s*"
         r"auto lsa = this->make_lsa\(lev\);\s*"
         r"auto sd = visit_tracker\(\s*"
         r"\[&lsa\]\(auto&& t\) \{ return t\.safety\(lsa\.pos\(\), lsa\.vol\(\)\); \},\s*"
         r"lsa\.universe\(\)\);\s*"
         r"min_safety_dist = celeritas::min\(min_safety_dist, sd\);\s*\}\s*"
         r"return min_safety_dist;\s*\}", tv, "OrangeTrackView::find_safety() body")
    # find_safety(max_step): forwards, ignoring the argument
    must(r"real_type OrangeTrackView::find_safety\(real_type\)\s*\{\s*"
         r"return this->find_safety\(\);\s*\}", tv,
         "OrangeTrackView::find_safety(real_type max_step) body (forwarding to find_safety())")
    su = strip_comments(read("src/orange/univ/SimpleUnitTracker.hh"))
    must(r"real_type SimpleUnitTracker::safety\(Real3 const& pos,\s*LocalVolumeId volid\) const", su,
         "SimpleUnitTracker::safety signature")
    ra = strip_comments(read("src/orange/univ/RectArrayTracker.hh"))
    must(r"real_type RectArrayTracker::safety\(Real3 const& pos,\s*LocalVolumeId volid\) const", ra,
         "RectArrayTracker::safety signature")
    must(r"grid\.front\(\) = -std::numeric_limits<real_type>::infinity\(\);\s*"
         r"grid\.back\(\) = std::numeric_limits<real_type>::infinity\(\);",
         strip_comments(read("src/orange/detail/RectArrayInserter.cc")),
         "RectArrayInserter outer grid planes set to infinity")
    al = strip_comments(read("src/corecel/math/Algorithms.hh"))
    must(r"T min\(T a, T b\) noexcept\s*\{\s*return std::fmin\(a, b\);\s*\}", al,
         "celeritas::min for floating point = std::fmin")
    calls = consumer_calls()
    if not calls:
        raise TranslateError("no consumer of find_safety found under src/celeritas, src/accel")
    return {"simple": simple_flags(), "calls": calls}


def lean_bool(b):
    return "true" if b else "false"


def gen_safety():
    f = source_facts()
    lines = [HEADER, "namespace CelerVerif.Generated.Safety", ""]
    lines.append("/-! `S::simple_safety()` of each surface class (src/orange/surf/*.hh) -/")
    for c in CLASSES:
        lines.append(f"def simple{c} : Bool := {lean_bool(f['simple'][c])}")
    lines += ["",
              "/-- `OrangeTrackView::find_safety(real_type max_step)` is `return this->find_safety();`",
              "    (pattern-checked by tools/gen/safety.py) -/",
              "def findSafetyMaxForwards : Bool := true", "",
              "/-- every call of `find_safety` under src/celeritas and src/accel:",
              "    (file, ordinal of the call in the file, number of arguments, argument text) -/",
              "def consumerCalls : List (String × Nat × Nat × String) := ["]
    lines.append(",\n".join(f'  ("{rel}", {k}, {n}, "{txt}")' for rel, k, n, txt in f["calls"]))
    lines += ["]", "", "end CelerVerif.Generated.Safety", ""]
    return write_if_changed("SafetySource.lean", "\n".join(lines))


GENERATORS = {"safety": gen_safety}
