"""Generated/CalcConsts.lean: the numeric constants used by the C14 model (Model/Calc.lean),
regenerated from the current /repo source text.  Decimal literals are stored as
(mantissa, decimal exponent) = mantissa * 10^(-exponent), exactly the arguments of
`OfScientific.ofScientific m true e`, so that the same value is read at Float (as the compiler
reads the literal) and at ℝ."""
import re

from translate import (HEADER, TranslateError, must, read, strip_comments, write_if_changed)


def sci(lit, what):
    """C++ floating literal -> (mantissa, exponent) with value mantissa * 10^-exponent, in lowest
    terms (no trailing zeros in the mantissa); only non-negative literals <= 1-ish are needed"""
    s = lit.strip().rstrip("fFlL")
    m = re.fullmatch(r"(\d*)(?:\.(\d*))?(?:[eE]([+-]?\d+))?", s)
    if not m or not (m.group(1) or m.group(2)):
        raise TranslateError(f"{what}: cannot parse literal `{lit}`")
    ip, fp, ex = m.group(1) or "", m.group(2) or "", int(m.group(3) or 0)
    mant = int((ip + fp) or "0")
    e = len(fp) - ex          # value = mant * 10^-e
    if mant == 0:
        return 0, 0
    while mant % 10 == 0 and e > 0:
        mant //= 10
        e -= 1
    if e < 0:
        mant *= 10 ** (-e)
        e = 0
    return mant, e


def calc_consts():
    msc = strip_comments(read("src/celeritas/em/data/UrbanMscData.hh"))
    units = strip_comments(read("src/celeritas/Units.hh"))
    inter = strip_comments(read("src/celeritas/phys/Interaction.hh"))
    soft = strip_comments(read("src/corecel/math/detail/SoftEqualTraits.hh"))
    softeq = strip_comments(read("src/corecel/math/SoftEqual.hh"))
    xsg = strip_comments(read("src/celeritas/grid/XsGridData.hh"))
    types = strip_comments(read("src/corecel/Types.hh"))
    out = {}
    m = must(r"real_type\s+dtrl\(\)\s*\{\s*return\s+([0-9.eE+-]+)\s*;\s*\}", msc,
             "UrbanMscParameters::dtrl")
    out["dtrl"] = sci(m.group(1), "dtrl")
    # min_step() = 1 * units::nanometer, nanometer = real_type(1e-7) * centimeter, CGS: centimeter = 1
    m = must(r"real_type\s+min_step\(\)\s*\{\s*return\s+(\d+)\s*\*\s*units::nanometer\s*;\s*\}", msc,
             "UrbanMscParameters::min_step")
    factor = int(m.group(1))
    m = must(r"nanometer\s*=\s*real_type\(([0-9.eE+-]+)\)\s*\*\s*centimeter\s*;", units,
             "units::nanometer")
    nm = sci(m.group(1), "nanometer")
    must(r"#if CELERITAS_UNITS == CELERITAS_UNITS_CGS.*?centimeter\s*=\s*1\s*;", units,
         "CGS centimeter = 1 (the unit system of the verified build)", re.S)
    if factor != 1:
        # the model multiplies nothing: 1 * x is exact; any other factor must be modelled
        raise TranslateError(f"min_step(): factor {factor} * nanometer is not modelled")
    out["minStep"] = nm
    m = must(r"real_type\s+small_step_alpha\(\)\s*\{\s*return\s+([0-9.eE+-]+)\s*;\s*\}", inter,
             "MscStep::small_step_alpha")
    out["smallStepAlpha"] = sci(m.group(1), "small_step_alpha")
    m = must(r"struct SoftEqualTraits<double>\s*\{.*?sqrt_prec\(\)\s*\{\s*return\s+([0-9.eE+-]+)\s*;",
             soft, "SoftEqualTraits<double>::sqrt_prec", re.S)
    out["sqrtTol"] = sci(m.group(1), "sqrt_prec")
    m = must(r"struct SoftEqualTraits<double>\s*\{.*?rel_prec\(\)\s*\{\s*return\s+([0-9.eE+-]+)\s*;",
             soft, "SoftEqualTraits<double>::rel_prec", re.S)
    out["relPrec"] = sci(m.group(1), "rel_prec")
    m = must(r"struct SoftEqualTraits<double>\s*\{.*?abs_thresh\(\)\s*\{\s*return\s+([0-9.eE+-]+)\s*;",
             soft, "SoftEqualTraits<double>::abs_thresh", re.S)
    out["absThresh"] = sci(m.group(1), "abs_thresh")
    must(r"real_type sqrt_tol\(\)\s*\{\s*return detail::SoftEqualTraits<real_type>::sqrt_prec\(\);",
         softeq, "sqrt_tol")
    must(r"size_type no_scaling\(\)\s*\{\s*return size_type\(-1\);\s*\}", xsg,
         "XsGridData::no_scaling")
    must(r"#else\s*using size_type = std::size_t;", types, "host size_type = std::size_t")
    out["noScaling"] = 2 ** 64 - 1        # size_t(-1) on the LP64 host build
    return out


def render(c):
    lines = [HEADER,
             "/- Constants of the C14 model, from UrbanMscData.hh, Units.hh (CGS), Interaction.hh,",
             "   SoftEqualTraits.hh, XsGridData.hh.  (m, e) means the decimal literal m·10^(−e). -/",
             "namespace CelerVerif.Generated.CalcConsts", ""]
    for k in ("minStep", "dtrl", "smallStepAlpha", "sqrtTol", "relPrec", "absThresh"):
        lines.append(f"def {k}M : Nat := {c[k][0]}")
        lines.append(f"def {k}E : Nat := {c[k][1]}")
    lines.append(f"def noScaling : Nat := {c['noScaling']}")
    lines += ["", "end CelerVerif.Generated.CalcConsts", ""]
    return "\n".join(lines)


def gen_calc():
    return write_if_changed("CalcConsts.lean", render(calc_consts()))


GENERATORS = {"calc": gen_calc}
