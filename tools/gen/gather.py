"""Generated/GatherEnums.lean (C17): TrackStatus values, the StepSelection flag inventory, the
fields written by StepGatherExecutor (SGL_SET_IF_SELECTED) and copied by copy_steps (DS_ASSIGN),
and which conditions the diagnostics launch under — all from the CURRENT source text."""
import re

from translate import (HEADER, TranslateError, must, read, strip_comments, write_if_changed)


def parse_enum(src, name):
    m = must(r"enum class " + name + r"\b[^{]*\{(.*?)\};", src, "enum " + name, re.S)
    vals, nxt = {}, 0
    for item in m.group(1).split(","):
        item = item.strip()
        if not item:
            continue
        mm = re.match(r"(\w+)\s*(?:=\s*(\w+))?$", item)
        if not mm:
            raise TranslateError(f"enum {name}: cannot parse entry {item!r}")
        k, rhs = mm.group(1), mm.group(2)
        if rhs is not None:
            v = int(rhs) if rhs.isdigit() else vals.get(rhs)
            if v is None:
                raise TranslateError(f"enum {name}: unknown alias {rhs}")
        else:
            v = nxt
        vals[k] = v
        nxt = v + 1
    return vals


def lean_str_list(xs):
    return "[" + ", ".join('"%s"' % x for x in xs) + "]"


def gen_gather():
    types = strip_comments(read("src/celeritas/Types.hh"))
    ts = parse_enum(types, "TrackStatus")
    for k in ("inactive", "initializing", "alive", "errored", "killed"):
        if k not in ts:
            raise TranslateError(f"TrackStatus::{k} disappeared")
    m = must(r"bool is_track_valid\(TrackStatus status\)\s*\{\s*return status != TrackStatus::(\w+)"
             r"\s*&&\s*status != TrackStatus::(\w+);", types, "is_track_valid")
    invalid = sorted([m.group(1), m.group(2)])

    sd = strip_comments(read("src/celeritas/user/StepData.hh"))
    m = must(r"struct StepPointSelection\s*\{(.*?)static constexpr", sd, "StepPointSelection", re.S)
    point_flags = re.findall(r"bool (\w+)\{false\};", m.group(1))
    m = must(r"struct StepSelection\s*\{(.*?)static constexpr", sd, "StepSelection", re.S)
    step_flags = re.findall(r"bool (\w+)\{false\};", m.group(1))
    if not point_flags or not step_flags:
        raise TranslateError("selection flags not found")

    ex = strip_comments(read("src/celeritas/user/detail/StepGatherExecutor.hh"))
    body = must(r"StepGatherExecutor<P>::operator\(\)\(celeritas::CoreTrackView const& track\)\s*\{"
                r"(.*)#undef SGL_SET_IF_SELECTED", ex, "StepGatherExecutor body", re.S).group(1)
    # split the data-writing part into "only post" and "both points" writes
    post_only, both = [], []
    depth_post = 0
    for line in body.split("\n"):
        s = line.strip()
        if re.match(r"if \(P == StepPoint::post\)$", s):
            depth_post = 1
            continue
        mm = re.match(r"SGL_SET_IF_SELECTED\(\s*([\w\[\]\.]+)\s*,", s)
        if mm and "do" not in s:
            attr = mm.group(1)
            if attr.startswith("points[P]."):
                both.append(attr[len("points[P]."):])
            else:
                post_only.append(attr)
    if sorted(both) != sorted(point_flags):
        raise TranslateError(f"StepGatherExecutor writes point fields {both}, "
                             f"StepPointSelection has {point_flags}")
    if sorted(post_only) != sorted(step_flags):
        raise TranslateError(f"StepGatherExecutor writes step fields {post_only}, "
                             f"StepSelection has {step_flags}")
    must(r"this->state\.data\.track_id\[track\.track_slot_id\(\)\]\s*=\s*inactive \? TrackId\{\} : "
         r"sim\.track_id\(\);", ex, "track id always saved at post")
    must(r"if \(P == StepPoint::pre && !this->params\.detector\.empty\(\)\)\s*\{\s*"
         r"this->state\.data\.detector\[track\.track_slot_id\(\)\] = \{\};", ex,
         "detector cleared for inactive slots at pre")
    must(r"if \(P == StepPoint::post && this->params\.nonzero_energy_deposition\)\s*\{\s*"
         r"auto const pstep = track\.make_physics_step_view\(\);\s*"
         r"if \(pstep\.energy_deposition\(\) == zero_quantity\(\)\)\s*\{\s*"
         r"this->state\.data\.detector\[track\.track_slot_id\(\)\] = \{\};\s*return;", ex,
         "nonzero-deposit filter")

    ds = strip_comments(read("src/celeritas/user/DetectorSteps.cc"))
    copy = re.findall(r"DS_ASSIGN\(([\w\[\]\.]+)\);", ds)
    if not copy:
        raise TranslateError("DS_ASSIGN list not found")

    ad = strip_comments(read("src/celeritas/user/ActionDiagnostic.cc"))
    must(r"auto execute = make_active_track_executor\(", ad, "ActionDiagnostic launch condition")
    sdg = strip_comments(read("src/celeritas/user/StepDiagnostic.cc"))
    must(r"auto execute = make_active_track_executor\(", sdg, "StepDiagnostic launch condition")
    sde = strip_comments(read("src/celeritas/user/detail/StepDiagnosticExecutor.hh"))
    must(r"if \(sim\.status\(\) == TrackStatus::killed\)", sde, "StepDiagnostic killed condition")
    must(r"celeritas::min\(sim\.num_steps\(\), params\.num_bins - 1\)", sde, "StepDiagnostic bin")
    ade = strip_comments(read("src/celeritas/user/detail/ActionDiagnosticExecutor.hh"))
    must(r"BinId bin\{particle\.unchecked_get\(\) \* params\.num_bins\s*\+ action\.unchecked_get\(\)\};",
         ade, "ActionDiagnostic bin")

    text = HEADER + "namespace CelerVerif.Generated.Gather\n\n"
    for k in ("inactive", "initializing", "alive", "errored", "killed"):
        text += f"def status_{k} : Nat := {ts[k]}\n"
    text += f"\n/-- the two statuses excluded by `is_track_valid` -/\n"
    text += f"def invalidStatuses : List String := {lean_str_list(invalid)}\n"
    text += f"\ndef pointFlags : List String := {lean_str_list(point_flags)}\n"
    text += f"def stepFlags : List String := {lean_str_list(step_flags)}\n"
    text += f"\n/-- SGL_SET_IF_SELECTED at both points / only at the post point, in source order -/\n"
    text += f"def gatherPointWrites : List String := {lean_str_list(both)}\n"
    text += f"def gatherPostWrites : List String := {lean_str_list(post_only)}\n"
    text += f"\n/-- DS_ASSIGN list of copy_steps, in source order -/\n"
    text += f"def copyFields : List String := {lean_str_list(copy)}\n"
    text += "\nend CelerVerif.Generated.Gather\n"
    return write_if_changed("GatherEnums.lean", text)


GENERATORS = {"gather": gen_gather}
