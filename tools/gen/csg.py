"""Generated/CsgConsts.lean: logic tokens, LogicStack depth, NodeReplacer lattice order and the
special node ids, regenerated from the current source (C10)."""
import re

from translate import (HEADER, TranslateError, must, read, strip_comments, write_if_changed)


def csg_consts():
    """dict of the constants read from the current /repo source"""
    ot = strip_comments(read("src/orange/OrangeTypes.hh"))
    must(r"using logic_int = size_type;", ot, "logic_int")
    ty = strip_comments(read("src/corecel/Types.hh"))
    must(r"using size_type = unsigned int;", ty, "size_type (device-compatible branch)")
    bits = 32
    m = must(r"enum OperatorToken : logic_int\s*\{(.*?)\};", ot, "logic::OperatorToken", re.S)
    body = m.group(1)
    m0 = must(r"lbegin\s*=\s*logic_int\(~logic_int\((\d+)\)\)", body, "lbegin")
    lbegin = (~int(m0.group(1))) & ((1 << bits) - 1)
    names = [x.strip() for x in body.split(",") if x.strip()]
    vals = {}
    cur = None
    for item in names:
        if "=" in item:
            nm, rhs = [s.strip() for s in item.split("=", 1)]
            if nm == "lbegin":
                cur = lbegin
            elif rhs in vals:
                cur = vals[rhs]
            else:
                raise TranslateError(f"OperatorToken: cannot evaluate `{item}`")
        else:
            nm = item
            cur = cur + 1
        vals[nm] = cur
    for k in ("lbegin", "lopen", "lclose", "ltrue", "lor", "land", "lnot", "lend"):
        if k not in vals:
            raise TranslateError(f"OperatorToken: `{k}` missing")
    must(r"is_operator_token\(logic_int lv\)\s*\{\s*return \(lv >= lbegin\);\s*\}", ot,
         "is_operator_token")

    ls = strip_comments(read("src/orange/univ/detail/LogicStack.hh"))
    must(r"max_stack_depth\(\)\s*\{\s*return sizeof\(size_type\) \* 8;\s*\}", ls,
         "LogicStack::max_stack_depth")
    # the bit operations themselves (modelled by hand; pattern-guarded so an edit is noticed)
    must(r"data_ = LogicStack::shl\(data_\) \| LogicStack::lsb\(v\);\s*\+\+size_;", ls,
         "LogicStack::push")
    must(r"data_ \^= size_type\(1\);", ls, "LogicStack::apply_not")
    must(r"size_type temp = LogicStack::lsb\(data_\);\s*"
         r"data_ = LogicStack::shr\(data_\) & \(temp \| ~size_type\(1\)\);\s*--size_;", ls,
         "LogicStack::apply_and")
    must(r"data_ = LogicStack::shr\(data_\) \| LogicStack::lsb\(data_\);\s*--size_;", ls,
         "LogicStack::apply_or")
    op = strip_comments(read("src/orange/OrangeParams.cc"))
    must(r"CELER_VALIDATE\(host_data\.scalars\.max_logic_depth\s*<\s*"
         r"detail::LogicStack::max_stack_depth\(\)", op, "OrangeParams max_logic_depth check")

    nr = strip_comments(read("src/orange/orangeinp/detail/NodeReplacer.hh"))
    m = must(r"enum NodeRepl\s*\{([^}]*)\}", nr, "NodeReplacer::NodeRepl")
    order = [x.strip() for x in m.group(1).split(",") if x.strip()]
    if sorted(order) != sorted(["unvisited", "unknown", "known_false", "known_true"]) \
            or any("=" in x for x in order):
        raise TranslateError(f"NodeReplacer::NodeRepl enumerators changed: {order}")

    ct = strip_comments(read("src/orange/orangeinp/CsgTree.hh"))
    t = must(r"true_node_id\(\)\s*\{\s*return NodeId\{(\d+)\};", ct, "true_node_id")
    f = must(r"false_node_id\(\)\s*\{\s*return NodeId\{(\d+)\};", ct, "false_node_id")

    ui = strip_comments(read("src/orange/detail/UnitInserter.cc"))
    must(r"int calc_max_depth\(Span<logic_int const> logic\)\s*\{.*?"
         r"int max_depth = 1;\s*int cur_depth = 0;\s*for \(auto id : logic\)\s*\{\s*"
         r"if \(!logic::is_operator_token\(id\) \|\| id == logic::ltrue\)\s*\{\s*\+\+cur_depth;\s*\}\s*"
         r"else if \(id == logic::land \|\| id == logic::lor\)\s*\{\s*"
         r"max_depth = std::max\(cur_depth, max_depth\);\s*--cur_depth;\s*\}\s*\}\s*"
         r"if \(cur_depth != 1\)\s*\{\s*max_depth = invalid_max_depth;\s*\}", ui,
         "UnitInserter calc_max_depth", re.S)
    inv = must(r"constexpr int invalid_max_depth = (-?\d+);", ui, "invalid_max_depth")

    # ---- runtime volume flags (OrangeData.hh) and the statements of UnitInserter.cc /
    # UnitProto.cc / VolumeView.hh that write or read them (modelled in Model/CsgRuntime.lean)
    od = strip_comments(read("src/orange/OrangeData.hh"))
    m = must(r"enum Flags : logic_int\s*\{([^}]*)\}", od, "VolumeRecord::Flags")
    flags = {}
    for item in [x.strip() for x in m.group(1).split(",") if x.strip()]:
        mm = re.match(r"(\w+)\s*=\s*(0x[0-9a-fA-F]+|\d+)$", item)
        if not mm:
            raise TranslateError(f"VolumeRecord::Flags: cannot evaluate `{item}`")
        flags[mm.group(1)] = int(mm.group(2), 0)
    for k in ("internal_surfaces", "implicit_vol", "simple_safety", "embedded_universe"):
        if k not in flags:
            raise TranslateError(f"VolumeRecord::Flags: `{k}` missing")
    if len(flags) != 4:
        raise TranslateError(f"VolumeRecord::Flags: enumerators changed: {sorted(flags)}")
    must(r"output\.flags = v\.flags;\s*if \(simple_safety\)\s*\{\s*"
         r"output\.flags \|= VolumeRecord::Flags::simple_safety;\s*\}", ui,
         "UnitInserter::insert_volume flag assignment")
    must(r"output\.faces = \{\};\s*output\.logic = logic_ints_\.insert_back\("
         r"std::begin\(nowhere_logic\),\s*std::end\(nowhere_logic\)\);\s*"
         r"output\.max_intersections = 0;\s*output\.flags = VolumeRecord::implicit_vol\s*"
         r"\| VolumeRecord::Flags::simple_safety;", ui,
         "UnitInserter::insert_volume forced-limit replacement")
    must(r"static logic_int const nowhere_logic\[\] = \{logic::ltrue, logic::lnot\};", ui,
         "nowhere_logic")
    must(r"output\.logic\s*= logic_ints_\.insert_back\(input_logic\.begin\(\), "
         r"input_logic\.end\(\)\);", ui, "UnitInserter::insert_volume logic copy")
    must(r"void UnitInserter::process_daughter\(VolumeRecord\* vol_record,\s*"
         r"DaughterInput const& daughter_input\)\s*\{\s*Daughter daughter;\s*"
         r"daughter\.universe_id = daughter_input\.universe_id;\s*"
         r"daughter\.transform_id = insert_transform_\(daughter_input\.transform\);\s*"
         r"vol_record->daughter_id = daughters_\.push_back\(daughter\);\s*"
         r"vol_record->flags \|= VolumeRecord::embedded_universe;\s*\}", ui,
         "UnitInserter::process_daughter body")
    # every write to a `flags` member in UnitInserter.cc is one of the four modelled statements
    writes = re.findall(r"flags\s*(?:\|=|&=|\^=|=(?!=))", ui)
    if len(writes) != 4:
        raise TranslateError(f"UnitInserter.cc: {len(writes)} writes to a flags member, "
                             "the model has 4")
    up = strip_comments(read("src/orange/orangeinp/UnitProto.cc"))
    must(r"if \(has_internal_surfaces\(node_id\)\)\s*\{\s*"
         r"vi\.flags \|= VolumeRecord::internal_surfaces;\s*\}", up,
         "UnitProto::build internal_surfaces flag")
    if len(re.findall(r"flags\s*(?:\|=|&=|\^=|=(?!=))", up)) != 3:
        raise TranslateError("UnitProto.cc: number of writes to a flags member changed")
    vv = strip_comments(read("src/orange/univ/VolumeView.hh"))
    must(r"bool VolumeView::internal_surfaces\(\) const\s*\{\s*"
         r"return def_\.flags & VolumeRecord::internal_surfaces;\s*\}", vv,
         "VolumeView::internal_surfaces")

    return {"flags": flags, "bits": bits, "tok": vals, "repl_order": order, "true_id": int(t.group(1)),
            "false_id": int(f.group(1)), "invalid_max_depth": int(inv.group(1))}


def gen_csg():
    c = csg_consts()
    v = c["tok"]
    o = c["repl_order"]
    text = HEADER + f"""
namespace CelerVerif.Generated.Csg

/-- `size_type` / `logic_int` width in bits (`using size_type = unsigned int`) -/
def wordBits : Nat := {c['bits']}
/-- `logic::OperatorToken` values (`OrangeTypes.hh`) -/
def lbegin : Nat := 0x{v['lbegin']:x}
def lopen : Nat := 0x{v['lopen']:x}
def lclose : Nat := 0x{v['lclose']:x}
def ltrue : Nat := 0x{v['ltrue']:x}
def lor : Nat := 0x{v['lor']:x}
def land : Nat := 0x{v['land']:x}
def lnot : Nat := 0x{v['lnot']:x}
def lend : Nat := 0x{v['lend']:x}
/-- `LogicStack::max_stack_depth()` = `sizeof(size_type) * 8` -/
def maxStackDepth : Nat := {c['bits']}
/-- `NodeReplacer::NodeRepl` enumerator values (their order is used by `dest < repl`) -/
def replUnvisited : Nat := {o.index('unvisited')}
def replUnknown : Nat := {o.index('unknown')}
def replKnownFalse : Nat := {o.index('known_false')}
def replKnownTrue : Nat := {o.index('known_true')}
/-- `CsgTree::true_node_id()`, `false_node_id()` -/
def trueId : Nat := {c['true_id']}
def falseId : Nat := {c['false_id']}
/-- `invalid_max_depth` of `UnitInserter.cc` -/
def invalidMaxDepth : Int := {c['invalid_max_depth']}
/-- `VolumeRecord::Flags` (`OrangeData.hh`) -/
def flagInternalSurfaces : Nat := {c['flags']['internal_surfaces']}
def flagImplicitVol : Nat := {c['flags']['implicit_vol']}
def flagSimpleSafety : Nat := {c['flags']['simple_safety']}
def flagEmbeddedUniverse : Nat := {c['flags']['embedded_universe']}

end CelerVerif.Generated.Csg
"""
    return write_if_changed("CsgConsts.lean", text)


GENERATORS = {"csg": gen_csg}
