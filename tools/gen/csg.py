"""Generated/CsgConsts.lean: logic tokens, LogicStack depth, NodeReplacer lattice order and the
special node ids, regenerated from the current source (C10)."""
import re

from translate import (HEADER, TranslateError, must, read, strip_comments, write_if_changed)


def csg_consts():
    """dict of the constants read from the current /repo source"""
    ot = strip_comments(read("src/orange/OrangeTypes.hh"))
    must(r"using logic_int = size_type;", ot, "logic_int")
    ty = strip_comments(read("src/corecel/Types.hh"))
    must(r"using size_type = unsigned int;", ty, "size_type (device-compatible branch)")
    bits = 32
    m = must(r"enum OperatorToken : logic_int\s*\{(.*?)\};", ot, "logic::OperatorToken", re.S)
    body = m.group(1)
    m0 = must(r"lbegin\s*=\s*logic_int\(~logic_int\((\d+)\)\)", body, "lbegin")
    lbegin = (~int(m0.group(1))) & ((1 << bits) - 1)
    names = [x.strip() for x in body.split(",") if x.strip()]
    vals = {}
    cur = None
    for item in names:
        if "=" in item:
            nm, rhs = [s.strip() for s in item.split("=", 1)]
            if nm == "lbegin":
                cur = lbegin
            elif rhs in vals:
                cur = vals[rhs]
            else:
                raise TranslateError(f"OperatorToken: cannot evaluate `{item}`")
        else:
            nm = item
            cur = cur + 1
        vals[nm] = cur
    for k in ("lbegin", "lopen", "lclose", "ltrue", "lor", "land", "lnot", "lend"):
        if k not in vals:
            raise TranslateError(f"OperatorToken: `{k}` missing")
    must(r"is_operator_token\(logic_int lv\)\s*\{\s*return \(lv >= lbegin\);\s*\}", ot,
         "is_operator_token")

    ls = strip_comments(read("src/orange/univ/detail/LogicStack.hh"))
    must(r"max_stack_depth\(\)\s*\{\s*return sizeof\(size_type\) \* 8;\s*\}", ls,
         "LogicStack::max_stack_depth")
    # the bit operations themselves (modelled by hand; pattern-guarded so an edit is noticed)
    must(r"data_ = LogicStack::shl\(data_\) \| LogicStack::lsb\(v\);\s*\+\+size_;", ls,
         "LogicStack::push")
    must(r"data_ \^= size_type\(1\);", ls, "LogicStack::apply_not")
    must(r"size_type temp = LogicStack::lsb\(data_\);\s*"
         r"data_ = LogicStack::shr\(data_\) & \(temp \| ~size_type\(1\)\);\s*--size_;", ls,
         "LogicStack::apply_and")
    must(r"data_ = LogicStack::shr\(data_\) \| LogicStack::lsb\(data_\);\s*--size_;", ls,
         "LogicStack::apply_or")
    op = strip_comments(read("src/orange/OrangeParams.cc"))
    must(r"CELER_VALIDATE\(host_data\.scalars\.max_logic_depth\s*<\s*"
         r"detail::LogicStack::max_stack_depth\(\)", op, "OrangeParams max_logic_depth check")

    nr = strip_comments(read("src/orange/orangeinp/detail/NodeReplacer.hh"))
    m = must(r"enum NodeRepl\s*\{([^}]*)\}", nr, "NodeReplacer::NodeRepl")
    order = [x.strip() for x in m.group(1).split(",") if x.strip()]
    if sorted(order) != sorted(["unvisited", "unknown", "known_false", "known_true"]) \
            or any("=" in x for x in order):
        raise TranslateError(f"NodeReplacer::NodeRepl enumerators changed: {order}")

    ct = strip_comments(read("src/orange/orangeinp/CsgTree.hh"))
    t = must(r"true_node_id\(\)\s*\{\s*return NodeId\{(\d+)\};", ct, "true_node_id")
    f = must(r"false_node_id\(\)\s*\{\s*return NodeId\{(\d+)\};", ct, "false_node_id")

    ui = strip_comments(read("src/orange/detail/UnitInserter.cc"))
    must(r"int calc_max_depth\(Span<logic_int const> logic\)\s*\{.*?"
         r"int max_depth = 1;\s*int cur_depth = 0;\s*for \(auto id : logic\)\s*\{\s*"
         r"if \(!logic::is_operator_token\(id\) \|\| id == logic::ltrue\)\s*\{\s*\+\+cur_depth;\s*\}\s*"
         r"else if \(id == logic::land \|\| id == logic::lor\)\s*\{\s*"
         r"max_depth = std::max\(cur_depth, max_depth\);\s*--cur_depth;\s*\}\s*\}\s*"
         r"if \(cur_depth != 1\)\s*\{\s*max_depth = invalid_max_depth;\s*\}", ui,
         "UnitInserter calc_max_depth", re.S)
    inv = must(r"constexpr int invalid_max_depth = (-?\d+);", ui, "invalid_max_depth")

    return {"bits": bits, "tok": vals, "repl_order": order, "true_id": int(t.group(1)),
            "false_id": int(f.group(1)), "invalid_max_depth": int(inv.group(1))}


def gen_csg():
    c = csg_consts()
    v = c["tok"]
    o = c["repl_order"]
    text = HEADER + f"""
namespace CelerVerif.Generated.Csg

/-- `size_type` / `logic_int` width in bits (`using size_type = unsigned int`) -/
def wordBits : Nat := {c['bits']}
/-- `logic::OperatorToken` values (`OrangeTypes.hh`) -/
def lbegin : Nat := 0x{v['lbegin']:x}
def lopen : Nat := 0x{v['lopen']:x}
def lclose : Nat := 0x{v['lclose']:x}
def ltrue : Nat := 0x{v['ltrue']:x}
def lor : Nat := 0x{v['lor']:x}
def land : Nat := 0x{v['land']:x}
def lnot : Nat := 0x{v['lnot']:x}
def lend : Nat := 0x{v['lend']:x}
/-- `LogicStack::max_stack_depth()` = `sizeof(size_type) * 8` -/
def maxStackDepth : Nat := {c['bits']}
/-- `NodeReplacer::NodeRepl` enumerator values (their order is used by `dest < repl`) -/
def replUnvisited : Nat := {o.index('unvisited')}
def replUnknown : Nat := {o.index('unknown')}
def replKnownFalse : Nat := {o.index('known_false')}
def replKnownTrue : Nat := {o.index('known_true')}
/-- `CsgTree::true_node_id()`, `false_node_id()` -/
def trueId : Nat := {c['true_id']}
def falseId : Nat := {c['false_id']}
/-- `invalid_max_depth` of `UnitInserter.cc` -/
def invalidMaxDepth : Int := {c['invalid_max_depth']}

end CelerVerif.Generated.Csg
"""
    return write_if_changed("CsgConsts.lean", text)


GENERATORS = {"csg": gen_csg}
