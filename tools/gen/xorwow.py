"""Generated/XorwowConsts.lean + XorwowTables.lean from the xorwow sources (C13, C06)."""
import re

from translate import (HEADER, TranslateError, must, read, strip_comments, write_if_changed)


def xorwow_tables():
    """(jump, jump_subsequence) as lists of 32 rows of 5 words, from the current source"""
    src = strip_comments(read("src/celeritas/random/XorwowRngParams.cc"))

    def table(fn):
        m = must(fn + r"\s*\(\s*\)\s*->\s*ArrayJumpPoly const&\s*\{(.*?)\n\}", src,
                 fn, re.S)
        body = m.group(1)
        rows = re.findall(r"\{\s*((?:0x[0-9a-fA-F]+u?\s*,\s*){4}0x[0-9a-fA-F]+u?)\s*\}", body)
        if len(rows) != 32:
            raise TranslateError(f"{fn}: expected 32 rows of 5 words, got {len(rows)}")
        out = []
        for r in rows:
            ws = [int(w.strip().rstrip("uU"), 16) for w in r.split(",")]
            if len(ws) != 5 or any(w >= 2**32 for w in ws):
                raise TranslateError(f"{fn}: bad row {r}")
            out.append(ws)
        return out

    return table("get_jump_poly"), table("get_jump_subsequence_poly")


def gen_xorwow():
    """Writes XorwowTables.lean as soon as the tables are extracted and XorwowConsts.lean as soon
    as the constants are, so that a failing structural pattern elsewhere never leaves stale
    generated data behind; structural pattern failures are raised at the end."""
    errors = []
    jump, jsub = xorwow_tables()
    changed = write_if_changed("XorwowTables.lean", render_tables(jump, jsub))
    try:
        consts = extract_consts()
        changed = write_if_changed("XorwowConsts.lean", render_consts(consts)) or changed
    except TranslateError as e:
        errors.append(str(e))
    errors += structural_errors()
    if errors:
        raise TranslateError("; ".join(errors))
    return changed


def structural_errors():
    """patterns that pin the hand-modelled control flow (no data extracted)"""
    errs = []

    def chk(pat, src, what, flags=0):
        if not re.search(pat, src, flags):
            errs.append(f"pattern for {what} no longer matches")

    eng = strip_comments(read("src/celeritas/random/XorwowRngEngine.hh"))
    chk(r"void XorwowRngEngine::discard_subsequence\(ull_int count\)\s*\{\s*"
        r"this->jump\(count,\s*params_\.jump_subsequence\);\s*\}", eng,
        "XorwowRngEngine::discard_subsequence")
    rs = strip_comments(read("src/celeritas/random/RngReseed.cc"))
    chk(r"init\.subsequence = event_id\.unchecked_get\(\) \* size \+ i;", rs,
        "reseed_rng subsequence formula")
    chk(r"init\.seed = params\.seed;", rs, "reseed_rng seed")
    dat = strip_comments(read("src/celeritas/random/XorwowRngData.hh"))
    chk(r"using XorwowUInt = std::uint32_t;", dat, "XorwowUInt")
    chk(r"using JumpPoly = Array<XorwowUInt, 5>;", dat, "JumpPoly")
    chk(r"using ArrayJumpPoly = Array<JumpPoly, 32>;", dat, "ArrayJumpPoly")
    gc = strip_comments(read("src/celeritas/random/detail/GenerateCanonical32.hh"))
    chk(r"constexpr float norm = ([0-9.e+-]+)f;\s*return norm \* rng\(\);", gc,
        "GenerateCanonical32<float>")
    return errs


def extract_consts():
    eng = strip_comments(read("src/celeritas/random/XorwowRngEngine.hh"))
    m = must(r"operator\(\)\(\)\s*->\s*result_type\s*\{\s*this->next\(\);\s*"
             r"state_->weylstate\s*\+=\s*(\d+)u;\s*"
             r"return\s+state_->weylstate\s*\+\s*state_->xorstate\[4\];", eng,
             "XorwowRngEngine::operator()")
    c = {"weyl_draw": int(m.group(1))}
    m = must(r"void XorwowRngEngine::discard\(ull_int count\)\s*\{\s*"
             r"this->jump\(count,\s*params_\.jump\);\s*"
             r"state_->weylstate\s*\+=\s*static_cast<unsigned int>\(count\)\s*\*\s*(\d+)u;", eng,
             "XorwowRngEngine::discard")
    c["weyl_disc"] = int(m.group(1))
    m = must(r"void XorwowRngEngine::next\(\)\s*\{\s*auto& s = state_->xorstate;\s*"
             r"auto const t = \(s\[0\] \^ \(s\[0\] >> (\d+)u\)\);\s*"
             r"s\[0\] = s\[1\];\s*s\[1\] = s\[2\];\s*s\[2\] = s\[3\];\s*s\[3\] = s\[4\];\s*"
             r"s\[4\] = \(s\[4\] \^ \(s\[4\] << (\d+)u\)\) \^ \(t \^ \(t << (\d+)u\)\);\s*\}", eng,
             "XorwowRngEngine::next")
    c["sh_a"], c["sh_c"], c["sh_b"] = int(m.group(1)), int(m.group(2)), int(m.group(3))
    m = must(r"constexpr size_type max_num_jump = (\d+);", eng, "max_num_jump")
    c["max_num_jump"] = int(m.group(1))
    m = must(r"count >>= (\d+);", eng, "jump digit shift")
    c["digit_shift"] = int(m.group(1))
    m = must(r"std::uint64_t z = \(state \+= (0x[0-9a-f]+)ull\);\s*"
             r"z = \(z \^ \(z >> (\d+)\)\) \* (0x[0-9a-f]+)ull;\s*"
             r"z = \(z \^ \(z >> (\d+)\)\) \* (0x[0-9a-f]+)ull;\s*"
             r"return z \^ \(z >> (\d+)\);", eng, "SplitMix64")
    c["sm"] = [int(m.group(1), 16), int(m.group(2)), int(m.group(3), 16), int(m.group(4)),
               int(m.group(5), 16), int(m.group(6))]
    gc = strip_comments(read("src/celeritas/random/detail/GenerateCanonical32.hh"))
    m = must(r"constexpr double norm = ([0-9.e+-]+);\s*return norm\s*\*\s*"
             r"static_cast<double>\(\(static_cast<ull_int>\(upper\) << \((\d+)ul - (\d+)ul\)\)\s*"
             r"\^ static_cast<ull_int>\(lower\)\);", gc, "GenerateCanonical32<double>")
    norm = float(m.group(1))
    if norm != 2.0 ** -53:
        raise TranslateError(f"GenerateCanonical32<double>::norm is {norm!r}, not 2^-53")
    c["canon_shift"] = int(m.group(2)) - int(m.group(3))
    return c


def render_consts(c):
    sm = c["sm"]
    return HEADER + f"""
namespace CelerVerif.Generated.Xorwow

/-- `state_->weylstate += <k>u` in `operator()` -/
def weylDraw : Nat := {c["weyl_draw"]}
/-- `static_cast<unsigned int>(count) * <k>u` in `discard` -/
def weylDiscard : Nat := {c["weyl_disc"]}
/-- shift amounts of `next()`: `s0 >> a`, `t << b`, `s4 << c` -/
def shiftA : Nat := {c["sh_a"]}
def shiftB : Nat := {c["sh_b"]}
def shiftC : Nat := {c["sh_c"]}
/-- `max_num_jump` (digit mask) and `count >>= k` in `jump(count, arr)` -/
def maxNumJump : Nat := {c["max_num_jump"]}
def digitShift : Nat := {c["digit_shift"]}
/-- SplitMix64: increment, shift, multiplier, shift, multiplier, shift -/
def smInc : Nat := 0x{sm[0]:x}
def smShift1 : Nat := {sm[1]}
def smMul1 : Nat := 0x{sm[2]:x}
def smShift2 : Nat := {sm[3]}
def smMul2 : Nat := 0x{sm[4]:x}
def smShift3 : Nat := {sm[5]}
/-- `upper << (53 - 32)` in GenerateCanonical32<double>; norm checked to be 2^-53 -/
def canonShift : Nat := {c["canon_shift"]}

end CelerVerif.Generated.Xorwow
"""


def render_tables(jump, jsub):
    def lean_table(name, tab):
        lines = [f"def {name} : List (List Nat) := ["]
        for i, r in enumerate(tab):
            lines.append("  [" + ", ".join(f"0x{w:08x}" for w in r) + "]" + ("," if i < 31 else ""))
        lines.append("]")
        return "\n".join(lines)

    def packed(name, tab):
        lines = [f"/-- the same rows packed little-endian into one 160-bit number each -/",
                 f"def {name} : List Nat := ["]
        for i, r in enumerate(tab):
            v = sum(w << (32 * k) for k, w in enumerate(r))
            lines.append(f"  0x{v:040x}" + ("," if i < 31 else ""))
        lines.append("]")
        return "\n".join(lines)

    return HEADER + f"""
namespace CelerVerif.Generated.Xorwow

/-- `XorwowRngParams::get_jump_poly`, row i = words of z^(4^i) mod P, low word first -/
{lean_table("jumpWords", jump)}

/-- `XorwowRngParams::get_jump_subsequence_poly` -/
{lean_table("jumpSubWords", jsub)}

{packed("jumpPacked", jump)}

{packed("jumpSubPacked", jsub)}

end CelerVerif.Generated.Xorwow
"""


GENERATORS = {"xorwow": gen_xorwow}
