"""Generated/XorwowConsts.lean + XorwowTables.lean from the xorwow sources (C13, C06)."""
import re

from translate import (HEADER, TranslateError, must, read, strip_comments, write_if_changed)


def xorwow_tables():
    """(jump, jump_subsequence) as lists of 32 rows of 5 words, from the current source"""
    src = strip_comments(read("src/celeritas/random/XorwowRngParams.cc"))

    def table(fn):
        m = must(fn + r"\s*\(\s*\)\s*->\s*ArrayJumpPoly const&\s*\{(.*?)\n\}", src,
                 fn, re.S)
        body = m.group(1)
        rows = re.findall(r"\{\s*((?:0x[0-9a-fA-F]+u?\s*,\s*){4}0x[0-9a-fA-F]+u?)\s*\}", body)
        if len(rows) != 32:
            raise TranslateError(f"{fn}: expected 32 rows of 5 words, got {len(rows)}")
        out = []
        for r in rows:
            ws = [int(w.strip().rstrip("uU"), 16) for w in r.split(",")]
            if len(ws) != 5 or any(w >= 2**32 for w in ws):
                raise TranslateError(f"{fn}: bad row {r}")
            out.append(ws)
        return out

    return table("get_jump_poly"), table("get_jump_subsequence_poly")


def gen_xorwow():
    jump, jsub = xorwow_tables()

    eng = strip_comments(read("src/celeritas/random/XorwowRngEngine.hh"))
    # operator(): weyl increment
    m = must(r"operator\(\)\(\)\s*->\s*result_type\s*\{\s*this->next\(\);\s*"
             r"state_->weylstate\s*\+=\s*(\d+)u;\s*"
             r"return\s+state_->weylstate\s*\+\s*state_->xorstate\[4\];", eng,
             "XorwowRngEngine::operator()")
    weyl_draw = int(m.group(1))
    m = must(r"void XorwowRngEngine::discard\(ull_int count\)\s*\{\s*"
             r"this->jump\(count,\s*params_\.jump\);\s*"
             r"state_->weylstate\s*\+=\s*static_cast<unsigned int>\(count\)\s*\*\s*(\d+)u;", eng,
             "XorwowRngEngine::discard")
    weyl_disc = int(m.group(1))
    must(r"void XorwowRngEngine::discard_subsequence\(ull_int count\)\s*\{\s*"
         r"this->jump\(count,\s*params_\.jump_subsequence\);\s*\}", eng,
         "XorwowRngEngine::discard_subsequence")
    m = must(r"void XorwowRngEngine::next\(\)\s*\{\s*auto& s = state_->xorstate;\s*"
             r"auto const t = \(s\[0\] \^ \(s\[0\] >> (\d+)u\)\);\s*"
             r"s\[0\] = s\[1\];\s*s\[1\] = s\[2\];\s*s\[2\] = s\[3\];\s*s\[3\] = s\[4\];\s*"
             r"s\[4\] = \(s\[4\] \^ \(s\[4\] << (\d+)u\)\) \^ \(t \^ \(t << (\d+)u\)\);\s*\}", eng,
             "XorwowRngEngine::next")
    sh_a, sh_c, sh_b = int(m.group(1)), int(m.group(2)), int(m.group(3))
    m = must(r"constexpr size_type max_num_jump = (\d+);", eng, "max_num_jump")
    max_num_jump = int(m.group(1))
    m = must(r"count >>= (\d+);", eng, "jump digit shift")
    digit_shift = int(m.group(1))
    m = must(r"std::uint64_t z = \(state \+= (0x[0-9a-f]+)ull\);\s*"
             r"z = \(z \^ \(z >> (\d+)\)\) \* (0x[0-9a-f]+)ull;\s*"
             r"z = \(z \^ \(z >> (\d+)\)\) \* (0x[0-9a-f]+)ull;\s*"
             r"return z \^ \(z >> (\d+)\);", eng, "SplitMix64")
    sm = [int(m.group(1), 16), int(m.group(2)), int(m.group(3), 16), int(m.group(4)),
          int(m.group(5), 16), int(m.group(6))]

    gc = strip_comments(read("src/celeritas/random/detail/GenerateCanonical32.hh"))
    m = must(r"constexpr double norm = ([0-9.e+-]+);\s*return norm\s*\*\s*"
             r"static_cast<double>\(\(static_cast<ull_int>\(upper\) << \((\d+)ul - (\d+)ul\)\)\s*"
             r"\^ static_cast<ull_int>\(lower\)\);", gc, "GenerateCanonical32<double>")
    norm = float(m.group(1))
    if norm != 2.0 ** -53:
        raise TranslateError(f"GenerateCanonical32<double>::norm is {norm!r}, not 2^-53")
    canon_shift = int(m.group(2)) - int(m.group(3))
    m = must(r"constexpr float norm = ([0-9.e+-]+)f;\s*return norm \* rng\(\);", gc,
             "GenerateCanonical32<float>")

    rs = strip_comments(read("src/celeritas/random/RngReseed.cc"))
    must(r"init\.subsequence = event_id\.unchecked_get\(\) \* size \+ i;", rs,
         "reseed_rng subsequence formula")
    must(r"init\.seed = params\.seed;", rs, "reseed_rng seed")

    dat = strip_comments(read("src/celeritas/random/XorwowRngData.hh"))
    must(r"using XorwowUInt = std::uint32_t;", dat, "XorwowUInt")
    must(r"using JumpPoly = Array<XorwowUInt, 5>;", dat, "JumpPoly")
    must(r"using ArrayJumpPoly = Array<JumpPoly, 32>;", dat, "ArrayJumpPoly")

    def lean_table(name, tab):
        lines = [f"def {name} : List (List Nat) := ["]
        for i, r in enumerate(tab):
            lines.append("  [" + ", ".join(f"0x{w:08x}" for w in r) + "]" + ("," if i < 31 else ""))
        lines.append("]")
        return "\n".join(lines)

    def packed(name, tab):
        lines = [f"/-- the same rows packed little-endian into one 160-bit number each -/",
                 f"def {name} : List Nat := ["]
        for i, r in enumerate(tab):
            v = sum(w << (32 * k) for k, w in enumerate(r))
            lines.append(f"  0x{v:040x}" + ("," if i < 31 else ""))
        lines.append("]")
        return "\n".join(lines)

    consts = HEADER + f"""
namespace CelerVerif.Generated.Xorwow

/-- `state_->weylstate += <k>u` in `operator()` -/
def weylDraw : Nat := {weyl_draw}
/-- `static_cast<unsigned int>(count) * <k>u` in `discard` -/
def weylDiscard : Nat := {weyl_disc}
/-- shift amounts of `next()`: `s0 >> a`, `t << b`, `s4 << c` -/
def shiftA : Nat := {sh_a}
def shiftB : Nat := {sh_b}
def shiftC : Nat := {sh_c}
/-- `max_num_jump` (digit mask) and `count >>= k` in `jump(count, arr)` -/
def maxNumJump : Nat := {max_num_jump}
def digitShift : Nat := {digit_shift}
/-- SplitMix64: increment, shift, multiplier, shift, multiplier, shift -/
def smInc : Nat := 0x{sm[0]:x}
def smShift1 : Nat := {sm[1]}
def smMul1 : Nat := 0x{sm[2]:x}
def smShift2 : Nat := {sm[3]}
def smMul2 : Nat := 0x{sm[4]:x}
def smShift3 : Nat := {sm[5]}
/-- `upper << (53 - 32)` in GenerateCanonical32<double>; norm checked to be 2^-53 -/
def canonShift : Nat := {canon_shift}

end CelerVerif.Generated.Xorwow
"""
    tables = HEADER + f"""
namespace CelerVerif.Generated.Xorwow

/-- `XorwowRngParams::get_jump_poly`, row i = words of z^(4^i) mod P, low word first -/
{lean_table("jumpWords", jump)}

/-- `XorwowRngParams::get_jump_subsequence_poly` -/
{lean_table("jumpSubWords", jsub)}

{packed("jumpPacked", jump)}

{packed("jumpSubPacked", jsub)}

end CelerVerif.Generated.Xorwow
"""
    c1 = write_if_changed("XorwowConsts.lean", consts)
    c2 = write_if_changed("XorwowTables.lean", tables)
    return c1 or c2


GENERATORS = {"xorwow": gen_xorwow}
