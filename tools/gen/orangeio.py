"""Generated/OrangeIOKeys.lean from the ORANGE JSON I/O sources (C19).

Extracted from the CURRENT /repo text on every run:
  * the JSON keys written by each to_json and read by each from_json (incl. legacy keys),
  * surface type names (to_cstring(SurfaceType)), their enum order, the class bound to each
    type (SurfaceTypeTraits.hh) and that class's StorageSpan extent, and whether
    visit_surface_type has a case for the type (it has none for `inv`),
  * logic operator tokens (values, printed chars, chars accepted by string_to_logic),
  * ZOrder values and the to_char / to_zorder tables, legacy integer zorder constants,
  * format / universe-type strings accepted and written, unit-system names.
"""
import re

from translate import (HEADER, TranslateError, must, read, strip_comments, write_if_changed)


def _body(src, start):
    """text of the brace block starting at the first '{' at or after `start`"""
    i = src.index("{", start)
    depth, k = 0, i
    while k < len(src):
        if src[k] == "{":
            depth += 1
        elif src[k] == "}":
            depth -= 1
            if depth == 0:
                return src[i:k + 1]
        k += 1
    raise TranslateError("unbalanced braces")


def _functions(src, pat):
    """{name: body} for every match of `pat` (group 1 = name) followed by a body"""
    out = {}
    for m in re.finditer(pat, src):
        b = _body(src, m.end() - 1)
        out.setdefault(m.group(1), "")
        out[m.group(1)] += b
    return out


def _uniq(xs):
    out = []
    for x in xs:
        if x not in out:
            out.append(x)
    return out


def _written(body):
    ks = re.findall(r'\bj\["(\w+)"\]', body)
    ks += re.findall(r'\]\["(\w+)"\]', body)                 # j["md"]["name"]
    ks += re.findall(r'\{\s*"(\w+)"\s*,', body)              # initializer-list objects
    if re.search(r"j\[std::string\(1, to_char\(ax\)\)\]", body):
        ks += ["x", "y", "z"]
    if "save_units(j)" in body:
        ks += ["_units"]
    return _uniq(ks)


def _read(body):
    ks = re.findall(r'\.at\("(\w+)"\)', body)
    ks += re.findall(r'\.find\("(\w+)"\)', body)
    ks += re.findall(r'\.contains\("(\w+)"\)', body)
    for m in re.finditer(r"for \(char const\* key : \{([^}]*)\}\)", body):
        ks += re.findall(r'"(\w+)"', m.group(1))
    if re.search(r"j\.at\(std::string\(1, to_char\(ax\)\)\)", body):
        ks += ["x", "y", "z"]
    if "get_bbox(j)" in body:
        ks += ["bbox"]
    if "check_units(j" in body:
        ks += ["_units"]
    return _uniq(ks)


def extract():
    io = strip_comments(read("src/orange/OrangeInputIO.json.cc"))
    impl = strip_comments(read("src/orange/detail/OrangeInputIOImpl.json.cc"))
    types_hh = strip_comments(read("src/orange/OrangeTypes.hh"))
    types_cc = strip_comments(read("src/orange/OrangeTypes.cc"))
    traits = strip_comments(read("src/orange/surf/SurfaceTypeTraits.hh"))
    bbio = strip_comments(read("src/geocel/BoundingBoxIO.json.cc"))
    labio = strip_comments(read("src/corecel/io/LabelIO.json.hh"))
    ju = strip_comments(read("src/corecel/io/JsonUtils.json.cc"))
    ctypes = strip_comments(read("src/corecel/Types.cc"))

    d = {}
    # ---- width of size_type: host-only build (vlib.CMAKE_ARGS has no CUDA/HIP) => std::size_t
    ct = strip_comments(read("src/corecel/Types.hh"))
    must(r"#if CELER_USE_DEVICE[^\n]*\n\s*using size_type = unsigned int;\s*#else\s*"
         r"using size_type = std::size_t;", ct, "size_type definition")
    WORD = (1 << 64) - 1
    d["word_bits"] = 64
    # ---- keys
    tj = _functions(io, r"void to_json\(nlohmann::json& j, (\w+)(?:<\w*>)? const& value\)\s*\{")
    fj = _functions(io, r"void from_json\(nlohmann::json const& j, (\w+)(?:<\w*>)?& value\)\s*\{")
    want = ["VolumeInput", "UnitInput", "RectArrayInput", "Tolerance", "OrangeInput"]
    for w in want:
        if w not in tj or w not in fj:
            raise TranslateError(f"to_json/from_json({w}) not found in OrangeInputIO.json.cc")
    must(r'BBox get_bbox\(nlohmann::json const& j\)\s*\{\s*if \(auto iter = j\.find\("bbox"\)', io,
         "get_bbox")
    must(r'void save_units\(nlohmann::json& j\)\s*\{[^}]*j\["_units"\]', ju, "save_units")
    must(r'void check_units\([^)]*\)\s*\{\s*if \(auto iter = j\.find\("_units"\)', ju, "check_units")
    written = {w: _written(tj[w]) for w in want}
    readk = {w: _read(fj[w]) for w in want}
    m = must(r"nlohmann::json export_zipped_surfaces\([^)]*\)\s*\{", impl, "export_zipped_surfaces")
    written["Surfaces"] = _written(_body(impl, m.end() - 1))
    m = must(r"import_zipped_surfaces\(nlohmann::json const& j\)\s*\{", impl,
             "import_zipped_surfaces")
    readk["Surfaces"] = _read(_body(impl, m.end() - 1))
    # "md" is an object holding "name"
    d["written"], d["read"] = written, readk

    # ---- surface types
    m = must(r"enum class SurfaceType : unsigned char\s*\{(.*?)\}", types_hh, "SurfaceType", re.S)
    enum_names = [x.strip() for x in m.group(1).split(",") if x.strip()]
    if enum_names[-1] != "size_":
        raise TranslateError("SurfaceType: no size_ sentinel")
    enum_names = enum_names[:-1]
    m = must(r"to_cstring\(SurfaceType value\)\s*\{\s*static EnumStringMapper<SurfaceType> const "
             r"to_cstring_impl\{(.*?)\};", types_cc, "to_cstring(SurfaceType)", re.S)
    names = re.findall(r'"(\w+)"', m.group(1))
    if names != enum_names:
        raise TranslateError(f"SurfaceType strings {names} differ from enumerators {enum_names}")
    cls = dict(re.findall(r"ORANGE_SURFACE_TRAITS\((\w+),\s*([\w:<>]+)\);", traits))
    visit = set(re.findall(r"ORANGE_ST_VISIT_CASE\((\w+)\);", traits))
    sizes, readable = [], []
    for n in names:
        if n not in cls:
            raise TranslateError(f"no SurfaceTypeTraits for {n}")
        base = re.sub(r"<.*", "", cls[n])
        hh = strip_comments(read(f"src/orange/surf/{base}.hh"))
        m = must(r"using StorageSpan = Span<real_type const, (\d+)>;", hh, f"{base}::StorageSpan")
        sizes.append(int(m.group(1)))
        readable.append(n in visit)
    d["surf_names"], d["surf_sizes"], d["surf_readable"] = names, sizes, readable
    must(r"surfaces->emplace_back\(std::in_place_type<Surface>,\s*StorageSpan\{data\.data\(\), "
         r"data\.size\(\)\}\);", impl, "SurfaceEmplacer")
    must(r"visit_surface_type\(", impl, "SurfaceEmplacer uses visit_surface_type")

    # ---- logic tokens
    m = must(r"enum OperatorToken : logic_int\s*\{\s*lbegin = logic_int\(~logic_int\((\d+)\)\),"
             r"(.*?)\}", types_hh, "OperatorToken", re.S)
    lbegin = (~int(m.group(1))) & WORD
    must(r"using logic_int = size_type;", types_hh, "logic_int")
    toks, val = {"lbegin": lbegin}, lbegin
    for item in [x.strip() for x in m.group(2).split(",") if x.strip()]:
        if "=" in item:
            a, b = [y.strip() for y in item.split("=")]
            toks[a] = toks[b]
            val = toks[b] + 1
        else:
            toks[item] = val
            val += 1
    for t in ("ltrue", "lor", "land", "lnot", "lend"):
        if t not in toks:
            raise TranslateError(f"OperatorToken {t} missing")
    m = must(r'return is_operator_token\(tok\) \? "([^"]*)"\[tok - lbegin\] : ', types_hh,
             "to_char(OperatorToken)")
    d["lbegin"], d["tok_chars"], d["toks"] = lbegin, m.group(1), toks
    must(r"return \(lv >= lbegin\);", types_hh, "is_operator_token")
    m = must(r"switch \(v\)\s*\{(.*?)\}", impl, "string_to_logic switch", re.S)
    parsed = re.findall(r"case '(.)':\s*result\.push_back\(logic::(\w+)\);", m.group(1))
    if not parsed:
        raise TranslateError("string_to_logic: no token cases")
    d["parsed"] = [(c, toks[t]) for c, t in parsed]
    must(r"surf_id = 10 \* surf_id \+ \(v - '0'\);", impl, "string_to_logic digit push")
    must(r"CELER_VALIDATE\(v == ' ',", impl, "string_to_logic separator")
    must(r"logic\.begin\(\), logic\.end\(\), ' ', logic_to_stream", impl, "logic_to_string join")

    # ---- ZOrder
    m = must(r"enum class ZOrder : size_type\s*\{(.*?)\}", types_hh, "ZOrder", re.S)
    zo, val = {}, 0
    for item in [x.strip() for x in m.group(1).split(",") if x.strip()]:
        if "=" in item:
            a, b = [y.strip() for y in item.split("=")]
            mm = re.match(r"size_type\((-?\d+)\)$", b)
            val = (int(mm.group(1)) if mm else int(b)) & WORD
            zo[a] = val
        else:
            zo[item] = val
        val += 1
    m = must(r"char to_char\(ZOrder zo\)\s*\{\s*switch \(zo\)\s*\{(.*?)\};\s*return '(.)';",
             types_cc, "to_char(ZOrder)", re.S)
    d["zo_to_char"] = [(zo[a], c) for a, c in
                       re.findall(r"case ZOrder::(\w+):\s*return '(.)';", m.group(1))]
    d["zo_default_char"] = m.group(2)
    m = must(r"ZOrder to_zorder\(char c\)\s*\{\s*switch \(c\)\s*\{(.*?)\};\s*return ZOrder::(\w+);",
             types_cc, "to_zorder", re.S)
    d["zo_of_char"] = [(c, zo[a]) for c, a in
                       re.findall(r"case '(.)':\s*return ZOrder::(\w+);", m.group(1))]
    d["zo_default"] = zo[m.group(2)]
    d["zo"] = zo
    m = must(r"constexpr size_type uint16_max = (\d+);", io, "legacy zorder uint16_max")
    u16 = int(m.group(1))
    m1 = must(r"== uint16_max - (\d+)\)\s*\{\s*value\.zorder = ZOrder::(\w+);", io, "legacy zorder 1")
    rest = io[m1.end():]
    m2 = must(r"== uint16_max - (\d+)\)\s*\{\s*value\.zorder = ZOrder::(\w+);", rest,
              "legacy zorder 2")
    d["zo_legacy"] = [(u16 - int(m1.group(1)), zo[m1.group(2)]),
                      (u16 - int(m2.group(1)), zo[m2.group(2)])]
    must(r"value\.logic = \{logic::ltrue, logic::lnot\};\s*value\.bbox = \{\};", io,
         "background volume special case")

    # ---- strings
    m = must(r'CELER_VALIDATE\(((?:fmt == "[^"]*"(?:\s*\|\|\s*)?)+),', io, "accepted formats")
    d["formats_read"] = re.findall(r'"([^"]*)"', m.group(1))
    m = must(r'\{"_format", "([^"]*)"\}', io, "written format")
    d["format_written"] = m.group(1)
    d["unit_types_read"] = re.findall(r'uni_type == "([^"]*)"', io)
    d["unit_types_written"] = re.findall(r'j\["_type"\] = "([^"]*)";', io)
    m = must(r"EnumStringMapper<UnitSystem> const to_cstring_impl\{(.*?)\};", ctypes,
             "to_cstring(UnitSystem)", re.S)
    d["unit_systems"] = re.findall(r'"(\w+)"', m.group(1))

    # ---- bbox / label mechanics (pattern guards only)
    must(r"if \(std::fabs\(\(\*point\)\[ax\]\) == max_real\)\s*\{\s*\(\*point\)\[ax\] = "
         r"std::copysign\(inf, \(\*point\)\[ax\]\);", bbio, "max_to_inf")
    must(r"if \(std::isinf\(\(\*point\)\[ax\]\)\)\s*\{\s*\(\*point\)\[ax\] = "
         r"std::copysign\(max_real, \(\*point\)\[ax\]\);", bbio, "inf_to_max")
    must(r"value = Label::from_separator\(j\.get<std::string>\(\)\);", labio, "from_json(Label)")
    must(r"j = to_string\(value\);", labio, "to_json(Label)")
    lab = strip_comments(read("src/corecel/io/Label.hh"))
    m = must(r"static constexpr char default_sep = '(.)';", lab, "Label::default_sep")
    d["label_sep"] = m.group(1)
    must(r"auto pos = name\.rfind\(sep\);", strip_comments(read("src/corecel/io/Label.cc")),
         "Label::from_separator uses rfind")
    return d


def _s(x):
    return '"' + x.replace("\\", "\\\\").replace('"', '\\"') + '"'


def _c(c):
    return "'" + ("\\'" if c == "'" else "\\\\" if c == "\\" else c) + "'"


def _slist(xs):
    return "[" + ", ".join(_s(x) for x in xs) + "]"


def gen_orangeio():
    d = extract()
    L = [HEADER, "-- C19: data extracted from the ORANGE JSON I/O sources by tools/gen/orangeio.py\n",
         "namespace CelerVerif.Generated.OrangeIO\n\n"]
    L.append("/-- bits of celeritas::size_type (= logic_int, ZOrder, OpaqueId) in the host build -/\n")
    L.append(f"def sizeTypeBits : Nat := {d['word_bits']}\n")
    L.append(f"def surfaceNames : List String := {_slist(d['surf_names'])}\n")
    L.append("def surfaceSizes : List Nat := [" + ", ".join(map(str, d["surf_sizes"])) + "]\n")
    L.append("/-- whether `visit_surface_type` (used by the JSON reader) has a case for the type -/\n")
    L.append("def surfaceReadable : List Bool := ["
             + ", ".join("true" if b else "false" for b in d["surf_readable"]) + "]\n\n")
    L.append(f"def lbegin : Nat := {d['lbegin']}\n")
    for t in ("ltrue", "lor", "land", "lnot", "lend"):
        L.append(f"def {t} : Nat := {d['toks'][t]}\n")
    L.append("/-- chars printed for tokens `lbegin + i` (the C string literal; index `length` is its NUL) -/\n")
    L.append("def tokenChars : List Char := [" + ", ".join(_c(c) for c in d["tok_chars"]) + "]\n")
    L.append("/-- chars accepted by `string_to_logic` and the token pushed -/\n")
    L.append("def parsedTokens : List (Char × Nat) := ["
             + ", ".join(f"({_c(c)}, {v})" for c, v in d["parsed"]) + "]\n\n")
    for k, v in d["zo"].items():
        L.append(f"def zorder_{k} : Nat := {v}\n")
    L.append("def zorderToChar : List (Nat × Char) := ["
             + ", ".join(f"({v}, {_c(c)})" for v, c in d["zo_to_char"]) + "]\n")
    L.append(f"def zorderDefaultChar : Char := {_c(d['zo_default_char'])}\n")
    L.append("def zorderOfChar : List (Char × Nat) := ["
             + ", ".join(f"({_c(c)}, {v})" for c, v in d["zo_of_char"]) + "]\n")
    L.append(f"def zorderOfCharDefault : Nat := {d['zo_default']}\n")
    L.append("/-- legacy integer zorder values remapped on read -/\n")
    L.append("def zorderLegacy : List (Nat × Nat) := ["
             + ", ".join(f"({a}, {b})" for a, b in d["zo_legacy"]) + "]\n\n")
    L.append(f"def formatsRead : List String := {_slist(d['formats_read'])}\n")
    L.append(f"def formatWritten : String := {_s(d['format_written'])}\n")
    L.append(f"def universeTypesRead : List String := {_slist(d['unit_types_read'])}\n")
    L.append(f"def universeTypesWritten : List String := {_slist(d['unit_types_written'])}\n")
    L.append(f"def unitSystems : List String := {_slist(d['unit_systems'])}\n")
    L.append(f"def labelSep : Char := {_c(d['label_sep'])}\n\n")
    for nm, tab in (("keysWritten", d["written"]), ("keysRead", d["read"])):
        L.append(f"def {nm} : List (String × List String) := [\n")
        L.append(",\n".join(f"  ({_s(k)}, {_slist(v)})" for k, v in tab.items()))
        L.append("]\n")
    L.append("\nend CelerVerif.Generated.OrangeIO\n")
    return write_if_changed("OrangeIOKeys.lean", "".join(L))


GENERATORS = {"orangeio": gen_orangeio}
