#!/usr/bin/env python3
"""Regenerate the status tables of DESIGN.md (between the AUTOGEN markers) from the check
modules, the Props files, known_findings.txt and seeded/RESULTS.json."""
import json
import os
import re
import sys

HERE = os.path.dirname(os.path.abspath(__file__))
VERIF = os.path.dirname(HERE)
sys.path.insert(0, HERE)
import manifest_data as md  # noqa: E402
import vlib  # noqa: E402


def theorems(pid):
    names = []
    for f in ([pid] + (["C09b"] if pid == "C09" else [])):
        try:
            names += [n.split(".")[-1] for n in vlib.prop_theorems(f)]
        except OSError:
            pass
    return names


def main():
    rows = ["| id | level | # theorems | theorems in `Props/` (★ = property-level; `_partial` = part proved) | model files | harness |",
            "|---|---|---|---|---|---|"]
    for pid in sorted(md.CHECKS):
        c = md.CHECKS[pid]
        mod = __import__("checks." + pid.lower(), fromlist=["x"])
        th = theorems(pid)
        closure = [os.path.relpath(p, os.path.join(VERIF, "lean", "CelerVerif"))
                   for p in vlib.module_closure(pid) if "/Model/" in p or "/Generated/" in p]
        if pid == "C09":
            closure += [os.path.relpath(p, os.path.join(VERIF, "lean", "CelerVerif"))
                        for p in vlib.module_closure("C09b") if "/Model/" in p]
        closure = sorted(set(closure))
        shown = ", ".join(th[:14]) + (f", … (+{len(th) - 14})" if len(th) > 14 else "")
        rows.append(f"| {pid} | {c['category']} | {len(th)} | {shown} | "
                    f"{', '.join(closure)} | {', '.join('harness/%s.cc' % h for h in getattr(mod, 'HARNESS', {}) if h != 'numself')} |")
    status = "\n".join(rows)

    kf = open(os.path.join(VERIF, "known_findings.txt")).read().split("\n")
    frows = ["| property | status | key / commit | what |", "|---|---|---|---|"]
    for line in kf:
        m = re.match(r"known:\s+property=(\S+)\s+key=(\S+)\s+(.*)", line)
        if m:
            frows.append(f"| {m.group(1)} | known finding | `{m.group(2)}` | {m.group(3)[:260]}{'…' if len(m.group(3)) > 260 else ''} |")
        m = re.match(r"fixed:\s+property=(\S+)\s+(\S+)\s+(.*)", line)
        if m:
            frows.append(f"| {m.group(1)} | **fixed** | `{m.group(2)}` | {m.group(3)[:260]}{'…' if len(m.group(3)) > 260 else ''} |")
    findings = "\n".join(frows)

    srows = ["| seeded change | breaks | what it needs to manifest | caught by | failing input found | demo fails with / passes without |",
             "|---|---|---|---|---|---|"]
    resf = os.path.join(VERIF, "seeded", "RESULTS.json")
    res = json.load(open(resf)) if os.path.exists(resf) else {}
    for n in sorted(res):
        r = res[n]
        meta = {}
        try:
            meta = json.load(open(os.path.join(VERIF, "seeded", n, "meta.json")))
        except (OSError, ValueError):
            pass
        why = "; ".join(x.lstrip("# ")[:110] for x in r.get("reasons", [])[:1])
        srows.append(f"| `seeded/{n}` | {n.split('-')[0]} | {str(meta.get('needs_to_manifest', ''))[:200]} | "
                     f"{'check ' + r.get('checked_by', n.split('-')[0]) if r.get('detected') else '**MISSED**'}: {why} | "
                     f"{'yes' if r.get('with_failing_input') else 'no'} | "
                     f"{r.get('demo_exit_with_change')} / {r.get('demo_exit_without_change')} |")
    seeded = "\n".join(srows)

    p = os.path.join(VERIF, "DESIGN.md")
    s = open(p).read()
    for tag, body in (("STATUS", status), ("FINDINGS", findings), ("SEEDED", seeded)):
        a, b = f"<!-- AUTOGEN:{tag}:BEGIN -->", f"<!-- AUTOGEN:{tag}:END -->"
        if a in s and b in s:
            s = s[:s.index(a) + len(a)] + "\n" + body + "\n" + s[s.index(b):]
    open(p, "w").write(s)
    print("DESIGN.md tables regenerated:", len(rows) - 2, "checks,", len(frows) - 2, "findings,",
          len(srows) - 2, "seeded")


if __name__ == "__main__":
    main()
