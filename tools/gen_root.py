#!/usr/bin/env python3
"""Rewrite lean/CelerVerif.lean so that it imports every module under lean/CelerVerif/
(run by lean_build before `lake build CelerVerif`)."""
import os

HERE = os.path.dirname(os.path.abspath(__file__))
LEAN = os.path.join(os.path.dirname(HERE), "lean")


def main():
    mods = []
    for root, _, files in os.walk(os.path.join(LEAN, "CelerVerif")):
        for f in files:
            if f.endswith(".lean"):
                rel = os.path.relpath(os.path.join(root, f), LEAN)[:-5]
                mods.append(rel.replace(os.sep, "."))
    text = "".join(f"import {m}\n" for m in sorted(mods))
    p = os.path.join(LEAN, "CelerVerif.lean")
    if not os.path.exists(p) or open(p).read() != text:
        open(p, "w").write(text)


if __name__ == "__main__":
    main()
