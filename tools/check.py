#!/usr/bin/env python3
"""Single entry point:  tools/check.py C13 [--tier quick|thorough] [--replay file]

exit 0  : the property held on everything explored (KNOWN-FINDING lines may be printed)
exit 1  : a line `VIOLATION property=<id> replay=<path>[ no-failing-input-found]` was printed
"""
import argparse
import importlib
import json
import os
import sys
import traceback

sys.path.insert(0, os.path.dirname(os.path.abspath(__file__)))
import vlib  # noqa: E402


def main():
    ap = argparse.ArgumentParser()
    ap.add_argument("prop")
    ap.add_argument("--tier", default=os.environ.get("VERIF_TIER", "quick"),
                    choices=["quick", "thorough"])
    ap.add_argument("--replay", default=None)
    a = ap.parse_args()
    seed = int(os.environ.get("VERIF_SEED", "0") or 0)
    prop = a.prop.upper()
    mod = importlib.import_module("checks." + prop.lower())
    ctx = vlib.Ctx(prop, a.tier, seed)
    if a.replay:
        data = json.load(open(a.replay))
        return mod.replay(ctx, data)
    try:
        level = mod.run(ctx)
    except Exception:
        # machinery failure: never silently pass
        traceback.print_exc()
        ctx.violation("machinery-exception", "the check itself raised an exception",
                      {"traceback": traceback.format_exc()[-3000:]}, found_input=False)
        level = getattr(mod, "LEVEL", "other")
        ctx.coverage.setdefault("explanation", "check aborted by an exception")
        ctx.coverage.setdefault("evaluations", 1)
        ctx.coverage.setdefault("distinct_nontrivial", 2)
    return ctx.finish(level)


if __name__ == "__main__":
    sys.exit(main())
