"""Shared machinery for the /verif checks (see DESIGN.md §2, §5).

Every check (tools/checks/cXX.py) uses:
  * Ctx               : seed / tier / paths / RNG / result collection / evidence / verdict
  * translate + lean build + axiom audit + forbidden-token grep      (the proof side)
  * incremental build of /repo's libraries and of the C++ harness    (the code side)
  * run_pair / diff of the model driver and the harness              (the correspondence)
"""
import fcntl
import hashlib
import json
import os
import re
import subprocess
import sys
import time

VERIF = os.path.dirname(os.path.dirname(os.path.abspath(__file__)))
REPO = os.environ.get("VERIF_REPO", "/repo")
LEAN = os.path.join(VERIF, "lean")
BUILD = os.path.join(VERIF, ".build")
CELER = os.path.join(BUILD, "celer")
HBUILD = os.path.join(BUILD, "harness")
HARNESS = os.path.join(VERIF, "harness")
EVIDENCE = os.path.join(VERIF, "evidence")
REPLAYS = os.path.join(VERIF, "replays")
CORPUS = os.path.join(VERIF, "corpus")


def model_exe(prop):
    """compiled line-protocol driver of the Lean model for one property"""
    return os.path.join(LEAN, ".lake", "build", "bin", "celer_model_" + prop.lower())


CONDA = "/root/miniconda"
HOOK_DEFINE = "CELERITAS_VERIF_HOOKS"

ALLOWED_AXIOMS = {"propext", "Classical.choice", "Quot.sound"}

sys.path.insert(0, os.path.dirname(os.path.abspath(__file__)))
import translate  # noqa: E402


# --------------------------------------------------------------------------- utilities
class SplitMix64:
    """All random choices of a check derive from one state seeded by VERIF_SEED."""

    def __init__(self, seed):
        self.s = seed & 0xFFFFFFFFFFFFFFFF

    def next(self):
        self.s = (self.s + 0x9E3779B97F4A7C15) & 0xFFFFFFFFFFFFFFFF
        z = self.s
        z = ((z ^ (z >> 30)) * 0xBF58476D1CE4E5B9) & 0xFFFFFFFFFFFFFFFF
        z = ((z ^ (z >> 27)) * 0x94D049BB133111EB) & 0xFFFFFFFFFFFFFFFF
        return z ^ (z >> 31)

    def below(self, n):
        return self.next() % n if n > 0 else 0

    def range(self, lo, hi):
        """inclusive"""
        return lo + self.below(hi - lo + 1)

    def choice(self, xs):
        return xs[self.below(len(xs))]

    def chance(self, num, den):
        return self.below(den) < num

    def unit(self):
        return (self.next() >> 11) / float(1 << 53)

    def shuffle(self, xs):
        for i in range(len(xs) - 1, 0, -1):
            j = self.below(i + 1)
            xs[i], xs[j] = xs[j], xs[i]


def sh(cmd, cwd=None, timeout=None, env=None, input=None):
    e = dict(os.environ)
    e.setdefault("CELER_DISABLE_PARALLEL", "1")
    e.setdefault("CELER_LOG", "error")
    e.setdefault("OMP_NUM_THREADS", "1")
    if env:
        e.update(env)
    p = subprocess.run(cmd, cwd=cwd, env=e, input=input, stdout=subprocess.PIPE,
                       stderr=subprocess.STDOUT, text=True, timeout=timeout,
                       shell=isinstance(cmd, str))
    return p.returncode, p.stdout


class Lock:
    def __init__(self, name):
        os.makedirs(BUILD, exist_ok=True)
        self.path = os.path.join(BUILD, name + ".lock")

    def __enter__(self):
        self.f = open(self.path, "w")
        fcntl.flock(self.f, fcntl.LOCK_EX)
        return self

    def __exit__(self, *a):
        fcntl.flock(self.f, fcntl.LOCK_UN)
        self.f.close()


# --------------------------------------------------------------------------- code side
CMAKE_ARGS = [
    "-G", "Ninja", "-DCMAKE_BUILD_TYPE=Release", "-DCELERITAS_BUILD_TESTS=ON",
    "-DCELERITAS_USE_MPI=OFF", "-DCELERITAS_USE_PNG=OFF", "-DCELERITAS_USE_Python=OFF",
    "-DCELERITAS_USE_OpenMP=ON", "-DCELERITAS_BUILD_DOCS=OFF", "-DCELERITAS_DEBUG=OFF",
    "-DCMAKE_CXX_FLAGS=-Wno-error -D" + HOOK_DEFINE, "-DCMAKE_PREFIX_PATH=" + CONDA,
]
LIB_TARGETS = {
    "corecel": "libcorecel.so", "geocel": "libgeocel.so", "orange": "liborange.so",
    "celeritas": "libceleritas.so",
    "testcel_harness": "libtestcel_harness.so", "testcel_core": "libtestcel_core.so",
    "testcel_geocel": "libtestcel_geocel.so", "testcel_orange": "libtestcel_orange.so",
    "testcel_celeritas": "libtestcel_celeritas.so",
}
LIB_DIRS = {
    "corecel": "lib", "geocel": "lib", "orange": "lib", "celeritas": "lib",
    "testcel_harness": "test", "testcel_core": "test/corecel", "testcel_geocel": "test/geocel",
    "testcel_orange": "test/orange", "testcel_celeritas": "test/celeritas",
}


def build_repo_libs(libs):
    """(Re)build the given libraries of /repo's *current working tree* in our own tree."""
    t0 = time.time()
    with Lock("celer"):
        if not os.path.exists(os.path.join(CELER, "build.ninja")):
            os.makedirs(CELER, exist_ok=True)
            rc, out = sh(["cmake", "-S", REPO, "-B", CELER] + CMAKE_ARGS, timeout=600)
            if rc != 0:
                return False, "cmake configure failed:\n" + out[-4000:], time.time() - t0
        rc, out = sh(["ninja", "-C", CELER] + [LIB_TARGETS[l] for l in libs], timeout=3600)
    return rc == 0, out[-6000:], time.time() - t0


def harness_flags(libs, san=False):
    inc = ["-I" + os.path.join(REPO, "src"), "-I" + os.path.join(CELER, "include"),
           "-I" + os.path.join(CONDA, "include"), "-I" + HARNESS,
           "-I" + os.path.join(REPO, "test")]
    cxx = ["-std=c++17", "-ffp-contract=off", "-fopenmp", "-D" + HOOK_DEFINE, "-w"]
    cxx += ["-O1", "-g", "-fsanitize=address,undefined", "-fno-sanitize-recover=all"] if san \
        else ["-O1"]
    ld = []
    for l in libs:
        d = os.path.join(CELER, LIB_DIRS[l])
        ld += ["-L" + d, "-Wl,-rpath," + d, "-l" + l]
    if any(l.startswith("testcel") for l in libs):
        ld += ["-L" + os.path.join(CONDA, "lib"), "-Wl,-rpath," + os.path.join(CONDA, "lib"),
               "-lgtest"]
    return inc, cxx, ld


def build_harness(name, libs, san=False, extra_src=()):
    """Compile harness/<name>.cc against the current /repo tree (header deps tracked by
    ninja/gcc depfiles, so an edit to any included /repo header recompiles it)."""
    t0 = time.time()
    ok, log, _ = build_repo_libs(libs) if libs else (True, "", 0)
    if not ok:
        return None, "library build failed:\n" + log, time.time() - t0
    os.makedirs(HBUILD, exist_ok=True)
    exe = name + ("_san" if san else "")
    inc, cxx, ld = harness_flags(libs, san)
    nin = os.path.join(HBUILD, exe + ".ninja")
    srcs = [os.path.join(HARNESS, name + ".cc")] + [os.path.join(HARNESS, s) for s in extra_src]
    lines = ["rule cxx",
             "  command = g++ $flags -MMD -MF $out.d -c $in -o $out",
             "  depfile = $out.d", "  deps = gcc",
             "rule link", "  command = g++ $flags $in -o $out $ldflags"]
    objs = []
    for s in srcs:
        o = os.path.join(HBUILD, exe + "_" + os.path.basename(s) + ".o")
        objs.append(o)
        lines += [f"build {o}: cxx {s}", "  flags = " + " ".join(cxx + inc)]
    lines += [f"build {os.path.join(HBUILD, exe)}: link " + " ".join(objs),
              "  flags = " + " ".join(cxx), "  ldflags = " + " ".join(ld)]
    text = "\n".join(lines) + "\n"
    with Lock("harness_" + exe):
        if not os.path.exists(nin) or open(nin).read() != text:
            with open(nin, "w") as f:
                f.write(text)
        rc, out = sh(["ninja", "-f", nin, "-C", HBUILD], timeout=1800)
    if rc != 0:
        return None, out[-6000:], time.time() - t0
    return os.path.join(HBUILD, exe), out[-500:], time.time() - t0


# --------------------------------------------------------------------------- proof side
FORBIDDEN = re.compile(r"\b(sorry|admit|native_decide|bv_decide|implemented_by|unsafe)\b|"
                       r"^\s*axiom\s|maxHeartbeats\s+0")


def strip_lean_comments(src):
    out, i, depth, n = [], 0, 0, len(src)
    while i < n:
        if src.startswith("/-", i):
            depth += 1
            i += 2
        elif depth and src.startswith("-/", i):
            depth -= 1
            i += 2
        elif depth:
            if src[i] == "\n":
                out.append("\n")
            i += 1
        elif src.startswith("--", i):
            while i < n and src[i] != "\n":
                i += 1
        else:
            out.append(src[i])
            i += 1
    return "".join(out)


def module_closure(prop):
    """files under lean/CelerVerif reachable through `import` from Props/<prop>.lean and from
    the property's driver (the part of the library this property's claim rests on)"""
    roots = [os.path.join(LEAN, "CelerVerif", "Props", prop + ".lean"),
             os.path.join(LEAN, "Driver", prop + ".lean")]
    seen, todo = set(), [r for r in roots if os.path.exists(r)]
    while todo:
        f = todo.pop()
        if f in seen:
            continue
        seen.add(f)
        try:
            src = open(f).read()
        except OSError:
            continue
        for m in re.findall(r"^import\s+((?:CelerVerif|Driver)\.\S+)", src, re.M):
            q = os.path.join(LEAN, *m.split(".")) + ".lean"
            if os.path.exists(q):
                todo.append(q)
    return sorted(seen)


def grep_forbidden(prop=None):
    """forbidden tokens outside comments, in the import closure of the property (or, with
    prop=None, in the whole library)"""
    if prop is None:
        files = []
        for root, _, fs in os.walk(os.path.join(LEAN, "CelerVerif")):
            files += [os.path.join(root, fn) for fn in fs if fn.endswith(".lean")]
    else:
        files = module_closure(prop)
    hits = []
    for p in files:
        for k, line in enumerate(strip_lean_comments(open(p).read()).split("\n"), 1):
            if FORBIDDEN.search(line):
                hits.append(f"{os.path.relpath(p, LEAN)}:{k}: {line.strip()[:120]}")
    return hits


def lean_build(targets, timeout=3600):
    """translate, then `lake build` the given module targets.  Returns dict."""
    t0 = time.time()
    with Lock("lean"):
        changed, terr = translate.run()
        import gen_root
        gen_root.main()
        rc, out = sh(["lake", "build"] + targets, cwd=LEAN, timeout=timeout)
    failed = sorted(set(re.findall(r"^error: (\S+\.lean):(\d+):\d+:", out, re.M)))
    bad_mods = sorted(set(re.findall(r"^- (CelerVerif\.\S+|Driver\.\S+)", out, re.M)))
    return {"ok": rc == 0, "log": out[-8000:], "translate_errors": terr,
            "regenerated": changed, "failed_at": [f"{a}:{b}" for a, b in failed],
            "failed_modules": bad_mods, "wall_s": time.time() - t0}


def prop_theorems(prop):
    """fully qualified names of the theorems declared in Props/<prop>.lean (the proof
    obligations); follows `namespace X` / `end X` nesting"""
    p = os.path.join(LEAN, "CelerVerif", "Props", prop + ".lean")
    src = strip_lean_comments(open(p).read())
    stack, names = [], []
    for line in src.split("\n"):
        m = re.match(r"^namespace\s+(\S+)", line)
        if m:
            stack.append(m.group(1))
            continue
        m = re.match(r"^end\s+(\S+)", line)
        if m and stack and stack[-1] == m.group(1):
            stack.pop()
            continue
        m = re.match(r"^\s*(?:@\[[^\]]*\]\s*)?(?:protected\s+|private\s+)?theorem\s+(\S+)", line)
        if m:
            names.append(".".join(stack + [m.group(1)]))
    return names


def lean_audit(prop):
    """`#print axioms` for every theorem of Props/<prop>.lean.
    Returns (obligations, discharged, details, bad)."""
    names = prop_theorems(prop)
    os.makedirs(os.path.join(BUILD, "audit"), exist_ok=True)
    f = os.path.join(BUILD, "audit", prop + ".lean")
    with open(f, "w") as fh:
        fh.write(f"import CelerVerif.Props.{prop}\n")
        for n in names:
            fh.write(f"#print axioms {n}\n")
    rc, out = sh(["lake", "env", "lean", f], cwd=LEAN, timeout=1800)
    details, bad = {}, []
    for n in names:
        m = re.search(r"'" + re.escape(n) + r"' depends on axioms: \[([^\]]*)\]", out, re.S)
        if m:
            ax = [a.strip() for a in m.group(1).replace("\n", " ").split(",") if a.strip()]
        elif re.search(r"'" + re.escape(n) + r"' does not depend on any axioms", out):
            ax = []
        else:
            ax = None
        details[n] = ax
        if ax is None or any(a not in ALLOWED_AXIOMS for a in ax):
            bad.append(n)
    return len(names), len(names) - len(bad), details, bad, out[-3000:]


# --------------------------------------------------------------------------- correspondence
def run_lines(exe_args, lines, timeout=1800, env=None):
    rc, out = sh(exe_args, input="\n".join(lines) + "\n", timeout=timeout, env=env)
    return rc, out.split("\n")[:-1] if out.endswith("\n") else out.split("\n")


def first_diff(a, b):
    for i in range(max(len(a), len(b))):
        x = a[i] if i < len(a) else "<missing>"
        y = b[i] if i < len(b) else "<missing>"
        if x != y:
            return i, x, y
    return None


# --------------------------------------------------------------------------- findings
def load_known_findings():
    """known_findings.txt: lines `known: property=<id> key=<key> <text>` and
    `fixed: property=<id> <commit> <text>`.  Only `known:` entries suppress anything."""
    p = os.path.join(VERIF, "known_findings.txt")
    out = []
    if os.path.exists(p):
        for line in open(p):
            m = re.match(r"known:\s+property=(\S+)\s+key=(\S+)\s+(.*)", line.strip())
            if m:
                out.append({"property": m.group(1), "key": m.group(2), "text": m.group(3)})
    return out


# --------------------------------------------------------------------------- context
class Ctx:
    def __init__(self, prop, tier, seed):
        self.prop, self.tier, self.seed = prop, tier, seed
        self.rng = SplitMix64(seed * 1000003 + sum(map(ord, prop)))
        self.t0 = time.time()
        self.violations = []     # dicts: key, what, replay(dict), found_input(bool)
        self.notes = []
        self.coverage = {}
        self.assumptions = []
        self.known = [k for k in load_known_findings() if k["property"] == prop]
        self.known_hit = []

    def quick(self):
        return self.tier == "quick"

    def violation(self, key, what, replay, found_input=True):
        """Record a violation.  `key` identifies the failing input / call site; a key listed
        in known_findings.txt becomes a KNOWN-FINDING line instead."""
        for k in self.known:
            if k["key"] == key:
                if k not in self.known_hit:
                    self.known_hit.append(k)
                return
        self.violations.append({"key": key, "what": what, "replay": replay,
                                "found_input": found_input})

    def write_replay(self, v):
        os.makedirs(REPLAYS, exist_ok=True)
        body = json.dumps({"property": self.prop, "seed": self.seed, "tier": self.tier,
                           "key": v["key"], "what": v["what"], "replay": v["replay"],
                           "failing_input_found": v["found_input"]}, indent=1, sort_keys=True)
        h = hashlib.sha1(body.encode()).hexdigest()[:12]
        p = os.path.join(REPLAYS, f"{self.prop}-{h}.json")
        with open(p, "w") as f:
            f.write(body + "\n")
        return p

    @staticmethod
    def _sanitize(cov):
        """keep the typed keys of EVIDENCE.schema.json well-typed whatever a check put there"""
        if "exhaustive" in cov and not isinstance(cov["exhaustive"], bool):
            cov["exhaustive_scope"] = cov.pop("exhaustive")
        for k in ("evaluations", "distinct_nontrivial", "states", "transitions", "obligations",
                  "discharged", "programs", "disagreements_checked",
                  "traces_validated_against_impl"):
            if k in cov and not isinstance(cov[k], int):
                try:
                    cov[k] = int(cov[k])
                except (TypeError, ValueError):
                    cov[k + "_note"] = str(cov.pop(k))
        if "samples" in cov and not isinstance(cov["samples"], list):
            cov["samples"] = [cov["samples"]]
        if "trusted_base" in cov:
            cov["trusted_base"] = [str(x) for x in cov["trusted_base"]]
        for k in ("rule", "checker_cmd", "explanation"):
            if k in cov and not isinstance(cov[k], str):
                cov[k] = json.dumps(cov[k])

    def finish(self, level):
        wall = time.time() - self.t0
        ev = {"property_id": self.prop, "tier": self.tier, "seed": self.seed, "level": level,
              "coverage": self.coverage, "assumptions": self.assumptions,
              "wall_s": round(wall, 2), "violations": len(self.violations)}
        if self.notes:
            ev["coverage"]["notes"] = self.notes
        self._sanitize(ev["coverage"])
        os.makedirs(EVIDENCE, exist_ok=True)
        with open(os.path.join(EVIDENCE, self.prop + ".json"), "w") as f:
            json.dump(ev, f, indent=1, sort_keys=True)
            f.write("\n")
        for k in self.known_hit:
            print(f"KNOWN-FINDING: property={self.prop} {k['text']}")
        for v in self.violations:
            p = self.write_replay(v)
            tail = "" if v["found_input"] else " no-failing-input-found"
            print(f"# {v['what']}")
            print(f"VIOLATION property={self.prop} replay={p}{tail}")
        sys.stdout.flush()
        return 1 if self.violations else 0
