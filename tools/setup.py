#!/usr/bin/env python3
"""MANIFEST.setup_cmd: build everything the checks need, offline, from files on disk.
(1) /repo's libraries from the current tree into /verif/.build/celer (cmake + ninja),
(2) the Lean project (translate, then `lake build` of every module and the model driver),
(3) every harness binary.  The checks rebuild incrementally afterwards."""
import os
import sys
import time
from concurrent.futures import ThreadPoolExecutor

sys.path.insert(0, os.path.dirname(os.path.abspath(__file__)))
import vlib  # noqa: E402
import manifest_data  # noqa: E402


def main():
    t0 = time.time()
    ok = True
    with ThreadPoolExecutor(max_workers=2) as ex:
        f_libs = ex.submit(vlib.build_repo_libs, list(vlib.LIB_TARGETS.keys()))
        # only what the claimed checks need (other modules may be work in progress)
        targets = ["celer_model_num"]
        for p in manifest_data.CHECKS:
            targets += ["celer_model_" + p.lower(), "CelerVerif.Props." + p]
        f_lean = ex.submit(vlib.lean_build, targets, 7200)
        okl, log, dt = f_libs.result()
        print(f"[setup] repo libraries: {'ok' if okl else 'FAILED'} in {dt:.0f}s")
        if not okl:
            print(log)
            ok = False
        res = f_lean.result()
        print(f"[setup] lean: {'ok' if res['ok'] else 'FAILED'} in {res['wall_s']:.0f}s "
              f"translate_errors={res['translate_errors']}")
        if not res["ok"]:
            print(res["log"])
            ok = False
    if ok:
        for name, libs in manifest_data.HARNESSES.items():
            exe, log, dt = vlib.build_harness(name, libs)
            print(f"[setup] harness {name}: {'ok' if exe else 'FAILED'} in {dt:.0f}s")
            if exe is None:
                print(log)
                ok = False
    print(f"[setup] done in {time.time() - t0:.0f}s")
    return 0 if ok else 1


if __name__ == "__main__":
    sys.exit(main())
