"""C11 — The reported safety distance is conservative."""
import glob
import math
import os
import struct

import vlib
from checks import common, numself

LEVEL = "proof"
HARNESS = {"safety": ["corecel", "geocel", "orange"], "numself": ["corecel"]}
MANIFEST = {
    "category": "proof",
    "technique": "Lean 4 proof at ℝ of the Num-generic model of CalcSafetyDistance / "
                 "SimpleUnitTracker::safety / RectArrayTracker::safety / find_safety (closed forms, "
                 "Cauchy–Schwarz, intermediate value theorem on the ray polynomial, isometric "
                 "transforms); same definitions run at Float bit-exactly against the real code",
    "text": "Model/Safety.lean (built on the C12 surface model) is proved at ℝ: the per-surface safety "
            "is |n·x−d| / ||x−c|−r| / |ρ−r|, is non-negative, never exceeds the distance to any point "
            "of the surface; if any face's sense differs between x and y the volume safety is ≤ |x−y| "
            "(so the open ball of that radius has constant senses and every reported intersection "
            "distance is ≥ the safety); non-simple faces/volumes give 0; the minimum over levels with "
            "translations / orthonormal rotations is conservative at every level. Executed at Float it "
            "must reproduce the real CalcSafetyDistance functor on all 17 surface classes and "
            "OrangeTrackView::find_safety on OrangeParams geometries built from the op line "
            "bit-for-bit, through BOTH overloads find_safety() and find_safety(max_step) (the one "
            "Urban MSC calls; as written it forwards — pattern-checked by tools/gen/safety.py, which "
            "also regenerates the per-class simple_safety table and the consumers' call sites). An "
            "impl-side oracle compares the real safety with the real distance to boundary along 200 "
            "(per surface) / 1000 (per geometry) directions, with max_step log-uniform over 1e-3..1e3 "
            "x geometry scale, incl. points just inside a daughter's outer wall with the deepest "
            "level's faces far away: min(safety(max),max) <= distance and == min(safety(),max).",
    "design_ref": "DESIGN.md §6 C11",
    "note": "Proved at ℝ: floating-point rounding is not modelled (the Float run measures it). "
            "Hypotheses: unit plane normal, r² ≥ 0, point not at the sphere centre / cylinder axis "
            "(there the code returns +∞ by design: reported as a finding), orthonormal rotation "
            "matrices. The logic expression of a volume is not modelled: the theorems speak of the "
            "senses of all faces, which determine volume membership.",
}

AXES = "xyz"
DATA = os.path.join(vlib.REPO, "test", "orange", "data")
KEY_CENTER = "safety-inf-at-center"


def hx(x):
    return "%016x" % struct.unpack("<Q", struct.pack("<d", float(x)))[0]


def fl(s):
    return struct.unpack("<d", struct.pack("<Q", int(s, 16)))[0]


def H(vs):
    return " ".join(hx(v) for v in vs)


def rnd(rng, scale=10.0):
    k = rng.below(8)
    if k == 0:
        return float(rng.range(-5, 5))
    if k == 1:
        return rng.choice([0.0, 1.0, -1.0, 0.5, 2.0, 1e-6, -1e-6, 1e6])
    return (rng.unit() * 2 - 1) * scale


def rnd_pos(rng, scale=5.0):
    return abs(rnd(rng, scale)) + (0.0 if rng.chance(1, 20) else 1e-3)


def rnd_dir(rng):
    k = rng.below(10)
    if k == 0:
        v = [0.0, 0.0, 0.0]
        v[rng.below(3)] = rng.choice([1.0, -1.0])
        return v
    if k == 1:
        v = [(rng.unit() - 0.5) * 1e-6 for _ in range(3)]
        v[rng.below(3)] = 1.0
    else:
        v = [rng.unit() * 2 - 1 for _ in range(3)]
    n = math.sqrt(sum(c * c for c in v)) or 1.0
    return [c / n for c in v]


def gen_surface(rng, simple_only=False, bounded=False):
    """(tag, data) in each class's storage order; `bounded`: moderate magnitudes only"""
    r = (lambda s=10.0: (rng.unit() * 2 - 1) * s) if bounded else (lambda s=10.0: rnd(rng, s))
    rp = (lambda s=5.0: rng.unit() * s + 0.05) if bounded else (lambda s=5.0: rnd_pos(rng, s))
    ax = AXES[rng.below(3)]
    k = rng.choice([0, 1, 2, 4, 5]) if simple_only else rng.below(9)
    if k == 0:
        return "p" + ax, [r()]
    if k == 1:
        return "p", rnd_dir(rng) + [r()]
    if k == 2:
        return "c" + ax + "c", [rp() ** 2]
    if k == 3:
        return "c" + ax, [r(), r(), rp() ** 2]
    if k == 4:
        return "sc", [rp() ** 2]
    if k == 5:
        return "s", [r(), r(), r(), rp() ** 2]
    if k == 6:
        return "k" + ax, [r(), r(), r(), rp(2.0) ** 2]
    if k == 7:
        return "sq", [r(2), r(2), r(2), r(3), r(3), r(3), r(5)]
    return "gq", [r(2) for _ in range(6)] + [r(3) for _ in range(3)] + [r(5)]


def surf_str(tag, d):
    return tag + " " + H(d)


def centre_of(tag, d):
    """a point where the gradient vanishes (sphere centre / a point of the cylinder axis)"""
    if tag == "sc":
        return [0.0, 0.0, 0.0]
    if tag == "s":
        return list(d[:3])
    if tag in ("cxc", "cyc", "czc"):
        p = [0.0, 0.0, 0.0]
        p[AXES.index(tag[1])] = 1.25
        return p
    return None


def at_gradient_zero(tag, d, pos):
    """exactly at a sphere centre / on the axis of a centred cylinder, whatever generator family
    produced the point (there calc_normal is NaN: the documented finding KEY_CENTER)"""
    if tag == "sc":
        return all(v == 0.0 for v in pos)
    if tag == "s":
        return all(pos[i] == d[i] for i in range(3))
    if tag in ("cxc", "cyc", "czc"):
        return all(pos[i] == 0.0 for i in range(3) if i != AXES.index(tag[1]))
    return False


def special_point(rng, tag, d):
    """points that steer CalcSafetyDistance into its branches"""
    k = rng.below(12)
    if k == 0:
        c = centre_of(tag, d)
        if c is not None:
            return c, "centre"
    if k == 1:    # exactly on the surface where representable
        if tag in ("px", "py", "pz"):
            p = [rnd(rng), rnd(rng), rnd(rng)]
            p[AXES.index(tag[1])] = d[0]
            return p, "on"
        if tag == "sc":
            r = math.sqrt(d[0])
            if r * r == d[0]:
                return [r, 0.0, 0.0], "on"
        if tag == "s":
            r = math.sqrt(d[3])
            if r * r == d[3] and (d[0] + r) - d[0] == r:
                return [d[0] + r, d[1], d[2]], "on"
    if k == 2:    # far away
        return [rnd(rng, 1e4), rnd(rng, 1e4), rnd(rng, 1e4)], "far"
    if k == 3:    # very close to the centre
        c = centre_of(tag, d)
        if c is not None:
            return [c[i] + (rng.unit() - 0.5) * 1e-9 for i in range(3)], "near-centre"
    return [rnd(rng), rnd(rng), rnd(rng)], "random"


# ------------------------------------------------------------------------------------ find ops
def rot_matrix(rng):
    ax, th = rnd_dir(rng), rng.unit() * 6.283185307179586
    c, s = math.cos(th), math.sin(th)
    x, y, z = ax
    return [c + x * x * (1 - c), x * y * (1 - c) - z * s, x * z * (1 - c) + y * s,
            y * x * (1 - c) + z * s, c + y * y * (1 - c), y * z * (1 - c) - x * s,
            z * x * (1 - c) - y * s, z * y * (1 - c) + x * s, c + z * z * (1 - c)]


def xf_down(xf, p):
    if xf[0] == "n":
        return list(p)
    if xf[0] == "t":
        return [p[i] - xf[1][i] for i in range(3)]
    R, t = xf[1], xf[2]
    q = [p[i] - t[i] for i in range(3)]
    return [sum(R[3 * j + i] * q[j] for j in range(3)) for i in range(3)]


def xf_str(xf):
    if xf[0] == "n":
        return "n"
    if xf[0] == "t":
        return "t " + H(xf[1])
    return "x " + H(xf[1] + xf[2])


def gen_levels(rng, pos, oracle=False, rotated=False):
    """random nesting: unit levels (1–4 faces, any type unless oracle) and rect-array levels whose
    cell is chosen to contain the local point; `rotated`: ≥ 2 levels, every daughter placed with
    a generic rotation (not its own inverse)"""
    nlev = rng.range(2, 4) if rotated else rng.range(1, 4)
    out, desc = [], []
    p = list(pos)
    k = 0
    while k < nlev:
        if k == 0:
            xf = ("n",)
        else:
            c = 2 if rotated else rng.below(3)
            xf = ("n",) if c == 0 and not oracle else \
                ("t", [rnd(rng, 3), rnd(rng, 3), rnd(rng, 3)]) if c <= 1 else \
                ("x", rot_matrix(rng), [rnd(rng, 3), rnd(rng, 3), rnd(rng, 3)])
        p = xf_down(xf, p)
        rect = 0 < k < nlev - 1 and rng.chance(1, 3)
        if rect:
            grids, coords = [], []
            for a in range(3):
                n = rng.range(2, 4)
                lo = p[a] - rng.unit() * 4 - 0.3
                g = [lo]
                for _ in range(n - 1):
                    g.append(g[-1] + rng.unit() * 5 + 0.7)
                # make sure the point is strictly inside some cell
                if p[a] >= g[-1] - 0.3:
                    g[-1] = p[a] + 0.3 + rng.unit()
                ci = max(i for i in range(n - 1) if g[i] < p[a])
                grids.append(g)
                coords.append(ci)
            dims = [len(g) - 1 for g in grids]
            vid = (coords[0] * dims[1] + coords[1]) * dims[2] + coords[2]
            out.append("%s r %d %s" % (xf_str(xf), vid, " ".join("%d %s" % (len(g), H(g)) for g in grids)))
            desc.append("rect")
        else:
            nf = rng.range(1, 4)
            faces = [gen_surface(rng, simple_only=oracle or rng.chance(3, 4), bounded=oracle)
                     for _ in range(nf)]
            if rng.chance(1, 12) and not oracle:
                faces = []
            infl = 0 if oracle else rng.choice([0, 0, 0, 1, 2, 4, 5, 3])
            out.append("%s u %d%s" % (xf_str(xf), infl, "".join(" ; " + surf_str(t, d) for t, d in faces)))
            desc.append("unit:" + ",".join(t for t, _ in faces))
        k += 1
    return out, desc


def log_uniform(rng, lo, hi):
    return math.exp(math.log(lo) + rng.unit() * (math.log(hi) - math.log(lo)))


def gen_parent_near(rng, pos):
    """2–4 nested universes in which ONE shallower level has a face very near the point (e.g. the
    outer wall of the daughter, which only the parent knows) while every other level — in
    particular the deepest — has its faces far away.  Returns (level strings, desc, near, far)."""
    nlev = rng.range(2, 4)
    knear = rng.below(nlev - 1)                 # never the deepest level
    near = log_uniform(rng, 1e-3, 2.0)
    far = log_uniform(rng, 20.0, 400.0)
    out, desc = [], []
    p = list(pos)
    for k in range(nlev):
        if k == 0:
            xf = ("n",)
        else:
            c = rng.below(3)
            xf = ("n",) if c == 0 else ("t", [rnd(rng, 3), rnd(rng, 3), rnd(rng, 3)]) if c == 1 else \
                ("x", rot_matrix(rng), [rnd(rng, 3), rnd(rng, 3), rnd(rng, 3)])
        p = xf_down(xf, p)
        if 0 < k < nlev - 1 and k != knear and rng.chance(1, 3):
            grids = []
            for a in range(3):
                grids.append([p[a] - far * (2 + rng.unit()), p[a] - far * (1 + rng.unit() * 0.5),
                              p[a] + far * (1 + rng.unit() * 0.5), p[a] + far * (2 + rng.unit())])
            vid = (1 * 3 + 1) * 3 + 1
            out.append("%s r %d %s" % (xf_str(xf), vid, " ".join("%d %s" % (len(g), H(g)) for g in grids)))
            desc.append("rect-far")
            continue
        faces = []
        dist = near if k == knear else far
        kind = rng.below(3)
        n = rnd_dir(rng)
        sgn = rng.choice([1.0, -1.0])
        if kind == 0:       # plane at distance `dist`
            faces.append(("p", n + [sum(n[i] * p[i] for i in range(3)) + sgn * dist]))
        elif kind == 1:     # inside a sphere, `dist` from its wall
            R = dist + log_uniform(rng, 0.5, 50.0)
            c = [p[i] - n[i] * (R - dist) for i in range(3)]
            faces.append(("s", c + [R * R]))
        else:               # axis-aligned plane
            a = rng.below(3)
            faces.append(("p" + AXES[a], [p[a] + sgn * dist]))
        if k != knear and rng.chance(1, 2):     # a second far face
            faces.append(("s", [p[i] + (rng.unit() - 0.5) for i in range(3)] + [(far * 1.5) ** 2]))
        out.append("%s u 0%s" % (xf_str(xf), "".join(" ; " + surf_str(t, d) for t, d in faces)))
        desc.append(("NEAR:" if k == knear else "far:") + ",".join(t for t, _ in faces))
    return out, desc, near, far


def gen_steps(rng):
    """1–3 × (new unit direction, fraction of the step to move)"""
    out = []
    for _ in range(rng.range(1, 3)):
        out += rnd_dir(rng) + [0.05 + 0.9 * rng.unit()]
    return out


def gen_find(rng, oracle=False, parent_near=False, rotated=False):
    if rotated:
        pos = [(rng.unit() * 2 - 1) * 4 for _ in range(3)]
        lv, desc = gen_levels(rng, pos, True, rotated=True)
        return "%s / %s" % (H(pos), " / ".join(lv)), desc, None
    if parent_near:
        pos = [(rng.unit() * 2 - 1) * 40 for _ in range(3)]
        lv, desc, near, far = gen_parent_near(rng, pos)
        return "%s / %s" % (H(pos), " / ".join(lv)), desc, (near, far)
    pos = [(rng.unit() * 2 - 1) * 4 for _ in range(3)] if oracle else [rnd(rng, 5), rnd(rng, 5), rnd(rng, 5)]
    lv, desc = gen_levels(rng, pos, oracle)
    return "%s / %s" % (H(pos), " / ".join(lv)), desc, None


def gen_max(rng, scale, window=None):
    """max_step log-uniform over 1e-3 … 1e3 × scale; with a (near, far) window half of the time
    strictly between the nearest parent-level boundary and the deepest level's faces"""
    if window and rng.chance(1, 2):
        return log_uniform(rng, window[0] * 1.5, window[1] * 0.5)
    k = rng.below(12)
    if k == 0:
        return math.inf
    return log_uniform(rng, 1e-3 * scale, 1e3 * scale)


# ------------------------------------------------------------------------------------ oracles
def surface_oracle(exe, rng, n_surf, n_dir):
    """real CalcSafetyDistance vs the real calc_intersections along n_dir random directions:
    0 ≤ safety ≤ every reported distance (up to rounding)"""
    lines, meta = [], []
    for _ in range(n_surf):
        tag, d = gen_surface(rng)
        pos, kind = special_point(rng, tag, d)
        lines.append("safety %s | %s" % (surf_str(tag, d), H(pos)))
        meta.append(("safety", tag, d, pos, kind))
        for _ in range(n_dir):
            dr = rnd_dir(rng)
            lines.append("isect %s | %s" % (surf_str(tag, d), H(pos + dr)))
            meta.append(("isect", dr))
    _, out = vlib.run_lines([exe], lines)
    fails, cases = [], 0
    i = 0
    while i < len(lines):
        _, tag, d, pos, kind = meta[i]
        sline = lines[i]
        try:
            s = fl(out[i])
        except (ValueError, IndexError):
            fails.append(("no-answer", tag, sline, out[i] if i < len(out) else "<missing>", {}))
            i += 1 + n_dir
            continue
        best, bestdir = math.inf, None
        for j in range(i + 1, i + 1 + n_dir):
            try:
                t = fl(out[j])
            except (ValueError, IndexError):
                continue
            if t < best:
                best, bestdir = t, meta[j][1]
        cases += 1
        scale = 1.0 + sum(abs(v) for v in pos) + sum(abs(v) for v in d)
        tol = 1e-7 * scale
        if math.isnan(s) or s < 0:
            fails.append(("safety-negative-or-nan", tag, sline, out[i], {"safety": s}))
        elif s > best + tol + 1e-9 * best:
            what = KEY_CENTER if (math.isinf(s) and (kind == "centre" or at_gradient_zero(tag, d, pos))) \
                else "safety-exceeds-distance"
            fails.append((what, tag, sline, out[i],
                          {"safety": s, "distance_along_dir": best, "dir": bestdir, "point": pos,
                           "point_kind": kind,
                           "isect_op": "isect %s | %s" % (surf_str(tag, d), H(pos + bestdir))}))
        i += 1 + n_dir
    return cases, len(lines), fails


def geo_oracle(exe, rng, n_syn, n_real_pts, n_dir):
    """real find_safety() and find_safety(max_step) vs min over n_dir directions of the real
    find_next_step, on synthetic nested geometries (incl. points near a parent-level wall with the
    deepest level's faces far away) and on the repository's own test geometries (random points,
    the origin, lattice points, and points `eps` before the next boundary of a random ray).
    Predicates: 0 ≤ safety ≤ distance;  min(safety(max), max) ≤ distance;
    min(safety(max), max) == min(safety(), max)."""
    lines, meta = [], []
    for j in range(n_syn):
        pn = (j % 3 == 1)
        sq = (j % 3 == 2)
        body, desc, window = gen_find(rng, oracle=True, parent_near=pn, rotated=sq)
        mx = gen_max(rng, 5.0, window)
        steps = (" " + H(gen_steps(rng))) if (sq or rng.chance(1, 4)) else ""
        lines.append("gfind %s | %d %d %s%s" % (body, n_dir, rng.below(1 << 30), hx(mx), steps))
        meta.append(("syn", ("parent-near:" if pn else "rotated-seq:" if sq else "") + "/".join(desc),
                     None, mx))
    _, out = vlib.run_lines([exe], lines, timeout=3000)
    # the repository's own geometries, one process per file (loading the involute inputs crashes
    # inside OrangeParams — their tests are DISABLED_ upstream — and must not take the rest down)
    files = sorted(glob.glob(os.path.join(DATA, "*.org.json")))
    loaded, crashed = 0, []
    for f in files:
        rc, head = vlib.run_lines([exe], ["geo " + f])
        w = head[0].split() if head else []
        if not w or w[0] != "ok":
            crashed.append(os.path.basename(f))
            continue
        loaded += 1
        bb = [fl(v) for v in w[w.index("bbox") + 1:]]
        lo = [max(bb[2 * i], -60.0) for i in range(3)]
        hi = [min(bb[2 * i + 1], 60.0) for i in range(3)]
        scale = max(1e-3, 0.5 * max(hi[i] - lo[i] for i in range(3)))
        fl_lines = ["geo " + f]
        fl_meta = [("load", os.path.basename(f))]
        for j in range(n_real_pts):
            p = [lo[i] + rng.unit() * (hi[i] - lo[i]) for i in range(3)]
            k = rng.below(4)
            if j == 0:      # the origin: the usual place of a primary, often a centre of symmetry
                p = [0.0, 0.0, 0.0]
            elif k == 0:    # lattice-like points: centres, axes
                p = [float(round(v)) if rng.chance(1, 2) else v for v in p]
            elif k == 1:    # near the middle of the geometry
                p = [0.5 * (lo[i] + hi[i]) + (rng.unit() - 0.5) * 0.2 * (hi[i] - lo[i])
                     for i in range(3)]
            mx = gen_max(rng, scale)
            if j > 0 and j % 3 == 1:
                # set_dir → find_next_step → move_internal sequence, then the safety queries on
                # the moved state (per-level positions advanced along the stored local directions)
                fl_lines.append("gseq %s %d %d %s %s" % (H(p), n_dir, rng.below(1 << 30), hx(mx),
                                                         H(gen_steps(rng))))
            elif j > 0 and j % 3 == 2:
                # a point just inside the next wall along a random ray (walls of daughters are
                # known to the parent level only)
                eps = log_uniform(rng, 1e-4, 1.0)
                if rng.chance(1, 2):
                    mx = log_uniform(rng, eps * 1.5, max(eps * 3, scale))
                fl_lines.append("gnear %s %s %d %d %s" % (H(p + rnd_dir(rng)), hx(eps), n_dir,
                                                          rng.below(1 << 30), hx(mx)))
            else:
                fl_lines.append("gscan %s %d %d %s" % (H(p), n_dir, rng.below(1 << 30), hx(mx)))
            fl_meta.append(("real", os.path.basename(f), p, mx))
        _, o = vlib.run_lines([exe], fl_lines, timeout=3000)
        o = (o + ["<crashed>"] * len(fl_lines))[:len(fl_lines)]
        lines += fl_lines
        meta += fl_meta
        out += o
    fails, cases, nontrivial, by_geo = [], 0, 0, {}
    stats = {"max_below_safety": 0, "max_above_safety": 0, "near_wall_points": 0,
             "deeper_levels": 0, "capped_by_max": 0, "move_sequences": 0, "moves": 0,
             "move_sequences_at_nested_level": 0, "move_sequences_fresh_init_failed": 0}
    cur = None
    for l, m, o in zip(lines, meta, out):
        if m[0] == "load":
            cur = l
            continue
        w = dict(kv.split("=", 1) for kv in o.split() if "=" in kv)
        gname = m[1] if m[0] == "real" else ("synthetic-parent-near" if m[1].startswith("parent-near")
                                             else "synthetic-rotated-seq"
                                             if m[1].startswith("rotated-seq") else "synthetic")
        is_seq = "seqsafety" in w
        if is_seq and "safety" not in w:
            stats["move_sequences_fresh_init_failed"] += 1
        g = by_geo.setdefault(gname, [0, 0, 0])
        if "safety" not in w or "safetymax" not in w:
            g[2] += 1
            continue
        s, sm, dist, mx = fl(w["safety"]), fl(w["safetymax"]), fl(w["mindist"]), m[3]
        pt = [fl(v) for v in w["pos"].split(",")] if "pos" in w else m[2]
        cases += 1
        g[0] += 1
        if s > 0:
            nontrivial += 1
            g[1] += 1
        stats["max_below_safety" if mx < s else "max_above_safety"] += 1
        stats["near_wall_points"] += 1 if ("pos" in w or m[1].startswith("parent-near")) else 0
        stats["deeper_levels"] += 1 if int(w.get("level", "0")) > 0 else 0
        stats["capped_by_max"] += 1 if sm >= mx else 0
        tol = 1e-8 * (1.0 + dist) + 1e-8       # the geometry's own Tolerance<>::from_default()
        rep = {"harness": "harness/safety.cc", "ops": ([cur] if m[0] == "real" else []) + [l],
               "impl_output": o, "safety": s, "safety_max_overload": sm, "max_step": mx,
               "min_distance": dist, "point": pt}
        what = None
        if is_seq:
            ss, ssm, nmv = fl(w["seqsafety"]), fl(w["seqsafetymax"]), int(w["moves"])
            stats["move_sequences"] += 1
            stats["moves"] += nmv
            if nmv > 0 and int(w.get("seqlevel", "0")) > 0:
                stats["move_sequences_at_nested_level"] += 1
            rep.update({"safety_after_moves": ss, "safety_max_after_moves": ssm, "moves": nmv,
                        "safety_fresh_state_same_point": s})
            teq = 1e-8 * (1.0 + (s if math.isfinite(s) else 0.0)) + 1e-8
            if math.isnan(ss) or ss < 0 or math.isnan(ssm) or ssm < 0:
                what = "find_safety-after-moves-negative-or-nan"
            elif ss > dist + tol or min(ssm, mx) > dist + tol:
                what = "find_safety-after-set_dir+move_internal-exceeds-boundary-distance"
            elif not (ss == s or abs(ss - s) <= teq):
                what = "find_safety-after-set_dir+move_internal-differs-from-fresh-state-at-same-point"
            elif min(ssm, mx) != min(ss, mx):
                what = "find_safety(max_step)-disagrees-with-find_safety()-below-max_step"
        if what is not None:
            pass
        elif math.isnan(s) or s < 0 or math.isnan(sm) or sm < 0:
            what = "find_safety-negative-or-nan"
        elif s > dist + tol:
            what = "find_safety-exceeds-boundary-distance"
        elif min(sm, mx) > dist + tol:
            what = "find_safety(max_step)-exceeds-boundary-distance"
        elif min(sm, mx) != min(s, mx):
            what = "find_safety(max_step)-disagrees-with-find_safety()-below-max_step"
        if what is None:
            continue
        if math.isinf(s) and m[0] == "real" and pt is not None:
            # singular point of a face (sphere centre / cylinder axis)?  Then a tiny
            # displacement gives a finite, conservative answer.
            q = [pt[0] + 1e-7, pt[1] + 2e-7, pt[2] + 3e-7]
            probe = "gscan %s %d 7" % (H(q), n_dir)
            _, o2 = vlib.run_lines([exe], [cur, probe])
            w2 = dict(kv.split("=", 1) for kv in (o2[1] if len(o2) > 1 else "").split()
                      if "=" in kv)
            if "safety" in w2 and fl(w2["safety"]) <= fl(w2["mindist"]) * (1 + 1e-8) + 1e-8:
                what = KEY_CENTER
                rep["displaced_probe"] = {"op": probe, "impl_output": o2[1]}
        fails.append((what, gname if m[0] == "real" else m[1], rep))
    return cases, nontrivial, loaded, crashed, by_geo, stats, fails


# ------------------------------------------------------------------------------------ run
def gen_lines(rng, n_surf, n_find):
    lines, kinds = [], {}
    for _ in range(n_surf):
        tag, d = gen_surface(rng)
        pos, kind = special_point(rng, tag, d)
        lines.append("safety %s | %s" % (surf_str(tag, d), H(pos)))
        kinds["safety:" + tag + ":" + kind] = kinds.get("safety:" + tag + ":" + kind, 0) + 1
    for tag, nd in [("px", 1), ("py", 1), ("pz", 1), ("p", 4), ("cxc", 1), ("cyc", 1), ("czc", 1),
                    ("cx", 3), ("cy", 3), ("cz", 3), ("sc", 1), ("s", 4), ("kx", 4), ("ky", 4),
                    ("kz", 4), ("sq", 7), ("gq", 10)]:
        lines.append("flag %s |" % surf_str(tag, [1.0] * nd))
        kinds["flag"] = kinds.get("flag", 0) + 1
    for j in range(n_find):
        pn = (j % 4 == 3)
        body, desc, window = gen_find(rng, parent_near=pn)
        if j % 2 == 0:
            lines.append("find " + body)
            k = "find:levels=%d" % len(desc)
        else:
            lines.append("findmax %s %s" % (hx(gen_max(rng, 5.0, window)), body))
            k = "findmax:levels=%d%s" % (len(desc), ":parent-near" if pn else "")
        kinds[k] = kinds.get(k, 0) + 1
    lines += ["safety zz 1 | 2", "safety s 1 2 | 3", "frob", "", "find 1 2", "flag sc |",
              "findmax 1 2 3", "findmax zz 1 2 3 / n u 0"]
    return lines, kinds


def corpus_lines():
    out = []
    for f in sorted(glob.glob(os.path.join(vlib.CORPUS, "C11", "*.ops"))):
        out += [l.rstrip("\n") for l in open(f) if l.strip() and not l.startswith("#")]
    return out


def same(a, b):
    if a == b:
        return True
    wa, wb = a.split(), b.split()
    return (len(wa) == len(wb) == 1 and numself.is_nan_bits(wa[0]) and numself.is_nan_bits(wb[0]))


def run(ctx):
    quick = ctx.quick()
    ps = common.proof_side(ctx, "C11")
    broken = list(ps["broken"])
    numself.run(ctx, 20000 if quick else 200000)
    exe, log, _ = vlib.build_harness("safety", HARNESS["safety"])
    if exe is None:
        ctx.violation("harness-build", "harness/safety.cc no longer builds against /repo",
                      {"correspondence": "harness build", "log": log[-2000:]}, found_input=False)
        ctx.coverage.update({"evaluations": 0, "distinct_nontrivial": 0})
        return LEVEL
    rng = ctx.rng
    # which overload each consumer calls (same extraction as tools/gen/safety.py, which writes it
    # to Generated/SafetySource.lean; theorem consumers_call_max_overload is checked against it)
    try:
        from gen import safety as gen_safety
        consumers = [{"file": rel, "call": k, "args": txt,
                      "overload": "find_safety(real_type max_step)" if n == 1 else
                                  "find_safety()" if n == 0 else f"{n} arguments"}
                     for rel, k, n, txt in gen_safety.consumer_calls()]
    except Exception as e:   # reported through the translator error as well
        consumers = [{"error": repr(e)}]
    corp = corpus_lines()
    lines, kinds = gen_lines(rng, 20000 if quick else 300000, 1500 if quick else 20000)
    lines = corp + lines
    diverged, distinct, branches = [], set(), {}
    if ps["model_ok"]:
        _, oh = vlib.run_lines([exe], lines)
        _, om = vlib.run_lines([vlib.model_exe("C11")], lines)
        for i, l in enumerate(lines):
            a = oh[i] if i < len(oh) else "<missing>"
            b = om[i] if i < len(om) else "<missing>"
            if a != "bad-op":
                distinct.add(l)
            tagk = ("inf" if a.endswith("7ff0000000000000") else "zero" if a.endswith("0" * 16)
                    else "init-failed" if a == "init-failed" else "bad-op" if a == "bad-op"
                    else "positive")
            branches[tagk] = branches.get(tagk, 0) + 1
            if not same(a, b):
                diverged.append({"op": l, "impl": a, "model": b})
    else:
        broken.append("model driver did not build")
    if diverged:
        broken.append(f"correspondence: model and implementation differ on {len(diverged)} ops "
                      f"(first: {diverged[0]['op'][:70]} impl={diverged[0]['impl'][:60]} "
                      f"model={diverged[0]['model'][:60]})")
    mult = 4 if broken else 1
    n_case, n_or, sfails = surface_oracle(exe, rng, (250 if quick else 3000) * mult, 200)
    g_case, g_nontriv, g_loaded, g_crashed, by_geo, g_stats, gfails = geo_oracle(
        exe, rng, (150 if quick else 1500) * mult, (40 if quick else 400) * mult, 1000)
    seen = set()
    for what, tag, l, o, info in sfails:
        key = what if what == KEY_CENTER else "oracle:" + what + ":" + tag
        if key in seen:
            continue
        seen.add(key)
        text = ("real CalcSafetyDistance returns +inf at the centre of a sphere / on the axis of a "
                "cylinder although the surface is at a finite distance"
                if what == KEY_CENTER else f"real CalcSafetyDistance on {tag}: {what}")
        ctx.violation(key, text, {"harness": "harness/safety.cc", "op": l, "impl_output": o,
                                  "info": info,
                                  "values": [fl(w) if len(w) == 16 else w for w in l.split()[1:]]})
    for what, geo, rep in gfails:
        gkey = geo if geo.endswith(".json") else \
            "synthetic-parent-near" if geo.startswith("parent-near") else \
            "synthetic-rotated-seq" if geo.startswith("rotated-seq") else "synthetic"
        rep["geometry"] = geo
        key = what if what == KEY_CENTER else "oracle:" + what + ":" + gkey
        if key in seen:
            continue
        seen.add(key)
        ctx.violation(key, (f"real OrangeTrackView::find_safety on {geo} returns +inf at a sphere centre / "
                            f"cylinder axis although a boundary is {rep['min_distance']!r} away"
                            if what == KEY_CENTER else
                            f"real OrangeTrackView on {geo}: {what} "
                            f"(find_safety() {rep['safety']!r}, find_safety({rep['max_step']!r}) "
                            f"{rep['safety_max_overload']!r}, boundary distance {rep['min_distance']!r})"), rep)
    if g_stats.get("move_sequences_at_nested_level", 0) == 0:
        ctx.violation("coverage:no-move-sequence-at-nested-level",
                      "the geometry oracle ran no set_dir/move_internal sequence at a nested level",
                      {"stats": g_stats}, found_input=False)
    if broken and not ctx.violations:
        ctx.violation("unproved", "; ".join(broken)[:700],
                      {"no_longer_checks": broken, "diverging_ops": diverged[:3]}, found_input=False)
    if not quick and ps["build"]["ok"]:
        common.leanchecker(ctx, ["CelerVerif.Props.C11"])
    ctx.assumptions += [
        "theorems are about the real-number reading of Model/Safety.lean (on Model/Surf.lean); the "
        "same definitions executed at Float equal the C++ results bit-for-bit on every op compared",
        "unit plane normals, r² ≥ 0, point not exactly at a sphere centre / on a centred-cylinder axis "
        "(there CalcSafetyDistance returns +∞: finding " + KEY_CENTER + "), orthonormal rotations",
        "the CSG logic of a volume is not part of the safety computation: the theorems are about "
        "the senses of all faces of the volume (which determine membership); volumes reached through "
        "BIH/logic evaluation are exercised by the geometry oracle only",
        "find_safety(max_step) is modelled as written (forwards to find_safety(), argument ignored); "
        "theorem max_overload_contract_suffices states the weaker contract min(r,max)=min(safety,max) "
        "under which consumers remain safe, and the oracle evaluates that contract on the real code",
        "per-level positions are the transform-down chain of OrangeTrackView::operator= "
        "(positions after move_internal differ from it by rounding only)",
    ]
    ctx.coverage.update({
        "evaluations": len(lines) + n_or + g_case * 1002, "distinct_nontrivial": len(distinct),
        "rule": "random surfaces of all 17 quadric classes; points random / integer / exactly on the "
                "surface / at and near the centre or axis / far away; synthetic geometries of 1–4 "
                "nested universes (unit volumes with 0–4 faces and any incoming flags, rect arrays, "
                "translations and rotations); non-trivial = not answered bad-op; distinct = distinct "
                "op lines",
        "op_mix": dict(sorted(kinds.items())), "result_branches": branches,
        "corpus_ops": len(corp), "diverging_ops": len(diverged),
        "surface_oracle_cases": n_case, "surface_oracle_failures": len(sfails),
        "geometry_oracle_cases": g_case, "geometry_oracle_positive_safety": g_nontriv,
        "geometry_oracle_files_loaded": g_loaded, "geometry_files_not_loadable": g_crashed,
        "geometry_oracle_by_geometry(cases,positive,not_inside)": by_geo,
        "geometry_oracle_failures": len(gfails), "geometry_oracle_max_step_stats": g_stats,
        "consumer_call_sites": consumers,
        "samples": [lines[len(corp)], lines[len(corp) + 1], lines[-7]],
        "correspondence_broken": broken,
    })
    return LEVEL


def replay(ctx, data):
    exe, log, _ = vlib.build_harness("safety", HARNESS["safety"])
    r = data["replay"]
    ops = r.get("ops") or ([r["op"]] if "op" in r else [])
    if ops:
        _, o = vlib.run_lines([exe], ops)
        for a, b in zip(ops, o):
            print("op:", a[:300])
            print("impl now:", b)
        print("recorded:", r.get("impl_output"))
        if "info" in r and r["info"].get("isect_op"):
            _, o2 = vlib.run_lines([exe], [r["info"]["isect_op"]])
            print("distance along recorded direction now:", fl(o2[0]), "(recorded",
                  r["info"].get("distance_along_dir"), ")")
    else:
        print(vlib.json.dumps(r, indent=1))
    return 0
