"""Parser for the step log of harness/stepping.cc (format: harness/common/steplog.hh).

    log = steplog.parse(lines)        # lines: list[str] for ONE run (from `C` to `R`)
    log.steps      list of Step (namedtuple-like objects, fields below), in output order
    log.by_track   {(event, track): [Step, ...]} in step order
    log.actions    {id: (order, label)}; log.q {name: id}; log.particles {pid: dict}
    log.scalars    {name: float}; log.cuts {(mat, pid): float}; log.iters; log.totals; log.verdict
Doubles are converted to python floats (exact); the original hex strings are kept in `.hx`
(dict name -> 16-hex-digit string) for bit-exact comparisons / op lines.
"""
import struct

LIBS = ["corecel", "geocel", "orange", "celeritas", "testcel_harness", "testcel_core",
        "testcel_geocel", "testcel_orange", "testcel_celeritas"]


def fl(s):
    return struct.unpack("<d", struct.pack("<Q", int(s, 16)))[0]


def hx(x):
    return "%016x" % struct.unpack("<Q", struct.pack("<d", float(x)))[0]


class Step:
    __slots__ = ("it", "slot", "ev", "trk", "par", "nstep", "pid", "mat", "st", "e0", "pos0",
                 "dir0", "t0", "vol0", "bnd0", "lim", "limact", "mfp0", "xs", "rng", "flags",
                 "along", "ea", "depa", "ta", "stepa", "acta", "mfpa", "bnda", "act3", "e1",
                 "pos1", "dir1", "t1", "vol1", "bnd1", "step", "dep", "act", "mfp1", "secs",
                 "hx", "G", "L", "X", "K", "M")

    def key(self):
        return (self.ev, self.trk)


def parse_S(line):
    toks = line.split()
    hexes = [w for w in toks if len(w) == 16]
    vals = iter(struct.unpack(">%dd" % len(hexes), bytes.fromhex("".join(hexes))))
    g, cur, gh, curh = [], [], [], []
    for w in toks:
        if w == "|":
            g.append(cur)
            gh.append(curh)
            cur, curh = [], []
        else:
            cur.append(next(vals) if len(w) == 16 else w)
            curh.append(w)
    g.append(cur)
    gh.append(curh)
    s = Step()
    h = g[0]
    s.it, s.slot, s.ev, s.trk, s.par, s.nstep, s.pid, s.mat = map(int, h[1:9])
    s.st = "".join(g[1])
    w, wh = g[2], gh[2]
    s.e0, s.pos0, s.dir0, s.t0, s.vol0, s.bnd0 = w[0], tuple(w[1:4]), tuple(w[4:7]), w[7], \
        int(w[8]), int(w[9])
    p, ph = g[3], gh[3]
    s.lim, s.limact, s.mfp0, s.xs, s.rng = p[0], int(p[1]), p[2], p[3], p[4]
    s.flags, s.along = int(p[5]), int(p[6])
    a, ah = g[4], gh[4]
    s.ea, s.depa, s.ta, s.stepa = a[0], a[1], a[2], a[3]
    s.acta, s.mfpa, s.bnda = int(a[4]), a[5], int(a[6])
    s.act3 = int(g[5][0])
    q, qh = g[6], gh[6]
    s.e1, s.pos1, s.dir1, s.t1, s.vol1, s.bnd1 = q[0], tuple(q[1:4]), tuple(q[4:7]), q[7], \
        int(q[8]), int(q[9])
    s.step, s.dep, s.act, s.mfp1 = q[10], q[11], int(q[12]), q[13]
    z, zh = g[7], gh[7]
    n = int(z[0])
    s.secs = [(int(z[1 + 2 * i]), z[2 + 2 * i]) for i in range(n)]
    s.hx = {"e0": wh[0], "t0": wh[7], "lim": ph[0], "mfp0": ph[2], "xs": ph[3], "rng": ph[4],
            "ea": ah[0], "depa": ah[1], "ta": ah[2], "stepa": ah[3], "mfpa": ah[5],
            "e1": qh[0], "t1": qh[7], "step": qh[10], "dep": qh[11], "mfp1": qh[13],
            "pos0": wh[1:4], "pos1": qh[1:4], "dir0": wh[4:7], "dir1": qh[4:7],
            "secs": [zh[2 + 2 * i] for i in range(n)]}
    s.G = s.L = s.X = s.K = s.M = None
    return s


class Log:
    def __init__(self):
        self.config = ""
        self.actions, self.q, self.particles, self.scalars, self.cuts = {}, {}, {}, {}, {}
        self.volumes = {}
        self.registry = {}
        self.steps, self.iters, self.totals = [], [], {}
        self.verdict = None
        self.errors = []
        self.by_track = {}

    def label(self, act):
        if act in self.actions:
            return self.actions[act][1]
        for k, v in self.q.items():
            if v == act and not k.startswith("model-"):
                return k
        return "none" if act < 0 else "?%d" % act

    def is_model(self, act):
        f = self.q.get("model-first", -1)
        return f >= 0 and f <= act < f + self.q.get("model-count", 0)


def parse(lines):
    log = Log()
    cur = {}
    for line in lines:
        if not line:
            continue
        try:
            _parse_line(log, cur, line)
        except (IndexError, ValueError, struct.error):
            log.errors.append("truncated " + line[:40])
    for k in log.by_track:
        log.by_track[k].sort(key=lambda s: s.it)
    return log


def _parse_line(log, cur, line):
    if True:
        t = line[0]
        if t == "S":
            try:
                s = parse_S(line)
            except (IndexError, ValueError, struct.error):
                log.errors.append("truncated " + line[:40])
                return
            log.steps.append(s)
            cur[(s.it, s.slot)] = s
            log.by_track.setdefault((s.ev, s.trk), []).append(s)
        elif t == "M":
            w = line.split()
            s = cur.get((int(w[1]), int(w[2])))
            if s is None:
                log.errors.append("orphan " + line[:40])
                return
            g = [x.split() for x in line.split("|")]
            f = lambda h: fl(h)
            s.M = {"alg": int(g[1][0]), "appl": int(g[1][1]),
                   "phys": f(g[2][0]), "onb": int(g[2][1]), "safety": f(g[2][2]),
                   "maxstep": f(g[2][3]), "mfp": f(g[2][4]), "range": f(g[2][5]),
                   "r0": (int(g[3][0]), f(g[3][1]), f(g[3][2]), f(g[3][3])),
                   "r1": (int(g[4][0]), f(g[4][1]), f(g[4][2]), f(g[4][3])),
                   "lim": int(g[5][0]), "true": f(g[5][1]), "geom": f(g[5][2]),
                   "limited": int(g[5][3]), "z": f(g[5][4]),
                   "applied": int(g[6][0]), "displaced": int(g[6][1]), "dlen": f(g[6][2]),
                   "asafety": f(g[6][3]), "truefinal": f(g[6][4]),
                   "hx": {"phys": g[2][0], "safety": g[2][2], "maxstep": g[2][3], "mfp": g[2][4],
                          "range": g[2][5], "r0": g[3][1:4], "r1": g[4][1:4], "true": g[5][1],
                          "geom": g[5][2], "z": g[5][4], "truefinal": g[6][4]}}
        elif t in "GLXK":
            w = line.split()
            s = cur.get((int(w[1]), int(w[2])))
            if s is None:
                log.errors.append("orphan " + line[:40])
                return
            if t == "G":
                s.G = {"dist": fl(w[4]), "bnd": int(w[5]), "hx": w[4]}
            elif t == "L":
                s.L = {"appl": int(w[4]), "e": fl(w[5]), "step": fl(w[6]), "cut": int(w[7]),
                       "low": fl(w[8]), "mean": fl(w[9]),
                       "sample": None if w[10] == "-" else fl(w[10]), "ret": fl(w[11]),
                       "hx": w[4:12]}
            elif t == "X":
                n = int(w[7])
                calls, first = 1, w[4]
                if "calls" in w:
                    k = w.index("calls")
                    calls, first = int(w[k + 1]), w[k + 3]
                s.X = {"kind": w[4], "e": fl(w[5]), "dep": fl(w[6]), "calls": calls,
                       "first": first,
                       "secs": [(int(w[8 + 2 * i]), fl(w[9 + 2 * i])) for i in range(n)],
                       "hx": w[5:7] + [w[9 + 2 * i] for i in range(n)]}
            else:
                s.K = line
        elif t == "I":
            w = line.replace("|", " ").split()
            log.iters.append(tuple(map(int, w[1:9])))
            cur.clear()
        elif t == "A":
            w = line.split(None, 3)
            log.actions[int(w[1])] = (w[2], w[3])
        elif t == "B":
            w = line.split(None, 2)
            log.registry[int(w[1])] = w[2]
        elif t == "Q":
            w = line.split()
            log.q[w[1]] = int(w[2])
        elif t == "P":
            w = line.split()
            log.particles[int(w[1])] = {"name": w[2], "pdg": int(w[3]), "mass": fl(w[4]),
                                        "charge": fl(w[5]), "anti": w[6] == "1",
                                        "at_rest": w[7] == "1", "nproc": int(w[8]),
                                        "eloss": w[9] == "1", "mass_hx": w[4]}
        elif t == "Y":
            w = line.split()
            log.scalars[w[1]] = fl(w[2]) if len(w[2]) == 16 else float(w[2])
        elif t == "U":
            w = line.split()
            log.cuts[(int(w[1]), int(w[2]))] = fl(w[3])
        elif t == "V":
            w = line.split()
            log.volumes[int(w[1])] = (w[2], int(w[3]))
        elif t == "T":
            w = line.replace("|", " ").split()
            log.totals[int(w[1])] = {"nprim": int(w[2]), "eprim": fl(w[3]), "dep": fl(w[4]),
                                     "esc": fl(w[5]), "nesc": int(w[6]), "ntracks": int(w[7]),
                                     "nsteps": int(w[8])}
        elif t == "C":
            log.config = line
        elif t == "R":
            log.verdict = line[2:]
        elif t == "E":
            log.errors.append(line)


def split_runs(lines):
    """a harness process may execute several `run`s: split its output at the `C` records"""
    runs, cur = [], None
    for l in lines:
        if l.startswith("C "):
            cur = []
            runs.append(cur)
        if cur is not None:
            cur.append(l)
    return runs


def script(problem, primaries, **kw):
    """build the directive list for one run.  primaries: list of
    (name, E, (x,y,z), (u,v,w), event, count); kw: slots, capacity, maxevents, stackfactor, order,
    seed, maxsteps, along, interactor, xsscale, lossscale, posrest, postcut, collector, quiet,
    cuts={'gamma':..}, opts={'min_range':..}"""
    out = ["problem " + problem]
    for k in ("slots", "capacity", "maxevents", "stackfactor", "order", "seed", "maxsteps",
              "along", "interactor", "xsscale", "lossscale", "posrest", "postcut", "collector",
              "quiet", "statuscheck", "errat", "msc", "mscalg", "mscxs"):
        if k in kw and kw[k] is not None:
            out.append("%s %s" % (k, kw[k]))
    for n, v in (kw.get("cuts") or {}).items():
        out.append("cut %s %r" % (n, v))
    for n, v in (kw.get("opts") or {}).items():
        out.append("opt %s %r" % (n, v))
    for (name, e, pos, d, ev, cnt) in primaries:
        out.append("primary %s %r %r %r %r %r %r %r %d %d" % (name, e, pos[0], pos[1], pos[2],
                                                             d[0], d[1], d[2], ev, cnt))
    out.append("run")
    return out
