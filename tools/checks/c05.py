"""C05 — Each track's step history is continuous and respects its step limits."""
import math

import vlib
from checks import c01, common, numself, steplog

LEVEL = "other"
HARNESS = {"stepping": steplog.LIBS, "numself": ["corecel"]}
MANIFEST = {
    "category": "other",
    "technique": "Lean 4 proof (ℝ) over a Num-generic model of calc_physics_step_limit / "
                 "range_to_step / SimTrackView::step_limit / PropagationApplier branch logic / "
                 "linear propagation (axpy) / TimeUpdater / TrackUpdater / status machine / "
                 "inter-step frame model; same definitions run at Float and recompute limits, "
                 "actions, times, MFPs and positions of the real Stepper bit-for-bit from recorded "
                 "inputs (H3 harness); impl-side oracle on whole histories",
    "text": "Theorems: ★alongStep_only_shortens, ★step_le_physics_limit, mfp_stays_nonneg (zero iff "
            "the discrete action was taken), ★status_monotone_within_step, time_nondecreasing, "
            "energy_nonincreasing, step_ge_displacement (linear propagator: equality for unit "
            "directions), volume_changes_only_at_boundary_action, ★history_continuous on the frame "
            "model of the actions executed between user_post(k) and user_pre(k+1) "
            "(secondaries processing, initialisation of vacant slots only, sorting = permutation "
            "of the indirection, pre-step).  Correspondence: harness/stepping.cc step logs over a "
            "sweep of problems; the model recomputes physics step limit + action, propagation "
            "branch, time, MFP/step counter, position and the status sequence of every step. "
            "Oracle on the real histories: pre(k+1) == post(k) bitwise (energy, position, time, "
            "volume), consecutive step counts, time/energy monotone, 0 < step <= physics limit "
            "(0 only at rest), step >= |Δx| up to rounding, volume at each point contains the "
            "point (analytic point location for the two test geometries), volume changes only "
            "with the boundary action, status only moves forward.  Urban MSC (hand-made tables, "
            "three step-limit algorithms) runs in the real along-step: the step-limit selection "
            "(UrbanMscSafetyStepLimit / UrbanMscMinimalStepLimit constructor + operator()) is "
            "modelled and replayed bit-exactly from recorded inputs incl. the replayed Gaussian "
            "draw; theorems mscStepLimit_le_maxStep and msc_displacement_le_cap; oracle: true path "
            "<= pre-step physics limit, geom <= true path, lateral displacement <= (1-safety_tol)*"
            "safety, failed interaction => physics-failure action and no second interaction.",
    "design_ref": "DESIGN.md §6 C05",
    "note": "Category other: frame conditions of the REAL inter-step actions are checked on "
            "traces by the harness, not proved; MSC gates are modelled but no MSC / field "
            "propagation problem can be built without Geant4 data (not exercised); the "
            "cross-section / range calculators enter as recorded inputs; theorems at ℝ.",
}

EPS = 2.0 ** -52
INF = "7ff0000000000000"
RANK = {"-": 0, "i": 1, "a": 2, "e": 3, "k": 4}


def act_letter(log, a):
    q = log.q
    if a < 0:
        return "n"
    for name, l in (("discrete", "d"), ("range", "r"), ("fixed-step", "f"), ("boundary", "b"),
                    ("propagation-limit", "p"), ("tracking-cut", "t"), ("failure", "x"),
                    ("integral-rejection", "j"), ("msc", "s")):
        if q.get(name) == a:
            return l
    if log.is_model(a):
        return "m%d" % (a - q["model-first"])
    return "n"          # not an action of this problem (see stock mock fixture artefact)


def locate(problem, pos):
    """analytic point location: set of volume LABELS whose closure contains pos"""
    tol = 1e-9
    out = set()
    if problem == "mock":
        r = math.sqrt(sum(c * c for c in pos))
        for name, lo, hi in (("inner", 0, 1), ("middle", 1, 3), ("outer", 3, 6), ("world", 6, 100)):
            if lo * (1 - tol) - tol <= r <= hi * (1 + tol) + tol:
                out.add(name)
        if r >= 100 * (1 - tol):
            out.add("[OUTSIDE]")
    else:
        m = max(abs(c) for c in pos)
        if m <= 5 * (1 + tol):
            out.add("inner")
        if 5 * (1 - tol) <= m <= 500 * (1 + tol):
            out.add("world")
        if m >= 500 * (1 - tol):
            out.add("[OUTSIDE]")
    return out


def msc_on(log):
    return " msc 1 " in (log.config + " ")


def msc_applies(log, s):
    """the along-step of this step went through Urban MSC (recorded, or — stock action without
    recording adapter — possible because the run has MSC and the particle is e-/e+)"""
    if s.M is not None:
        return bool(s.M["appl"])
    return msc_on(log) and abs(log.particles[s.pid]["pdg"]) == 11 and s.along == log.q.get(
        "along-user")


def model_ops(log, s, prev_nstep):
    """list of (op, expected) for one step that was alive at user_pre"""
    ops = []
    stopped = s.flags & 1
    lim = s.hx["lim"]
    la = act_letter(log, s.limact)
    ops.append(("limit %d %d %d %s %s %s" % (1 if stopped else 0, 1 if s.flags & 2 else 0,
                                              1 if s.flags & 8 else 0, s.hx["mfp0"], s.hx["xs"],
                                              s.hx["rng"]),
                "%s %s" % (lim, la), "limit"))
    if s.st[2] == "e":
        return ops
    # propagation branch
    aa = act_letter(log, s.acta)
    if s.G is not None:
        dist, bnd = s.G["hx"], s.G["bnd"]
    else:
        dist, bnd = s.hx["stepa"], s.bnda
    eloss_changed_action = (s.ea == 0.0 and s.e0 > 0.0)
    msc_step = msc_applies(log, s)
    M = s.M
    if M is not None and M["appl"]:
        # Urban MSC step-limit selection, recomputed from the recorded inputs
        sc = log.scalars
        h = M["hx"]
        ri0 = INF if math.isinf(M["r0"][1]) else h["r0"][0]
        ri1 = INF if math.isinf(M["r1"][1]) else h["r1"][0]
        exp = "%s %s %s %s" % (h["true"], ri1, h["r1"][1], h["r1"][2])
        if M["lim"] and M["alg"] in (1, 2):
            ops.append(("mscs %d %d %s %s %s %s %s %s %s %s %s %s %s %s %s"
                        % (1 if M["alg"] == 2 else 0, M["onb"], h["phys"], h["range"], h["mfp"],
                           h["safety"], ri0, h["r0"][1], h["r0"][2], h["r1"][2],
                           steplog.hx(sc["msc_range_factor"]), steplog.hx(sc["msc_lambda_limit"]),
                           steplog.hx(sc["msc_safety_factor"]),
                           steplog.hx(sc["msc_limit_min_fix"]), h["z"]), exp, "msc-safety"))
        elif M["lim"] and M["alg"] == 0:
            ops.append(("mscm %d %s %s %s %s %s %s %s %s %s"
                        % (M["onb"], h["phys"], h["range"], h["mfp"], ri0, h["r0"][1], h["r0"][2],
                           steplog.hx(sc["msc_range_factor"]),
                           steplog.hx(sc["msc_limit_min_fix"]), h["z"]), exp, "msc-minimal"))
        # propagation applier sees the geometrical path and (if MSC limited) the msc action
        if not stopped:
            ops.append(("prop %s %s %s %d" % (h["geom"], "s" if M["limited"] else la, dist, bnd),
                        "%s %s" % (s.hx["stepa"], aa),
                        "prop-msc-geom" if eloss_changed_action else "prop-msc-action-only"))
    elif not stopped and not msc_step:
        exp_a = aa
        op = "prop %s %s %s %d" % (lim, la, dist, bnd)
        ops.append((op, "%s %s" % (s.hx["stepa"], exp_a), "prop-step-only" if eloss_changed_action
                    else "prop"))
    # time
    mass = log.particles[s.pid]["mass_hx"]
    ops.append(("time a %s %s %s %s" % (s.hx["t0"], s.hx["stepa"], s.hx["e0"], mass), s.hx["ta"],
                "time"))
    # track updater
    st2 = "k" if s.st[2] == "k" else "a"
    ops.append(("tupd %s %s %s %s %s %d" % (st2, aa, s.hx["mfp0"], s.hx["stepa"], s.hx["xs"],
                                            s.nstep - 1),
                "%s %d" % (s.hx["mfpa"], s.nstep), "tupd"))
    # position (an MSC step moves by the GEOMETRICAL distance, then may be displaced laterally)
    if not stopped and (not msc_step or (s.G is not None and M is not None
                                         and not M["displaced"])):
        ops.append(("move %s %s %s" % (" ".join(s.hx["pos0"]), " ".join(s.hx["dir0"]), dist),
                    " ".join(s.hx["pos1"]), "move"))
    # status machine
    b = log.q["boundary"]
    absorbed = (s.X["kind"] == "a") if s.X is not None else (s.st[4] == "k")
    b_failed = 1 if (s.act3 == b and s.act == log.q["tracking-cut"]) else 0
    ops.append(("status %s %d %d %s %d %d 0 %d" % (s.st[0], 0, 1 if s.st[2] == "k" else 0,
                                                   act_letter(log, s.act3 if not b_failed else b),
                                                   b_failed, 1 if s.vol1 < 0 else 0,
                                                   1 if absorbed else 0),
                " ".join(s.st), "status"))
    return ops


def tie_scenarios():
    """fixed_step_limiter dividing the distance to the spherical boundaries (r = 1, 3, 6) exactly:
    start at the origin / on exactly representable points, axis-parallel directions, charged
    particles (the fixed limiter only applies to particles with an energy-loss process); the
    boundary distance then EQUALS the physics step limit.  All three instantiations of the
    propagation applier are used: AlongStepGeneralLinearAction, AlongStepNeutralAction (charged
    tracks sent through the neutral along-step) and the harness's recording variant."""
    dirs = ([1.0, 0.0, 0.0], [-1.0, 0.0, 0.0], [0.0, 1.0, 0.0], [0.0, -1.0, 0.0], [0.0, 0.0, 1.0],
            [0.0, 0.0, -1.0])
    names = ("celeriton", "positron", "anti-celeriton", "electron")
    out = []
    k = 0
    for along in ("linear", "vlinear", "neutral", "vfluct"):
        for lim in (0.25, 0.5, 0.125):
            prim = []
            for j, d in enumerate(dirs):
                start = [0.0, 0.0, 0.0] if j % 2 == 0 else [-0.5 * c for c in d]
                prim.append((names[(j + k) % 4], 9.0 - 0.5 * j, start, d, j % 2, 1))
            kw = {"slots": 8, "along": along, "interactor": 1, "lossscale": 0.001,
                  "xsscale": 0.001, "maxsteps": int(8 / lim), "maxevents": 4, "seed": 777 + k,
                  "order": ["none", "reindex_particle_type", "init_charge"][k % 3],
                  "opts": {"fixed_step_limiter": lim}}
            out.append(("mock", prim, kw))
            k += 1
    return out


MSC_ALGS = ("safety", "safety_plus", "minimal")


def msc_scenarios(rng, quick):
    """Urban MSC in the real along-step (mock problem with hand-made MSC tables): low-energy e-/e+
    started near / on / far from the spherical boundaries, for the three step-limit algorithms,
    MSC cross-section scales from 'limit_min far above the range' (physics step below the MSC floor)
    to 'many MSC-limited, displaced, safety-capped steps', stock and recording along-steps"""
    out = []
    scales = [1e-6, 1e-5, 1e-4, 1e-3, 1e-2, 0.1, 1.0, 10.0]
    k = 0
    for alg in MSC_ALGS:
        for j in range(3 if quick else 8):
            if alg == "minimal":
                # the minimal algorithm samples when the cached per-volume limit is below the
                # physics step: needs an MSC mean free path comparable to the range
                mscxs = [1e-2, 1.0, 0.1, 10.0][(j + rng.below(2)) % 4]
            elif quick:
                mscxs = [[1e-6, 1e-5], [1e-3, 1e-2], [1.0, 10.0]][j][rng.below(2)]
            else:
                mscxs = scales[j]
            along = ["vlinear", "vfluct", "vlinear", "linear"][(k + j) % 4]
            prim = []
            for i in range(6):
                name = "electron" if (i + k) % 3 else "positron"
                e = [0.002, 0.005, 0.02, 0.05, 0.3, 2.0][(i + j) % 6] * (1 + 0.3 * rng.unit())
                r0 = [0.9999, 0.999, 2.9999, 1.0, 2.99, 0.5, 0.0, 5.999][(i + 2 * j + k) % 8]
                d = c01.unit_dir(rng) if i % 2 else [1.0, 0.0, 0.0]
                prim.append((name, e, [r0, 0.0, 0.0], d, i % 2, 6 if quick else 10))
            kw = {"slots": 16, "along": along, "interactor": 1, "msc": 1, "mscalg": alg,
                  "mscxs": mscxs, "maxsteps": 1500 if quick else 4000, "maxevents": 4,
                  "lossscale": [1.0, 0.1, 0.01][(j + k) % 3],
                  "seed": rng.below(1 << 30), "posrest": (j + k) % 2,
                  "order": ["none", "reindex_particle_type", "init_charge"][(j + k) % 3],
                  "opts": {"lowest_electron_energy": 1e-4,
                           "range_factor": [0.04, 0.001, 0.2][(j + k) % 3],
                           "lambda_limit": [0.1, 1e-3][j % 2]}}
            out.append(("mock", prim, kw))
        k += 1
    # minimal algorithm, physics step only slightly above the cached MSC limit (set on a boundary
    # to range_factor * max(range, mfp)): the Gaussian draw regularly lands above the maximum
    # step and must be clamped back to it
    for j, (rf, ls, xs) in enumerate(((0.2, 0.1, 1.0), (0.19, 0.01, 10.0), (0.2, 0.1, 10.0))
                                     if quick else
                                     ((0.2, 0.1, 1.0), (0.19, 0.01, 10.0), (0.2, 0.1, 10.0),
                                      (0.17, 0.1, 1.0), (0.2, 1.0, 10.0), (0.18, 0.01, 1.0))):
        prim = []
        for i in range(6):
            name = "electron" if (i + j) % 2 else "positron"
            e = [1.0, 2.5, 4.0, 6.0, 8.0, 9.5][i] * (1 - 0.05 * rng.unit())
            r0 = [0.999, 0.99, 2.999, 0.9, 2.99, 0.5][(i + j) % 6]
            d = [1.0, 0.0, 0.0] if i % 3 else c01.unit_dir(rng)
            prim.append((name, e, [r0, 0.0, 0.0], d, i % 2, 6 if quick else 10))
        kw = {"slots": 16, "along": ["vlinear", "vfluct", "vlinear"][j % 3], "interactor": 1,
              "msc": 1, "mscalg": "minimal", "mscxs": xs, "lossscale": ls, "xsscale": 0.01,
              "maxsteps": 600 if quick else 1500, "maxevents": 4, "seed": rng.below(1 << 30),
              "opts": {"lowest_electron_energy": 1e-4, "range_factor": rf,
                       "max_step_over_range": 0.2, "min_range": [0.1, 0.05][j % 2]}}
        out.append(("mock", prim, kw))
    return out


def oracle(log, problem):
    fails = []
    q = log.q
    bnd_act, disc, failure = q["boundary"], q["discrete"], q["failure"]
    vol_label = {v: lab for v, (lab, _) in log.volumes.items()}

    def add(kind, s, extra=None):
        d = {"iter": s.it, "slot": s.slot, "event": s.ev, "track": s.trk,
             "particle": log.particles[s.pid]["name"], "status": s.st, "nstep": s.nstep,
             "limit": s.lim, "limit_action": log.label(s.limact), "step": s.step,
             "step_after_along": s.stepa, "action": log.label(s.act), "e0": s.e0, "e1": s.e1,
             "t0": s.t0, "t1": s.t1, "vol0": s.vol0, "vol1": s.vol1, "pos0": s.pos0, "pos1": s.pos1}
        if extra:
            d.update(extra)
        fails.append((kind, d))

    n = {"steps": 0, "joins": 0, "points": 0, "ties": 0}
    for key, t in log.by_track.items():
        first = t[0]
        if first.st[1] == "e":
            # failed at initialisation (e.g. started outside the geometry): no step is taken,
            # the tracking cut kills it in the same iteration
            if first.nstep != 0 or first.st != "eeeek" or len(t) != 1:
                add("errored-at-initialisation-took-a-step", first)
        elif first.nstep != 1 or first.st[0] != "i":
            add("first-step-not-fresh", first)
        for a, b in zip(t, t[1:]):
            n["joins"] += 1
            if (a.hx["e1"], a.hx["pos1"], a.hx["t1"], a.vol1) != (b.hx["e0"], b.hx["pos0"],
                                                                  b.hx["t0"], b.vol0):
                add("history-discontinuous", b, {"prev_post": {"e": a.e1, "pos": a.pos1, "t": a.t1,
                                                               "vol": a.vol1, "iter": a.it,
                                                               "slot": a.slot}})
            if b.nstep != a.nstep + 1 or b.it != a.it + 1 or a.st[4] != "a":
                add("step-count-not-consecutive", b, {"prev_nstep": a.nstep, "prev_iter": a.it,
                                                      "prev_status": a.st})
    for s in log.steps:
        n["steps"] += 1
        ranks = [RANK[c] for c in s.st]
        if any(x > y for x, y in zip(ranks, ranks[1:])) or s.st[1] == "i" or s.st[1] == "-":
            add("status-moved-backwards", s)
        if s.st[1] != "a":
            continue            # errored at initialisation: no step taken, tracking cut only
        if s.t1 < s.t0:
            add("time-decreased", s)
        if s.e1 > s.e0:
            add("energy-increased", s)
        stopped = bool(s.flags & 1)
        if s.st[2] != "e":
            if stopped:
                if s.step != 0.0 or s.limact != disc or not (s.flags & 4):
                    add("stopped-track-moved-or-no-at-rest", s)
            else:
                if not (s.step > 0.0):
                    add("step-not-positive" + (":failed-interaction" if s.act == failure else ""),
                        s)
                if not (s.stepa <= s.lim):
                    add("step-exceeds-physics-limit", s)
                if not (s.step <= s.lim):
                    add("step-exceeds-physics-limit", s)
            dx = math.sqrt(sum((a - b) ** 2 for a, b in zip(s.pos1, s.pos0)))
            scale = max(max(abs(c) for c in s.pos0), max(abs(c) for c in s.pos1), 1e-300)
            if dx > s.step * (1 + 8 * EPS) + 8 * EPS * scale:
                add("step-shorter-than-displacement"
                    + (":failed-interaction" if s.act == failure else ""), s,
                    {"displacement": dx})
        # the propagator reported a boundary hit (recorded answer, or: the geometry sits on a
        # surface after a non-zero move) => the step is the propagated distance and the post-step
        # action is the boundary action, ALSO when the distance equals the physics limit (tie)
        hit = (s.G["bnd"] == 1) if s.G is not None else (s.bnda == 1 and not stopped
                                                         and s.st[2] == "a")
        if hit and s.st[2] == "a":
            if s.stepa == s.lim:
                n["ties"] += 1
            msc_step = msc_applies(log, s)
            bad_len = (s.G is not None and ((s.stepa < s.G["dist"]) if msc_step
                                            else (s.hx["stepa"] != s.G["hx"])))
            if s.acta != bnd_act or bad_len:
                add("boundary-hit-without-boundary-action", s,
                    {"tie": s.stepa == s.lim, "action_after_along": log.label(s.acta),
                     "on_boundary": s.bnda, "recorded_propagation": s.G})
        # a track left ON a surface: the volume reported after the step (= pre-step volume of the
        # NEXT step) is the one containing the point just ahead of the post-step position
        # (interior post-step points are covered by the point-location rule below)
        if s.st[4] == "a" and s.bnd1 == 1:
            q = [p + 1e-6 * d for p, d in zip(s.pos1, s.dir1)]
            lab = "[OUTSIDE]" if s.vol1 < 0 else vol_label.get(s.vol1, "?")
            if lab not in locate(problem, q):
                add("next-step-volume-does-not-contain-position", s,
                    {"point_ahead": q, "reported": lab, "candidates": sorted(locate(problem, q)),
                     "tie": s.stepa == s.lim})
        if s.vol1 != s.vol0 and not (s.act == bnd_act or (s.act3 == bnd_act)):
            add("volume-changed-without-boundary-action", s)
        # (with MSC the direction may be scattered back while ON the surface: re-entry is legal)
        if s.act == bnd_act and s.st[4] == "a" and s.vol1 == s.vol0 and not msc_applies(log, s):
            add("boundary-action-kept-volume", s)
        # ---- a failed interaction (secondary stack exhausted) ends the step with the
        # physics-failure action; no other model kernel may pick the track up in the same step
        if s.X is not None:
            if s.X["calls"] > 1:
                add("second-interaction-in-one-step", s, {"interactor_calls": s.X["calls"],
                                                          "first_kind": s.X["first"],
                                                          "last_kind": s.X["kind"]})
            if s.X["first"] == "f":
                n["failed-interactions"] = n.get("failed-interactions", 0) + 1
                # (a track at rest has step length 0: step_limit({0, failure}) cannot shorten it
                # and the model action stays — same mechanism as the known step-length finding)
                lab = log.registry.get(s.act, log.label(s.act))
                if s.stepa > 0.0 and lab != "physics-failure":
                    add("failed-interaction-not-followed-by-failure-action", s,
                        {"post_step_action": lab, "action_id": s.act,
                         "physics_failure_id": [k for k, v in log.registry.items()
                                                if v == "physics-failure"]})
        # ---- Urban MSC (recorded by the adapter around celeritas::UrbanMsc)
        M = s.M
        if M is not None and M["appl"]:
            alg = {0: "minimal", 1: "safety", 2: "safety_plus"}.get(M["alg"], "other")
            n["msc:" + alg] = n.get("msc:" + alg, 0) + 1
            if M["lim"]:
                n["msc-limiter:" + alg] = n.get("msc-limiter:" + alg, 0) + 1
                if M["true"] == M["r1"][3]:
                    n["msc-at-limit-min:" + alg] = n.get("msc-at-limit-min:" + alg, 0) + 1
                if M["phys"] < M["r1"][3]:
                    n["msc-phys-step-below-limit-min:" + alg] = n.get(
                        "msc-phys-step-below-limit-min:" + alg, 0) + 1
                # Gaussian draw above the maximum step, clamped back to it (the population in
                # which a missing upper clamp would exceed the physics limit)
                lim_fin = M["r1"][1] if M["alg"] == 0 else None
                if M["alg"] == 0 and M["true"] == M["phys"] and M["phys"] > lim_fin:
                    n["msc-clamped-at-max-step:" + alg] = n.get(
                        "msc-clamped-at-max-step:" + alg, 0) + 1
                if M["true"] != M["phys"] and M["true"] != M["r1"][3]:
                    n["msc-sampled:" + alg] = n.get("msc-sampled:" + alg, 0) + 1
                if M["onb"]:
                    n["msc-on-boundary:" + alg] = n.get("msc-on-boundary:" + alg, 0) + 1
            # the true path selected by MSC never exceeds the physics step limit chosen at
            # pre-step, the geometrical path never exceeds the true path
            if not (M["true"] <= M["phys"]) or not (M["phys"] == s.lim):
                add("msc-true-path-exceeds-physics-limit", s,
                    {"true_path": M["true"], "physics_step": M["phys"], "limit_min": M["r1"][3],
                     "algorithm": alg, "on_boundary": M["onb"], "safety": M["safety"]})
            if not (0 < M["geom"] <= M["true"]):
                add("msc-geom-path-exceeds-true-path", s, {"true_path": M["true"],
                                                           "geom_path": M["geom"]})
            if M["applied"] and not (M["truefinal"] <= M["true"] * (1 + 4 * EPS)):
                add("msc-final-true-path-exceeds-selected", s, {"true_path": M["true"],
                                                                "final": M["truefinal"]})
            # lateral displacement stays strictly inside the safety sphere
            if M["displaced"]:
                n["msc-displaced"] = n.get("msc-displaced", 0) + 1
                tol = log.scalars["msc_safety_tol"]
                cap = (1 - tol) * M["asafety"]
                if M["dlen"] >= cap * (1 - 1e-6):
                    n["msc-safety-capped"] = n.get("msc-safety-capped", 0) + 1
                if M["dlen"] > cap * (1 + 1e-9) + 1e-14:
                    add("msc-displacement-exceeds-safety", s,
                        {"displacement": M["dlen"], "safety": M["asafety"],
                         "cap=(1-safety_tol)*safety": cap, "algorithm": alg})
        # MFP bookkeeping
        if s.st[2] == "a" and s.mat >= 0:
            if s.acta == disc:
                if s.hx["mfpa"] != s.hx["mfp0"]:
                    add("mfp-changed-on-discrete-step", s, {"mfp0": s.mfp0, "mfpa": s.mfpa})
                if s.st[3] == "a" and s.mfp1 != 0.0:
                    add("mfp-not-reset-by-discrete-select", s, {"mfp1": s.mfp1})
            elif not (s.mfpa > 0.0):
                add("mfp-not-positive-after-non-discrete-step", s, {"mfp0": s.mfp0,
                                                                    "mfpa": s.mfpa, "xs": s.xs})
        # point location of both step points
        for pos, vol, bflag in ((s.pos0, s.vol0, s.bnd0), (s.pos1, s.vol1, s.bnd1)):
            n["points"] += 1
            lab = "[OUTSIDE]" if vol < 0 else vol_label.get(vol, "?")
            if lab == "[EXTERIOR]":
                lab = "[OUTSIDE]"
            cands = locate(problem, pos)
            if lab not in cands:
                add("volume-does-not-contain-position", s, {"point": pos, "reported": lab,
                                                            "candidates": sorted(cands)})
    return fails, n


def run(ctx):
    quick = ctx.quick()
    ps = common.proof_side(ctx, "C05")
    broken = list(ps["broken"])
    numself.run(ctx, n=5000 if quick else 100000)
    exe, log_b, _ = vlib.build_harness("stepping", HARNESS["stepping"])
    if exe is None:
        ctx.violation("harness-build", "harness/stepping.cc no longer builds against /repo",
                      {"correspondence": "harness build", "log": log_b[-2000:]}, found_input=False)
        ctx.coverage.update({"evaluations": 0, "distinct_nontrivial": 0,
                             "explanation": "harness build failed"})
        return LEVEL
    model = vlib.model_exe("C05")
    n_runs = 16 if quick else 120
    st = {"runs": 0, "steps": 0, "joins": 0, "points": 0, "ties": 0, "ops": 0, "mismatch": 0,
          "oracle_fail": 0, "kinds": {}, "verdicts": {}, "limit_actions": {}, "configs": []}
    seen = set()
    distinct = set()
    samples = []
    import glob
    import os
    corpus = sorted(glob.glob(os.path.join(vlib.CORPUS, "C05", "failed_*.in")))
    ties = tie_scenarios()
    if quick:
        ties = ties[(ctx.seed % 2)::2] + ties[:1]
    ties = ties + msc_scenarios(ctx.rng, quick)       # forced scenario runs
    ties = ties + c01.init_charge_scenarios()[:3]     # init_charge, more primaries than slots
    msc_cnt = {}
    for i in range(-len(corpus) - len(ties), n_runs):
        if i < -len(corpus):
            problem, prim, kw = ties[i + len(corpus) + len(ties)]
            lines, rc, log = c01.run_harness(exe, problem, prim, kw)
        elif i < 0:
            # corpus first: minimised past findings
            lines = [l for l in open(corpus[i + len(corpus)]).read().split("\n")
                     if l and not l.startswith("#")]
            problem = lines[0].split()[1]
            rc, out = vlib.run_lines([exe], lines)
            log = steplog.parse(out)
        else:
            problem, prim, kw = c01.gen_config(ctx.rng, quick,
                                               ["mock", "simple", "mock"][i] if i < 3 else None)
            lines, rc, log = c01.run_harness(exe, problem, prim, kw)
        st["runs"] += 1
        verdict = (log.verdict or "no-R-line(rc=%d)" % rc).split()[0]
        st["verdicts"][verdict] = st["verdicts"].get(verdict, 0) + 1
        if len(st["configs"]) < 5:
            st["configs"].append(" ; ".join(lines[:-1])[:400])
        if log.verdict is None and rc != 0:
            # the real stepping loop crashed on this input: the script is the failing input; the
            # steps logged before the crash are still evaluated below
            ctx.violation("harness-crash", "the real Stepper crashed (rc=%d) on this input" % rc,
                          {"harness": "harness/stepping.cc", "script": lines, "rc": rc,
                           "steps_logged": len(log.steps)})
            log.verdict = "crashed"
            log.errors = [e for e in log.errors if not e.startswith("truncated")]
        if log.verdict is None or log.errors:
            ctx.violation("harness-run", "stepping harness aborted or rejected a directive",
                          {"script": lines, "rc": rc, "errors": log.errors[:5]}, found_input=False)
            continue
        fails, cnt = oracle(log, problem)
        for k in cnt:
            if k in st:
                st[k] += cnt[k]
            else:
                msc_cnt[k] = msc_cnt.get(k, 0) + cnt[k]
        for kind, d in fails:
            st["oracle_fail"] += 1
            key = "oracle:" + kind
            if kind.endswith(":failed-interaction"):
                key = "failed-interaction-zeroes-step-length"
            if key in seen:
                continue
            seen.add(key)
            what = "real Stepper: step history rule violated (%s)" % kind
            if key == "failed-interaction-zeroes-step-length":
                what = ("InteractionApplier, on a failed interaction (secondary stack exhausted), "
                        "calls sim.step_limit({0, failure_action}): the ALREADY TRAVELLED step "
                        "length of this step is overwritten by 0, so the step reported at "
                        "user_post has length 0 although the track moved (step < displacement, "
                        "step not positive)")
            ctx.violation(key, what,
                          {"harness": "harness/stepping.cc", "script": lines, "detail": d})
        if ps["model_ok"]:
            sc = log.scalars
            ops = ["sc %s %s %s %s" % tuple(steplog.hx(sc[k]) for k in
                                            ("min_range", "max_step_over_range",
                                             "fixed_step_limiter", "sqrt_tol"))]
            exps = [("ok", "sc")]
            for s in log.steps:
                if s.st[1] != "a" or s.mat < 0:
                    continue
                for op, exp, kind in model_ops(log, s, None):
                    ops.append(op)
                    exps.append((exp, kind))
                la = log.label(s.limact) + ">" + log.label(s.acta)
                st["limit_actions"][la] = st["limit_actions"].get(la, 0) + 1
            _, om = vlib.run_lines([model], ops)
            for j, (op, (exp, kind)) in enumerate(zip(ops, exps)):
                got = om[j] if j < len(om) else "<missing>"
                st["ops"] += 1
                st["kinds"][kind] = st["kinds"].get(kind, 0) + 1
                distinct.add(op)
                ok = (got == exp)
                if kind == "prop-step-only":
                    ok = got.split()[:1] == exp.split()[:1]
                elif kind == "prop-msc-action-only":
                    ok = got.split()[1:2] == exp.split()[1:2]
                elif kind == "prop-msc-geom":
                    ok = got != "bad-op"
                if len(samples) < 3 and kind in ("limit", "prop") and j % 97 == 5:
                    samples.append({"op": op, "impl": exp, "model": got})
                if not ok:
                    st["mismatch"] += 1
                    if ("mm:" + kind) not in seen:
                        seen.add("mm:" + kind)
                        broken.append("correspondence: step model and real step differ on `%s` "
                                      "(first: %s)" % (kind, op[:70]))
                        ctx.notes.append({"first_model_mismatch:" + kind: {"op": op, "impl": exp,
                                                                           "model": got,
                                                                           "script": lines}})
    need = (["msc:" + a for a in MSC_ALGS] + ["msc-limiter:" + a for a in MSC_ALGS]
            + ["msc-sampled:" + a for a in MSC_ALGS] + ["msc-on-boundary:" + a for a in MSC_ALGS]
            + ["msc-phys-step-below-limit-min:safety", "msc-phys-step-below-limit-min:safety_plus",
               "msc-displaced", "msc-safety-capped", "msc-clamped-at-max-step:minimal",
               "failed-interactions"])
    missing = [k for k in need if not msc_cnt.get(k)]
    if missing:
        ctx.violation("coverage-msc", "the MSC / failed-interaction scenarios no longer reach: "
                      + ", ".join(missing), {"counters": msc_cnt}, found_input=False)
    if st["ties"] == 0:
        ctx.violation("coverage-boundary-tie", "no step had boundary distance == physics step "
                      "limit: the tie scenarios no longer produce ties", {"ties": 0},
                      found_input=False)
    if broken and not ctx.violations:
        ctx.violation("unproved", "; ".join(broken)[:600], {"no_longer_checks": broken},
                      found_input=False)
    if not quick and ps["build"]["ok"]:
        common.leanchecker(ctx, ["CelerVerif.Props.C05"])
    ctx.assumptions += [
        "theorems are about the real-number reading of Model/Step.lean; the same definitions at "
        "Float reproduce physics limit+action, propagation branch, time, MFP, step counter, "
        "position and status sequence of every replayed step bit-for-bit",
        "recorded inputs: total macroscopic cross section, range (RangeCalculator), interaction "
        "MFP, the propagator's (distance, boundary) answer (recorded by an adapter for charged "
        "tracks; for neutral tracks the final step length and the geometry's on-boundary flag)",
        "history_continuous is proved on the frame model of the inter-step actions; that the REAL "
        "actions write nothing else is checked on traces (pre(k+1) == post(k) bitwise per track)",
        "hypotheses: interaction_mfp > 0 and xs >= 0 (CELER_EXPECT), unit direction vectors, "
        "vacancies are inactive slots (C02)",
        "Urban MSC uses hand-made cross-section tables (scaled xs constant*mild log slope per "
        "material), not Geant4 data; MscStepToGeo/FromGeo path conversions and the angular "
        "sampling are exercised but not modelled (C14); calc_limit_min enters as a recorded input",
        "NOT covered: field propagators, looping-track logic beyond the branch model, real EM "
        "data — not buildable without Geant4 data; distance_to_boundary MSC algorithm (not "
        "implemented in the code: falls through to the safety algorithm)",
    ]
    ctx.coverage.update({
        "evaluations": st["steps"] + st["ops"], "distinct_nontrivial": len(distinct),
        "rule": "distinct = distinct model op lines (limit/prop/time/tupd/move/status with the "
                "step's recorded inputs); oracle evaluated on every step, every consecutive pair "
                "of steps of a track and both step points",
        "runs": st["runs"], "steps_checked_by_oracle": st["steps"], "step_joins_checked": st["joins"],
        "points_located": st["points"], "boundary_ties(distance == physics limit)": st["ties"],
        "msc_and_failure_counters": dict(sorted(msc_cnt.items())),
        "model_ops": st["ops"], "model_op_kinds": st["kinds"],
        "model_mismatches": st["mismatch"], "oracle_failures": st["oracle_fail"],
        "run_verdicts": st["verdicts"],
        "limit_action>action_after_along": dict(sorted(st["limit_actions"].items())),
        "samples": samples, "sample_configs": st["configs"], "correspondence_broken": broken,
        "explanation": "arithmetic and state machine proved on the model; frame conditions of "
                       "the real actions and geometry consistency carried by the trace oracle",
    })
    return LEVEL


def replay(ctx, data):
    r = data["replay"]
    exe, log_b, _ = vlib.build_harness("stepping", HARNESS["stepping"])
    if "script" in r:
        rc, out = vlib.run_lines([exe], r["script"])
        log = steplog.parse(out)
        problem = r["script"][0].split()[1]
        fails, cnt = oracle(log, problem)
        print("verdict:", log.verdict, "checked:", cnt, "oracle failures:", len(fails))
        for kind, d in fails[:5]:
            print(kind, d)
    return 0
