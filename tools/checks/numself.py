"""Numeric self-test (DESIGN.md §2.2, §9 risk iii): the `Num Float` instance of the Lean
runtime and the C++ primitives (celeritas::fma, std::sqrt/exp/log/sin/cos, arithmetic,
comparisons, literal parsing) must give identical bit patterns.  Run by every numeric check
before it trusts a bit-exact comparison."""
import struct

import vlib

SPECIAL = [0x0, 0x8000000000000000, 0x1, 0x8000000000000001, 0x000fffffffffffff,
           0x0010000000000000, 0x7fefffffffffffff, 0xffefffffffffffff, 0x7ff0000000000000,
           0xfff0000000000000, 0x7ff8000000000000, 0x3ff0000000000000, 0xbff0000000000000,
           0x3ff0000000000001, 0x3fefffffffffffff, 0x4000000000000000, 0x3fe0000000000000,
           0x4340000000000000, 0x3ca0000000000000, 0x7fe0000000000000, 0x0020000000000000]


def rnd_bits(rng):
    k = rng.below(10)
    if k == 0:
        return rng.choice(SPECIAL)
    if k == 1:   # near 1
        return 0x3ff0000000000000 + rng.range(-64, 64)
    if k == 2:   # small exponent spread, good for cancellation in fma
        return ((rng.below(2) << 63) | ((1023 + rng.range(-3, 3)) << 52) | (rng.next() & ((1 << 52) - 1)))
    if k == 3:   # few significant bits (exact products, ties)
        m = rng.next() & ((1 << 52) - 1) & ~((1 << rng.range(20, 51)) - 1)
        return ((rng.below(2) << 63) | ((1023 + rng.range(-60, 60)) << 52) | m)
    if k == 4:   # subnormal / tiny
        return (rng.below(2) << 63) | (rng.next() & ((1 << rng.range(1, 54)) - 1))
    if k == 5:   # huge
        return (rng.below(2) << 63) | ((2046 - rng.below(60)) << 52) | (rng.next() & ((1 << 52) - 1))
    if k == 6:   # moderate magnitudes (typical physics/geometry values)
        return ((rng.below(2) << 63) | ((1023 + rng.range(-40, 40)) << 52) | (rng.next() & ((1 << 52) - 1)))
    return rng.next() & 0xFFFFFFFFFFFFFFFF


def bits_of(x):
    return struct.unpack("<Q", struct.pack("<d", x))[0]


def gen_lines(rng, n):
    lines = ["inf"]
    for k in (0, 1, 2, 3, 10, 100, 4294967296, 9007199254740993, 18446744073709551615):
        lines.append("nat %d" % k)
    for m, s, e in [(1, "-", 5), (1, "-", 8), (1, "-", 10), (5, "-", 1), (16, "+", 0), (1, "+", 22),
                    (299792458, "+", 2), (6241509074460763, "-", 3), (1, "-", 300), (17, "-", 320),
                    (1, "-", 323), (1, "-", 324), (2220446049250313, "-", 31), (123456789012345678, "-", 9)]:
        lines.append("sci %d %s %d" % (m, s, e))
    for _ in range(n):
        op = rng.choice(["fma", "fma", "fma", "fma", "add", "sub", "mul", "div", "sqrt", "exp",
                         "log", "sin", "cos", "lt", "le", "eq", "neg", "abs"])
        if op == "fma":
            a, b = rnd_bits(rng), rnd_bits(rng)
            if rng.chance(1, 3):      # c close to -a*b : catastrophic cancellation
                fa = struct.unpack("<d", struct.pack("<Q", a))[0]
                fb = struct.unpack("<d", struct.pack("<Q", b))[0]
                try:
                    c = bits_of(-(fa * fb)) + rng.range(-2, 2)
                    c &= 0xFFFFFFFFFFFFFFFF
                except (OverflowError, ValueError):
                    c = rnd_bits(rng)
            else:
                c = rnd_bits(rng)
            lines.append("fma %x %x %x" % (a, b, c))
        elif op in ("add", "sub", "mul", "div", "lt", "le", "eq"):
            lines.append("%s %x %x" % (op, rnd_bits(rng), rnd_bits(rng)))
        else:
            x = rnd_bits(rng)
            if op in ("exp", "sin", "cos", "log") and rng.chance(2, 3):
                x = ((rng.below(2) << 63) | ((1023 + rng.range(-30, 9)) << 52)
                     | (rng.next() & ((1 << 52) - 1)))
                if op == "log":
                    x &= 0x7FFFFFFFFFFFFFFF
            lines.append("%s %x" % (op, x))
    return lines


def is_nan_bits(s):
    try:
        v = int(s, 16)
    except ValueError:
        return False
    return (v >> 52) & 0x7FF == 0x7FF and v & ((1 << 52) - 1) != 0


def run(ctx, n=None):
    """returns (ok, info). On mismatch records a violation of the *machinery* kind (the
    bit-exact tie cannot be trusted), as required by DESIGN.md (never loosen a comparison)."""
    n = n or (20000 if ctx.quick() else 300000)
    exe, log, _ = vlib.build_harness("numself", ["corecel"])
    if exe is None:
        ctx.violation("numself-build", "harness/numself.cc does not build", {"log": log[-1500:]},
                      found_input=False)
        return False, {}
    res = vlib.lean_build(["celer_model_num"])
    if not res["ok"]:
        ctx.violation("numself-lean", "Num/F64 driver does not build", {"log": res["log"][-1500:]},
                      found_input=False)
        return False, {}
    lines = gen_lines(ctx.rng, n)
    _, oc = vlib.run_lines([exe], lines)
    _, ol = vlib.run_lines([vlib.model_exe("num")], lines)
    bad = []
    for l, a, b in zip(lines, oc, ol):
        if a != b and not (is_nan_bits(a) and is_nan_bits(b)):   # NaN payload/sign not compared
            bad.append({"op": l, "cxx": a, "lean": b})
    if len(oc) != len(lines) or len(ol) != len(lines):
        bad.append({"op": "<stream length>", "cxx": len(oc), "lean": len(ol)})
    info = {"numself_lines": len(lines), "numself_mismatches": len(bad)}
    ctx.coverage.update(info)
    if bad:
        ctx.violation("numself-mismatch", "Lean Float / exact-fma model and the C++ primitives "
                      "disagree bit-wise: bit-exact correspondence cannot be trusted",
                      {"first": bad[:5]}, found_input=False)
    return not bad, info
