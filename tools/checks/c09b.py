"""C09 (solid-emission half; PROP = "C09") — the surfaces, senses and bounding boxes every solid
primitive emits mean the solid's mathematical point set.

Merged into C09's check through `run_part(ctx)` (c09.py calls it and adds the returned coverage);
`python3 tools/check.py C09B` runs it standalone.
"""
import math
import struct

import vlib
from checks import common, numself

PROP = "C09"
LEAN_PROP = "C09b"          # Props/C09b.lean, Driver/C09b.lean, celer_model_c09b
LEVEL = "other"
HARNESS = {"solids": ["corecel", "geocel", "orange"], "numself": ["corecel"]}
MANIFEST = {
    "category": "other",
    "technique": "Lean 4 proof at ℝ that the signed surfaces emitted by each IntersectRegion::build "
                 "(box, sphere, cylinder, cone, ellipsoid, prism, parallelepiped, infinite wedge; hollow/"
                 "sliced solids and and/or/not/subtraction on top) cut out exactly the solid's point set, "
                 "that translating the solid is translating every surface, and that the promised "
                 "bounding boxes enclose / are enclosed; the same Num-generic emission + simplification + "
                 "de-duplication + bounding-zone model runs at Float and must equal the real "
                 "IntersectSurfaceBuilder output bit for bit; end-to-end point-location oracle",
    "text": "PROP = C09 (solid-emission half). Model/Solids.lean models, as written, what every region "
            "class hands to IntersectSurfaceBuilder (surface class, parameters, sense, bbox promises), "
            "the local clip / translate / RecursiveSimplifier / soft de-duplication / global clip "
            "pipeline and calc_merged_bzone. Props/C09b.lean proves at ℝ, per primitive, "
            "`inSolid x ↔ every emitted literal holds at x` for all x not on a surface, translation "
            "commutation (via C12 sense_translate), bbox soundness, and the pointwise boolean algebra "
            "of hollow/sliced solids and All/Any/Negated/subtraction. The harness builds the same "
            "regions with the REAL build() against a real CsgUnitBuilder and prints surfaces+senses+"
            "zones (exact diff with the model), evaluates the real CSG SenseEvaluator at probe points, "
            "and builds a complete OrangeParams (UnitProto in a world box) whose OrangeTrackView "
            "point location is compared with analytic membership away from surfaces.",
    "design_ref": "DESIGN.md §6 C09",
    "note": "Proved at ℝ (rounding not modelled); the within-tolerance perturbations of "
            "SurfaceSimplifier (snapping) are modelled and diffed, not proved; rotations and "
            "reflections (SurfaceTransformer, bbox rotation, transform composition) are modelled, "
            "diffed bit-exactly and proved (sense_transform, emit_transform, sound_transformed); "
            "GenPrism/GenTrap emission (planar and twisted faces, degenerate faces, constructor "
            "validation) is modelled and diffed, its soundness is oracle-only; promised boxes are linked "
            "to the BZone algebra over ℝ∪{±∞}; Involute and polycones are not modelled; sincos(Turn) "
            "values are oracle inputs checked by the harness. ",
}

INF = float("inf")
AXES = "xyz"


def hx(x):
    return "%016x" % struct.unpack("<Q", struct.pack("<d", float(x)))[0]


def fl(s):
    return struct.unpack("<d", struct.pack("<Q", int(s, 16)))[0]


def is_hex16(w):
    return len(w) == 16 and all(c in "0123456789abcdef" for c in w)


# --------------------------------------------------------------------------- generators
def rnd_len(rng, thin=True):
    """positive length over a wide range, sometimes thin / flat"""
    k = rng.below(12)
    if k == 0:
        return float(rng.range(1, 6))
    if k == 1:
        return rng.choice([0.5, 1.0, 2.0, 0.25, 10.0, 100.0])
    if k == 2 and thin:
        return 10.0 ** (-5 + 3 * rng.unit())          # 1e-5 .. 1e-2 (around the tolerance)
    if k == 3:
        return 10.0 ** (1 + 2 * rng.unit())           # 10 .. 1000
    return 10.0 ** (-2 + 3 * rng.unit())              # 0.01 .. 10


def rnd_tol(rng):
    return rng.choice([1e-5, 1e-5, 1e-5, 1e-5, 1e-4, 1e-3, 1.5e-8, 1e-6])


def rnd_tra(rng, scale=5.0):
    k = rng.below(10)
    if k < 3:
        return None
    if k == 3:
        return [float(rng.range(-3, 3)) for _ in range(3)]
    if k == 4:      # tiny translation (below / around the tolerance)
        return [(rng.unit() - 0.5) * 4e-5 for _ in range(3)]
    if k == 5:      # one zero component
        t = [(rng.unit() * 2 - 1) * scale for _ in range(3)]
        t[rng.below(3)] = 0.0
        return t
    return [(rng.unit() * 2 - 1) * scale for _ in range(3)]


def snap_scale(rng, tol):
    """offset / angle log-uniform in [0.1 tol, 100 sqrt(tol)]: the range over which the
    SurfaceSimplifier snapping rules must switch off"""
    lo, hi = math.log(0.1 * tol), math.log(100.0 * math.sqrt(tol))
    return math.exp(lo + (hi - lo) * rng.unit())


def rnd_matrix(rng, tol=1e-5):
    """row-major 3x3 orthonormal matrix: rotations, axis-aligned signed permutations (exact 0/±1
    entries), reflections (det = -1), tiny rotations (snapping)"""
    k = rng.below(8)
    if k == 0:      # signed permutation (proper or improper)
        perm = [0, 1, 2]
        rng.shuffle(perm)
        R = [0.0] * 9
        for i in range(3):
            R[3 * i + perm[i]] = rng.choice([1.0, -1.0])
        return R
    ax = [rng.unit() * 2 - 1 for _ in range(3)]
    if k == 1:
        ax = [0.0, 0.0, 0.0]
        ax[rng.below(3)] = 1.0
    n = math.sqrt(sum(c * c for c in ax)) or 1.0
    x, y, z = [c / n for c in ax]
    th = rng.unit() * 2 * math.pi
    if k == 2:
        th = snap_scale(rng, tol) * rng.choice([1.0, -1.0])
    elif k == 3:
        th = rng.choice([0.25, 0.5, 0.75, 0.125]) * 2 * math.pi
    c, sn = math.cos(th), math.sin(th)
    R = [c + x * x * (1 - c), x * y * (1 - c) - z * sn, x * z * (1 - c) + y * sn,
         y * x * (1 - c) + z * sn, c + y * y * (1 - c), y * z * (1 - c) - x * sn,
         z * x * (1 - c) - y * sn, z * y * (1 - c) + x * sn, c + z * z * (1 - c)]
    if k in (4, 5):      # reflection: flip one column (det = -1)
        j = rng.below(3)
        for i in range(3):
            R[3 * i + j] = -R[3 * i + j]
    return R


def snap_translation(rng, reg, tol):
    """translation that puts a centre / axis / apex / face within a snapping-scale offset m of the
    origin (or of an axis): returns (translation, m)"""
    m = snap_scale(rng, tol)
    t = [0.0, 0.0, 0.0]
    k = rng.below(3)
    if k == 0:          # along one axis
        t[rng.below(3)] = m * rng.choice([1.0, -1.0])
    elif k == 1:        # random direction
        v = [rng.unit() * 2 - 1 for _ in range(3)]
        n = math.sqrt(sum(c * c for c in v)) or 1.0
        t = [m * c / n for c in v]
    else:               # a face plane lands at distance m from the origin
        q, ty = reg["p"], reg["type"]
        if ty == "box":
            a = rng.below(3)
            t[a] = rng.choice([1.0, -1.0]) * q[a] + m
        elif ty in ("cyl", "prism", "genprism", "cone"):
            hh = q[1] if ty in ("cyl", "prism") else q[2] if ty == "cone" else q[0]
            t[2] = rng.choice([1.0, -1.0]) * hh + m
        else:
            t[rng.below(3)] = m
    return t, m


def rnd_xform(rng, scale=5.0, reg=None, tol=1e-5):
    """None | translation [3] | {"R": [9], "t": [3]}; with a region, one case in four is a
    snapping-scale offset (recorded in reg["_snap"])"""
    if reg is not None and rng.chance(1, 4):
        t, m = snap_translation(rng, reg, tol)
        reg["_snap"] = m
        if rng.chance(1, 4):
            return {"R": rnd_matrix(rng, tol), "t": t}
        return t
    if rng.chance(2, 5):
        t = rnd_tra(rng, scale) or [0.0, 0.0, 0.0]
        if rng.chance(1, 4):
            t = [0.0, 0.0, 0.0]
        R = rnd_matrix(rng, tol)
        return {"R": R, "t": t}
    return rnd_tra(rng, scale)


def near_surface_probes(rng, nodes, centre, scale, dmin, dmax, per_surface=3):
    """points at a distance in [dmin, dmax] (log-uniform) on either side of each emitted surface:
    Newton projection of a random nearby point onto the surface, then a step along the gradient"""
    from checks import c12
    pts = []
    if not (dmax > dmin > 0):
        return pts
    for _, _, tag, d in nodes:
        if tag == "inv":
            continue
        for _ in range(per_surface):
            p = [centre[i] + (rng.unit() * 2 - 1) * scale for i in range(3)]
            h = 1e-6 * max(scale, 1e-3)
            ok = True
            g = [0.0, 0.0, 1.0]
            for _it in range(8):
                f = c12.quadric(tag, d, p)
                g = [(c12.quadric(tag, d, [p[j] + (h if j == i else 0.0) for j in range(3)])
                      - c12.quadric(tag, d, [p[j] - (h if j == i else 0.0) for j in range(3)])) / (2 * h)
                     for i in range(3)]
                g2 = sum(c * c for c in g)
                if not (g2 > 0) or not math.isfinite(g2) or not math.isfinite(f):
                    ok = False
                    break
                p = [p[i] - f / g2 * g[i] for i in range(3)]
            if not ok:
                continue
            gn = math.sqrt(sum(c * c for c in g))
            if not (gn > 0):
                continue
            delta = math.exp(math.log(dmin) + (math.log(dmax) - math.log(dmin)) * rng.unit())
            delta *= rng.choice([1.0, -1.0])
            q = [p[i] + delta * g[i] / gn for i in range(3)]
            if all(math.isfinite(v) for v in q):
                pts.append(q)
    return pts


def xf_up(tra, p):
    if tra is None:
        return list(p)
    if isinstance(tra, dict):
        R, t = tra["R"], tra["t"]
        return [R[3 * i] * p[0] + R[3 * i + 1] * p[1] + R[3 * i + 2] * p[2] + t[i] for i in range(3)]
    return [p[i] + tra[i] for i in range(3)]


def xf_down(tra, p):
    if tra is None:
        return list(p)
    if isinstance(tra, dict):
        R, t = tra["R"], tra["t"]
        d = [p[i] - t[i] for i in range(3)]
        return [R[i] * d[0] + R[3 + i] * d[1] + R[6 + i] * d[2] for i in range(3)]
    return [p[i] - tra[i] for i in range(3)]


def xf_compose(a, x):
    """a ∘ x (x applied first)"""
    if a is None:
        return x
    if x is None:
        return a
    Ra = a["R"] if isinstance(a, dict) else [1.0, 0, 0, 0, 1.0, 0, 0, 0, 1.0]
    ta = a["t"] if isinstance(a, dict) else a
    Rx = x["R"] if isinstance(x, dict) else [1.0, 0, 0, 0, 1.0, 0, 0, 0, 1.0]
    tx = x["t"] if isinstance(x, dict) else x
    if not isinstance(a, dict) and not isinstance(x, dict):
        return [tx[i] + ta[i] for i in range(3)]
    R = [sum(Ra[3 * i + k] * Rx[3 * k + j] for k in range(3)) for i in range(3) for j in range(3)]
    t = [sum(Ra[3 * i + k] * tx[k] for k in range(3)) + ta[i] for i in range(3)]
    return {"R": R, "t": t}


def xf_size(tra):
    if tra is None:
        return 0.0
    t = tra["t"] if isinstance(tra, dict) else tra
    return max(abs(v) for v in t)


def rnd_turn(rng, lo, hi, open_lo=False):
    k = rng.below(6)
    if k == 0:
        c = [v for v in (0.0, 0.125, 0.25, 0.5, 0.75, -0.125, 1.0 / 6, 1.0 / 3, 0.0625)
             if (lo < v if open_lo else lo <= v) and v < hi]
        if c:
            return rng.choice(c)
    v = lo + (hi - lo) * rng.unit()
    if open_lo and v <= lo:
        v = (lo + hi) / 2
    return v


def gen_region(rng, kinds=None, thin=True):
    kinds = kinds or ["box", "sphere", "cyl", "cone", "ellipsoid", "prism", "ppiped", "wedge", "genprism"]
    t = rng.choice(kinds)
    L = lambda: rnd_len(rng, thin)
    if t == "box":
        return {"type": t, "p": [L(), L(), L()]}
    if t == "sphere":
        return {"type": t, "p": [L()]}
    if t == "cyl":
        return {"type": t, "p": [L(), L()]}
    if t == "cone":
        k = rng.below(8)
        lo, hi = L(), L()
        if k == 0:
            lo = 0.0
        elif k == 1:
            hi = 0.0
        elif k == 2:
            hi = lo * (1 + (rng.unit() - 0.5) * 4e-5)     # nearly a cylinder
        elif k == 3:
            hi = lo
        return {"type": t, "p": [lo, hi, L()]}
    if t == "ellipsoid":
        k = rng.below(6)
        a = L()
        if k == 0:
            return {"type": t, "p": [a, a, a]}
        if k == 1:
            b = L()
            p = [a, a, a]
            p[rng.below(3)] = b
            return {"type": t, "p": p}
        return {"type": t, "p": [a, L(), L()]}
    if t == "prism":
        n = rng.choice([3, 4, 5, 6, 6, 8, 12, 7, 16])
        o = rng.choice([0.0, 0.5, 0.25]) if rng.chance(1, 3) else rng.unit() * 0.999
        return {"type": t, "n": n, "p": [L(), L(), o]}
    if t == "ppiped":
        return {"type": t, "p": [L(), L(), L(), rnd_turn(rng, -0.2, 0.2), rnd_turn(rng, 0.0, 0.2),
                                 rnd_turn(rng, 0.0, 0.999)]}
    if t == "wedge":
        return {"type": t, "p": [rnd_turn(rng, 0.0, 0.999), rnd_turn(rng, 0.0, 0.5, open_lo=True)
                                 if rng.chance(4, 5) else 0.5]}
    if t == "genprism":
        return gen_genprism(rng, thin)
    raise ValueError(t)


def gen_genprism(rng, thin=True):
    """GenPrism / GenTrap: trd, skewed trap, twisted n-gon, pyramid (degenerate face); both
    vertex orders"""
    hz = rnd_len(rng, thin)
    k = rng.below(7)
    if k == 6:
        k = 5
    if k == 0:      # trd: two centred rectangles
        a, b, c, d = (rnd_len(rng, False) for _ in range(4))
        lo = [[a, -b], [a, b], [-a, b], [-a, -b]]
        hi = [[c, -d], [c, d], [-c, d], [-c, -d]]
    elif k == 1:    # trap: sheared faces with an offset between them
        def face(hxl, hxh, hy, sh, ox, oy):
            return [[ox - sh + hxl, oy - hy], [ox + sh + hxh, oy + hy], [ox + sh - hxh, oy + hy],
                    [ox - sh - hxl, oy - hy]]
        s = rnd_len(rng, False)
        ox, oy = (rng.unit() - 0.5) * s, (rng.unit() - 0.5) * s
        lo = face(s * (0.5 + rng.unit()), s * (0.5 + rng.unit()), s * (0.5 + rng.unit()),
                  s * (rng.unit() - 0.5) * 0.6, -ox, -oy)
        hi = face(s * (0.5 + rng.unit()), s * (0.5 + rng.unit()), s * (0.5 + rng.unit()),
                  s * (rng.unit() - 0.5) * 0.6, ox, oy)
    else:           # (twisted) regular n-gons
        n = rng.choice([3, 4, 4, 5, 6])
        r1, r2 = rnd_len(rng, False), rnd_len(rng, False)
        if k == 2:
            r2 = r1
        ph = rng.unit() * 2 * math.pi
        tw = 0.0 if k in (2, 3) else (rng.unit() - 0.5) * 1.2
        lo = [[r1 * math.cos(ph + 2 * math.pi * i / n), r1 * math.sin(ph + 2 * math.pi * i / n)]
              for i in range(n)]
        hi = [[r2 * math.cos(ph + tw + 2 * math.pi * i / n), r2 * math.sin(ph + tw + 2 * math.pi * i / n)]
              for i in range(n)]
        if k == 5:   # pyramid: one face collapses to a point
            apex = [(rng.unit() - 0.5) * r1, (rng.unit() - 0.5) * r1]
            if rng.chance(1, 2):
                hi = [list(apex) for _ in range(n)]
            else:
                lo = [list(apex) for _ in range(n)]
    if rng.chance(1, 3):
        lo, hi = lo[::-1], hi[::-1]
    return {"type": "genprism", "n": len(lo), "p": [hz] + [v for q in lo for v in q] + [v for q in hi for v in q]}


def genprism_polys(reg):
    """(hz, lo, hi) with counter-clockwise vertex order (as the constructor normalises)"""
    n, q = reg["n"], reg["p"]
    hz = q[0]
    lo = [q[1 + 2 * i:3 + 2 * i] for i in range(n)]
    hi = [q[1 + 2 * n + 2 * i:3 + 2 * n + 2 * i] for i in range(n)]

    def orient(c):
        v = (c[1][0] - c[0][0]) * (c[2][1] - c[1][1]) - (c[1][1] - c[0][1]) * (c[2][0] - c[1][0])
        return -1 if v < 0 else 1 if v > 0 else 0
    if orient(lo) == -1 or orient(hi) == -1:
        lo, hi = lo[::-1], hi[::-1]
    return hz, lo, hi


def genprism_twisted_faces(reg):
    """number of side faces whose lower and upper edges are not parallel (angle > 1e-3 rad) and
    not degenerate: these are ruled surfaces, not planes"""
    hz, lo, hi = genprism_polys(reg)
    n, cnt = len(lo), 0
    for i in range(n):
        j = (i + 1) % n
        a = [lo[j][0] - lo[i][0], lo[j][1] - lo[i][1]]
        b = [hi[j][0] - hi[i][0], hi[j][1] - hi[i][1]]
        na, nb = math.hypot(*a), math.hypot(*b)
        if na == 0 or nb == 0:
            continue
        if abs(a[0] * b[1] - a[1] * b[0]) / (na * nb) > 1e-3:
            cnt += 1
    return cnt


def genprism_mem(reg, p):
    hz, lo, hi = genprism_polys(reg)
    x, y, z = p
    if abs(z) > hz:
        return False
    s = (z + hz) / (2 * hz)
    n = len(lo)
    v = [[lo[i][0] + (hi[i][0] - lo[i][0]) * s, lo[i][1] + (hi[i][1] - lo[i][1]) * s] for i in range(n)]
    for i in range(n):
        a, b = v[i], v[(i + 1) % n]
        if (b[0] - a[0]) * (y - a[1]) - (b[1] - a[1]) * (x - a[0]) < 0:
            return False
    return True


def region_turns(reg):
    """the Turn values whose sincos the build needs (oracle inputs)"""
    if reg["type"] == "ppiped":
        return list(reg["p"][3:6])
    if reg["type"] == "wedge":
        return [reg["p"][0], reg["p"][0] + reg["p"][1]]
    return []


class SinCos:
    """sincos(Turn) values obtained from the real code (harness op `sincos`)"""

    def __init__(self, exe):
        self.exe, self.tab = exe, {}

    def need(self, turns):
        todo = sorted({hx(t) for t in turns} - set(self.tab))
        import time
        for _attempt in range(5):
            if not todo:
                break
            if _attempt:
                time.sleep(2.0 * _attempt)      # the harness binary may be being relinked by a parallel check
            _, out = vlib.run_lines([self.exe], ["sincos " + t for t in todo])
            for t, o in zip(todo, out):
                w = o.split()
                if len(w) == 2 and is_hex16(w[0]) and is_hex16(w[1]):
                    self.tab[t] = (w[0], w[1])
            todo = [t for t in todo if t not in self.tab]
        if todo:
            raise RuntimeError("harness did not answer sincos for " + " ".join(todo))

    def get(self, t):
        s, c = self.tab[hx(t)]
        return s, c


def region_words(reg, sc):
    t, p = reg["type"], reg["p"]
    if t == "prism":
        return "prism %d %s" % (reg["n"], " ".join(hx(v) for v in p))
    if t == "genprism":
        return "genprism %s %d %s" % (hx(p[0]), reg["n"], " ".join(hx(v) for v in p[1:]))
    w = t + " " + " ".join(hx(v) for v in p)
    for a in region_turns(reg):
        s, c = sc.get(a)
        w += " " + s + " " + c
    return w


def head_words(tol, tra):
    if tra is None:
        return hx(tol) + " n"
    if isinstance(tra, dict):
        return hx(tol) + " x " + " ".join(hx(v) for v in tra["R"] + tra["t"])
    return hx(tol) + " t " + " ".join(hx(v) for v in tra)


# --------------------------------------------------------------------------- analytic oracle
def sincos_turn(t):
    return math.sin(2 * math.pi * t), math.cos(2 * math.pi * t)


def region_mem(reg, p):
    """analytic membership (closed solid) — python floats, same definitions as the Lean SPEC"""
    t, q = reg["type"], reg["p"]
    x, y, z = p
    if t == "box":
        return abs(x) <= q[0] and abs(y) <= q[1] and abs(z) <= q[2]
    if t == "sphere":
        return x * x + y * y + z * z <= q[0] * q[0]
    if t == "cyl":
        return abs(z) <= q[1] and x * x + y * y <= q[0] * q[0]
    if t == "cone":
        lo, hi, hh = q
        if abs(z) > hh:
            return False
        r = lo + (hi - lo) * (z + hh) / (2 * hh)
        return x * x + y * y <= r * r
    if t == "ellipsoid":
        return (x / q[0]) ** 2 + (y / q[1]) ** 2 + (z / q[2]) ** 2 <= 1.0
    if t == "prism":
        n = reg["n"]
        a, hh, o = q
        if abs(z) > hh:
            return False
        for k in range(n):
            th = 2 * math.pi / n * (k + (3 * n + 4 * o) / 4.0)
            if x * math.cos(th) + y * math.sin(th) > a:
                return False
        return True
    if t == "ppiped":
        return ppiped_mem(q, p, documented=True)
    if t == "genprism":
        return genprism_mem(reg, p)
    if t == "wedge":
        ss, cs = sincos_turn(q[0])
        se, ce = sincos_turn(q[0] + q[1])
        return cs * y - ss * x >= 0 and se * x - ce * y >= 0
    raise ValueError(t)


def ppiped_mem(q, p, documented):
    """documented (= G4Para) reading: h are half-lengths of the edge PROJECTIONS on x, y, z;
    `documented=False`: the solid the code actually builds (y faces through hy(sin a, cos a, 0))"""
    x, y, z = p
    hx_, hy, hz, al, th, ph = q
    sa, ca = sincos_turn(al)
    st, ct = sincos_turn(th)
    sp, cp = sincos_turn(ph)
    a = (hx_, 0.0, 0.0)
    b = (hy * sa / ca, hy, 0.0) if documented else (hy * sa, hy * ca, 0.0)
    c = (hz * st / ct * cp, hz * st / ct * sp, hz)
    w = z / c[2]
    v = (y - w * c[1]) / b[1]
    u = (x - v * b[0] - w * c[0]) / a[0]
    return abs(u) <= 1 and abs(v) <= 1 and abs(w) <= 1


def region_extent(reg):
    q = reg["p"]
    t = reg["type"]
    if t == "wedge":
        return 3.0
    if t == "prism":
        return max(q[0] * 1.5, q[1])
    if t == "ppiped":
        return q[0] + (q[1] + q[2]) * 1.6
    if t == "genprism":
        return max(abs(v) for v in q)
    return max(q)


def surf_parse(words):
    return words[0], [fl(w) for w in words[1:]]


def surf_dist(tag, d, p):
    """first-order distance estimate from p to the surface"""
    x, y, z = p
    if tag in ("px", "py", "pz"):
        return abs(p[AXES.index(tag[1])] - d[0])
    if tag == "p":
        return abs(d[0] * x + d[1] * y + d[2] * z - d[3])
    if tag in ("cxc", "cyc", "czc", "cx", "cy", "cz"):
        t = AXES.index(tag[1])
        u, v = [i for i in range(3) if i != t]
        if len(tag) == 3:
            return abs(math.hypot(p[u], p[v]) - math.sqrt(d[0]))
        return abs(math.hypot(p[u] - d[0], p[v] - d[1]) - math.sqrt(d[2]))
    if tag == "sc":
        return abs(math.sqrt(x * x + y * y + z * z) - math.sqrt(d[0]))
    if tag == "s":
        return abs(math.sqrt((x - d[0]) ** 2 + (y - d[1]) ** 2 + (z - d[2]) ** 2) - math.sqrt(d[3]))
    if tag in ("kx", "ky", "kz"):
        t = AXES.index(tag[1])
        q = [p[i] - d[i] for i in range(3)]
        rho = math.sqrt(sum(q[i] ** 2 for i in range(3) if i != t))
        tan = math.sqrt(d[3])
        return abs(rho - tan * abs(q[t])) / math.sqrt(1 + d[3])
    if tag == "sq":
        a, b, c, dd, e, f, g = d
        qv = a * x * x + b * y * y + c * z * z + dd * x + e * y + f * z + g
        gr = math.sqrt((2 * a * x + dd) ** 2 + (2 * b * y + e) ** 2 + (2 * c * z + f) ** 2)
        return abs(qv) / gr if gr > 0 else INF
    if tag == "gq":
        a, b, c, dd, e, f, g, h, i, j = d
        qv = (a * x * x + b * y * y + c * z * z + dd * x * y + e * y * z + f * z * x + g * x + h * y
              + i * z + j)
        gr = math.sqrt((2 * a * x + dd * y + f * z + g) ** 2 + (2 * b * y + dd * x + e * z + h) ** 2
                       + (2 * c * z + e * y + f * x + i) ** 2)
        return abs(qv) / gr if gr > 0 else INF
    return 0.0


def parse_build(out):
    """'ok nodes k ; s id surf.. | surfs n ; .. | L .. G .. M ..' -> dict or None"""
    if not out.startswith("ok nodes"):
        return None
    parts = out.split(" | ")
    nodes = []
    for item in parts[0].split(" ; ")[1:]:
        w = item.split()
        nodes.append((w[0], int(w[1]), w[2], [fl(v) for v in w[3:]]))
    z = parts[2].split()
    vals = [float("nan") if v == "nan" else fl(v) for v in z if is_hex16(v) or v == "nan"]
    boxes = [(vals[i:i + 3], vals[i + 3:i + 6]) for i in range(0, 36, 6)]
    return {"nodes": nodes, "Lint": boxes[0], "Lext": boxes[1], "Gint": boxes[2], "Gext": boxes[3],
            "Mint": boxes[4], "Mext": boxes[5]}


def in_bbox(b, p):
    return all(b[0][i] <= p[i] <= b[1][i] for i in range(3))


def bbox_nonnull(b):
    return all(b[0][i] <= b[1][i] for i in range(3))


def bbox_has_nan(b):
    return any(v != v for v in b[0] + b[1])


def probes_for(rng, reg, tra, n):
    """probe points in the local frame of the region: grid + near-surface + far"""
    e = region_extent(reg)
    pts = []
    for _ in range(n):
        k = rng.below(4)
        s = e * (1.3 if k < 2 else 0.3 if k == 2 else 4.0)
        pts.append([(rng.unit() * 2 - 1) * s for _ in range(3)])
    g = [-1.2, -0.6, 0.0, 0.5, 1.1]
    for _ in range(max(2, n // 4)):
        pts.append([e * rng.choice(g), e * rng.choice(g), e * rng.choice(g)])
    pts = [xf_up(tra, p) for p in pts]
    return pts


def local_point(p, tra):
    return xf_down(tra, p)


# --------------------------------------------------------------------------- objects (e2e)
def gen_object(rng, depth=0):
    """object tree for the end-to-end oracle"""
    if depth < 2 and rng.chance(1, 6):
        j = rng.below(4)
        if j == 0:
            return {"k": "trd", "hz": rnd_len(rng, False), "lo": [rnd_len(rng, False), rnd_len(rng, False)],
                    "hi": [rnd_len(rng, False), rnd_len(rng, False)]}
        if j == 1:
            s_ = rnd_len(rng, False)
            faces = [(s_ * (0.5 + rng.unit()), s_ * (0.5 + rng.unit()), s_ * (0.5 + rng.unit()),
                      (rng.unit() - 0.5) * 0.3) for _ in range(2)]
            return {"k": "trap", "hz": rnd_len(rng, False), "th": rng.unit() * 0.15, "ph": rng.unit() * 0.999,
                    "faces": faces}
        return gen_poly(rng, prism=(j == 3))
    k = rng.below(10) if depth < 2 else rng.below(5)
    # the parallelepiped has its own (known) findings: only as a top-level shape
    kinds = ["box", "sphere", "cyl", "cone", "ellipsoid", "prism", "genprism"] + (
        ["ppiped"] if depth == 0 else [])
    if k < 4:
        return {"k": "shape", "r": gen_region(rng, kinds, thin=False)}
    if k == 4:
        # hollow / sliced solid
        t = rng.choice(["sphere", "cyl", "cone", "prism"])
        r = gen_region(rng, [t], thin=False)
        excl = None
        if rng.chance(2, 3):
            f = 0.2 + 0.7 * rng.unit()
            if t == "sphere":
                excl = {"type": t, "p": [r["p"][0] * f]}
            elif t == "cyl":
                excl = {"type": t, "p": [r["p"][0] * f, r["p"][1] * (f if rng.chance(1, 2) else 1.0)]}
            elif t == "cone":
                excl = {"type": t, "p": [r["p"][0] * f, r["p"][1] * f, r["p"][2]]}
            else:
                excl = {"type": t, "n": r["n"], "p": [r["p"][0] * f, r["p"][1], r["p"][2]]}
        angle = None
        if excl is None or rng.chance(1, 2):
            angle = [rng.unit() * 0.999, rng.choice([0.25, 0.5, 0.75, 0.1 + 0.85 * rng.unit()])]
        return {"k": "solid", "r": r, "excl": excl, "angle": angle}
    if k == 5:
        if rng.chance(1, 2):
            return {"k": "xf", "x": {"R": rnd_matrix(rng), "t": [(rng.unit() * 2 - 1) * 2 for _ in range(3)]},
                    "o": gen_object(rng, depth + 1)}
        return {"k": "tr", "t": [(rng.unit() * 2 - 1) * 2 for _ in range(3)], "o": gen_object(rng, depth + 1)}
    if k == 6:
        return {"k": "neg", "o": gen_object(rng, depth + 1)}
    if k == 7:
        return {"k": "all", "os": [gen_object(rng, depth + 1) for _ in range(rng.range(2, 3))]}
    if k == 8:
        return {"k": "any", "os": [gen_object(rng, depth + 1) for _ in range(rng.range(2, 3))]}
    return {"k": "sub", "a": gen_object(rng, depth + 1), "b": gen_object(rng, depth + 1)}


def trd_region(hz, lo, hi):
    """GenPrism::from_trd vertices"""
    l = [[lo[0], -lo[1]], [lo[0], lo[1]], [-lo[0], lo[1]], [-lo[0], -lo[1]]]
    h = [[hi[0], -hi[1]], [hi[0], hi[1]], [-hi[0], hi[1]], [-hi[0], -hi[1]]]
    return {"type": "genprism", "n": 4, "p": [hz] + [v for q in l for v in q] + [v for q in h for v in q]}


def trap_region(hz, th, ph, faces):
    """GenPrism::from_trap vertices; faces = [(hy, hx_lo, hx_hi, alpha)] * 2"""
    tt = math.tan(2 * math.pi * th)
    dx, dy = hz * tt * math.cos(2 * math.pi * ph), hz * tt * math.sin(2 * math.pi * ph)
    polys = []
    for i, (hy, hxl, hxh, al) in enumerate(faces):
        xo, yo = (-dx, -dy) if i == 0 else (dx, dy)
        sh = math.tan(2 * math.pi * al) * hy
        polys.append([[xo - sh + hxl, yo - hy], [xo + sh + hxh, yo + hy], [xo + sh - hxh, yo + hy],
                      [xo - sh - hxl, yo - hy]])
    return {"type": "genprism", "n": 4,
            "p": [hz] + [v for q in polys[0] for v in q] + [v for q in polys[1] for v in q]}


def gen_poly(rng, prism):
    """polycone / polyprism through the or_solid factories: single and multi segment, with or
    without inner radii and enclosed angle, zlo + zhi of both signs"""
    nseg = rng.choice([1, 1, 2, 3])
    z0 = (rng.unit() * 2 - 1) * 3.0
    if rng.chance(1, 5):
        z0 = 0.0
    if prism:
        z, outer = [], []
        zz = z0
        for _ in range(nseg):
            r = 0.3 + 2.0 * rng.unit()
            h = 0.2 + 1.5 * rng.unit()
            z += [zz, zz + h]
            outer += [r, r]
            zz += h
        inner = [v * (0.3 + 0.5 * rng.unit()) for v in outer] if rng.chance(1, 2) else None
        if inner:      # constant per segment
            inner = [inner[2 * (i // 2)] for i in range(len(inner))]
        if nseg == 1 and rng.chance(1, 3) and not inner:
            pass
    else:
        z = [z0]
        for _ in range(nseg):
            z.append(z[-1] + 0.2 + 1.5 * rng.unit())
        outer = [0.3 + 2.0 * rng.unit() for _ in z]
        if rng.chance(1, 4):
            outer[rng.below(len(outer))] = 0.0 if rng.chance(1, 2) else outer[0]
        if all(v == 0.0 for v in outer[:2]):
            outer[0] = 0.5
        inner = None
        if rng.chance(1, 2) and all(v > 0.05 for v in outer):
            inner = [v * (0.3 + 0.5 * rng.unit()) for v in outer]
    if nseg == 1 and rng.chance(1, 3):      # symmetric about z = 0: no translation branch
        h = (z[-1] - z[0]) / 2
        z = [-h, h]
    angle = None
    if rng.chance(1, 3):
        angle = [rng.unit() * 0.999, rng.choice([0.25, 0.5, 0.75, 0.1 + 0.85 * rng.unit()])]
    o = {"k": "pprism" if prism else "pcone", "z": z, "outer": outer, "inner": inner, "angle": angle}
    if prism:
        o["n"] = rng.choice([3, 4, 6, 8])
        o["orient"] = rng.choice([0.0, 0.5, rng.unit() * 0.999])
    return o


def poly_segments(o):
    """(region, inner region or None, z centre) per non-degenerate segment"""
    out = []
    z, outer, inner = o["z"], o["outer"], o["inner"]
    for i in range(len(z) - 1):
        zlo, zhi = z[i], z[i + 1]
        if abs(zhi - zlo) < 1e-5 * max(abs(zlo), abs(zhi), 0.01):
            continue
        hz = (zhi - zlo) / 2
        if o["k"] == "pcone":
            reg = {"type": "cone", "p": [outer[i], outer[i + 1], hz]}
            ireg = {"type": "cone", "p": [inner[i], inner[i + 1], hz]} if inner else None
        else:
            reg = {"type": "prism", "n": o["n"], "p": [outer[i], hz, o["orient"]]}
            ireg = {"type": "prism", "n": o["n"], "p": [inner[i], hz, o["orient"]]} if inner else None
        out.append((reg, ireg, zlo + hz))
    return out


def gen_pair_object(rng, tol):
    """union / difference / intersection of two near-duplicate placements in one unit, with probe
    points inside each placement (the symmetric difference is where a wrong merge shows)"""
    ra, xa, rb, xb, kind = gen_pair(rng, tol)

    def place(r, x):
        o = {"k": "shape", "r": r}
        if x is None:
            return o
        if isinstance(x, dict):
            return {"k": "xf", "x": x, "o": o}
        return {"k": "tr", "t": x, "o": o}
    a, b = place(ra, xa), place(rb, xb)
    k = rng.below(4)
    obj = {"k": "any", "os": [a, b]} if k < 2 else {"k": "sub", "a": a, "b": b} if k == 2 else \
        {"k": "all", "os": [a, b]}
    probes = []
    for r, x in ((ra, xa), (rb, xb)):
        e = region_extent(r)
        got = 0
        for _ in range(300):
            q = [(rng.unit() * 2 - 1) * e * 1.1 for _ in range(3)]
            if region_mem(r, q):
                probes.append(xf_up(x, q))
                got += 1
                if got >= 14:
                    break
    obj["_probes"] = probes
    obj["_pair"] = kind
    return obj


def region_plain_words(reg):
    if reg["type"] == "genprism":
        return "genprism %s %d %s" % (hx(reg["p"][0]), reg["n"], " ".join(hx(v) for v in reg["p"][1:]))
    if reg["type"] == "prism":
        return "prism %d %s" % (reg["n"], " ".join(hx(v) for v in reg["p"]))
    return reg["type"] + " " + " ".join(hx(v) for v in reg["p"])


def region_params_words(reg):
    if reg["type"] == "prism":
        return "%d %s" % (reg["n"], " ".join(hx(v) for v in reg["p"]))
    return " ".join(hx(v) for v in reg["p"])


def object_words(o):
    k = o["k"]
    if k == "trd":
        return "trd %s" % " ".join(hx(v) for v in [o["hz"]] + o["lo"] + o["hi"])
    if k == "trap":
        return "trap %s %s" % (" ".join(hx(v) for v in (o["hz"], o["th"], o["ph"])),
                               " ".join(hx(v) for f in o["faces"] for v in f))
    if k in ("pcone", "pprism"):
        w = "%s %d %s %s" % ("polycone" if k == "pcone" else "polyprism", len(o["z"]),
                             " ".join(hx(v) for v in o["z"]), " ".join(hx(v) for v in o["outer"]))
        w += " inner " + " ".join(hx(v) for v in o["inner"]) if o["inner"] else " noinner"
        w += " angle %s %s" % (hx(o["angle"][0]), hx(o["angle"][1])) if o["angle"] else " noangle"
        if k == "pprism":
            w += " %d %s" % (o["n"], hx(o["orient"]))
        return w
    if k == "shape":
        return "shape " + region_plain_words(o["r"])
    if k == "solid":
        w = "solid " + region_plain_words(o["r"])
        w += " excl " + region_params_words(o["excl"]) if o["excl"] else " noexcl"
        w += " angle %s %s" % (hx(o["angle"][0]), hx(o["angle"][1])) if o["angle"] else " noangle"
        return w
    if k == "tr":
        return "tr %s %s" % (" ".join(hx(v) for v in o["t"]), object_words(o["o"]))
    if k == "xf":
        return "xf %s %s" % (" ".join(hx(v) for v in o["x"]["R"] + o["x"]["t"]), object_words(o["o"]))
    if k == "neg":
        return "neg " + object_words(o["o"])
    if k in ("all", "any"):
        return "%s %d %s" % (k, len(o["os"]), " ".join(object_words(c) for c in o["os"]))
    return "sub %s %s" % (object_words(o["a"]), object_words(o["b"]))


def wedge_of_angle(angle):
    """SolidEnclosedAngle::make_wedge -> (sense inside?, wedge region)"""
    start, interior = math.fmod(angle[0], 1.0), angle[1]
    inside = True
    if interior > 0.5:
        inside = False
        start = math.fmod(start + interior, 1.0)
        interior = 1 - interior
    return inside, {"type": "wedge", "p": [start, interior]}


def object_mem(o, p):
    k = o["k"]
    if k == "trd":
        return region_mem(trd_region(o["hz"], o["lo"], o["hi"]), p)
    if k == "trap":
        return region_mem(trap_region(o["hz"], o["th"], o["ph"], o["faces"]), p)
    if k in ("pcone", "pprism"):
        r = False
        for reg, ireg, zc in poly_segments(o):
            q = [p[0], p[1], p[2] - zc]
            if region_mem(reg, q) and not (ireg is not None and region_mem(ireg, q)):
                r = True
        if o["angle"]:
            inside, w = wedge_of_angle(o["angle"])
            m = region_mem(w, p)
            r = r and (m if inside else not m)
        return r
    if k == "shape":
        return region_mem(o["r"], p)
    if k == "solid":
        r = region_mem(o["r"], p)
        if o["excl"]:
            r = r and not region_mem(o["excl"], p)
        if o["angle"]:
            inside, w = wedge_of_angle(o["angle"])
            m = region_mem(w, p)
            r = r and (m if inside else not m)
        return r
    if k == "tr":
        return object_mem(o["o"], [p[i] - o["t"][i] for i in range(3)])
    if k == "xf":
        return object_mem(o["o"], xf_down(o["x"], p))
    if k == "neg":
        return not object_mem(o["o"], p)
    if k == "all":
        return all(object_mem(c, p) for c in o["os"])
    if k == "any":
        return any(object_mem(c, p) for c in o["os"])
    return object_mem(o["a"], p) and not object_mem(o["b"], p)


def object_leaves(o, tra=None, out=None):
    """(region, accumulated translation) of every leaf region"""
    out = [] if out is None else out
    k = o["k"]
    if k == "trd":
        out.append((trd_region(o["hz"], o["lo"], o["hi"]), tra))
    elif k == "trap":
        out.append((trap_region(o["hz"], o["th"], o["ph"], o["faces"]), tra))
    elif k in ("pcone", "pprism"):
        for reg, ireg, zc in poly_segments(o):
            t = xf_compose(tra, [0.0, 0.0, zc])
            out.append((reg, t))
            if ireg is not None:
                out.append((ireg, t))
        if o["angle"]:
            out.append((wedge_of_angle(o["angle"])[1], tra))
    elif k == "shape":
        out.append((o["r"], tra))
    elif k == "solid":
        out.append((o["r"], tra))
        if o["excl"]:
            out.append((o["excl"], tra))
        if o["angle"]:
            out.append((wedge_of_angle(o["angle"])[1], tra))
    elif k == "tr":
        object_leaves(o["o"], xf_compose(tra, o["t"]), out)
    elif k == "xf":
        object_leaves(o["o"], xf_compose(tra, o["x"]), out)
    elif k == "neg":
        object_leaves(o["o"], tra, out)
    elif k in ("all", "any"):
        for c in o["os"]:
            object_leaves(c, tra, out)
    else:
        object_leaves(o["a"], tra, out)
        object_leaves(o["b"], tra, out)
    return out


def object_extent(o):
    ext = 0.0
    for reg, tra in object_leaves(o):
        e = region_extent(reg) + xf_size(tra)
        ext = max(ext, e)
    return ext



# --------------------------------------------------------------------------- near-duplicate pairs
def axis_rotation(k, th):
    c, sn = math.cos(th), math.sin(th)
    if k == 0:
        return [1.0, 0.0, 0.0, 0.0, c, -sn, 0.0, sn, c]
    if k == 1:
        return [c, 0.0, sn, 0.0, 1.0, 0.0, -sn, 0.0, c]
    return [c, -sn, 0.0, sn, c, 0.0, 0.0, 0.0, 1.0]


def gen_pair(rng, tol):
    """two placements (region, transform) of same-size solids in ONE unit whose emitted surfaces
    agree in all coefficient groups except one: mirror rotations ±θ about a coordinate axis with a
    common centre on it, swapped axes, shifted origin (within / outside tolerance), scaled size,
    exact duplicates.  Returns (regA, xfA, regB, xfB, kind)."""
    reg = gen_region(rng, ["cyl", "cone", "ellipsoid", "sphere", "box", "prism", "cyl", "cone", "ellipsoid"],
                     thin=False)
    kind = rng.choice(["mirror", "mirror", "mirror", "swap", "shift", "shift", "scale", "same"])
    regB = {k: (list(v) if isinstance(v, list) else v) for k, v in reg.items()}
    k = rng.below(3)
    c = [0.0, 0.0, 0.0]
    if rng.chance(2, 3):
        c[k] = (rng.unit() * 2 - 1) * 3.0
    if kind == "mirror":
        th = rng.choice([0.05, 0.2, 0.5, math.pi / 4, 1.0]) if rng.chance(1, 2) else 0.02 + 1.2 * rng.unit()
        k = rng.choice([0, 1]) if reg["type"] in ("cyl", "cone", "prism") else k   # tilt the z axis
        c = [0.0, 0.0, 0.0]
        if rng.chance(2, 3):
            c[k] = (rng.unit() * 2 - 1) * 3.0
        return reg, {"R": axis_rotation(k, th), "t": list(c)}, regB, {"R": axis_rotation(k, -th), "t": list(c)}, kind
    if kind == "swap":
        perm = rng.choice([[0, 0, 1, 1, 0, 0, 0, 1, 0], [0, 1, 0, 0, 0, 1, 1, 0, 0], [1, 0, 0, 0, 0, -1, 0, 1, 0],
                           [0, -1, 0, 1, 0, 0, 0, 0, 1]])
        return reg, list(c) if any(c) else None, regB, {"R": [float(v) for v in perm], "t": list(c)}, kind
    R = rnd_matrix(rng, tol) if rng.chance(1, 2) else None
    t = [(rng.unit() * 2 - 1) * 2.0 for _ in range(3)]
    xa = {"R": R, "t": t} if R else t
    if kind == "shift":
        m = math.exp(math.log(0.01 * tol) + (math.log(1000 * tol) - math.log(0.01 * tol)) * rng.unit())
        if rng.chance(1, 4):
            m = 0.05 + rng.unit()
        v = [rng.unit() * 2 - 1 for _ in range(3)]
        if rng.chance(1, 2):
            v = [0.0, 0.0, 0.0]
            v[rng.below(3)] = 1.0
        n = math.sqrt(sum(q * q for q in v)) or 1.0
        t2 = [t[i] + m * v[i] / n for i in range(3)]
        xb = {"R": R, "t": t2} if R else t2
        return reg, xa, regB, xb, kind
    if kind == "scale":
        eps = math.exp(math.log(0.01 * tol) + (math.log(100 * tol) - math.log(0.01 * tol)) * rng.unit())
        j = rng.below(len(regB["p"]) if reg["type"] != "prism" else 2)
        regB["p"][j] = regB["p"][j] * (1 + eps)
        return reg, xa, regB, xa, kind
    return reg, xa, regB, xa, kind


def groups_of(tag, d):
    """coefficient groups of a surface (name -> vector) used by the independent closeness test"""
    if tag in ("px", "py", "pz"):
        return {"position": [d[0]]}
    if tag == "p":
        return {"normal": d[:3], "displacement": [d[3]]}
    if tag in ("cxc", "cyc", "czc", "sc"):
        return {"radius": [math.sqrt(abs(d[0]))]}
    if tag in ("cx", "cy", "cz"):
        return {"origin": d[:2], "radius": [math.sqrt(abs(d[2]))]}
    if tag == "s":
        return {"origin": d[:3], "radius": [math.sqrt(abs(d[3]))]}
    if tag in ("kx", "ky", "kz"):
        return {"origin": d[:3], "tangent": [math.sqrt(abs(d[3]))]}
    if tag == "sq":
        return {"second": d[:3], "first": d[3:6], "zeroth": [d[6]]}
    if tag == "gq":
        return {"second": d[:3], "cross": d[3:6], "first": d[6:9], "zeroth": [d[9]]}
    return {}


def surf_far(tag_a, da, tag_b, db, rel, abs_=None, slack=4.0, written=False):
    """independent closeness predicate with the DOCUMENTED SoftEqual semantics
    |a − b| < max(abs, rel·max(‖a‖, ‖b‖)) per coefficient group (`written=True`: the relative term
    of vector groups uses abs, as SoftSurfaceEqual::soft_eq_distance did before fix 1450523 — used to
    recognise that regression): name of the first
    group that differs by more than slack × that, or None when all groups are close"""
    abs_ = rel if abs_ is None else abs_
    if tag_a != tag_b:
        return "class"
    ga, gb = groups_of(tag_a, da), groups_of(tag_b, db)
    for name in ga:
        a, b = ga[name], gb[name]
        na = math.sqrt(sum(v * v for v in a))
        nb = math.sqrt(sum(v * v for v in b))
        diff = math.sqrt(sum((a[i] - b[i]) ** 2 for i in range(len(a))))
        r = abs_ if (written and len(a) > 1) else rel
        if not diff <= slack * max(abs_, r * max(na, nb)):
            return name
    if tag_a in ("sq", "gq"):
        # geometric reading: the same comparison on the quadrics normalised to unit largest
        # second-order (else first-order) coefficient — a quadric is defined up to a factor
        def norm_q(d):
            k = 6 if tag_a == "gq" else 3
            sc = max(abs(v) for v in d[:k]) or max(abs(v) for v in d[k:k + 3]) or 1.0
            return [v / sc for v in d]
        ga, gb = groups_of(tag_a, norm_q(da)), groups_of(tag_b, norm_q(db))
        for name in ga:
            a, b = ga[name], gb[name]
            na = math.sqrt(sum(v * v for v in a))
            nb = math.sqrt(sum(v * v for v in b))
            diff = math.sqrt(sum((a[i] - b[i]) ** 2 for i in range(len(a))))
            if not diff <= 4 * slack * max(abs_, rel * max(na, nb), rel * max(1.0, max(abs(v) for v in a + b))):
                return "normalised:" + name
    return None


def quadrics_merge(surfs, tol):
    """two distinct sq / gq surfaces of an object that SoftSurfaceEqual's raw per-group comparison
    accepts although the normalised quadrics differ (small, un-normalised coefficients)"""
    qs = [(tag, d) for tag, d in surfs if tag in ("sq", "gq")]
    for i in range(len(qs)):
        for j in range(i + 1, len(qs)):
            (ta, da), (tb, db) = qs[i], qs[j]
            if ta != tb or da == db:
                continue
            far = surf_far(ta, da, tb, db, tol)
            if far is not None and far.startswith("normalised"):
                return True
    return False


def run_pairs(ctx, exe, model, sc, n, findings, stats):
    """two objects in ONE unit (shared LocalSurfaceInserter): exact diff of the de-duplicated ids
    against the model, and the dedup oracle on the real code — every source surface must be close,
    group by group, to the local surface it was mapped to"""
    rng = ctx.rng
    pairs = []
    for _ in range(n):
        tol = rng.choice([1e-5, 1e-5, 1e-4, 1e-6])
        pairs.append((tol,) + gen_pair(rng, tol))
    sc.need([t for p in pairs for r in (p[1], p[3]) for t in region_turns(r)])
    lines, solo = [], []
    for tol, ra, xa, rb, xb, kind in pairs:
        ha, hb = head_words(tol, xa).split(" ", 1)[1], head_words(tol, xb).split(" ", 1)[1]
        lines.append("build2 %s %s %s / %s %s" % (hx(tol), ha, region_words(ra, sc), hb, region_words(rb, sc)))
        solo.append("build %s %s" % (head_words(tol, xa), region_words(ra, sc)))
        solo.append("build %s %s" % (head_words(tol, xb), region_words(rb, sc)))
    _, oh = vlib.run_lines([exe], lines)
    _, os_ = vlib.run_lines([exe], solo)
    diverged = []
    if model:
        _, om = vlib.run_lines([model], lines)
        for l, a, b in zip(lines, oh, om):
            if not (a == b or (is_crash(a) and b == "diverged")):
                diverged.append({"op": l, "impl": a[:700], "model": b[:700]})
    n_checked = n_merged = 0
    for idx, ((tol, ra, xa, rb, xb, kind), l, o) in enumerate(zip(pairs, lines, oh)):
        stats["pair_" + kind] = stats.get("pair_" + kind, 0) + 1
        if not o.startswith("ok nodes"):
            continue
        parts = o.split(" | ")
        joint = []
        for part in parts[:2]:
            nodes = []
            for item in part.split(" ; ")[1:]:
                w = item.split()
                nodes.append((w[0], int(w[1]), w[2], [fl(v) for v in w[3:]]))
            joint.append(nodes)
        for which, reg, xf in ((0, ra, xa), (1, rb, xb)):
            sb = parse_build(os_[2 * idx + which])
            if sb is None or len(sb["nodes"]) != len(joint[which]):
                continue
            for (s0, _, tag0, d0), (s1, id1, tag1, d1) in zip(sb["nodes"], joint[which]):
                n_checked += 1
                if tag0 == tag1 and d0 == d1:
                    continue
                n_merged += 1
                scale = max(1.0, region_extent(reg) + xf_size(xf))
                far = surf_far(tag0, d0, tag1, d1, tol * scale)
                if far is not None:
                    findings.append(("dedup", reg, tol, xf, l, {
                        "group": far, "kind": kind, "source_surface": [tag0] + d0,
                        "mapped_to_local_surface": id1, "which_is": [tag1] + d1,
                        "other_placement": xa if which else xb}))
    return len(lines), n_checked, n_merged, diverged


def gen_softeq_pair(rng):
    """(rel, abs, surfA, surfB, what): a surface and a copy with ONE coefficient group perturbed"""
    from checks import c12
    rel = rng.choice([1e-5, 1e-5, 1e-4, 1e-6, 1e-3])
    abs_ = rel if rng.chance(3, 4) else rel * rng.choice([0.01, 100.0])
    tag, d = c12.gen_surface(rng)
    if tag == "p":
        n = math.sqrt(sum(v * v for v in d[:3])) or 1.0
        d = [v / n for v in d[:3]] + [d[3]]
    if tag in ("sq", "gq") and rng.chance(1, 3):
        # small un-normalised coefficients (e.g. ellipsoids with radii << 1) and a relative change
        f = 10.0 ** (-2 - 3 * rng.unit())
        d = [v * f for v in d]
        e = rng.choice([1e-2, 1e-3, 1e-1])
        d2 = [v * (1 + e * (rng.unit() * 2 - 1)) for v in d]
        return rel, abs_, (tag, d), (tag, d2), "scaled"
    k = rng.below(10)
    if k == 0:
        return rel, abs_, (tag, d), (tag, list(d)), "same"
    if k == 1:
        tag2, d2 = c12.gen_surface(rng)
        return rel, abs_, (tag, d), (tag2, d2), "other"
    g = groups_of(tag, d)
    name = rng.choice(sorted(g))
    # positions of the group inside the storage data
    layout = {"px": {"position": [0]}, "p": {"normal": [0, 1, 2], "displacement": [3]},
              "sc": {"radius": [0]}, "s": {"origin": [0, 1, 2], "radius": [3]},
              "sq": {"second": [0, 1, 2], "first": [3, 4, 5], "zeroth": [6]},
              "gq": {"second": [0, 1, 2], "cross": [3, 4, 5], "first": [6, 7, 8], "zeroth": [9]}}
    lay = layout.get(tag)
    if lay is None:
        if tag in ("py", "pz"):
            lay = layout["px"]
        elif tag in ("cxc", "cyc", "czc"):
            lay = {"radius": [0]}
        elif tag in ("cx", "cy", "cz"):
            lay = {"origin": [0, 1], "radius": [2]}
        else:
            lay = {"origin": [0, 1, 2], "tangent": [3]}
    idxs = lay[name]
    scale = max(1.0, math.sqrt(sum(d[i] * d[i] for i in idxs)))
    m = math.exp(math.log(0.01 * rel) + (math.log(1000 * rel) - math.log(0.01 * rel)) * rng.unit()) * scale
    if rng.chance(1, 5):
        m = 0.1 + rng.unit()
    d2 = list(d)
    if tag == "p" and name == "normal":
        # rotate the normal by the angle m about a random perpendicular direction
        ax = [rng.unit() * 2 - 1 for _ in range(3)]
        dot = sum(ax[i] * d[i] for i in range(3))
        ax = [ax[i] - dot * d[i] for i in range(3)]
        na = math.sqrt(sum(v * v for v in ax)) or 1.0
        ax = [v / na for v in ax]
        nn = [math.cos(m) * d[i] + math.sin(m) * ax[i] for i in range(3)]
        d2[:3] = nn
    else:
        v = [rng.unit() * 2 - 1 for _ in idxs]
        nv = math.sqrt(sum(q * q for q in v)) or 1.0
        for j, i in enumerate(idxs):
            d2[i] = d[i] + m * v[j] / nv
        if name in ("radius", "tangent"):
            i = idxs[0]
            r = math.sqrt(abs(d[i])) + m * rng.choice([1.0, -1.0])
            d2[i] = r * r
    return rel, abs_, (tag, d), (tag, d2), name


def run_softeq(ctx, exe, model, n, findings):
    """SoftSurfaceEqual on pairs that differ in one coefficient group: exact diff with the model;
    oracles on the real answers: symmetry, reflexivity, and `soft-equal ⇒ every group close`"""
    rng = ctx.rng
    cases = [gen_softeq_pair(rng) for _ in range(n)]
    # regression (fixed in /repo 1450523): soft_eq_distance used abs for its relative term; with
    # abs = 100 rel these centres compared equal although they are 0.5 resp. 0.062 apart
    cases.append((1e-5, 1e-3, ("s", [1000.0, 0.0, 0.0, 4.0]), ("s", [1000.5, 0.0, 0.0, 4.0]), "origin"))
    cases.append((1e-4, 1e-2, ("s", [-6.50132913777197, -2.913382874459023, 0.7865837107493823, 1.002001e-06]),
                  ("s", [-6.475317917115991, -2.9029228793768915, 0.8419472093920839, 1.002001e-06]), "origin"))

    def line(rel, abs_, a, b):
        return "softeq %s %s %s %s | %s %s" % (hx(rel), hx(abs_), a[0], " ".join(hx(v) for v in a[1]),
                                              b[0], " ".join(hx(v) for v in b[1]))
    lines = []
    for rel, abs_, a, b, what in cases:
        lines += [line(rel, abs_, a, b), line(rel, abs_, b, a), line(rel, abs_, a, a)]
    _, oh = vlib.run_lines([exe], lines)
    diverged = []
    if model:
        _, om = vlib.run_lines([model], lines)
        for l, x, y in zip(lines, oh, om):
            if x != y:
                diverged.append({"op": l, "impl": x, "model": y})
    for i, (rel, abs_, a, b, what) in enumerate(cases):
        ab, ba, aa = oh[3 * i], oh[3 * i + 1], oh[3 * i + 2]
        if ab != ba:
            findings.append(("softeq-asym", {"type": a[0]}, rel, None, lines[3 * i],
                             {"a_b": ab, "b_a": ba, "group": what}))
        if aa.split()[:1] != ["1"] and all(math.isfinite(v) for v in a[1]):
            findings.append(("softeq-irrefl", {"type": a[0]}, rel, None, lines[3 * i + 2], {"a_a": aa}))
        if ab.split()[:1] == ["1"]:
            far = surf_far(a[0], a[1], b[0], b[1], rel, abs_)
            if far is not None:
                slip = abs_ != rel and surf_far(a[0], a[1], b[0], b[1], rel, abs_, written=True) is None
                findings.append(("softeq-far/slip" if slip else "softeq-far", {"type": a[0]}, rel, None,
                                 lines[3 * i], {"group": far, "abs": abs_, "rel": rel,
                                                "a": [a[0]] + a[1], "b": [b[0]] + b[1]}))
    return len(lines), diverged



# --------------------------------------------------------------------------- causal attribution
def to_gq(tag, d):
    """any quadric as general-quadric coefficients [a b c  d e f  g h i  j]
    (a x²+b y²+c z² + d xy + e yz + f zx + g x + h y + i z + j)"""
    if tag in ("px", "py", "pz"):
        g = [0.0] * 10
        g[6 + AXES.index(tag[1])] = 1.0
        g[9] = -d[0]
        return g
    if tag == "p":
        return [0.0] * 6 + list(d[:3]) + [-d[3]]
    if tag in ("cxc", "cyc", "czc", "cx", "cy", "cz"):
        t = AXES.index(tag[1])
        u, v = [i for i in range(3) if i != t]
        ou, ov, r2 = (0.0, 0.0, d[0]) if len(tag) == 3 else d
        g = [0.0] * 10
        g[u] = g[v] = 1.0
        g[6 + u], g[6 + v] = -2 * ou, -2 * ov
        g[9] = ou * ou + ov * ov - r2
        return g
    if tag in ("sc", "s"):
        o, r2 = ([0.0, 0.0, 0.0], d[0]) if tag == "sc" else (d[:3], d[3])
        return [1.0, 1.0, 1.0, 0.0, 0.0, 0.0] + [-2 * v for v in o] + [sum(v * v for v in o) - r2]
    if tag in ("kx", "ky", "kz"):
        t = AXES.index(tag[1])
        o, tsq = d[:3], d[3]
        g = [1.0, 1.0, 1.0] + [0.0] * 7
        g[t] = -tsq
        for i in range(3):
            g[6 + i] = -2 * o[i] * g[i]
        g[9] = sum(g[i] * o[i] * o[i] for i in range(3))
        return g
    if tag == "sq":
        return list(d[:3]) + [0.0, 0.0, 0.0] + list(d[3:6]) + [d[6]]
    if tag == "gq":
        return list(d)
    return None


def quadric_distance(tag_a, da, tag_b, db, size=1.0):
    """scale-free distance between two quadric surfaces: both promoted to general quadrics with
    coordinates measured in units of `size`, normalised to unit largest second/cross (else
    first-order) coefficient, best of the two signs; max coefficient difference"""
    ga, gb = to_gq(tag_a, da), to_gq(tag_b, db)
    if ga is None or gb is None:
        return INF

    def norm(g):
        g = [g[i] * size * size for i in range(6)] + [g[6 + i] * size for i in range(3)] + [g[9]]
        sc = max(abs(v) for v in g[:6]) or max(abs(v) for v in g[6:9]) or 1.0
        return [v / sc for v in g]
    ga, gb = norm(ga), norm(gb)
    return min(max(abs(ga[i] - gb[i]) for i in range(10)), max(abs(ga[i] + gb[i]) for i in range(10)))


def attribute_e2e(exe, model, sc, o, tol):
    """causal attribution of a mislocated point: rebuild every leaf standalone and all leaves in
    ONE unit on the real code; (a) a source surface that the real de-duplication mapped to a local
    surface far from it in the scale-free metric; (b) a surface whose real simplifier output is far
    from the emitted (transformed, unsimplified) surface.  Returns a finding kind or None."""
    leaves = object_leaves(o)
    if not leaves or len(leaves) > 24:
        return None
    for reg, _ in leaves:
        sc.need(region_turns(reg))
    solo_lines = ["build %s %s" % (head_words(tol, x), region_words(r, sc)) for r, x in leaves]
    _, solo = vlib.run_lines([exe], solo_lines)
    solo = [parse_build(x) for x in solo]
    if any(b is None for b in solo):
        return None
    thr = 50.0 * tol
    # (a) de-duplication in the joint unit
    if len(leaves) >= 2:
        joint_line = "build2 %s %s" % (hx(tol), " / ".join(
            "%s %s" % (head_words(tol, x).split(" ", 1)[1], region_words(r, sc)) for r, x in leaves))
        _, jo = vlib.run_lines([exe], [joint_line])
        if jo and jo[0].startswith("ok nodes"):
            parts = jo[0].split(" | ")[:-1]
            for (reg, x), sb, part in zip(leaves, solo, parts):
                items = part.split(" ; ")[1:]
                if len(items) != len(sb["nodes"]):
                    continue
                size = max(region_extent(reg), 1e-12)
                for (s0, _, tag0, d0), item in zip(sb["nodes"], items):
                    w = item.split()
                    tag1, d1 = w[2], [fl(v) for v in w[3:]]
                    if (tag0, d0) == (tag1, d1):
                        continue
                    if tag0 != tag1 or quadric_distance(tag0, d0, tag1, d1, size) > thr:
                        return "e2e/quadric-merge" if tag0 in ("sq", "gq") else "e2e/dedup-far"
    # (b) simplification
    if model:
        emit_lines = ["emit %s %s" % (head_words(tol, x), region_words(r, sc)) for r, x in leaves]
        _, eo = vlib.run_lines([model], emit_lines)
        for (reg, x), sb, e in zip(leaves, solo, eo):
            if not e.startswith("ok "):
                continue
            raw = [it.split() for it in e.split(" ; ")[1:]]
            if len(raw) != len(sb["nodes"]):
                continue
            size = max(region_extent(reg), 1e-12)
            rot = isinstance(x, dict) and not all(v in (0.0, 1.0, -1.0) for v in x["R"])
            for rw, (s1, _, tag1, d1) in zip(raw, sb["nodes"]):
                tag0, d0 = rw[1], [fl(v) for v in rw[2:]]
                if quadric_distance(tag0, d0, tag1, d1, size) > thr:
                    if reg["type"] == "ellipsoid":
                        if tag1 in ("sq", "gq") and rot:
                            return "e2e/ellipsoid-gq-snap"
                        return "e2e/ellipsoid-cyl"
                    if tag0 == "gq" and rot:
                        return "e2e/gq-snap"
                    return "e2e/simplifier:" + reg["type"]
    return None


# --------------------------------------------------------------------------- the check
KNOWN_RECURSION_KEY = "ellipsoid-small-radii-recursion"


def is_crash(o):
    return o.startswith("crash sig")


def run_build_diff(ctx, exe, model, sc, n, stats, findings):
    """exact diff of the emission / simplification / de-duplication / bounding-zone model against
    the real IntersectRegion::build; returns (lines, impl outputs, cases, diverged list)"""
    rng = ctx.rng
    cases = []
    for _ in range(n):
        reg = gen_region(rng)
        tol_ = rnd_tol(rng)
        cases.append((reg, tol_, rnd_xform(rng, 2 * region_extent(reg) + 1, reg, tol_)))
    # deterministic cases: the crash reported by another agent, degenerate / snapping cases
    fixed = [
        ({"type": "ellipsoid", "p": [0.04, 0.04, 0.04]}, 1e-5, None),
        ({"type": "ellipsoid", "p": [0.05, 0.03, 0.02]}, 1e-5, None),
        ({"type": "ellipsoid", "p": [10.0, 0.01, 0.01]}, 1e-5, None),
        ({"type": "ellipsoid", "p": [1.0, 2.0, 3.0]}, 1e-5, [1.0, 0.0, -2.0]),
        ({"type": "ellipsoid", "p": [2.0, 2.0, 2.0]}, 1e-5, [1e-7, 0.0, 0.0]),
        ({"type": "box", "p": [1e-6, 2.0, 3.0]}, 1e-5, None),
        ({"type": "box", "p": [1.0, 2.0, 3.0]}, 1e-5, [1.0, -2.0, 3.0 + 1e-7]),
        ({"type": "sphere", "p": [2.0]}, 1e-5, [1e-6, -1e-6, 0.0]),
        ({"type": "cyl", "p": [2.0, 3.0]}, 1e-5, [1e-6, 1e-6, 5.0]),
        ({"type": "cone", "p": [1.5, 0.0, 0.5]}, 1e-5, [0.0, 1e-7, -0.5]),
        ({"type": "cone", "p": [1.0, 1.0 + 1e-9, 0.5]}, 1e-5, None),
        ({"type": "prism", "n": 4, "p": [1.0, 2.0, 0.0]}, 1e-5, None),
        ({"type": "prism", "n": 6, "p": [1.0, 2.0, 0.5]}, 1e-5, [0.0, -1.0, 0.0]),
        ({"type": "ppiped", "p": [1.0, 2.0, 3.0, 0.0, 0.0, 0.0]}, 1e-5, None),
        ({"type": "ppiped", "p": [1.0, 2.0, 3.0, -0.1, 0.1, 0.6]}, 1e-5, None),
        ({"type": "wedge", "p": [0.0, 0.25]}, 1e-5, None),
        # rotated-quadric-cross-terms-dropped: thin cylinder under a 1.1e-6 rad rotation; the probe is
        # 3.5e-4 outside the cylinder but inside the emitted (cross terms dropped) simple quadric
        ({"type": "cyl", "p": [0.0015219489976428194, 0.19886239644950648],
          "_probes": [[1.2777249992980149, 0.3749634683103739, -0.5636935415348644]]}, 1e-5,
         {"R": [0.9999999999988722, 1.0106907996350052e-06, 1.1108832621087106e-06,
                -1.0106921573169533e-06, 0.9999999999987425, 1.222199438268842e-06,
                -1.1108820268769045e-06, -1.2222005609963628e-06, 0.9999999999986361],
          "t": [1.279588311996585, 0.3748227166659073, -0.5592577497923145]}),
        ({"type": "box", "p": [1.0, 2.0, 3.0]}, 1e-5, {"R": [0.0, -1.0, 0.0, 1.0, 0.0, 0.0, 0.0, 0.0, 1.0],
                                                        "t": [1.0, 0.0, 0.0]}),
        ({"type": "cyl", "p": [1.0, 2.0]}, 1e-5, {"R": [1.0, 0.0, 0.0, 0.0, 0.0, -1.0, 0.0, 1.0, 0.0],
                                                   "t": [0.0, 0.0, 0.0]}),
        ({"type": "cone", "p": [1.0, 0.5, 2.0]}, 1e-5, {"R": [1.0, 0.0, 0.0, 0.0, 1.0, 0.0, 0.0, 0.0, -1.0],
                                                        "t": [0.0, 1.0, 0.0]}),
        ({"type": "prism", "n": 6, "p": [1.0, 2.0, 0.0]}, 1e-5,
         {"R": [0.8, -0.6, 0.0, 0.6, 0.8, 0.0, 0.0, 0.0, 1.0], "t": [0.5, 0.5, 0.5]}),
        ({"type": "ellipsoid", "p": [1.0, 2.0, 3.0]}, 1e-5,
         {"R": [0.36, 0.48, -0.8, -0.8, 0.6, 0.0, 0.48, 0.64, 0.6], "t": [1.0, -1.0, 2.0]}),
        ({"type": "wedge", "p": [0.75, 0.5]}, 1e-5, [1.0, 1.0, 0.0]),
    ]
    cases = fixed + cases
    sc.need([t for reg, _, _ in cases for t in region_turns(reg)])
    lines = ["build %s %s" % (head_words(tol, tra), region_words(reg, sc)) for reg, tol, tra in cases]
    _, oh = vlib.run_lines([exe], lines)
    diverged = []
    om = None
    if model:
        _, om = vlib.run_lines([model], lines)
    for i, ((reg, tol, tra), l) in enumerate(zip(cases, lines)):
        a = oh[i] if i < len(oh) else "<missing>"
        stats[reg["type"]] = stats.get(reg["type"], 0) + 1
        if is_crash(a):
            stats["crash"] = stats.get("crash", 0) + 1
            findings.append(("recursion", reg, tol, tra, l, a))
        elif a.startswith("err"):
            stats["err"] = stats.get("err", 0) + 1
        if om is not None:
            b = om[i] if i < len(om) else "<missing>"
            same = (a == b) or (is_crash(a) and b == "diverged")
            if not same:
                diverged.append({"op": l, "impl": a[:600], "model": b[:600]})
    return lines, oh, cases, diverged


def check_bboxes(ctx, cases, lines, oh, rng, findings):
    """impl-side oracle: reported interior ⊆ solid ⊆ exterior (merged zone), on probe points"""
    n = 0
    for (reg, tol, tra), l, o in zip(cases, lines, oh):
        b = parse_build(o)
        if b is None or reg["type"] == "wedge":
            continue
        e = region_extent(reg)
        margin = 10 * tol * max(1.0, e + xf_size(tra))
        pts = probes_for(rng, reg, tra, 12)
        # corners of the interior box pulled in by the margin are decisive probes
        if bbox_nonnull(b["Mint"]) and all(math.isfinite(v) for v in b["Mint"][0] + b["Mint"][1]):
            lo, hi = b["Mint"]
            for sx in (0, 1):
                for sy in (0, 1):
                    for sz in (0, 1):
                        c = [(hi if s else lo)[i] for i, s in enumerate((sx, sy, sz))]
                        ctr = [(lo[i] + hi[i]) / 2 for i in range(3)]
                        pts.append([c[i] + (ctr[i] - c[i]) * 1e-3 for i in range(3)])
        for p in pts:
            if any(surf_dist(tag, d, p) <= margin for _, _, tag, d in b["nodes"]):
                continue
            n += 1
            mem = region_mem(reg, local_point(p, tra))
            if bbox_nonnull(b["Mint"]) and in_bbox(b["Mint"], p) and not mem:
                sph = any(tag in ("s", "sc") for _, _, tag, _ in b["nodes"])
                ecyl = reg["type"] == "ellipsoid" and any(
                    tag in ("cx", "cy", "cz", "cxc", "cyc", "czc") for _, _, tag, _ in b["nodes"])
                rot = isinstance(tra, dict) and not all(v in (0.0, 1.0, -1.0) for v in tra["R"])
                findings.append(("bbox-interior" + ("/sphere" if sph else "/ellipsoid-cyl" if ecyl
                                                    else "/rotated" if rot else ""),
                                 reg, tol, tra, l,
                                 {"point": p, "interior": b["Mint"]}))
            if mem and not bbox_has_nan(b["Mext"]) and not in_bbox(b["Mext"], p):
                findings.append(("bbox-exterior", reg, tol, tra, l, {"point": p, "exterior": b["Mext"]}))
    return n


def run_member(ctx, exe, model, sc, cases, lines_build, oh_build, rng, findings, npts):
    """real CSG SenseEvaluator of the emitted literals vs (a) the model's, exactly, and (b) the
    analytic membership for points away from every emitted surface"""
    lines, meta = [], []
    for (reg, tol, tra), o in zip(cases, oh_build):
        b = parse_build(o)
        if b is None:
            continue
        pts = probes_for(rng, reg, tra, npts) + [list(q) for q in reg.get("_probes", [])]
        e_ = region_extent(reg)
        margin_ = 10 * tol * max(1.0, e_ + xf_size(tra))
        pts += near_surface_probes(rng, b["nodes"], xf_up(tra, [0.0, 0.0, 0.0]), 1.2 * e_,
                                   1.2 * margin_, max(4.0 * reg.get("_snap", 0.0), 30.0 * margin_))
        lines.append("member %s %s | %s" % (head_words(tol, tra), region_words(reg, sc),
                                            " ".join(hx(v) for p in pts for v in p)))
        meta.append((reg, tol, tra, b, pts))
    _, oh = vlib.run_lines([exe], lines)
    diverged = []
    if model:
        _, om = vlib.run_lines([model], lines)
        for l, a, bb in zip(lines, oh, om):
            if a != bb:
                diverged.append({"op": l[:400], "impl": a, "model": bb})
    # Lean SPEC vs python analytic membership on the same (local) points
    spec_lines = []
    for reg, tol, tra, b, pts in meta:
        spec_lines.append("spec %s | %s" % (region_words(reg, sc), " ".join(
            hx(v) for p in pts for v in local_point(p, tra))))
    spec_out = None
    if model:
        _, spec_out = vlib.run_lines([model], spec_lines)
    n_eval = 0
    for idx, ((reg, tol, tra, b, pts), l, a) in enumerate(zip(meta, lines, oh)):
        if not a.startswith("ok "):
            continue
        chars = a[3:]
        e = region_extent(reg)
        margin = 10 * tol * max(1.0, e + xf_size(tra))
        for j, p in enumerate(pts):
            if j >= len(chars):
                break
            if any(surf_dist(tag, d, p) <= margin for _, _, tag, d in b["nodes"]):
                continue
            lp = local_point(p, tra)
            mem = region_mem(reg, lp)
            n_eval += 1
            got = chars[j]
            if (got == "i") != mem:
                why = ""
                if reg["type"] == "ppiped" and (got == "i") == ppiped_mem(reg["p"], lp, documented=False):
                    why = "ppiped-y"
                elif reg["type"] == "ellipsoid" and any(
                        tag in ("cx", "cy", "cz", "cxc", "cyc", "czc", "p", "px", "py", "pz")
                        for _, _, tag, _ in b["nodes"]):
                    why = "ellipsoid-cyl"      # simplified to a lower class (cylinder or plane)
                elif reg["type"] == "ellipsoid" and isinstance(tra, dict) and any(
                        tag == "sq" for _, _, tag, _ in b["nodes"]) and not all(
                        v in (0.0, 1.0, -1.0) for v in tra["R"]):
                    why = "ellipsoid-gq-snap"
                elif reg["type"] in ("cyl", "cone", "prism", "box", "sphere") and isinstance(tra, dict) and any(
                        tag == "sq" for _, _, tag, _ in b["nodes"]) and not all(
                        v in (0.0, 1.0, -1.0) for v in tra["R"]):
                    why = "gq-snap"
                elif reg["type"] == "genprism" and genprism_twisted_faces(reg) > sum(
                        1 for _, _, tag, _ in b["nodes"] if tag in ("gq", "sq")):
                    why = "genprism-planar"
                findings.append(("emission" + ("/" + why if why else ""), reg, tol, tra, l, {
                    "point": p, "point_local": lp, "analytic_member": mem, "real_csg_sense": got,
                    "emitted": [(sn, tag, d) for sn, _, tag, d in b["nodes"]]}))
            if spec_out is not None and idx < len(spec_out) and spec_out[idx].startswith("ok "):
                sch = spec_out[idx][3:]
                if j < len(sch) and (sch[j] == "1") != mem:
                    findings.append(("spec-vs-python", reg, tol, tra, spec_lines[idx], {
                        "point_local": lp, "python": mem, "lean_spec": sch[j]}))
    return len(lines), n_eval, diverged


def run_simplify_diff(ctx, exe, model, n):
    """RecursiveSimplifier on random surfaces of every class (incl. near-degenerate ones)"""
    from checks import c12
    rng = ctx.rng
    lines = []
    for _ in range(n):
        tag, d = c12.gen_surface(rng)
        k = rng.below(6)
        if k == 0:      # make some coefficients tiny
            d = [v * 1e-6 if rng.chance(1, 2) else v for v in d]
        elif k == 1 and tag == "sq":
            a = abs(d[0]) + 0.1
            d = [a, a * (1 + 1e-7 * (rng.unit() - 0.5)), a] + d[3:]
        elif k == 2 and tag == "gq":
            d = d[:3] + [v * 1e-7 for v in d[3:6]] + d[6:]
        elif k == 3 and tag == "sq":
            a = abs(d[0]) + 0.1
            j = rng.below(3)
            sec = [a, a, a]
            sec[j] = rng.choice([0.0, -abs(d[1]) - 0.1])
            fst = d[3:6]
            if sec[j] == 0.0:
                fst[j] = 0.0
            d = sec + fst + [d[6]]
        elif k == 4 and tag == "p":
            j = rng.below(3)
            d = [1e-7 * (rng.unit() - 0.5) if i != j else rng.choice([1.0, -1.0]) for i in range(3)] + [d[3]]
        lines.append("simplify %s %s %s %s" % (hx(rnd_tol(rng)), rng.choice("+-"), tag,
                                               " ".join(hx(v) for v in d)))
    _, oh = vlib.run_lines([exe], lines)
    diverged = []
    if model:
        _, om = vlib.run_lines([model], lines)
        for l, a, b in zip(lines, oh, om):
            same = a == b or (is_crash(a) and b == "diverged")
            if not same and not (all(numself.is_nan_bits(w) or not is_hex16(w) for w in a.split()[2:3])
                                 and a.split()[:2] == b.split()[:2] and "7ff8" in a + b and False):
                diverged.append({"op": l, "impl": a, "model": b})
    ncrash = sum(1 for a in oh if is_crash(a))
    return len(lines), diverged, ncrash


def simplify_diff(ctx, n):
    """Float/impl tie of the SurfaceSimplifier model for C12: builds harness/solids.cc and
    celer_model_c09b (no proof-side work), runs n random `simplify <tol> <sense> <surface>` ops
    (all 17 quadric classes incl. near-degenerate coefficient patterns, tolerances 1.5e-8..1e-3)
    through the REAL RecursiveSimplifier and through Model/Solids.lean `simplify` at Float, and
    diffs the answers exactly (a crash of the real code = `diverged` of the model counts as
    agreement and is reported separately).
    Returns {"ops": int, "diverged": [ {op, impl, model} ... ], "crashes": int,
             "harness": "solids", "model_exe": path, "error": str or None}."""
    exe, log, _ = vlib.build_harness("solids", HARNESS["solids"])
    out = {"ops": 0, "diverged": [], "crashes": 0, "harness": "solids",
           "model_exe": vlib.model_exe(LEAN_PROP), "error": None}
    if exe is None:
        out["error"] = "harness/solids.cc did not build: " + log[-500:]
        return out
    import os
    model = vlib.model_exe(LEAN_PROP)
    # always through lake (incremental): a stale binary would tie the theorems to an old model
    res = vlib.lean_build(["celer_model_" + LEAN_PROP.lower()])
    if not res["ok"] or not os.path.exists(model):
        out["error"] = "celer_model_c09b did not build"
        return out
    n_ops, div, ncrash = run_simplify_diff(ctx, exe, model, n)
    out.update({"ops": n_ops, "diverged": div, "crashes": ncrash})
    return out


def run_xform_diff(ctx, exe, model, n, findings):
    """SurfaceTransformer on random surfaces of every class with rotations / reflections: exact
    diff, plus the impl-side oracle `sense at R x + t of the transformed surface = sense at x`"""
    from checks import c12
    rng = ctx.rng
    lines, meta = [], []
    for _ in range(n):
        tag, d = c12.gen_surface(rng)
        x = {"R": rnd_matrix(rng), "t": rnd_tra(rng, 5.0) or [0.0, 0.0, 0.0]}
        lines.append("xform %s %s | %s" % (tag, " ".join(hx(v) for v in d),
                                           " ".join(hx(v) for v in x["R"] + x["t"])))
        meta.append((tag, d, x))
    _, oh = vlib.run_lines([exe], lines)
    diverged = []
    if model:
        _, om = vlib.run_lines([model], lines)
        for l, a, b in zip(lines, oh, om):
            if a != b:
                diverged.append({"op": l, "impl": a, "model": b})
    n_or = 0
    for (tag, d, x), l, o in zip(meta, lines, oh):
        w = o.split()
        if len(w) < 2 or not all(is_hex16(v) for v in w[1:]):
            continue
        ntag, nd = w[0], [fl(v) for v in w[1:]]
        for _ in range(3):
            p = [(rng.unit() * 2 - 1) * 6 for _ in range(3)]
            q = xf_up(x, p)
            f0, f1 = c12.quadric(tag, d, p), c12.quadric(ntag, nd, q)
            scale = (sum(abs(v) for v in d) + 1) * (sum(abs(v) for v in p + q) + 1) ** 2
            n_or += 1
            if abs(f0) > 1e-6 * scale and (f0 > 0) != (f1 > 0):
                findings.append(("xform-sense", {"type": tag}, 0.0, x, l,
                                 {"point": p, "image": q, "f_before": f0, "f_after": f1}))
    return len(lines), n_or, diverged


def run_e2e(ctx, exe, sc, n, npts, findings, stats, model=None):
    """end to end: object as a material in a world box -> InputBuilder -> OrangeParams ->
    OrangeTrackView initialisation at probe points vs analytic membership"""
    rng = ctx.rng
    objs = []
    fixed = [
        # box minus sphere whose (unsound) interior bbox swallows the box
        {"k": "sub", "a": {"k": "shape", "r": {"type": "box", "p": [0.8, 0.8, 0.8]}},
         "b": {"k": "shape", "r": {"type": "sphere", "p": [1.0]}}},
        {"k": "shape", "r": {"type": "ellipsoid", "p": [10.0, 0.01, 0.01]}},
        {"k": "shape", "r": {"type": "ppiped", "p": [1.0, 2.0, 3.0, -0.1, 0.1, 0.6]}},
        # bottom-apex pyramid, +z polygon listed clockwise / counter-clockwise
        {"k": "shape", "r": {"type": "genprism", "n": 4, "p": [1.0] + [0.0, 0.0] * 4
                             + [1.0, -1.0, -1.0, -1.0, -1.0, 1.0, 1.0, 1.0]}},
        {"k": "shape", "r": {"type": "genprism", "n": 4, "p": [1.0] + [0.0, 0.0] * 4
                             + [1.0, -1.0, 1.0, 1.0, -1.0, 1.0, -1.0, -1.0]}},
        # top-apex tetrahedron, clockwise base; wedge (collinear lower edge)
        {"k": "shape", "r": {"type": "genprism", "n": 3, "p": [0.5, 1.0, 0.0, -1.0, -1.0, -1.0, 1.0]
                             + [0.2, 0.1] * 3}},
        {"k": "shape", "r": {"type": "genprism", "n": 4, "p": [1.0, -1.0, 0.0, 1.0, 0.0, 1.0, 0.0, -1.0, 0.0,
                                                                 -1.0, -1.0, -1.0, 1.0, 1.0, 1.0, 1.0, -1.0]}},
        {"k": "trd", "hz": 3.0, "lo": [1.0, 1.0], "hi": [2.0, 2.0]},
        {"k": "trap", "hz": 40.0, "th": 0.02, "ph": 0.05, "faces": [(20.0, 10.0, 10.0, 0.01), (30.0, 15.0, 15.0, 0.01)]},
        {"k": "pcone", "z": [-3.0, -1.0], "outer": [1.0, 2.0], "inner": None, "angle": None},
        {"k": "pcone", "z": [1.0, 2.0], "outer": [2.0, 1.0], "inner": [0.5, 0.25], "angle": [0.1, 0.3]},
        {"k": "pprism", "z": [-4.0, -2.0], "outer": [1.0, 1.0], "inner": None, "angle": None, "n": 6, "orient": 0.0},
        {"k": "pcone", "z": [-2.0, -1.0, 0.5, 0.5, 2.0], "outer": [1.0, 2.0, 2.0, 1.0, 1.5],
         "inner": [0.5, 0.5, 0.5, 0.5, 0.5], "angle": None},
    ]
    for _ in range(n):
        objs.append(gen_object(rng))
    for _ in range(max(3, n // 3)):
        objs.append(gen_pair_object(rng, 1e-5))
    objs = fixed + objs
    tol = 1e-5
    # surfaces of every leaf (through the standalone build) for the distance filter
    leaf_lines, leaf_owner = [], []
    for i, o in enumerate(objs):
        for reg, tra in object_leaves(o):
            sc.need(region_turns(reg))
            leaf_lines.append("build %s %s" % (head_words(tol, tra), region_words(reg, sc)))
            leaf_owner.append(i)
    _, lo = vlib.run_lines([exe], leaf_lines)
    surfs = [[] for _ in objs]
    bad = set()
    ell_lower = set()      # objects with an ellipsoid leaf that was emitted as a lower-class surface
    leaf_regs = [reg for o in objs for reg, _ in object_leaves(o)]
    for i, o, reg in zip(leaf_owner, lo, leaf_regs):
        b = parse_build(o)
        if b is None:
            bad.add(i)
        else:
            surfs[i] += [(tag, d) for _, _, tag, d in b["nodes"]]
            if reg["type"] == "ellipsoid" and any(tag not in ("sq", "gq", "s", "sc") for _, _, tag, _ in b["nodes"]):
                ell_lower.add(i)
    lines, meta = [], []
    for i, o in enumerate(objs):
        if i in bad:
            stats["e2e_skipped_leaf_failed"] = stats.get("e2e_skipped_leaf_failed", 0) + 1
            continue
        ext = object_extent(o)
        world = max(2.0 * ext, 1.0) * 1.5 + 1.0
        pts = []
        for _ in range(npts):
            s = ext * rng.choice([0.3, 1.0, 1.3, 1.3, 2.0])
            pts.append([(rng.unit() * 2 - 1) * s for _ in range(3)])
        g = [-1.1, -0.5, 0.0, 0.45, 1.05]
        for _ in range(npts // 3):
            pts.append([ext * rng.choice(g) for _ in range(3)])
        pts += o.get("_probes", [])
        pts.append([world * 2, 0.0, 0.0])
        fill = i % 2 == 0      # every other geometry gets the two filler volumes (BIH inner nodes)
        lines.append("e2e %s %s %s %s | %s" % (hx(tol), hx(world), "f1" if fill else "f0",
                                               object_words(o), " ".join(hx(v) for p in pts for v in p)))
        meta.append((i, o, world, pts, fill))
    _, oh = vlib.run_lines([exe], lines, timeout=3000)
    n_eval = 0
    attributed = {}
    for (i, o, world, pts, fill), l, a in zip(meta, lines, oh):
        if not a.startswith("ok "):
            stats["e2e_" + a.split()[0] + "_" + (a.split() + [""])[1]] = \
                stats.get("e2e_" + a.split()[0] + "_" + (a.split() + [""])[1], 0) + 1
            if is_crash(a):
                findings.append(("e2e-crash", o, tol, None, l, a))
            continue
        stats["e2e_ok"] = stats.get("e2e_ok", 0) + 1
        chars = a[3:]
        margin = 10 * tol * max(1.0, world)
        wsurf = [("px", [-world]), ("px", [world]), ("py", [-world]), ("py", [world]), ("pz", [-world]),
                 ("pz", [world])]
        for j, p in enumerate(pts):
            if any(surf_dist(tag, d, p) <= margin for tag, d in surfs[i] + wsurf):
                continue
            inworld = all(abs(v) < world for v in p)
            if fill and any(all(abs(v - sg * 0.85 * world) < 0.05 * world + margin for v in p)
                            for sg in (-1, 1)):
                continue        # inside / near a filler box
            exp = "x" if not inworld else ("m" if object_mem(o, p) else "b")
            n_eval += 1
            if chars[j] != exp:
                kind = "e2e/cone-merge" if cones_soft_equal(surfs[i], tol) else "e2e"
                if kind == "e2e":
                    if i not in attributed:
                        attributed[i] = attribute_e2e(exe, model, sc, o, tol)
                    if attributed[i]:
                        kind = attributed[i]
                if kind == "e2e":
                    tw = sum(genprism_twisted_faces(r) for r, _ in object_leaves(o) if r["type"] == "genprism")
                    if tw > sum(1 for tag, _ in surfs[i] if tag in ("gq", "sq")):
                        kind = "e2e/genprism-planar"
                findings.append((kind, o, tol, None, l, {"point": p, "expected": exp, "located": chars[j],
                                                         "object": object_words_readable(o)}))
    return len(lines), n_eval


def cones_soft_equal(surfs, tol):
    """two DIFFERENT cone surfaces of the object that SoftSurfaceEqual{tol} identifies (it compares
    the tangents with an absolute tolerance): LocalSurfaceInserter merges them into one surface"""
    ks = [(tag, d) for tag, d in surfs if tag in ("kx", "ky", "kz")]
    for a in range(len(ks)):
        for b in range(a + 1, len(ks)):
            (ta, da), (tb, db) = ks[a], ks[b]
            if ta != tb or da == db:
                continue
            sa, sb = math.sqrt(da[3]), math.sqrt(db[3])
            if not abs(sa - sb) < max(tol, tol * max(sa, sb)):
                continue
            na = math.sqrt(sum(v * v for v in da[:3]))
            nb = math.sqrt(sum(v * v for v in db[:3]))
            dist = math.sqrt(sum((da[i] - db[i]) ** 2 for i in range(3)))
            if dist < max(tol, tol * max(na, nb)):
                return True
    return False


def object_words_readable(o):
    return " ".join((repr(fl(w)) if is_hex16(w) else w) for w in object_words(o).split())


def readable(l):
    return " ".join((repr(fl(w)) if is_hex16(w) else w) for w in l.split())


def classify(kind, reg, info):
    """stable, specific violation keys"""
    t = reg["type"] if isinstance(reg, dict) and "type" in reg else "object"
    if kind == "recursion":
        return KNOWN_RECURSION_KEY if t == "ellipsoid" else "simplifier-recursion:" + t
    if kind == "bbox-interior/sphere":
        return "bbox-interior-unsound:sphere"
    if kind == "bbox-interior/rotated":
        return "bbox-interior-unsound:rotated"
    if kind == "bbox-interior":
        return "bbox-interior-unsound:" + t
    if kind == "emission/ppiped-y":
        return "ppiped-y-extent-cos-alpha"
    if kind == "emission/gq-snap":
        return "rotated-quadric-cross-terms-dropped"
    if kind == "emission/genprism-planar":
        return "genprism-twisted-face-emitted-planar"
    if kind == "emission/ellipsoid-gq-snap":
        return "ellipsoid-rotated-cross-terms-dropped"
    if kind in ("emission/ellipsoid-cyl", "bbox-interior/ellipsoid-cyl"):
        return "ellipsoid-simplified-to-cylinder"
    if kind == "bbox-exterior":
        return "bbox-exterior-unsound:" + t
    if kind == "emission":
        return "emission-wrong:" + t
    if kind == "spec-vs-python":
        return "oracle-disagrees-with-lean-spec:" + t
    if kind == "dedup" and str(info.get("group")).startswith("normalised"):
        return "softeq-unnormalised-quadric-merge"
    if kind == "softeq-far" and str(info.get("group")).startswith("normalised"):
        return "softeq-unnormalised-quadric-merge"
    if kind == "e2e/quadric-merge":
        return "softeq-unnormalised-quadric-merge"
    if kind == "dedup":
        return "dedup-merged-distant-surfaces:" + str(info.get("group"))
    if kind == "softeq-asym":
        return "softeq-not-symmetric:" + t
    if kind == "softeq-irrefl":
        return "softeq-not-reflexive:" + t
    if kind == "softeq-far/slip":
        return "softeq-distance-abs-for-rel"
    if kind == "softeq-far":
        return "softeq-equal-but-far:" + t + ":" + str(info.get("group"))
    if kind == "xform-sense":
        return "transformed-surface-sense-differs:" + t
    if kind == "e2e-crash":
        return "e2e-crash"
    if kind == "e2e/ellipsoid-cyl":
        return "ellipsoid-simplified-to-cylinder"
    if kind == "e2e/ellipsoid-gq-snap":
        return "ellipsoid-rotated-cross-terms-dropped"
    if kind == "e2e/gq-snap":
        return "rotated-quadric-cross-terms-dropped"
    if kind == "e2e/dedup-far":
        return "dedup-merged-distant-surfaces:e2e"
    if kind.startswith("e2e/simplifier:"):
        return "simplifier-changed-surface:" + kind.split(":", 1)[1]
    if kind == "e2e/genprism-planar":
        return "genprism-twisted-face-emitted-planar"
    if kind == "e2e/cone-merge":
        return "cone-softequal-merges-distinct-cones"
    if kind == "e2e":
        return "e2e-mislocated:" + e2e_shape_key(reg)
    return kind + ":" + t


def e2e_shape_key(o):
    ts = sorted({r["type"] for r, _ in object_leaves(o)})
    if "ppiped" in ts:
        return "ppiped"
    return o["k"] + ":" + "+".join(ts)


def run_corpus(exe, model):
    """corpus/C09b/*.ops: past disagreements / defect witnesses, exact diff first"""
    import glob
    import os
    lines = []
    for f in sorted(glob.glob(os.path.join(vlib.CORPUS, "C09b", "*.ops"))):
        lines += [l.strip() for l in open(f) if l.strip() and not l.startswith("#")]
    if not lines:
        return 0, []
    _, oh = vlib.run_lines([exe], lines)
    div = []
    if model:
        _, om = vlib.run_lines([model], lines)
        for l, a, b in zip(lines, oh, om):
            if l.split()[0] in ("e2e", "sincos"):
                continue
            if not (a == b or (is_crash(a) and b == "diverged")):
                div.append({"op": l, "impl": a[:600], "model": b[:600]})
    return len(lines), div


def run_part(ctx):
    """the solid-emission part of C09; returns the coverage additions (also stored in ctx)"""
    quick = ctx.quick()
    ps = common.proof_side(ctx, LEAN_PROP)
    broken = list(ps["broken"])
    numself.run(ctx, 5000 if quick else 50000)
    exe, log, _ = vlib.build_harness("solids", HARNESS["solids"])
    cov = {}
    if exe is None:
        ctx.violation("harness-build", "harness/solids.cc no longer builds against /repo",
                      {"correspondence": "harness build", "log": log[-2000:]}, found_input=False)
        cov.update({"evaluations": 0, "distinct_nontrivial": 0, "explanation": "harness build failed"})
        ctx.coverage.update(cov)
        return cov
    model = vlib.model_exe(LEAN_PROP) if ps["model_ok"] else None
    if model is None:
        broken.append("model driver did not build")
    sc = SinCos(exe)
    stats, findings = {}, []
    boost = 3 if broken else 1
    n_corpus, div_corpus = run_corpus(exe, model)
    nb = (6000 if quick else 120000) * boost
    lines, oh, cases, div_build = run_build_diff(ctx, exe, model, sc, nb, stats, findings)
    n_bb = check_bboxes(ctx, cases, lines, oh, ctx.rng, findings)
    sub = list(zip(cases, lines, oh))[: (1500 if quick else 10000) * boost]
    n_mem, n_mem_eval, div_mem = run_member(
        ctx, exe, model, sc, [c for c, _, _ in sub], [l for _, l, _ in sub], [o for _, _, o in sub],
        ctx.rng, findings, 24 if quick else 40)
    n_simp, div_simp, simp_crash = run_simplify_diff(ctx, exe, model, (20000 if quick else 300000) * boost)
    n_xf, n_xf_or, div_xf = run_xform_diff(ctx, exe, model, (5000 if quick else 100000) * boost, findings)
    n_sq, div_sq = run_softeq(ctx, exe, model, (4000 if quick else 40000) * boost, findings)
    n_pair, n_pair_nodes, n_pair_merged, div_pair = run_pairs(
        ctx, exe, model, sc, (1500 if quick else 10000) * boost, findings, stats)
    n_e2e, n_e2e_eval = run_e2e(ctx, exe, sc, (300 if quick else 4000) * boost, 40 if quick else 80,
                                findings, stats, model)
    diverged = div_corpus + div_build + div_mem + div_simp + div_xf + div_sq + div_pair
    if diverged:
        broken.append(f"correspondence: model and implementation differ on {len(diverged)} ops "
                      f"(build {len(div_build)}, member {len(div_mem)}, simplify {len(div_simp)}); "
                      f"first: {diverged[0]['op'][:80]}")
    seen = set()
    for kind, reg, tol, tra, l, info in findings:
        key = classify(kind, reg, info)
        if key in seen:
            continue
        seen.add(key)
        ctx.violation(key, f"real ORANGE construction: {kind} ({key})",
                      {"harness": "harness/solids.cc", "op": l, "readable": readable(l)[:1500],
                       "tol": tol, "translation": tra, "info": info,
                       "region_or_object": reg if kind not in ("e2e", "e2e-crash") else
                       object_words_readable(reg)})
    if broken and not ctx.violations:
        ctx.violation("unproved", "; ".join(broken)[:600],
                      {"no_longer_checks": broken, "diverging_ops": diverged[:3]}, found_input=False)
    if not quick and ps["build"]["ok"]:
        common.leanchecker(ctx, ["CelerVerif.Props." + LEAN_PROP])
    ctx.assumptions += [
        "solid-emission theorems are about the real-number reading of Model/Solids.lean; the same "
        "definitions executed at Float reproduce the real IntersectRegion::build / "
        "IntersectSurfaceBuilder output (surfaces, senses, de-duplicated ids, local/global/merged "
        "zones) bit for bit on every op compared in this run",
        "sincos(Turn) values are oracle inputs taken from the real code; fmax/fmin/celeritas::min/max "
        "are modelled for non-NaN arguments; the surface hash grid of LocalSurfaceInserter is "
        "modelled as `every soft-equal candidate is found`",
        "probe points are kept farther than 10·tol·max(1, size) from every emitted surface (first "
        "order distance estimate); Involute and polycones are outside the Lean model; GenPrism "
        "soundness (ruled side faces = interpolated cross-sections) is checked by the oracles only",
    ]
    cov.update({
        "solids_corpus_ops": n_corpus, "solids_build_ops": len(lines), "solids_member_ops": n_mem, "solids_member_points": n_mem_eval,
        "solids_softeq_ops": n_sq, "solids_pair_ops": n_pair, "solids_pair_nodes": n_pair_nodes,
        "solids_pair_merged_nodes": n_pair_merged,
        "solids_bbox_points": n_bb, "solids_xform_ops": n_xf, "solids_xform_sense_points": n_xf_or,
        "solids_simplify_ops": n_simp, "solids_simplify_crashes": simp_crash,
        "solids_e2e_geometries": n_e2e, "solids_e2e_points": n_e2e_eval,
        "solids_op_mix": dict(sorted(stats.items())), "solids_diverging_ops": len(diverged),
        "solids_oracle_findings": sorted(seen), "solids_correspondence_broken": broken,
        "solids_samples": [readable(lines[0])[:300], readable(lines[len(lines) // 2])[:300]],
    })
    ctx.coverage.update(cov)
    return cov


def run(ctx):
    # standalone: known findings are filed under property C09
    ctx.known = [k for k in vlib.load_known_findings() if k["property"] in (PROP, ctx.prop)]
    cov = run_part(ctx)
    ctx.coverage.update({
        "explanation": MANIFEST["text"],
        "evaluations": cov.get("solids_build_ops", 0) + cov.get("solids_member_points", 0)
        + cov.get("solids_simplify_ops", 0) + cov.get("solids_e2e_points", 0)
        + cov.get("solids_bbox_points", 0),
        "distinct_nontrivial": cov.get("solids_build_ops", 0) + cov.get("solids_e2e_geometries", 0),
        "rule": "random regions of 9 classes (incl. GenPrism: trd, trap, twisted, pyramids, both vertex "
                "orders) over lengths 1e-5..1e3 (thin/flat included), tolerances 1.5e-8..1e-3, no/integer/"
                "tiny/random translations and rotations/reflections/signed permutations/tiny rotations; "
                "random surfaces for the simplifier and the surface transformer; object trees (shape, "
                "hollow/sliced solid, translated, transformed, neg, all, any, sub) of depth <= 3 "
                "for the end-to-end oracle; distinct = op lines generated (all distinct by construction "
                "of continuous parameters), non-trivial = not answered bad-op",
        "samples": cov.get("solids_samples", []),
    })
    return LEVEL


def replay(ctx, data):
    exe, log, _ = vlib.build_harness("solids", HARNESS["solids"])
    r = data["replay"]
    if "op" in r:
        _, o = vlib.run_lines([exe], [r["op"]])
        print("op:", r.get("readable", r["op"]))
        print("impl now:", readable(o[0]) if o else o)
        print("info:", r.get("info"))
    else:
        print(vlib.json.dumps(r, indent=1))
    return 0
