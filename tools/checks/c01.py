"""C01 — Transport conserves energy over every event and every track."""
import math
import os

import vlib
from checks import common, numself, steplog

LEVEL = "other"
HARNESS = {"stepping": steplog.LIBS, "numself": ["corecel"]}
MANIFEST = {
    "category": "other",
    "technique": "Lean 4 proof (ℝ) of the energy ledger of a Num-generic model of ElossApplier / "
                 "MeanELoss / FluctELoss clamp / InteractionApplier cut loop / TrackingCutExecutor / "
                 "boundary exit / secondary→track, lifted by induction to any step list of a track "
                 "and any event history; the same definitions run at Float and reproduce deposit, "
                 "post-step energy, fate and secondaries of every step of the real Stepper "
                 "bit-for-bit from recorded oracle inputs (H3 harness); impl-side residual oracle",
    "text": "Model/Ledger.lean: per-step ledger function (energy loss with tracking-cut logic and "
            "fluctuation clamp, stopped ⇒ killed or forced at-rest interaction, interaction result "
            "with the production-cut loop incl. +2mc² for sub-cut antiparticles, tracking cut incl. "
            "+2mc², world exit) and an event = list of step records evolving a list of live tracks. "
            "Theorems: eloss_le_energy, elossApplier_balance, range_step_deposits_all, "
            "interaction_balance (given the interactor's own conservation = C04), "
            "trackingCut_balance, ★track_balance (any number of steps), ★event_balance / "
            "event_balance_kinetic (any history): Σ primaries (K+2mc²[anti]) = Σ deposits + Σ escaped "
            "(K+2mc²[anti]) + Σ 2mc² of antiparticles killed by range-out without an at-rest "
            "process (the code deposits only their kinetic energy: that term is the ledger's "
            "`lostRest`).  Correspondence: harness/stepping.cc runs the real Stepper on "
            "SimpleTestBase / extended MockTestBase over a sweep (slots 1…256, capacities, track "
            "orders, cuts, loss options, seeds, particle types/energies); every step with "
            "recorded oracle inputs (mean loss, sampled loss, raw Interaction) is replayed through "
            "the model.  Oracle: per-step, per-track and per-event residuals ≤ n·2^-52·ΣE.",
    "design_ref": "DESIGN.md §6 C01",
    "note": "Category other: the tie to the code is differential (problem set limited to the two "
            "programmatic fixtures; uniform-field and MSC along-step variants and real EM tables "
            "need Geant4 data that this image does not have — NOT covered); calc_mean_energy_loss "
            "(C14) and the interactors (C04) enter as inputs with their contracts as hypotheses; "
            "theorems are at ℝ, rounding is measured by the residual oracle, not proved.",
}

EPS = 2.0 ** -52
ORDERS = ["none", "none", "init_charge", "reindex_shuffle", "reindex_status",
          "reindex_particle_type", "reindex_along_step_action", "reindex_step_limit_action",
          "reindex_both_action"]
MOCK_PARTICLES = ["gamma", "celeriton", "anti-celeriton", "electron", "positron", "celerino"]


def unit_dir(rng):
    while True:
        v = [rng.unit() * 2 - 1 for _ in range(3)]
        n = math.sqrt(sum(c * c for c in v))
        if 1e-3 < n <= 1:
            return [c / n for c in v]


def gen_config(rng, quick, force=None):
    """one random run configuration (dict for steplog.script + bookkeeping)"""
    problem = force or ("mock" if rng.chance(3, 4) else "simple")
    slots = rng.choice([1, 2, 3, 4, 8, 16, 32, 64, 128, 256])
    kw = {"slots": slots, "seed": rng.below(1 << 30),
          "maxevents": 4, "order": rng.choice(ORDERS),
          "capacity": rng.choice([4096, 4096, 512, 64, max(8, slots)]),
          "stackfactor": max(rng.choice([3, 3, 3, 1, 0.25]), 4.0 / slots),
          "maxsteps": max(60, (12000 if quick else 40000) // slots),
          "postcut": 1 if rng.chance(2, 3) else 0}
    prim = []
    nprim = rng.choice([2, 5, 20, 60, 150])
    if problem == "mock":
        kw["along"] = rng.choice(["vlinear", "vlinear", "vfluct", "vfluct", "linear", "fluct",
                                  "neutral"])
        # interactor 0 = stock MockModel (empty host kernel).  Only with the neutral along-step:
        # with energy loss a stopped mock particle is `has_at_rest` (xs(0) > 0) but no stock model
        # covers E = 0, so select_discrete_interaction reads model_ids[invalid] and stores a
        # garbage ActionId (release build) — a fixture artefact that corrupts memory in the
        # action-sorting track orders (see the final report / corpus/C05 note)
        kw["interactor"] = 0 if (kw["along"] == "neutral" and rng.chance(1, 2)) else 1
        kw["xsscale"] = rng.choice([1, 30, 300, 3000])
        kw["lossscale"] = rng.choice([1, 1, 0.1, 3])
        kw["posrest"] = rng.below(2)
        if kw["along"] != "neutral" and rng.chance(1, 4):
            # Urban MSC (hand-made tables) in the along-step: the energy loss then uses the true
            # path length, the ledger must balance all the same
            kw["msc"] = 1
            kw["mscalg"] = rng.choice(["safety", "safety_plus", "minimal"])
            kw["mscxs"] = rng.choice([1e-4, 1e-2, 1.0, 10.0])
        kw["cuts"] = {n: rng.choice([0.0, 0.01, 0.1, 1.0])
                      for n in ("gamma", "electron", "positron")}
        kw["opts"] = {"lowest_electron_energy": rng.choice([1e-3, 1e-3, 0.05, 0.5]),
                      "linear_loss_limit": rng.choice([0.01, 0.01, 0.2, 1e-6]),
                      "min_range": rng.choice([0.1, 0.1, 0.01, 1.0]),
                      "max_step_over_range": rng.choice([0.2, 0.2, 0.05, 1.0]),
                      "fixed_step_limiter": rng.choice([0, 0, 0, 0.05])}
        for _ in range(rng.range(1, 4)):
            name = rng.choice(MOCK_PARTICLES[:5] if not rng.chance(1, 12) else MOCK_PARTICLES)
            # <= 10 MeV: common upper limit of the stock mock process ranges (above it a process
            # can still be selected — flat xs extrapolation — but has no model: fixture artefact)
            e = math.exp(math.log(2e-3) + rng.unit() * (math.log(9.9) - math.log(2e-3)))
            if rng.chance(1, 8):
                e = rng.choice([1e-3, 1.0, 9.99, 5.0, 5e-4])
            r = rng.unit() * 6.5
            d = unit_dir(rng)
            pos = [r * c for c in unit_dir(rng)]
            if rng.chance(1, 15):
                pos = [150.0, 0.0, 0.0]          # outside the world: errored at initialisation
            prim.append((name, e, pos, d, rng.below(4), max(1, nprim // 2)))
    else:
        if rng.chance(1, 3):
            kw["cuts"] = {"gamma": rng.choice([0.0, 0.01, 0.5]),
                          "electron": rng.choice([0.0, 0.05, 1000.0])}
        for _ in range(rng.range(1, 3)):
            e = math.exp(math.log(2e-3) + rng.unit() * (math.log(50.0) - math.log(2e-3)))
            pos = [(rng.unit() * 2 - 1) * 4.9 for _ in range(3)]
            if rng.chance(1, 15):
                pos = [600.0, 0.0, 0.0]
            name = "gamma" if not rng.chance(1, 6) else "electron"
            prim.append((name, e, pos, unit_dir(rng), rng.below(4), nprim))
    if kw.get("interactor") == 0 and any(p[0] == "celeriton" and p[1] < 1.0 for p in prim):
        # stock "scattering" has no celeriton model below 1 MeV but stays selectable there (flat
        # xs extrapolation): invalid model id, crash in select_discrete_interaction (fixture
        # artefact, see corpus/C05/stock_mock_at_rest_garbage_action.in)
        kw["interactor"] = 1
    kw["capacity"] = max(kw["capacity"], sum(p[5] for p in prim) + 4)
    return problem, prim, kw


def tracking_cut_scenarios():
    """deterministic runs that route EVERY particle type through the real tracking-cut action
    (TrackingCutExecutor), in flight (`errat`: CoreTrackView::apply_errored after the N-th
    along-step) and at initialisation (started outside the world), with and without an at-rest
    process for the positron, for each along-step variant"""
    names = ("positron", "anti-celeriton", "electron", "gamma", "celeriton")
    out = []
    for k, (along, posrest, errat) in enumerate((("vlinear", 0, 1), ("vfluct", 1, 1),
                                                 ("linear", 1, 2), ("vlinear", 1, 3),
                                                 ("neutral", 0, 1))):
        prim = [(n, 0.5 + 0.75 * j + 0.1 * k, [0.1 * (j + 1), 0.05 * k, 0.0],
                 [1.0, 0.0, 0.0] if j % 2 == 0 else [0.0, 0.0, -1.0], j % 3, 3)
                for j, n in enumerate(names)]
        prim += [(n, 0.3 + 0.4 * j, [150.0, 0.0, 0.0], [1.0, 0.0, 0.0], 3, 2)
                 for j, n in enumerate(names[:4])]
        kw = {"slots": 8, "along": along, "interactor": 1, "posrest": posrest, "errat": errat,
              "maxsteps": 400, "maxevents": 4, "postcut": 1, "seed": 12345 + k,
              "cuts": {"gamma": 0.01, "electron": 0.05, "positron": 0.05},
              "opts": {"lowest_electron_energy": 0.001 if k % 2 == 0 else 0.2}}
        out.append(("mock", prim, kw))
    return out


def init_charge_scenarios():
    """TrackOrder::init_charge with MORE primaries than slots and neutral + charged initializers
    in the same initialisation pass while vacancies are scarce (new tracks fill all / almost all
    vacancies, so the front partition (neutral) and the back partition (charged) meet): every
    primary and every secondary must still get its own slot"""
    out = []
    for k, (slots, ng, nc, inter) in enumerate(((16, 16, 16, 1), (16, 20, 12, 1), (8, 9, 7, 0),
                                                (16, 13, 19, 1), (4, 5, 3, 1))):
        # interleaved, so that every initialisation pass sees neutral AND charged initializers
        prim, g, c, j = [], ng, nc, 0
        while g > 0 or c > 0:
            if g > 0:
                n = min(g, 1 + (j + k) % 3)
                prim.append(("gamma", 5.0 + 0.25 * k + 0.01 * j, [0.1, 0.0, 0.0], [1.0, 0.0, 0.0],
                             0, n))
                g -= n
            if c > 0:
                n = min(c, 1 + (j + 2 * k) % 2)
                prim.append((["celeriton", "electron", "positron"][j % 3], 3.0 + 0.01 * j,
                             [0.0, 0.2, 0.0], [0.0, 1.0, 0.0], 0, n))
                c -= n
            j += 1
        kw = {"slots": slots, "order": "init_charge", "along": ["vlinear", "linear", "neutral"][k % 3],
              "interactor": inter, "xsscale": 300, "capacity": 4096, "stackfactor": 3,
              "maxsteps": 4000, "maxevents": 2, "seed": 4242 + k, "postcut": 0}
        if kw["along"] == "neutral":
            kw["interactor"] = 1
        out.append(("mock", prim, kw))
    # Compton problem: gammas + electrons as primaries, electrons as secondaries
    out.append(("simple", [(["gamma", "electron"][j % 2], 2.0 - 0.03 * j, [0.0, 0.0, 0.0],
                            [1.0, 0.0, 0.0], 0, 1 + j % 3) for j in range(16)],
                {"slots": 16, "order": "init_charge", "capacity": 4096, "maxsteps": 20000,
                 "maxevents": 2, "seed": 99}))
    return out


def run_harness(exe, problem, prim, kw, timeout=600):
    lines = steplog.script(problem, prim, **kw)
    rc, out = vlib.run_lines([exe], lines, timeout=timeout)
    return lines, rc, steplog.parse(out)


# --------------------------------------------------------------------------- model ops
def ptable_line(log, mat):
    m = max(mat, 0)
    ws = []
    for pid in sorted(log.particles):
        p = log.particles[pid]
        cut = "-"
        if p["pdg"] in (22, 11, -11) and (m, pid) in log.cuts:
            cut = steplog.hx(log.cuts[(m, pid)])
        ws.append("%s %d %s" % (p["mass_hx"], 1 if p["anti"] else 0, cut))
    return "ptable %d %s" % (len(log.particles), " ".join(ws))


ZERO = "0" * 16


def step_op(log, s, along):
    """(op line, expected output) or (None, reason) when the step cannot be replayed"""
    q = log.q
    boundary, tcut = q["boundary"], q["tracking-cut"]
    has_eloss = bool(s.flags & 2)
    if s.L is not None:
        L = s.L
        kind = "f" if along == "vfluct" else "m"
        if kind == "f" and L["sample"] is None and L["mean"] < L["e"] \
                and not (L["cut"] and L["e"] < L["low"]):
            return None, "fluct-sample-not-recorded"
        el = "%d %d %d %s %s %s %s" % (L["appl"], 0 if L["cut"] else 1, 1 if s.flags & 4 else 0,
                                       L["hx"][4], kind, L["hx"][5],
                                       ZERO if L["sample"] is None else L["hx"][6])
        if L["hx"][1] != s.hx["e0"]:
            return None, "eloss-energy-differs-from-pre-step"
    else:
        if s.st[1] == "a" and has_eloss and not (s.flags & 1) and along in ("linear", "fluct") \
                and s.along == q.get("along-user"):
            return None, "stock-along-step(no recorded mean loss)"
        el = "0 %d %d %s n %s %s" % (1 if s.acta == boundary else 0, 1 if s.flags & 4 else 0,
                                     ZERO, ZERO, ZERO)
    if s.st[2] == "k":
        post = "none"
    elif s.act == tcut:
        post = "tcut"
    elif s.act == boundary and s.st[1] == "a":
        post = "boundary %d" % (1 if s.vol1 < 0 else 0)
    elif log.is_model(s.act) and s.st[1] == "a":
        if s.X is None:
            return None, "model-action-without-recorded-interaction"
        X = s.X
        secs = " ".join("%s %s" % ("-" if p < 0 else str(p), h)
                        for (p, _), h in zip(X["secs"], X["hx"][2:]))
        post = ("interact %s %s %s %d %s" % (X["kind"], X["hx"][0], X["hx"][1], len(X["secs"]),
                                             secs)).rstrip()
    else:
        post = "none"
    op = "step %d %s | %s | %d | %s" % (s.pid, s.hx["e0"], el, int(log.scalars["postcut"]), post)
    if s.st[4] == "a":
        fate = "alive"
    elif s.act == boundary and s.st[2] != "k":
        fate = "escaped"
    else:
        fate = "killed"
    released = 1 if (s.st[2] != "k" and (s.act == tcut or (log.is_model(s.act)
                                                           and s.st[4] == "k"))) else 0
    rk = 1 if s.st[2] == "k" else 0
    secs = "".join(" %d %s" % (p, h) for (p, _), h in zip(s.secs, s.hx["secs"]))
    exp = "%s %s %s %d %d %d%s" % (s.hx["e1"], s.hx["dep"], fate, released, rk, len(s.secs), secs)
    return op, exp


# --------------------------------------------------------------------------- oracle
def oracle(log):
    """impl-side predicates of the property on the real step log.  Returns list of
    (kind, detail dict)."""
    P = log.particles
    q = log.q
    tcut, boundary, rng_act = q["tracking-cut"], q["boundary"], q["range"]
    fails = []

    def rest2(pid):
        return 2 * P[pid]["mass"] if P[pid]["anti"] else 0.0

    def add(kind, s, res, tol, extra=None):
        d = {"iter": s.it, "slot": s.slot, "event": s.ev, "track": s.trk, "particle": P[s.pid]["name"],
             "status": s.st, "action": log.label(s.act), "e0": s.e0, "e_after_along": s.ea,
             "dep_after_along": s.depa, "e1": s.e1, "dep": s.dep, "secondaries": s.secs,
             "residual": res, "tolerance": tol}
        if extra:
            d.update(extra)
        fails.append((kind, d))

    n_checked = 0
    for s in log.steps:
        n_checked += 1
        scale = s.e0 + rest2(s.pid) + 1e-300
        # (1) along-step: E' + dep' = E (one subtraction, one addition from 0)
        r = math.fsum([s.e0, -s.ea, -s.depa])
        if abs(r) > 2 * EPS * scale or s.ea < 0 or s.depa < 0 or s.ea > s.e0:
            add("along-step-balance", s, r, 2 * EPS * scale)
        # (2) post-step action
        secT = [e + rest2(p) for p, e in s.secs]
        lhs = [s.ea]
        if s.st[2] != "k" and (s.act == tcut or (log.is_model(s.act) and s.st[4] == "k")):
            lhs.append(rest2(s.pid))
        r = math.fsum(lhs + [-s.e1, -s.dep, s.depa] + [-x for x in secT])
        tol = (4 + 2 * len(s.secs)) * EPS * (scale + sum(secT))
        if abs(r) > tol or s.e1 < 0 or s.dep < s.depa:
            add("post-step-balance:" + (log.label(s.act) if not log.is_model(s.act) else "model"),
                s, r, tol)
        # (3) recorded interactor contract (what interaction_balance assumes)
        if s.X is not None and s.X["kind"] in "sa":
            X = s.X
            inn = [s.ea] + ([rest2(s.pid)] if X["kind"] == "a" else [])
            out = [X["e"], X["dep"]] + [e + rest2(p) for p, e in X["secs"] if p >= 0]
            r = math.fsum(inn + [-x for x in out])
            tol = (4 + 2 * len(X["secs"])) * EPS * (sum(inn) + 1e-300)
            if abs(r) > tol or (X["kind"] == "a" and X["e"] != 0.0):
                add("interactor-contract", s, r, tol, {"raw": X})
        # (4) recorded loss contract 0 <= mean <= E  (what eloss lemmas assume)
        if s.L is not None and not (0 <= s.L["mean"] <= s.L["e"]):
            add("mean-loss-contract", s, s.L["mean"], 0.0, {"L": s.L})
    # per track
    tracks_done = 0
    for key, t in log.by_track.items():
        last = t[-1]
        if last.st[4] == "a":
            continue
        tracks_done += 1
        pid = t[0].pid
        terms = [t[0].e0, -last.e1]
        for s in t:
            terms.append(-s.dep)
            terms += [-(e + rest2(p)) for p, e in s.secs]
        if last.st[2] != "k" and (last.act == tcut or (log.is_model(last.act)
                                                       and last.st[4] == "k")):
            terms.append(rest2(pid))
        r = math.fsum(terms)
        tol = (2 + sum(4 + 2 * len(s.secs) for s in t)) * EPS * (t[0].e0 + rest2(pid) + 1e-300)
        if abs(r) > tol:
            add("track-balance", last, r, tol, {"n_steps": len(t), "first_e0": t[0].e0})
    # per event (complete runs only)
    events_done = 0
    if log.verdict == "done":
        by_ev = {}
        for s in log.steps:
            by_ev.setdefault(s.ev, []).append(s)
        born = {}
        for key, t in log.by_track.items():
            born.setdefault(key[0], []).append(t[0])
        # every primary offered to the Stepper (T record: count and Σ kinetic energy of the INPUT)
        # was transported: a primary that never takes a step (e.g. its slot overwritten by another
        # initializer in the same initialisation pass) is energy that vanished from the event
        for ev, tot in log.totals.items():
            prims = [t0 for t0 in born.get(ev, []) if t0.par < 0]
            got = math.fsum(t0.e0 for t0 in prims)
            if len(prims) != tot["nprim"] or abs(got - tot["eprim"]) > 1e-11 * (tot["eprim"] + 1e-300):
                fails.append(("primaries-not-all-transported",
                              {"event": ev, "primaries_offered": tot["nprim"],
                               "primary_tracks_seen": len(prims), "energy_offered": tot["eprim"],
                               "energy_of_tracks_seen": got,
                               "residual": tot["eprim"] - got, "tolerance": 1e-11 * tot["eprim"]}))
        for ev, steps in by_ev.items():
            events_done += 1
            prim = [t0 for t0 in born[ev] if t0.par < 0]
            terms = [t0.e0 + 0.0 for t0 in prim] + [rest2(t0.pid) for t0 in prim]
            total = math.fsum(terms)
            for s in steps:
                terms.append(-s.dep)
                if s.st[4] == "k" and s.act == boundary and s.st[2] != "k" and s.vol1 < 0:
                    terms += [-s.e1, -rest2(s.pid)]
                if s.st[2] == "k":
                    terms.append(-rest2(s.pid))          # lostRest: range-out without at-rest
            r = math.fsum(terms)
            tol = max(len(steps), 1) * EPS * (total + 1e-300)
            if abs(r) > tol:
                fails.append(("event-balance", {"event": ev, "n_steps": len(steps),
                                                "n_primaries": len(prim), "sum_primaries": total,
                                                "residual": r, "tolerance": tol}))
            # births: every emitted secondary became exactly one track with that energy
            emitted = sorted((s.trk, p, h) for s in steps for (p, _), h in zip(s.secs, s.hx["secs"]))
            kids = sorted((t0.par, t0.pid, t0.hx["e0"]) for t0 in born[ev] if t0.par >= 0)
            if emitted != kids:
                fails.append(("birth-mismatch", {"event": ev, "emitted": len(emitted),
                                                 "tracks": len(kids),
                                                 "first_diff": next(((a, b) for a, b in
                                                                     zip(emitted, kids) if a != b),
                                                                    None)}))
    return fails, {"steps": n_checked, "tracks": tracks_done, "events": events_done}


def asan_cutoff_probe():
    """Regression replay corpus/C01/cutoff_apply_cleared_secondary.cc under AddressSanitizer:
    InteractionApplier's cut loop evaluates CutoffView::apply on secondaries the interactor has
    already cleared; in a problem with apply_post_interaction but without positron (or gamma /
    electron) the unrepaired code compared invalid == ids.positron (true) and indexed
    id_to_index with the invalid id (heap-buffer-overflow READ).  Returns (status, text) with
    status in ok | overflow | build-failed."""
    src = os.path.join(vlib.CORPUS, "C01", "cutoff_apply_cleared_secondary.cc")
    exe = os.path.join(vlib.HBUILD, "c01_cutprobe_san")
    ok, log, _ = vlib.build_repo_libs(HARNESS["stepping"])
    if not ok:
        return "build-failed", log[-1500:]
    deps = [src] + [os.path.join(vlib.REPO, "src/celeritas/phys", f)
                    for f in ("CutoffView.hh", "CutoffParams.hh", "CutoffData.hh", "Secondary.hh")]
    os.makedirs(vlib.HBUILD, exist_ok=True)
    with vlib.Lock("harness_c01_cutprobe_san"):
        stale = (not os.path.exists(exe)
                 or any(os.path.getmtime(d) > os.path.getmtime(exe) for d in deps
                        if os.path.exists(d)))
        if stale:
            inc, cxx, ld = vlib.harness_flags(HARNESS["stepping"], san=False)
            rc, out = vlib.sh(["g++"] + cxx + ["-g", "-fsanitize=address"] + inc
                              + [src, "-o", exe] + ld, timeout=900)
            if rc != 0:
                return "build-failed", out[-1500:]
    rc, out = vlib.sh([exe], env={"ASAN_OPTIONS": "detect_leaks=0"}, timeout=120)
    if "AddressSanitizer" in out:
        return "overflow", out[:1800]
    if rc != 0 or "apply(invalid)=0" not in out:
        return "overflow", "unexpected result: rc=%d %s" % (rc, out[:600])
    return "ok", out[:300]


# --------------------------------------------------------------------------- main
def run(ctx):
    quick = ctx.quick()
    ps = common.proof_side(ctx, "C01")
    broken = list(ps["broken"])
    numself.run(ctx, n=5000 if quick else 100000)
    exe, log_b, _ = vlib.build_harness("stepping", HARNESS["stepping"])
    if exe is None:
        ctx.violation("harness-build", "harness/stepping.cc no longer builds against /repo",
                      {"correspondence": "harness build", "log": log_b[-2000:]}, found_input=False)
        ctx.coverage.update({"evaluations": 0, "distinct_nontrivial": 0,
                             "explanation": "harness build failed"})
        return LEVEL
    model = vlib.model_exe("C01")
    probe, ptext = asan_cutoff_probe()
    ctx.coverage["asan_cutoff_probe"] = probe
    if probe == "overflow":
        ctx.violation("cutoff-apply-cleared-secondary",
                      "InteractionApplier's cut loop calls CutoffView::apply on a cleared "
                      "Secondary{}; in a problem with apply_post_interaction but without positron "
                      "(or gamma/electron) `invalid == ids.positron` holds and energy(invalid id) "
                      "indexes id_to_index out of bounds (CutoffView::get: heap-buffer-overflow "
                      "under ASan) — the deposited energy of that step depends on unrelated heap "
                      "contents",
                      {"asan_replay": "corpus/C01/cutoff_apply_cleared_secondary.cc",
                       "asan_output": ptext,
                       "script": ["problem simple", "slots 8", "postcut 1", "cut gamma 0",
                                  "cut electron 0", "primary gamma 0.003 0 0 0 1 0 0 0 20", "run"]})
    elif probe == "build-failed":
        broken.append("ASan regression replay corpus/C01/cutoff_apply_cleared_secondary.cc does "
                      "not build: " + ptext[-200:])
    n_runs = 20 if quick else 140
    stats = {"runs": 0, "steps": 0, "tracks": 0, "events": 0, "replayed": 0, "skipped": {},
             "verdicts": {}, "mismatch": 0, "oracle_fail": 0, "branches": {}, "configs": []}
    seen_keys = set()
    samples = []
    distinct = set()
    forced = ["mock", "simple", "mock", "mock"]
    pair_checked = 0
    # primaries offered with event id == max_events must be rejected with the documented error
    # (track_counters has max_events entries: accepting the id indexes one past the array)
    for problem in ("simple", "mock"):
        lines = steplog.script(problem, [("gamma", 1.0, [0.0, 0.0, 0.0], [1.0, 0.0, 0.0], 0, 2),
                                         ("gamma", 1.0, [0.0, 0.0, 0.0], [1.0, 0.0, 0.0], 3, 1)],
                               slots=4, maxevents=3, maxsteps=50)
        rc, out = vlib.run_lines([exe], lines)
        verdict = next((l for l in out if l.startswith("R ")), "R <none> rc=%d" % rc)
        ctx.coverage.setdefault("event_id_bound", []).append(verdict[:120])
        if not (verdict.startswith("R exception") and "exceeds max_events" in verdict):
            ctx.violation("event-id-equal-max-events-accepted",
                          "a primary with event id == max_events (3) was not rejected with "
                          "'event number 3 exceeds max_events=3': " + verdict[:160],
                          {"harness": "harness/stepping.cc", "script": lines, "result": verdict})
    tc_runs = init_charge_scenarios() + tracking_cut_scenarios()
    ic_cover = {"init_charge_runs": 0, "primaries": 0, "slots<primaries": 0, "completed": 0}
    tc_cover = {"anti-inflight": 0, "anti-at-init": 0, "matter-inflight": 0, "matter-at-init": 0}
    for i in range(-len(tc_runs), n_runs):
        if i < 0:
            problem, prim, kw = tc_runs[i + len(tc_runs)]
        else:
            problem, prim, kw = gen_config(ctx.rng, quick, forced[i] if i < len(forced) else None)
        if i == 1:   # a deterministic run exercising the cleared-secondary path of the cut loop
            problem, kw = "simple", dict(kw, postcut=1, cuts={"gamma": 0.0, "electron": 0.0},
                                         slots=8, order="none", capacity=4096, stackfactor=3)
            prim = [("gamma", 0.003, [0.0, 0.0, 0.0], [1.0, 0.0, 0.0], 0, 20)]
        lines, rc, log = run_harness(exe, problem, prim, kw)
        stats["runs"] += 1
        verdict = (log.verdict or "no-R-line(rc=%d)" % rc).split()[0]
        stats["verdicts"][verdict] = stats["verdicts"].get(verdict, 0) + 1
        if len(stats["configs"]) < 6:
            stats["configs"].append(" ; ".join(lines[:-1])[:400])
        if log.verdict is None and rc != 0:
            # the real stepping loop crashed on this input: the script is the failing input; the
            # steps logged before the crash are still evaluated below
            ctx.violation("harness-crash", "the real Stepper crashed (rc=%d) on this input" % rc,
                          {"harness": "harness/stepping.cc", "script": lines, "rc": rc,
                           "steps_logged": len(log.steps)})
            log.verdict = "crashed"
            log.errors = [e for e in log.errors if not e.startswith("truncated")]
        if log.verdict is None or log.errors:
            ctx.violation("harness-run", "stepping harness aborted or rejected a directive",
                          {"script": lines, "rc": rc, "errors": log.errors[:5]}, found_input=False)
            continue
        along = kw.get("along", "neutral")
        if kw.get("order") == "init_charge" and i < 0:
            npr = sum(p[5] for p in prim)
            ic_cover["init_charge_runs"] += 1
            ic_cover["primaries"] += npr
            ic_cover["slots<primaries"] += 1 if kw["slots"] < npr else 0
            ic_cover["completed"] += 1 if log.verdict == "done" else 0
        for s_ in log.steps:
            if s_.act == log.q["tracking-cut"] and s_.st[4] == "k":
                tc_cover[("anti" if log.particles[s_.pid]["anti"] else "matter")
                         + ("-at-init" if s_.st[1] == "e" else "-inflight")] += 1
        # ---- (b) impl-side oracle
        fails, cnt = oracle(log)
        for k in ("steps", "tracks", "events"):
            stats[k] += cnt[k]
        for kind, d in fails:
            stats["oracle_fail"] += 1
            key = "oracle:" + kind
            if key in seen_keys:
                continue
            seen_keys.add(key)
            ctx.violation(key, "real Stepper: energy ledger violated (%s), residual %r > %r"
                          % (kind, d.get("residual"), d.get("tolerance")),
                          {"harness": "harness/stepping.cc", "script": lines, "detail": d})
        # ---- (a) model reproduces every replayable step bit-for-bit
        if ps["model_ok"]:
            ops, exps, refs = [], [], []
            cur_mat = None
            for s in log.steps:
                op, exp = step_op(log, s, along)
                if op is None:
                    stats["skipped"][exp] = stats["skipped"].get(exp, 0) + 1
                    continue
                if s.mat != cur_mat:
                    ops.append(ptable_line(log, s.mat))
                    exps.append(None)
                    refs.append(None)
                    cur_mat = s.mat
                ops.append(op)
                exps.append(exp)
                refs.append(s)
            if ops:
                _, om = vlib.run_lines([model], ops)
                for j, (op, exp) in enumerate(zip(ops, exps)):
                    got = om[j] if j < len(om) else "<missing>"
                    if exp is None:
                        continue
                    stats["replayed"] += 1
                    tag = op.split("|")[-1].split()[0] + ":" + exp.split()[2] + ":" \
                        + op.split("|")[1].split()[4]
                    stats["branches"][tag] = stats["branches"].get(tag, 0) + 1
                    distinct.add(op)
                    if len(samples) < 3 and "interact" in op:
                        samples.append({"op": op, "impl": exp, "model": got})
                    if got != exp:
                        stats["mismatch"] += 1
                        if "model-mismatch" not in seen_keys:
                            seen_keys.add("model-mismatch")
                            broken.append("correspondence: ledger model and real step differ "
                                          "(first: %s)" % op[:80])
                            ctx.notes.append({"first_model_mismatch": {"op": op, "impl": exp,
                                                                       "model": got,
                                                                       "ptable": ptable_line(
                                                                           log, refs[j].mat),
                                                                       "script": lines}})
        # ---- recording adapters do not perturb: v-variant == stock variant, line by line
        if problem == "mock" and along in ("vlinear", "vfluct") and pair_checked < (3 if quick else 12):
            pair_checked += 1
            kw2 = dict(kw, along="linear" if along == "vlinear" else "fluct")
            _, _, log2 = run_harness(exe, problem, prim, kw2)
            a = [(s.it, s.slot, s.hx["e1"], s.hx["dep"], s.st, s.hx["step"], tuple(s.hx["secs"]))
                 for s in log.steps]
            b = [(s.it, s.slot, s.hx["e1"], s.hx["dep"], s.st, s.hx["step"], tuple(s.hx["secs"]))
                 for s in log2.steps]
            if a != b:
                broken.append("recording along-step variant differs from the stock action")
                ctx.notes.append({"v_vs_stock": {"script": lines,
                                                 "first": next(((x, y) for x, y in zip(a, b)
                                                                if x != y), None),
                                                 "len": [len(a), len(b)]}})
    if ic_cover["completed"] < 4 or ic_cover["slots<primaries"] < 4:
        ctx.violation("coverage-init-charge", "the init_charge scenarios (more mixed neutral/charged "
                      "primaries than slots) no longer run to completion", {"counters": ic_cover},
                      found_input=False)
    if min(tc_cover.values()) == 0:
        ctx.violation("coverage-tracking-cut", "no step went through the real tracking-cut action "
                      "for: " + ", ".join(k for k, v in tc_cover.items() if v == 0),
                      {"tracking_cut_steps": tc_cover}, found_input=False)
    if broken and not ctx.violations:
        ctx.violation("unproved", "; ".join(broken)[:600], {"no_longer_checks": broken},
                      found_input=False)
    if not quick and ps["build"]["ok"]:
        common.leanchecker(ctx, ["CelerVerif.Props.C01"])
    ctx.assumptions += [
        "theorems are about the real-number reading of Model/Ledger.lean; the same definitions at "
        "Float reproduce e1, deposition, fate and secondaries of every replayed step bit-for-bit",
        "0 <= mean loss <= E (calc_mean_energy_loss, property C14) and 0 <= sampled loss; the "
        "interactor conserves K_in + 2mc²[antiparticle absorbed] = K_out + edep + Σ(K_s + "
        "2mc²[s antiparticle]) and returns energy 0 when absorbing (property C04); both contracts "
        "are asserted on every recorded oracle answer",
        "ledger term named lostRest: an antiparticle that ranges out with no at-rest process is "
        "killed by ElossApplier with only its kinetic energy deposited (2mc² not accounted)",
        "NOT covered: uniform/RZ-field propagation and Urban MSC in the along-step, real EM "
        "physics tables (no Geant4 data in this image); problems limited to SimpleTestBase and the "
        "extended MockTestBase; device code paths",
    ]
    ctx.coverage.update({
        "evaluations": stats["steps"] + stats["replayed"],
        "distinct_nontrivial": len(distinct),
        "rule": "distinct = distinct model op lines (pre-step energy + recorded oracle inputs + post "
                "action) replayed through the Lean model; every one exercises at least the "
                "ElossApplier or a post action; oracle evaluated on every step/track/event",
        "runs": stats["runs"], "steps_checked_by_oracle": stats["steps"],
        "tracking_cut_steps(real TrackingCutExecutor)": tc_cover,
        "init_charge_scenarios": ic_cover,
        "tracks_completed": stats["tracks"], "events_completed": stats["events"],
        "steps_replayed_through_model": stats["replayed"], "model_mismatches": stats["mismatch"],
        "not_replayable": stats["skipped"], "run_verdicts": stats["verdicts"],
        "branch_mix(post:fate:eloss-kind)": dict(sorted(stats["branches"].items())),
        "oracle_failures": stats["oracle_fail"], "samples": samples,
        "sample_configs": stats["configs"], "correspondence_broken": broken,
        "explanation": "proof on the ledger model + bit-exact replay of recorded steps + residual "
                       "oracle; field/MSC/real-EM variants not buildable here (see assumptions)",
    })
    return LEVEL


def replay(ctx, data):
    r = data["replay"]
    exe, log_b, _ = vlib.build_harness("stepping", HARNESS["stepping"])
    if "script" in r:
        rc, out = vlib.run_lines([exe], r["script"])
        log = steplog.parse(out)
        fails, cnt = oracle(log)
        print("verdict:", log.verdict, "steps:", cnt, "oracle failures:", len(fails))
        for kind, d in fails[:5]:
            print(kind, d)
    if r.get("asan_replay"):
        src = os.path.join(vlib.VERIF, r["asan_replay"])
        inc, cxx, ld = vlib.harness_flags(HARNESS["stepping"], san=True)
        tmp = "/tmp/build-c01-replay"
        os.makedirs(tmp, exist_ok=True)
        rc, out = vlib.sh(["g++"] + cxx + inc + [src, "-o", tmp + "/cutprobe"] + ld, timeout=900)
        print(out[-1500:])
        if rc == 0:
            rc, out = vlib.sh([tmp + "/cutprobe"], env={"ASAN_OPTIONS": "detect_leaks=0"})
            print(out[:2500])
    return 0
