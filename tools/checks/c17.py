"""C17 — user scoring receives exactly the steps that happened."""
import os
import struct
from concurrent.futures import ThreadPoolExecutor

import vlib
from checks import common

LEVEL = "proof"
LIBS = ["corecel", "geocel", "orange", "celeritas", "testcel_harness", "testcel_core",
        "testcel_geocel", "testcel_orange", "testcel_celeritas"]
HARNESS = {"gather": LIBS}
MANIFEST = {
    "category": "proof",
    "technique": "Lean 4 proof over a hand-written executable model of StepGatherExecutor / "
                 "StepParams / copy_steps / SimpleCalo / Action- and StepDiagnostic (slot-local "
                 "case analysis, list induction, law-free fold for floating-point tallies); "
                 "field inventories and TrackStatus regenerated from the source; differential "
                 "correspondence inside a real Stepper (H3) + impl-side evaluation of the "
                 "theorem statements on the dumps",
    "text": "Theorems for every number of slots/steps/callbacks, every selection, detector map "
            "and filter setting, every stale content of the step state and every value type: a "
            "slot is delivered (valid track id, and valid detector id when detectors are in use) "
            "iff it is active and passes the declared filters; every callback gets exactly one "
            "view per step and the compaction contains every delivered slot exactly once in slot "
            "order; selected fields equal the track state at the two step points; a calorimeter "
            "tally is the left fold of the delivered deposits per detector (exact for IEEE "
            "doubles), per step and over a run; action/step diagnostic counters grow by the "
            "number of valid / killed steps per (particle, action / step-count bin) and equal the "
            "counts of delivered steps of an unfiltered collector; the result is independent of "
            "the thread->slot permutation.  Correspondence: independent reader actions at "
            "user_pre/user_post dump the core state per slot, the model turns the readings into "
            "what each callback must receive and into the calorimeter/diagnostic outputs, exact "
            "diff against the real StepCollector+callbacks, SimpleCalo, ActionDiagnostic, "
            "StepDiagnostic on SimpleTestBase and MockTestBase problems, all track orders, 1-3 "
            "streams.",
    "design_ref": "DESIGN.md §6 C17",
    "note": "Hypotheses (compiled-out assertions / loop invariants, all evaluated on every dump): "
            "an active slot has a valid track id; action ids < number of actions; a slot active at "
            "user_pre is active at user_post. Problems are the Geant4-free fixtures only. "
            "Device (GPU) copy_steps/gather kernels are not built here.",
}

ORDERS = ["none", "none", "init_charge", "shuffle", "status", "particle", "along", "steplimit",
          "both"]
NVOL = {"simple": 3, "mock": 5}


def f64(h):
    return struct.unpack(">d", bytes.fromhex(h))[0]


# --------------------------------------------------------------------------- generators
def gen_selmask(rng):
    k = rng.below(6)
    if k == 0:
        return 0x1FFFF
    if k == 1:
        return 1 << rng.below(17)
    if k == 2:
        return rng.below(1 << 17) | (1 << rng.below(17))
    if k == 3:
        return 0x1FC00 | rng.below(1 << 10)          # step fields + random points
    if k == 4:
        return rng.below(1 << 10) or 1               # points only
    return 0x10000 | rng.below(1 << 17)              # always with edep


def gen_detmap(rng, prob, used, kind, ndet_cap=None):
    """kind: none | some | all ; returns list of (vol, det) over volumes not in `used`"""
    vols = [v for v in range(NVOL[prob]) if v not in used]
    if kind == "none" or not vols:
        return []
    if kind == "some":
        rng.shuffle(vols)
        vols = vols[:rng.range(1, max(1, len(vols) - 1))]
    out = []
    for v in sorted(vols):
        d = rng.below(ndet_cap) if ndet_cap else rng.below(6)
        out.append((v, d))
    return out


def fmt_detmap(dm):
    return ",".join("%d>%d" % kv for kv in dm) if dm else "-"


def gen_callbacks(rng, prob):
    """1..3 callbacks of a consistent family (no detectors / detectors), occasionally an
    inconsistent one (validate errors are part of the modelled constructor)."""
    n = rng.range(1, 3)
    mode = rng.choice(["none", "some", "some", "all", "calo", "calo"])
    if rng.chance(1, 14):
        mode = "bad"
    cbs = []
    if mode == "none":
        for _ in range(n):
            cbs.append("raw:%x:-:%d" % (gen_selmask(rng), rng.below(2)))
    elif mode in ("some", "all"):
        used = set()
        nz_all = rng.chance(1, 2)
        for j in range(n):
            dm = gen_detmap(rng, prob, used, mode if j == 0 else "some")
            if not dm:
                break
            used |= {v for v, _ in dm}
            nz = 1 if nz_all or rng.chance(1, 3) else 0
            kind = rng.choice(["raw", "det"])
            sel = gen_selmask(rng)
            if nz_all or rng.chance(1, 2):
                sel |= 0x10000
            cbs.append("%s:%x:%s:%d" % (kind, sel, fmt_detmap(dm), nz))
    elif mode == "calo":
        # one SimpleCalo, optionally together with recorders whose detector ids stay inside the
        # calorimeter's range (ids outside it are an out-of-bounds write in the release build)
        vols = list(range(1, NVOL[prob])) if prob == "mock" else list(range(NVOL[prob]))
        rng.shuffle(vols)
        k = rng.range(1, max(1, len(vols) - 1))
        cvols = vols[:k]
        cbs.append("calo:" + ",".join(map(str, cvols)))
        used = set(cvols)
        for _ in range(n - 1):
            dm = gen_detmap(rng, prob, used, "some", ndet_cap=len(cvols))
            if not dm:
                break
            used |= {v for v, _ in dm}
            cbs.append("%s:%x:%s:%d" % (rng.choice(["raw", "det"]), gen_selmask(rng) | 0x10000,
                                        fmt_detmap(dm), rng.below(2)))
        rng.shuffle(cbs)
    else:
        k = rng.below(3)
        if k == 0:      # mixing
            cbs = ["raw:%x:-:0" % gen_selmask(rng), "raw:%x:0>0:0" % gen_selmask(rng)]
            if rng.chance(1, 2):
                cbs.reverse()
        elif k == 1:    # duplicate volume
            cbs = ["raw:%x:0>0,1>1:0" % gen_selmask(rng), "det:%x:1>2:1" % gen_selmask(rng)]
        else:           # empty selection
            cbs = ["raw:%x:-:0" % gen_selmask(rng), "raw:0:-:0"]
            if rng.chance(1, 2):
                cbs.reverse()
    return cbs


def gen_disagree(rng, quick):
    """2-3 detector callbacks on disjoint volumes of the mock problem (inner, middle, outer,
    world all mapped) whose nonzero_energy_deposition flags DISAGREE; gamma primaries and
    stopped/vacuum steps give zero-deposit steps in every volume, so the collector must deliver
    them (the filter applies only if ALL callbacks ask for it)."""
    vols = [1, 2, 3, 4]
    rng.shuffle(vols)
    n = rng.range(2, 3)
    cuts = sorted({rng.range(1, 3) for _ in range(n - 1)})
    parts, a = [], 0
    for c in cuts + [4]:
        if c > a:
            parts.append(sorted(vols[a:c]))
            a = c
    if len(parts) < 2:
        parts = [sorted(vols[:2]), sorted(vols[2:])]
    flags = [rng.below(2) for _ in parts]
    if len(set(flags)) == 1:
        flags[rng.below(len(flags))] ^= 1
    cbs, d = [], 0
    for vs, f in zip(parts, flags):
        dm = []
        for v in vs:
            dm.append((v, d))
            d += 1
        cbs.append("%s:%x:%s:%d" % (rng.choice(["raw", "raw", "det"]), gen_selmask(rng) | 0x10000,
                                    fmt_detmap(dm), f))
    slots = rng.choice([2, 4, 6, 8])
    return ("run prob=mock slots=%d prims=%d seed=%d events=%d streams=%d order=%s maxsteps=%d "
            "warm=%d adiag=%d sdiag=%d cbs=%s" % (
                slots, rng.range(slots, 2 * slots), rng.below(1 << 30), rng.choice([1, 2]),
                rng.choice([1, 1, 2]), rng.choice(ORDERS), 12 if quick else 40, rng.below(2),
                rng.below(2), rng.choice([0, 3]), ";".join(cbs)))


def gen_scenario(rng, quick):
    prob = rng.choice(["mock", "mock", "simple"])
    slots = rng.choice([1, 2, 3, 4, 6, 8, rng.range(1, 12)])
    prims = rng.choice([1, 2, slots, slots + 1, rng.range(1, 2 * slots + 2)])
    streams = rng.choice([1, 1, 1, 2, 3])
    events = rng.choice([1, 1, 2]) if streams > 1 else rng.choice([1, 2, 3])
    maxsteps = rng.choice([6, 12, 25]) if quick else rng.choice([10, 30, 60])
    # slots == 1 with the action diagnostic is the known single-slot defect (dedicated probe)
    adiag = rng.below(2) if slots != 1 else 0
    return ("run prob=%s slots=%d prims=%d seed=%d events=%d streams=%d order=%s maxsteps=%d "
            "warm=%d adiag=%d sdiag=%d cbs=%s" % (
                prob, slots, min(prims, 40), rng.below(1 << 30), events, streams,
                rng.choice(ORDERS), maxsteps, rng.below(2), adiag,
                rng.choice([0, 0, 1, 3, 8]), ";".join(gen_callbacks(rng, prob))))


# --------------------------------------------------------------------------- running
def _run_lines_retry(args, lines, **kw):
    """another check may be relinking a shared library of the common build tree at this very
    moment (`file too short` / `cannot open shared object`): wait and retry"""
    import time as _t
    for _ in range(12):
        rc, out = vlib.run_lines(args, lines, **kw)
        if not any("error while loading shared libraries" in l for l in out[:3]):
            return rc, out
        _t.sleep(5)
    return rc, out


HASHLINES = {}      # scenario line -> the harness' `# …` side-channel lines (oracle only)


def run_harness(exe, line):
    rc, out = _run_lines_retry([exe], [line], env={"CELER_LOG_LOCAL": "error"}, timeout=600)
    I = [l[2:] for l in out if l.startswith("I ")]
    O = [l[2:] for l in out if l.startswith("O ")]
    other = [l for l in out if not l.startswith(("I ", "O ", "#"))]
    HASHLINES[line] = [l for l in out if l.startswith("# ")]
    return I, O, other


# --------------------------------------------------------------------------- impl-side oracle
def parse_kv(words):
    return dict(w.split("=", 1) for w in words if "=" in w)


def parse_ids(s):
    return None if s == "-" else [None if x == "x" else int(x, 16) for x in s.split(",")]


def parse_view(txt):
    kv = parse_kv(txt.split())
    return kv


def cb_specs(line):
    kv = parse_kv(line.split())
    out = []
    for c in kv["cbs"].split(";"):
        f = c.split(":")
        if f[0] == "calo":
            vols = [int(x) for x in f[1].split(",")]
            dm = {}
            for i, v in enumerate(vols):
                dm[v] = i
            out.append({"kind": "c", "sel": 0x10008, "dets": dm, "nz": True, "n": len(vols)})
        else:
            dm = {} if f[2] == "-" else {int(a): int(b) for a, b in
                                         (w.split(">") for w in f[2].split(","))}
            out.append({"kind": f[0][0], "sel": int(f[1], 16), "dets": dm, "nz": f[3] == "1"})
    return out


PRE_F = ["vol", "out", "time", "px", "py", "pz", "dx", "dy", "dz", "energy"]
POST_F = ["tid", "ev", "par", "nst", "act", "len", "ptc", "edep"] + PRE_F + ["status"]
# (bit, raw-view key, reading key(s)) for step fields; ids compared as printed
STEP_BITS = [(10, "ev", "ev"), (11, "par", "par"), (12, "nst", "nst"), (13, "act", "act"),
             (14, "len", "len"), (15, "ptc", "ptc"), (16, "edep", "edep")]


def point_expect(rd):
    return {"t": rd["time"], "p": ":".join([rd["px"], rd["py"], rd["pz"]]),
            "d": ":".join([rd["dx"], rd["dy"], rd["dz"]]),
            "v": "x" if rd["out"] == "1" else rd["vol"], "e": rd["energy"]}


ORACLE_STATS = {"delivered_slots": 0, "filtered_active_slots": 0,
                "disagreeing_flag_scenarios": 0,
                "zero_deposit_steps_due_under_disagreeing_flags": 0,
                "zero_deposit_steps_in_volume_of_flag_false_callback": 0,
                "empty_batches_right_after_nonempty": 0, "compacted_batches": 0,
                "action_map_entries": 0, "action_map_pairs_with_count_1": 0}


def oracle(line, I, O):
    """The property's own statements evaluated on the dumps of the REAL code (independent of
    the Lean model).  Returns list of (index, key, message)."""
    bad = []
    specs = cb_specs(line)
    if not O or not O[0].startswith("params ok"):
        return bad
    pk = parse_kv(O[0].split())
    sel = int(pk["sel"], 16)
    det_tbl = parse_ids(pk["det"])
    nz_reported = pk["nz"] == "1"
    # what the collector must do follows from the DECLARED per-callback filters alone
    # (StepInterface.hh: detectors = union of the maps; zero-deposit steps are dropped only if
    # ALL callbacks ask for it) — nothing below trusts the parameters the code reports
    want_sel = 0
    for s in specs:
        want_sel |= s["sel"]
    if sel != want_sel:
        bad.append((0, "selection-union", f"gathered selection {sel:#x} is not the union {want_sel:#x}"))
    want_det = {}
    for s in specs:
        want_det.update(s["dets"])
    has_det = bool(want_det)
    nz = has_det and all(s["nz"] for s in specs)
    disagree = has_det and len({s["nz"] for s in specs}) > 1
    owner = {}
    for j, s in enumerate(specs):
        for v in s["dets"]:
            owner[v] = j
    if has_det != (det_tbl is not None):
        bad.append((0, "detector-map", "detectors declared but no detector table (or vice versa)"))
    if det_tbl is not None:
        for v in range(len(det_tbl)):
            if det_tbl[v] != want_det.get(v):
                bad.append((0, "detector-map", f"volume {v} maps to {det_tbl[v]}, declared "
                            f"{want_det.get(v)}"))
    if has_det and nz_reported != nz:
        bad.append((0, "nonzero-filter-merge",
                    f"collector-wide nonzero_energy_deposition is {nz_reported} but the callbacks "
                    f"declared {[s['nz'] for s in specs]}: it must be on only if ALL ask for it"))
    if disagree:
        ORACLE_STATS["disagreeing_flag_scenarios"] += 1
    ck = parse_kv(I[1].split()) if len(I) > 1 else {}
    nact, nptc = int(ck.get("nact", 0)), int(ck.get("nptc", 0))
    sbins = int(ck.get("sbins", 0))
    nstreams = int(ck.get("streams", 1))
    acount = {}
    scount = {}
    prev_batch = {}
    calo = {j: [[0.0] * s["n"] for _ in range(nstreams)] for j, s in enumerate(specs)
            if s["kind"] == "c"}
    for k in range(2, len(I)):
        w = I[k].split()
        if w[0] != "step" or k >= len(O):
            continue
        stream = int(w[1])
        sep = w.index("/")
        pre = [None if x == "-" else dict(zip(PRE_F, x.split(","))) for x in w[2:sep]]
        post = [None if x == "-" else dict(zip(POST_F, x.split(","))) for x in w[sep + 1:]]
        n = len(post)
        for i in range(n):
            if (pre[i] is None) != (post[i] is None):
                bad.append((k, "activity-changed-within-step",
                            f"slot {i} active at user_pre != active at user_post"))
            if post[i] is not None and post[i]["tid"] == "x":
                bad.append((k, "active-without-track-id", f"slot {i}"))
        # expected delivered set from the readings and the declared filters
        expect = []
        for i in range(n):
            q, r = post[i], pre[i]
            ok = q is not None
            zero = ok and f64(q["edep"]) == 0.0
            if ok and has_det:
                ok = (r is not None and r["vol"] != "x" and int(r["vol"], 16) in want_det
                      and not (nz and zero))
            expect.append(ok)
            if ok:
                ORACLE_STATS["delivered_slots"] += 1
                if disagree and zero:
                    ORACLE_STATS["zero_deposit_steps_due_under_disagreeing_flags"] += 1
                    if not specs[owner[int(r["vol"], 16)]]["nz"]:
                        ORACLE_STATS["zero_deposit_steps_in_volume_of_flag_false_callback"] += 1
            elif q is not None:
                ORACLE_STATS["filtered_active_slots"] += 1
        views = [v.strip() for v in O[k].split(" | ")[1:]]
        if len(views) != len(specs):
            bad.append((k, "callback-count", f"{len(views)} views for {len(specs)} callbacks"))
            continue
        first_raw = None
        for j, (s, v) in enumerate(zip(specs, views)):
            vw = v.split()
            if s["kind"] == "c":
                # tallies: left fold of the delivered deposits per detector, in slot order
                tl = calo[j][stream]
                for i in range(n):
                    if expect[i] and has_det:
                        d = want_det[int(pre[i]["vol"], 16)]
                        if d < len(tl):
                            tl[d] = tl[d] + f64(post[i]["edep"])
                tot = [0.0] * s["n"]
                for st in range(nstreams):
                    tot = [a + b for a, b in zip(tot, calo[j][st])]
                got = [f64(x) for x in vw[1:]]
                if got != tot:
                    bad.append((k, "calo-not-sum-of-delivered",
                                f"callback {j}: tally {got} expected {tot}"))
                continue
            if vw[1] != "k=1":
                bad.append((k, "callback-not-called-once", f"callback {j}: {vw[1]}"))
            kv = parse_kv(vw[2:])
            if s["kind"] == "r":
                if vw[2] == "=":
                    kv = first_raw
                elif first_raw is None:
                    first_raw = kv
                tid = parse_ids(kv["tid"])
                det = parse_ids(kv["det"])
                for i in range(n):
                    got = tid[i] is not None and (det is None or det[i] is not None)
                    if got != expect[i]:
                        key, extra = "delivered-iff", ""
                        if has_det and post[i] is not None and f64(post[i]["edep"]) == 0.0 \
                                and pre[i] is not None and int(pre[i]["vol"], 16) in want_det:
                            v_ = int(pre[i]["vol"], 16)
                            o_ = owner[v_]
                            if expect[i]:
                                key = "zero-deposit-step-not-delivered"
                                extra = (f": callback {o_} with nonzero_energy_deposition="
                                         f"{specs[o_]['nz']} did not receive a zero-deposit step "
                                         f"in its detector volume {v_} (flags {[x['nz'] for x in specs]})")
                            else:
                                key = "zero-deposit-step-delivered-despite-filter"
                                extra = f": all callbacks asked for the non-zero filter (volume {v_})"
                        bad.append((k, key, f"callback {j} slot {i}: delivered={got} "
                                    f"expected {expect[i]}" + extra))
                    if not got:
                        continue
                    q, r = post[i], pre[i]
                    if tid[i] != int(q["tid"], 16):
                        bad.append((k, "field-track_id", f"slot {i}"))
                    for bit, key, rk in STEP_BITS:
                        if sel >> bit & 1:
                            gv = kv[key].split(",")[i]
                            ev = q[rk]
                            if key in ("nst",):
                                same = int(gv, 16) == int(ev, 16)
                            else:
                                same = gv == ev
                            if not same:
                                bad.append((k, "field-" + key, f"callback {j} slot {i}: {gv} != {ev}"))
                    for pi, rd in ((0, r), (1, q)):
                        if rd is None:
                            continue
                        pe = point_expect(rd)
                        for b, key in enumerate(["t", "p", "d", "v", "e"]):
                            if sel >> (5 * pi + b) & 1:
                                gv = kv[key + str(pi)].split(",")[i]
                                if gv != pe[key]:
                                    bad.append((k, "field-%s%d" % (key, pi),
                                                f"callback {j} slot {i}: {gv} != {pe[key]}"))
            else:   # compacted view (the harness re-uses ONE output object per stream)
                idx = [i for i in range(n) if expect[i]]
                ORACLE_STATS["compacted_batches"] += 1
                if not idx and prev_batch.get((j, stream), 0) > 0:
                    ORACLE_STATS["empty_batches_right_after_nonempty"] += 1
                    if int(kv["n"]) != 0:
                        bad.append((k, "stale-hits-redelivered",
                                    f"compacting callback {j}: no slot is due in this iteration but "
                                    f"{kv['n']} hits were delivered — the previous iteration's "
                                    f"{prev_batch[(j, stream)]} hits are still in the re-used output"))
                prev_batch[(j, stream)] = len(idx)
                if int(kv["n"]) != len(idx):
                    zmiss = [i for i in idx if f64(post[i]["edep"]) == 0.0]
                    if disagree and int(kv["n"]) < len(idx) and zmiss:
                        v_ = int(pre[zmiss[0]]["vol"], 16)
                        bad.append((k, "zero-deposit-step-not-delivered",
                                    f"compacting callback {j} received {kv['n']} of {len(idx)} due "
                                    f"steps; {len(zmiss)} of them are zero-deposit steps, e.g. slot "
                                    f"{zmiss[0]} in detector volume {v_} of callback {owner[v_]} "
                                    f"(nonzero_energy_deposition={specs[owner[v_]]['nz']}; flags "
                                    f"{[x['nz'] for x in specs]})"))
                    else:
                        bad.append((k, "compaction-size", f"callback {j}: {kv['n']} != {len(idx)}"))
                    continue
                if idx:
                    tids = parse_ids(kv["tid"])
                    want = [int(post[i]["tid"], 16) for i in idx]
                    if tids != want:
                        bad.append((k, "compaction-order", f"callback {j}: {tids} != {want}"))
                    if sel >> 16 & 1:
                        ed = kv["edep"].split(",")
                        if ed != [post[i]["edep"] for i in idx]:
                            bad.append((k, "compaction-edep", f"callback {j}"))
                    dets = parse_ids(kv["det"])
                    if dets != [want_det[int(pre[i]["vol"], 16)] for i in idx]:
                        bad.append((k, "compaction-detector", f"callback {j}"))
        # diagnostics: counted steps
        for i in range(n):
            q = post[i]
            if q is None:
                continue
            st = int(q["status"])
            if st not in (0, 3) and q["ptc"] != "x" and q["act"] != "x":
                key = (int(q["ptc"], 16), int(q["act"], 16))
                acount[key] = acount.get(key, 0) + 1
            if st == 4 and sbins:
                key = (int(q["ptc"], 16), min(int(q["nst"], 16), sbins - 1))
                scount[key] = scount.get(key, 0) + 1
    if I and I[-1] == "end" and len(O) == len(I):
        parts = [p.strip() for p in O[-1].split(" | ")[1:]]
        for ptxt in parts:
            w = ptxt.split()
            if w[0] == "a":
                got = [int(x) for x in w[1:]]
                want = [acount.get((p, a), 0) for p in range(nptc) for a in range(nact)]
                if got != want:
                    one = int(ck.get("slots", 0)) == 1
                    bad.append((len(I) - 1, "action-diagnostic-skipped-single-slot" if one
                                else "action-diagnostic-counts",
                                f"ActionDiagnostic totals sum to {sum(got)} but {sum(want)} valid "
                                "steps were taken (per (particle, action) counts differ)"
                                + (" — with one track slot ActionSequence::step skips every "
                                   "order-`post` action whose id is not the slot's post-step "
                                   "action, so the diagnostic never runs" if one else "")))
                # the string-keyed accessor must list exactly the non-zero (action, particle)
                # pairs — including those that occurred once — with the counts of the steps taken
                hl = {l.split()[1]: l.split()[2:] for l in HASHLINES.get(line, []) if len(l.split()) > 1}
                if "amap" in hl and "alabels" in hl and "plabels" in hl:
                    amap = {}
                    for ent in hl["amap"]:
                        kk, vv = ent.rsplit("=", 1)
                        amap[kk] = int(vv)
                    al, pl = hl["alabels"], hl["plabels"]
                    want_map = {f"{al[a]}~{pl[p]}": n_ for (p, a), n_ in acount.items()
                                if n_ > 0 and a < len(al) and p < len(pl)}
                    from_arr = {f"{al[a]}~{pl[p]}": got[p * nact + a] for p in range(nptc)
                                for a in range(nact) if got[p * nact + a] > 0}
                    ORACLE_STATS["action_map_entries"] += len(want_map)
                    ORACLE_STATS["action_map_pairs_with_count_1"] += sum(1 for v_ in want_map.values() if v_ == 1)
                    one = int(ck.get("slots", 0)) == 1
                    if amap != want_map and not (one and not amap):
                        miss = sorted(set(want_map) - set(amap))
                        wrong = sorted(k_ for k_ in amap if want_map.get(k_) != amap[k_])
                        bad.append((len(I) - 1, "action-map-differs-from-step-counts",
                                    "ActionDiagnostic::calc_actions_map() differs from the delivered-step "
                                    f"counts per (action, particle): missing {[(m_, want_map[m_]) for m_ in miss][:5]}"
                                    f", wrong {[(w_, amap[w_], want_map.get(w_)) for w_ in wrong][:5]}"))
                    if amap != from_arr:
                        miss = sorted(set(from_arr) - set(amap))
                        bad.append((len(I) - 1, "action-map-differs-from-calc-actions",
                                    "calc_actions_map() is not the non-zero part of calc_actions(): "
                                    f"missing {[(m_, from_arr[m_]) for m_ in miss][:5]}"))
            elif w[0] == "s":
                got = [int(x) for x in w[1:]]
                want = [scount.get((p, b), 0) for p in range(nptc) for b in range(sbins)]
                if got != want:
                    bad.append((len(I) - 1, "step-diagnostic-counts", "totals differ from the "
                                "number of killed tracks per (particle, step bin)"))
    return bad


def model_agrees(I, O):
    """the Lean model driven with the same readings must reproduce the real outputs exactly —
    including the WRONG tallies / missing counts of the two known defects"""
    _, om = vlib.run_lines([vlib.model_exe("C17")], I, timeout=600)
    return vlib.first_diff(O, om)


PROBE_DIVERGED = []


def single_slot_probe(ctx, exe, rng):
    """ActionDiagnostic on a state with ONE track slot (host): ActionSequence::step's
    skip_post_action skips it on every step."""
    line = ("run prob=simple slots=1 prims=2 seed=%d events=1 streams=1 order=none maxsteps=8 "
            "warm=0 adiag=1 sdiag=0 cbs=raw:1ffff:-:0" % rng.below(1 << 20))
    I, O, _ = run_harness(exe, line)
    d = model_agrees(I, O)
    if d is not None:
        PROBE_DIVERGED.append({"scenario": line, "op_index": d[0], "impl": d[1][:400], "model": d[2][:400]})
    for k, key, msg in oracle(line, I, O):
        if key.startswith("action-diagnostic"):
            ctx.violation(
                "action-diagnostic-skipped-single-slot",
                "ActionDiagnostic counts nothing when the state has a single track slot: " + msg,
                {"harness": "harness/gather.cc", "ops": [line], "totals": O[-1] if O else "",
                 "contradicts": "C17: action diagnostics equal the counts of delivered steps "
                                "(Props/C17 action_diagnostic_single_slot_counts_nothing is the "
                                "model-side witness)"})
            break
    return len(I)


def own_volume_calo_probe(ctx, exe, rng):
    """Two SimpleCalo instances on different volumes in one StepCollector: the tally of each
    must be the deposits in ITS OWN declared volumes ("restricted only by the declared
    detector-volume filters").  Evaluated against single-calorimeter runs of the same event."""
    seed = rng.below(1 << 20)
    base = "run prob=mock slots=8 prims=16 seed=%d events=2 maxsteps=60 cbs=" % seed

    def total(cbs):
        I, O, _ = run_harness(exe, base + cbs)
        if not O or not O[-1].startswith("end"):
            return None
        d = model_agrees(I, O)
        if d is not None:
            PROBE_DIVERGED.append({"scenario": base + cbs, "op_index": d[0], "impl": d[1][:400],
                                   "model": d[2][:400]})
        return [p.split()[1:] for p in O[-1].split(" | ")[1:]]

    a, b, both = total("calo:2"), total("calo:3"), total("calo:2;calo:3")
    if not a or not b or not both:
        return 0
    if both[0] != a[0] or both[1] != b[0]:
        ctx.violation(
            "two-calorimeters-share-detector-ids",
            "two SimpleCalo callbacks registered in one StepCollector: each calorimeter's tally "
            "contains the other's deposits (SimpleCalo::filters numbers its detectors from 0, "
            "StepParams merges the maps into one shared detector-id array) — middle alone "
            f"{f64(a[0][0])!r} MeV, outer alone {f64(b[0][0])!r} MeV, together {f64(both[0][0])!r} / "
            f"{f64(both[1][0])!r} MeV",
            {"harness": "harness/gather.cc", "ops": [base + "calo:2", base + "calo:3",
                                                     base + "calo:2;calo:3"],
             "alone": [a, b], "together": both,
             "contradicts": "C17: delivery restricted only by the callback's declared "
                            "detector-volume filter; calorimeter tally = its delivered deposits"})
    return 3


# --------------------------------------------------------------------------- main
def run(ctx):
    quick = ctx.quick()
    ps = common.proof_side(ctx, "C17")
    broken = list(ps["broken"])
    ctx.assumptions += [
        "executors are hand-modelled (Model/Gather.lean); TrackStatus values, the selection flag "
        "inventory, the SGL_SET_IF_SELECTED and DS_ASSIGN field lists and the diagnostics' launch "
        "conditions are regenerated from the source on every run and compared by `decide`",
        "theorem hypotheses = compiled-out assertions and loop invariants: active slot has a valid "
        "track id, action id < number of actions, a slot active at user_pre is active at user_post "
        "(all three evaluated on every dumped step)",
        "kernels run sequentially in this build (OpenMP event-level); atomic_add in the calorimeter "
        "is therefore a fold in slot order; with track-level OpenMP the floating-point fold order "
        "is unspecified (the ℝ-sum is still the same)",
        "problems: SimpleTestBase (Compton, no deposits) and MockTestBase (continuous loss); the "
        "Geant4-data problems of the statement's quantifier cannot be built here",
    ]
    exe, log, _ = vlib.build_harness("gather", LIBS)
    if exe is None:
        ctx.violation("harness-build", "harness/gather.cc no longer builds against /repo",
                      {"correspondence": "harness build", "log": log[-2000:]}, found_input=False)
        ctx.coverage.update({"evaluations": 0, "distinct_nontrivial": 0})
        return LEVEL

    scenarios = []
    cdir = os.path.join(vlib.CORPUS, "C17")
    if os.path.isdir(cdir):
        for fn in sorted(os.listdir(cdir)):
            scenarios += [l.strip() for l in open(os.path.join(cdir, fn))
                          if l.strip() and not l.startswith("#")]
    n_corpus = len(scenarios)
    n_gen = 60 if quick else 400
    for _ in range(n_gen):
        scenarios.append(gen_scenario(ctx.rng, quick))
    # fixed (seed-independent) scenarios: compacting callback on one volume only (iterations with
    # hits are followed by iterations without), and short runs whose action map has pairs that
    # occurred exactly once
    scenarios += [
        "run prob=mock slots=3 prims=5 seed=11 events=2 streams=1 order=none maxsteps=30 warm=1 "
        "adiag=1 sdiag=0 cbs=det:1ffff:2>0:1",
        "run prob=mock slots=4 prims=6 seed=5 events=2 streams=2 order=status maxsteps=25 warm=0 "
        "adiag=1 sdiag=3 cbs=det:10001:3>1:0;raw:10000:1>0:0",
        "run prob=simple slots=2 prims=1 seed=1 events=1 streams=1 order=none maxsteps=4 warm=0 "
        "adiag=1 sdiag=0 cbs=raw:1ffff:-:0",
        "run prob=mock slots=2 prims=3 seed=9 events=1 streams=1 order=none maxsteps=6 warm=0 "
        "adiag=1 sdiag=0 cbs=raw:1ffff:-:0",
    ]
    n_dis = 8 if quick else 40
    for _ in range(n_dis):
        scenarios.append(gen_disagree(ctx.rng, quick))

    with ThreadPoolExecutor(max_workers=8) as ex:
        results = list(ex.map(lambda l: run_harness(exe, l), scenarios))

    evals = 0
    distinct = set()
    diverged, oracle_fail = [], []
    stats = {"params_ok": 0, "params_error": 0, "steps": 0, "delivered_slots": 0,
             "filtered_active_slots": 0, "inactive_slots": 0, "exceptions": 0}
    flat, bounds = [], []
    for line, (I, O, other) in zip(scenarios, results):
        if any(o.startswith("exception") for o in other) or not any(o.startswith("done") for o in other):
            stats["exceptions"] += 1
            oracle_fail.append((line, 0, "harness-exception", " ".join(other)[:300]))
        bounds.append((len(flat), len(flat) + len(I)))
        flat += I
    om = []
    if ps["model_ok"]:
        _, om = vlib.run_lines([vlib.model_exe("C17")], flat, timeout=3600)
    else:
        broken.append("model driver did not build")
    for (a, b), line, (I, O, other) in zip(bounds, scenarios, results):
        evals += len(I)
        if O and O[0].startswith("params ok"):
            stats["params_ok"] += 1
        elif O:
            stats["params_error"] += 1
        if ps["model_ok"]:
            d = vlib.first_diff(O, om[a:b])
            if d is not None:
                diverged.append({"scenario": line, "op_index": d[0], "op": I[d[0]][:400] if d[0] < len(I) else "",
                                 "impl": d[1][:600], "model": d[2][:600]})
        for k, key, msg in oracle(line, I, O):
            oracle_fail.append((line, k, key, msg))
        for k in range(2, len(I)):
            w = I[k].split()
            if w[0] != "step":
                continue
            stats["steps"] += 1
            sep = w.index("/")
            act = sum(1 for x in w[sep + 1:] if x != "-")
            stats["inactive_slots"] += len(w) - sep - 1 - act
            if act and k < len(O):
                distinct.add(I[k])
    stats.update(ORACLE_STATS)
    if not oracle_fail:
        for k_, what_ in (("empty_batches_right_after_nonempty",
                           "no compacting callback had an iteration without hits directly after one "
                           "with hits (re-used output object)"),
                          ("action_map_pairs_with_count_1",
                           "no (action, particle) pair occurred exactly once in any run with the "
                           "action diagnostic")):
            if ORACLE_STATS[k_] == 0:
                ctx.violation("coverage:" + k_, what_ + ": the corresponding comparison was not "
                              "exercised", {"stats": dict(ORACLE_STATS)}, found_input=False)
    if diverged:
        broken.append(f"correspondence: model and implementation differ on {len(diverged)} scenarios")

    # within a key, report first the instance the statement is most directly about
    oracle_fail.sort(key=lambda f: 0 if "nonzero_energy_deposition=False did not receive" in f[3] else 1)
    seen = set()
    for line, k, key, msg in oracle_fail:
        if key in seen:
            continue
        seen.add(key)
        ctx.violation("oracle:" + key, f"real step collection violates the property: {msg}",
                      {"harness": "harness/gather.cc", "ops": [line], "op_index": k,
                       "contradicts": "Props/C17 " + key})
    n_probe = own_volume_calo_probe(ctx, exe, ctx.rng)
    n_probe += single_slot_probe(ctx, exe, ctx.rng)
    if PROBE_DIVERGED:
        diverged += PROBE_DIVERGED
        broken.append("correspondence: the model does not reproduce the real outputs of the "
                      f"known-defect probes ({len(PROBE_DIVERGED)} scenarios)")

    if broken and not ctx.violations:
        ctx.violation("unproved", "; ".join(broken)[:600],
                      {"no_longer_checks": broken, "diverging": diverged[:3]}, found_input=False)
    elif diverged and not any(v["key"].startswith("oracle:") for v in ctx.violations):
        ctx.violation("correspondence", f"model and implementation differ on {len(diverged)} "
                      "scenarios; the impl-side oracle found no property violation",
                      {"diverging": diverged[:3]}, found_input=False)

    if not quick and ps["build"]["ok"]:
        common.leanchecker(ctx, ["CelerVerif.Props.C17"])

    ctx.coverage.update({
        "evaluations": evals + n_probe, "distinct_nontrivial": len(distinct),
        "rule": "one evaluation = one protocol op (StepParams construction, or one stepping-loop "
                "iteration of one stream with all its callbacks, or the final totals); "
                "non-trivial = a step with at least one active slot; distinct = distinct reading "
                "lines",
        "scenarios": len(scenarios), "corpus_scenarios": n_corpus, "stats": stats,
        "diverging_scenarios": len(diverged), "oracle_failures": len(oracle_fail),
        "known_defect_probes_reproduced_by_model": not PROBE_DIVERGED,
        "samples": scenarios[n_corpus:n_corpus + 4],
        "correspondence_broken": broken,
    })
    return LEVEL


def replay(ctx, data):
    exe, log, _ = vlib.build_harness("gather", LIBS)
    r = data["replay"]
    rc = 0
    for line in r.get("ops", []):
        I, O, other = run_harness(exe, line)
        print(line)
        if O and O[-1].startswith("end"):
            print("  ", O[-1][:400])
        fails = oracle(line, I, O)
        for k, key, msg in fails[:5]:
            print("   ORACLE", k, key, msg)
            rc = 1
    if data.get("key") == "two-calorimeters-share-detector-ids":
        ends = []
        for line in r["ops"]:
            _, O, _ = run_harness(exe, line)
            ends.append([p.split()[1:] for p in O[-1].split(" | ")[1:]])
        same = ends[2][0] == ends[0][0] and ends[2][1] == ends[1][0]
        print("calorimeters independent" if same else "DISAGREE (violation reproduced)")
        rc = 0 if same else 1
    return rc
