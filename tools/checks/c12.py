"""C12 — Surface primitives are self-consistent; transforms preserve their point sets."""
import math
import struct

import vlib
from checks import common, numself

LEVEL = "proof"
HARNESS = {"surf": ["corecel", "geocel", "orange"], "solids": ["corecel", "geocel", "orange"],
           "numself": ["corecel"]}
MANIFEST = {
    "category": "proof",
    "technique": "Lean 4 proof at ℝ of the Num-generic model (solver roots, ray polynomial of every "
                 "quadric class, intersections sound+complete, sense = sign, translation/rotation "
                 "invariance); same definitions run at Float bit-exactly against the real classes",
    "text": "Model/Surf.lean is written once over a law-free number class: proved at ℝ (every returned "
            "distance is positive and on the surface, none omitted, sorted; sense is the sign of the "
            "surface function; translating a surface keeps the surface function at the translated "
            "point; transform down∘up = id for orthonormal rotations; normal is the scaled gradient) "
            "and executed at Float, where it must reproduce the real QuadraticSolver / 17 surface "
            "classes / Translation / Transformation / SurfaceTranslator bit-for-bit (exact fma "
            "model, self-tested). An impl-side oracle (residual of the surface function at the hit, "
            "bracketing for missed roots, sense before/after transform) searches for failing inputs.",
    "design_ref": "DESIGN.md §6 C12",
    "note": "Proved at ℝ: floating-point rounding is not modelled (the Float run measures it). "
            "Hypotheses: unit direction; leading coefficient a = 0 or |a| >= min_a (inside the band the "
            "code solves the linearised equation by design). Involute (iterative transcendental "
            "solver) is not modelled: covered by oracle only. SurfaceSimplifier/RecursiveSimplifier: "
            "Model/Solids.lean `simplifyStep`/`simplify`, diffed bit-exactly through harness/solids.cc; "
            "theorems `simplifyStep_exact`, `simplifyStep_exact_sense`, `simplifyStep_perturbation`, "
            "`simplify_exact` (exact preservation of the signed surface function up to a positive factor "
            "whenever the soft comparisons are exact; explicit perturbation and bound for the snapping "
            "branches; the soft-equal SQ->sphere/cyl/cone branches have no bound uniform in the point: "
            "known findings of C09). SurfaceTransformer: Model/SurfXform.lean (theorems under C09b).",
}

AXES = "xyz"


def hx(x):
    return "%016x" % struct.unpack("<Q", struct.pack("<d", float(x)))[0]


def fl(s):
    return struct.unpack("<d", struct.pack("<Q", int(s, 16)))[0]


def rnd(rng, scale=10.0):
    k = rng.below(8)
    if k == 0:
        return float(rng.range(-5, 5))
    if k == 1:
        return rng.choice([0.0, 1.0, -1.0, 0.5, 2.0, 1e-6, -1e-6, 1e6])
    return (rng.unit() * 2 - 1) * scale


def rnd_pos(rng, scale=5.0):
    return abs(rnd(rng, scale)) + (0.0 if rng.chance(1, 20) else 1e-3)


def rnd_dir(rng):
    k = rng.below(10)
    if k == 0:
        v = [0.0, 0.0, 0.0]
        v[rng.below(3)] = rng.choice([1.0, -1.0])
        return v
    if k == 1:     # nearly axis-parallel
        v = [(rng.unit() - 0.5) * 1e-6 for _ in range(3)]
        v[rng.below(3)] = 1.0
    else:
        v = [rng.unit() * 2 - 1 for _ in range(3)]
    n = math.sqrt(sum(c * c for c in v)) or 1.0
    return [c / n for c in v]


def gen_surface(rng):
    """(tag, data list) with the same storage order as each class's data()"""
    k = rng.below(9)
    ax = AXES[rng.below(3)]
    if k == 0:
        return "p" + ax, [rnd(rng)]
    if k == 1:
        n = rnd_dir(rng)
        return "p", n + [rnd(rng)]
    if k == 2:
        return "c" + ax + "c", [rnd_pos(rng) ** 2]
    if k == 3:
        return "c" + ax, [rnd(rng), rnd(rng), rnd_pos(rng) ** 2]
    if k == 4:
        return "sc", [rnd_pos(rng) ** 2]
    if k == 5:
        return "s", [rnd(rng), rnd(rng), rnd(rng), rnd_pos(rng) ** 2]
    if k == 6:
        return "k" + ax, [rnd(rng), rnd(rng), rnd(rng), rnd_pos(rng, 2.0) ** 2]
    if k == 7:
        return "sq", [rnd(rng, 2), rnd(rng, 2), rnd(rng, 2), rnd(rng, 3), rnd(rng, 3), rnd(rng, 3),
                      rnd(rng, 5)]
    return "gq", [rnd(rng, 2) for _ in range(6)] + [rnd(rng, 3) for _ in range(3)] + [rnd(rng, 5)]


def quadric(tag, d, p):
    """independent evaluation of the surface function (python floats)"""
    x, y, z = p
    if tag in ("px", "py", "pz"):
        return p[AXES.index(tag[1])] - d[0]
    if tag == "p":
        return d[0] * x + d[1] * y + d[2] * z - d[3]
    if tag in ("cxc", "cyc", "czc", "cx", "cy", "cz"):
        t = AXES.index(tag[1])
        u, v = [i for i in range(3) if i != t]
        if len(tag) == 3:
            return p[u] ** 2 + p[v] ** 2 - d[0]
        return (p[u] - d[0]) ** 2 + (p[v] - d[1]) ** 2 - d[2]
    if tag == "sc":
        return x * x + y * y + z * z - d[0]
    if tag == "s":
        return (x - d[0]) ** 2 + (y - d[1]) ** 2 + (z - d[2]) ** 2 - d[3]
    if tag in ("kx", "ky", "kz"):
        t = AXES.index(tag[1])
        q = [p[i] - d[i] for i in range(3)]
        return sum(q[i] ** 2 for i in range(3) if i != t) - d[3] * q[t] ** 2
    if tag == "sq":
        a, b, c, dd, e, f, g = d
        return a * x * x + b * y * y + c * z * z + dd * x + e * y + f * z + g
    a, b, c, dd, e, f, g, h, i, j = d
    return (a * x * x + b * y * y + c * z * z + dd * x * y + e * y * z + f * z * x + g * x + h * y
            + i * z + j)


def surf_str(tag, d):
    return tag + " " + " ".join(hx(v) for v in d)


def gen_lines(rng, n):
    lines, meta = [], []
    for _ in range(n):
        tag, d = gen_surface(rng)
        pos = [rnd(rng), rnd(rng), rnd(rng)]
        dr = rnd_dir(rng)
        k = rng.below(10)
        if k < 4:
            on = 1.0 if rng.chance(1, 6) else 0.0
            lines.append("isect %s | %s %s" % (surf_str(tag, d), " ".join(map(hx, pos + dr)), hx(on)))
            meta.append(("isect", tag, d, pos, dr, on))
        elif k < 6:
            lines.append("sense %s | %s" % (surf_str(tag, d), " ".join(map(hx, pos))))
            meta.append(("sense", tag, d, pos))
        elif k < 7:
            lines.append("normal %s | %s" % (surf_str(tag, d), " ".join(map(hx, pos))))
            meta.append(("normal", tag, d, pos))
        elif k < 9:
            tra = [rnd(rng), rnd(rng), rnd(rng)]
            lines.append("translate %s | %s" % (surf_str(tag, d), " ".join(map(hx, tra))))
            meta.append(("translate", tag, d, tra))
        else:
            # rotation by a random angle about a random axis + translation
            ax, th = rnd_dir(rng), rng.unit() * 6.283185307179586
            c, s = math.cos(th), math.sin(th)
            x, y, z = ax
            R = [c + x * x * (1 - c), x * y * (1 - c) - z * s, x * z * (1 - c) + y * s,
                 y * x * (1 - c) + z * s, c + y * y * (1 - c), y * z * (1 - c) - x * s,
                 z * x * (1 - c) - y * s, z * y * (1 - c) + x * s, c + z * z * (1 - c)]
            op = rng.choice(["xup", "xdown", "rup", "rdown", "tup", "tdown"])
            tra = [rnd(rng), rnd(rng), rnd(rng)]
            if op in ("tup", "tdown"):
                lines.append("%s %s" % (op, " ".join(map(hx, tra + pos))))
            else:
                lines.append("%s %s" % (op, " ".join(map(hx, R + tra + pos))))
            meta.append((op,))
    return lines, meta


def oracle(ctx, exe, rng, n):
    """impl-side predicates of the property evaluated on the real code:
       (1) each reported distance t > 0 and |f(pos + t dir)| small relative to the scale;
       (2) no positive root strictly nearer (sign change of f on a fine bracket before t);
       (3) sense after translating surface and point equals sense before (away from surface)."""
    lines, meta = [], []
    for _ in range(n):
        tag, d = gen_surface(rng)
        pos = [rnd(rng), rnd(rng), rnd(rng)]
        if rng.chance(1, 2):
            dr = rnd_dir(rng)
            lines.append("isect %s | %s %s" % (surf_str(tag, d), " ".join(map(hx, pos + dr)), hx(0.0)))
            meta.append(("isect", tag, d, pos, dr))
        else:
            tra = [rnd(rng), rnd(rng), rnd(rng)]
            lines.append("translate %s | %s" % (surf_str(tag, d), " ".join(map(hx, tra))))
            meta.append(("translate", tag, d, pos, tra))
    _, out = vlib.run_lines([exe], lines)
    fails = []
    follow, fmeta = [], []
    for l, m, o in zip(lines, meta, out):
        if m[0] == "isect":
            _, tag, d, pos, dr = m
            ts = [fl(w) for w in o.split()]
            f0 = quadric(tag, d, pos)
            scale = sum(abs(v) for v in d) + sum(abs(v) for v in pos) + 1.0
            finite = [t for t in ts if math.isfinite(t)]
            for t in finite:
                p = [pos[i] + t * dr[i] for i in range(3)]
                res = abs(quadric(tag, d, p))
                tol = 1e-6 * scale * scale * (1 + t) * (1 + t)
                if not (t > 0) or res > tol:
                    fails.append(("intersection not on surface / not positive", l, o,
                                  {"t": t, "residual": res, "tol": tol}))
            # missed nearer root: sign change of f before the first reported hit.  Not applied
            # inside the documented band 0 < |a| < min_a = 1e-10 of the leading ray coefficient,
            # where solve_general deliberately solves the linearised equation (the hypothesis
            # `leadOK` of theorem isect_complete); a = quadratic part of f along the direction
            lead = (quadric(tag, d, dr) + quadric(tag, d, [-v for v in dr])) / 2 \
                - quadric(tag, d, [0.0, 0.0, 0.0])
            in_band = 0 < abs(lead) < 1.0001e-10 + 4e-16 * scale
            if abs(f0) > 1e-3 * scale and not in_band:
                tmax = min(finite) if finite else 50.0
                prev, steps = f0, 400
                for k in range(1, steps):
                    t = tmax * k / steps
                    if t >= tmax * (1 - 1e-6):
                        break
                    cur = quadric(tag, d, [pos[i] + t * dr[i] for i in range(3)])
                    if prev * cur < 0 and abs(cur) > 1e-7 * scale and t < tmax * 0.999:
                        fails.append(("positive crossing nearer than reported", l, o,
                                      {"t_cross": t, "first_reported": tmax}))
                        break
                    prev = cur
        else:
            _, tag, d, pos, tra = m
            w = o.split()
            if len(w) < 2:
                fails.append(("translate failed", l, o, {}))
                continue
            ntag, nd = w[0], [fl(v) for v in w[1:]]
            f_old = quadric(tag, d, pos)
            f_new = quadric(ntag, nd, [pos[i] + tra[i] for i in range(3)])
            scale = (sum(abs(v) for v in d) + 1) * (sum(abs(v) for v in pos + tra) + 1) ** 2
            if abs(f_old) > 1e-6 * scale and (f_old > 0) != (f_new > 0):
                fails.append(("sense changes under translation", l, o,
                              {"f_before": f_old, "f_after": f_new, "point": pos, "tra": tra}))
                # confirm with the real calc_sense on both
                follow.append("sense %s | %s" % (surf_str(tag, d), " ".join(map(hx, pos))))
                follow.append("sense %s | %s" % (surf_str(ntag, nd), " ".join(
                    hx(pos[i] + tra[i]) for i in range(3))))
    if follow:
        _, fo = vlib.run_lines([exe], follow)
        for i in range(0, len(fo) - 1, 2):
            if fo[i] != fo[i + 1]:
                fails.append(("real calc_sense differs before/after SurfaceTranslator",
                              follow[i] + "  ||  " + follow[i + 1], fo[i] + " vs " + fo[i + 1], {}))
    return len(lines), fails


def gen_simplify_case(rng):
    """surfaces that SurfaceSimplifier / the quadric converters rewrite: planes, spheres,
    cylinders and cones written as (simple / general) quadrics with arbitrary overall scale"""
    k = rng.below(8)
    sc = rng.choice([1.0, 2.0, -3.0, 0.25, 7.5, -0.5])
    if k == 0:      # plane as sq, non-unit normal, non-zero offset
        n = [rnd(rng, 3) for _ in range(3)]
        if rng.chance(1, 2):
            j = rng.below(3)
            n = [n[i] if i == j else 0.0 for i in range(3)]
        if all(v == 0 for v in n):
            n[0] = 2.0
        return "sq", [0.0, 0.0, 0.0] + n + [rnd(rng, 6)]
    if k == 1:      # sphere as sq
        c = [rnd(rng, 3) for _ in range(3)]
        r2 = rnd_pos(rng) ** 2
        return "sq", [sc, sc, sc] + [-2 * sc * v for v in c] + [sc * (sum(v * v for v in c) - r2)]
    if k == 2:      # axis cylinder as sq
        t = rng.below(3)
        c = [rnd(rng, 3) for _ in range(3)]
        r2 = rnd_pos(rng) ** 2
        sec = [sc if i != t else 0.0 for i in range(3)]
        fst = [-2 * sc * c[i] if i != t else 0.0 for i in range(3)]
        return "sq", sec + fst + [sc * (sum(c[i] ** 2 for i in range(3) if i != t) - r2)]
    if k == 3:      # axis cone as sq
        t = rng.below(3)
        c = [rnd(rng, 3) for _ in range(3)]
        t2 = rnd_pos(rng, 2.0) ** 2
        sec = [sc if i != t else -sc * t2 for i in range(3)]
        fst = [-2 * sec[i] * c[i] for i in range(3)]
        return "sq", sec + fst + [sum(sec[i] * c[i] ** 2 for i in range(3))]
    if k == 4:      # gq without cross terms (-> sq -> ...)
        tag, d = gen_simplify_case(rng) if rng.chance(1, 2) else ("sq", [rnd(rng, 2) for _ in range(7)])
        if tag != "sq":
            return tag, d
        return "gq", d[0:3] + [0.0, 0.0, 0.0] + d[3:6] + [d[6]]
    if k == 5:      # general plane with tiny off-axis components / negative orientation
        j = rng.below(3)
        n = [1e-9 * (rng.unit() - 0.5) if i != j else rng.choice([1.0, -1.0]) for i in range(3)]
        return "p", n + [rnd(rng)]
    return gen_surface(rng)


def simplify_oracle(ctx, n):
    """real SurfaceSimplifier/RecursiveSimplifier (through harness/solids.cc `simplify`): the
    simplified surface with its returned sense must classify points exactly like the original"""
    exe, log, _ = vlib.build_harness("solids", ["corecel", "geocel", "orange"])
    if exe is None:
        return 0, [("solids harness does not build", "", log[-300:], {})]
    rng = ctx.rng
    cases, lines = [], []
    for _ in range(n):
        tag, d = gen_simplify_case(rng)
        sense = rng.choice("+-")
        tol = rng.choice([1e-5, 1e-6, 1e-8])
        cases.append((tag, d, sense))
        lines.append("simplify %s %s %s %s" % (hx(tol), sense, tag, " ".join(hx(v) for v in d)))
    _, out = vlib.run_lines([exe], lines)
    fails = []
    for (tag, d, sense), l, o in zip(cases, lines, out):
        w = o.split()
        if len(w) < 2 or w[0] not in "+-" or not all(len(x) == 16 for x in w[2:]):
            continue            # crash / degenerate answers are C09's business
        nsense, ntag, nd = w[0], w[1], [fl(x) for x in w[2:]]
        flip = (nsense != sense)
        scale = sum(abs(v) for v in d) + 1.0
        nscale = sum(abs(v) for v in nd) + 1.0
        bad = None
        for _ in range(12):
            p = [rnd(rng, 6), rnd(rng, 6), rnd(rng, 6)]
            try:
                f0, f1 = quadric(tag, d, p), quadric(ntag, nd, p)
            except (ValueError, IndexError):
                break
            m = (abs(p[0]) + abs(p[1]) + abs(p[2]) + 1.0) ** 2
            if abs(f0) < 1e-3 * scale * m or abs(f1) < 1e-3 * nscale * m:
                continue
            if ((f0 > 0) != (f1 > 0)) != flip:
                bad = (p, f0, f1)
                break
        if bad:
            fails.append(("sense changes under SurfaceSimplifier", l, o,
                          {"point": bad[0], "f_before": bad[1], "f_after": bad[2],
                           "sense_in": sense, "sense_out": nsense}))
    return len(lines), fails


def run(ctx):
    quick = ctx.quick()
    ps = common.proof_side(ctx, "C12")
    broken = list(ps["broken"])
    ok_num, _ = numself.run(ctx)
    exe, log, _ = vlib.build_harness("surf", HARNESS["surf"])
    if exe is None:
        ctx.violation("harness-build", "harness/surf.cc no longer builds against /repo",
                      {"correspondence": "harness build", "log": log[-2000:]}, found_input=False)
        ctx.coverage.update({"evaluations": 0, "distinct_nontrivial": 0})
        return LEVEL
    n = 20000 if quick else 400000
    lines, meta = gen_lines(ctx.rng, n)
    lines += ["isect zz 1 | 2", "sense s 1 2 | 3", "frob", "", "translate sq 1 2 3 | 1 2 3"]
    diverged = []
    kinds = {}
    distinct = set()
    if ps["model_ok"]:
        _, oh = vlib.run_lines([exe], lines)
        _, om = vlib.run_lines([vlib.model_exe("C12")], lines)
        for i, l in enumerate(lines):
            a = oh[i] if i < len(oh) else "<missing>"
            b = om[i] if i < len(om) else "<missing>"
            k = (l.split() or ["empty"])[0] + ":" + ((l.split() + ["", ""])[1] if l.split() else "")
            kinds[k] = kinds.get(k, 0) + 1
            if a != "bad-op":
                distinct.add(l)
            if a != b and not (numself.is_nan_bits(a.split()[0] if a.split() else "")
                               and numself.is_nan_bits(b.split()[0] if b.split() else "")):
                diverged.append({"op": l, "impl": a, "model": b})
    else:
        broken.append("model driver did not build")
    if diverged:
        broken.append(f"correspondence: model and implementation differ on {len(diverged)} ops "
                      f"(first: {diverged[0]['op'][:60]})")
    n_or, fails = oracle(ctx, exe, ctx.rng, (4000 if quick else 60000) * (4 if broken else 1))
    n_simp, sfails = simplify_oracle(ctx, 4000 if quick else 60000)
    # SurfaceSimplifier model (Model/Solids.lean) vs the real RecursiveSimplifier, bit-exact
    from checks import c09b
    sd = c09b.simplify_diff(ctx, 5000 if quick else 100000)
    if sd.get("error"):
        broken.append("simplifier correspondence could not run: " + str(sd["error"])[:200])
    elif sd["diverged"]:
        broken.append(f"correspondence: simplifier model and RecursiveSimplifier differ on "
                      f"{len(sd['diverged'])} ops (first: {sd['diverged'][0]['op'][:80]})")
        diverged += sd["diverged"][:3]
    n_or += n_simp
    fails += sfails
    seen = set()
    for what, l, o, info in fails:
        key = "oracle:" + what.replace(" ", "-") + ":" + (l.split()[3] if l.startswith("simplify") else l.split()[1])
        if key in seen:
            continue
        seen.add(key)
        ctx.violation(key, f"real ORANGE surface code: {what} ({l.split()[0]} {key.rsplit(':', 1)[1]})",
                      {"harness": "harness/surf.cc", "op": l, "impl_output": o, "info": info,
                       "values": [fl(w) if len(w) == 16 else w for w in l.split()[1:]]})
    if broken and not ctx.violations:
        ctx.violation("unproved", "; ".join(broken)[:600],
                      {"no_longer_checks": broken, "diverging_ops": diverged[:3]}, found_input=False)
    if not quick and ps["build"]["ok"]:
        common.leanchecker(ctx, ["CelerVerif.Props.C12"])
    ctx.assumptions += [
        "theorems are about the real-number reading of Model/Surf.lean; the same definitions "
        "executed at Float equal the C++ results bit-for-bit on every op compared in this run",
        "unit direction vectors; leading coefficient a = 0 or |a| >= min_a = 1e-10 for "
        "solve_general (the tolerance band is a documented approximation)",
        "involute surface is not modelled in Lean; simplifier theorems assume the soft comparisons "
        "are exact (ExactForm) or bound the snapping branches only",
    ]
    ctx.coverage.update({
        "evaluations": len(lines) + n_or, "distinct_nontrivial": len(distinct),
        "rule": "random surfaces of all 17 quadric classes (storage data), positions incl. integer "
                "and far points, unit directions incl. axis-parallel and near-parallel; ops isect "
                "(on/off surface), sense, normal, translate, transform up/down; non-trivial = not "
                "answered bad-op; distinct = distinct op lines",
        "op_mix": dict(sorted(kinds.items())), "oracle_cases": n_or, "oracle_failures": len(fails),
        "diverging_ops": len(diverged),
        "simplifier_diff_ops": sd.get("ops", 0), "simplifier_diff_diverged": len(sd.get("diverged", [])),
        "simplifier_real_code_crashes_known": sd.get("crashes", 0),
        "samples": [lines[0], lines[1], lines[2]],
        "correspondence_broken": broken,
    })
    return LEVEL


def replay(ctx, data):
    exe, log, _ = vlib.build_harness("surf", HARNESS["surf"])
    r = data["replay"]
    if "op" in r:
        _, o = vlib.run_lines([exe], [r["op"]])
        print("op:", r["op"])
        print("impl now:", o, " recorded:", r.get("impl_output"))
    else:
        print(vlib.json.dumps(r, indent=1))
    return 0
