"""C03 — Geometry navigation matches true point location along every ray."""
import glob
import json
import math
import os
import struct
import subprocess
import tempfile
import time

import vlib
from checks import common, numself

LEVEL = "other"
HARNESS = {"nav": ["corecel", "geocel", "orange"], "numself": ["corecel"]}
MANIFEST = {
    "category": "other",
    "technique": "Lean 4 model of OrangeTrackView + SimpleUnit/RectArray trackers + BIH (Num-generic, "
                 "surfaces from the C12 model) run bit-exactly at Float against the real navigator on "
                 "bundled and random orangeinp geometries; list-level proofs of the tracker logic "
                 "(first exit, limited = truncated unlimited, shallowest-level minimum, set_dir flag) "
                 "and a single-level ray-trace = point-location theorem at ℝ under the surface contract; "
                 "independent point-location oracle from the OrangeInput JSON",
    "text": "Model/Nav.lean models initialize / find_next_step[max] / move_internal / move_to_boundary / "
            "cross_boundary / set_dir (rotate-up loop, reentrant flag) over nested levels, the unit "
            "tracker (CalcIntersections bookkeeping with on-face skip, simple / complex / background "
            "intersect, neighbour-list vs BIH crossing), RectArray index arithmetic and the BIH "
            "traversal, as written; it is executed on the same op scripts as the real code and every "
            "state field (hex doubles) is compared. Proved: complexIntersect_first_exit, "
            "simpleIntersect_exit, limited_eq_truncated_unlimited, findNextStep_min_shallowest, "
            "(simple units AND rect arrays), setDir_flag_correct (+ negation for the pre-repair loop "
            "on a rotated-daughter witness, + negation of the post-crossing case), "
            "ray_trace_matches_location_unit (single level, ℝ, parity contract DERIVED from the C12 "
            "surface theorems + IVT for rays in general position), levels_share_the_ray and "
            "nested_trace_first_change_partial (composition over the depth: one step), termination. An "
            "impl-side oracle locates points of every ray independently from the OrangeInput "
            "definition (senses from the surface functions, logic evaluation, daughter recursion). "
            "set_dir on a boundary is sampled densely near the tangent plane (±20°) on surfaces of "
            "every nesting level of hierarchies with >= 3 levels of non-commuting rotations / "
            "reflections and curved deepest surfaces; each flag is judged against a surface normal "
            "computed independently from the OrangeInput (local point, gradient, rotations composed "
            "deepest first) and the track is followed with point location to the world exit. A "
            "grazing / near-parallel ray family exists for every surface class with a "
            "direction-dependent cut-off (aligned, centred and generically rotated cylinders: angle "
            "to the axis 1e-7…1e-1 rad; needle and wide cones: angle to the generator line; aligned "
            "and general planes: 1e-9…1e-2 rad; general quadrics with leading coefficient around "
            "min_a) inside rods / slabs / cones 1000x longer than wide, with 28 point-location probes "
            "per step; evidence counts, per class, the rays whose first TRUE crossing (found "
            "independently by scan + bisection) is the grazed surface, and a zero count is reported "
            "as coverage:grazing-first:<class>. The BIH used for point location: the model's "
            "parent-pointer walk (bihNext/bihLoop) is proved to be the depth-first traversal "
            "(bih_sound_order), to end within 3 iterations per node (bih_terminates) and to offer "
            "every volume whose bounding box contains the point (bih_complete) on well-formed "
            "trees; the decidable predicate bihWellFormed is evaluated by the Lean driver on the REAL "
            "tree of every geometry of the run (op bihwf on the dumped OrangeParams data), the real "
            "BIHTraverser's candidate lists are diffed bit-exactly against the model (op bihcand) and "
            "checked against the dumped bounding boxes (no containing volume lost, none spurious).",
    "design_ref": "DESIGN.md §6 C03",
    "note": "Partial: the nested trace is proved for one find/cross step (first change of the nested "
            "location = distance and level of find_next_step); iterating it needs the re-initialised "
            "deeper levels to equal the location just behind the crossing (no daughter surface through "
            "the crossing point). Floating-point rounding and tangent/corner rays are outside the ℝ "
            "theorems (general-position hypotheses FaceGP) and are covered by the differential runs and "
            "the oracle only; involute surfaces are not modelled (bundled involute inputs do not load).",
}

AXES = "xyz"


def hx(x):
    return "%016x" % struct.unpack("<Q", struct.pack("<d", float(x)))[0]


def fl(s):
    return struct.unpack("<d", struct.pack("<Q", int(s, 16)))[0]


# --------------------------------------------------------------------------- independent point location
def quadric(tag, d, p):
    """independent evaluation of the surface function (python floats)"""
    x, y, z = p
    if tag in ("px", "py", "pz"):
        return p[AXES.index(tag[1])] - d[0]
    if tag == "p":
        return d[0] * x + d[1] * y + d[2] * z - d[3]
    if tag in ("cxc", "cyc", "czc", "cx", "cy", "cz"):
        t = AXES.index(tag[1])
        u, v = [i for i in range(3) if i != t]
        if len(tag) == 3:
            return p[u] ** 2 + p[v] ** 2 - d[0]
        return (p[u] - d[0]) ** 2 + (p[v] - d[1]) ** 2 - d[2]
    if tag == "sc":
        return x * x + y * y + z * z - d[0]
    if tag == "s":
        return (x - d[0]) ** 2 + (y - d[1]) ** 2 + (z - d[2]) ** 2 - d[3]
    if tag in ("kx", "ky", "kz"):
        t = AXES.index(tag[1])
        q = [p[i] - d[i] for i in range(3)]
        return sum(q[i] ** 2 for i in range(3) if i != t) - d[3] * q[t] ** 2
    if tag == "sq":
        a, b, c, dd, e, f, g = d
        return a * x * x + b * y * y + c * z * z + dd * x + e * y + f * z + g
    if tag == "gq":
        a, b, c, dd, e, f, g, h, i, j = d
        return (a * x * x + b * y * y + c * z * z + dd * x * y + e * y * z + f * z * x + g * x + h * y
                + i * z + j)
    raise ValueError("unsupported surface " + tag)


def eval_logic(tokens, senses):
    st = []
    for t in tokens:
        if t == "*":
            st.append(True)
        elif t == "~":
            st.append(not st.pop())
        elif t == "&":
            b, a = st.pop(), st.pop()
            st.append(a and b)
        elif t == "|":
            b, a = st.pop(), st.pop()
            st.append(a or b)
        else:
            st.append(senses[int(t)])
    return st[-1]


class PGeo:
    """Point location computed from the OrangeInput JSON only (never through tracker code)."""

    def __init__(self, j):
        self.tol = (j.get("tol") or {}).get("rel", 1e-5) or 1e-5
        self.univ = []
        for u in j["universes"]:
            if u["_type"] == "unit":
                s = u["surfaces"]
                surfs, off = [], 0
                for ty, n in zip(s["types"], s["sizes"]):
                    surfs.append((ty, s["data"][off:off + n]))
                    off += n
                vols = []
                for v in u.get("volumes", u.get("cells")):
                    z = v.get("zorder", "M")
                    bg = z in ("B", 1)
                    vols.append({"faces": v["faces"], "logic": ("* ~" if bg else v["logic"]).split(),
                                 "bg": bg})
                dau = {}
                pk = "parent_volumes" if "parent_volumes" in u else "parent_cells"
                if pk in u:
                    if "transforms" in u:
                        trs = u["transforms"]
                    else:
                        t = u["translations"]
                        trs = [t[3 * i:3 * i + 3] for i in range(len(u[pk]))]
                    for pv, du, tr in zip(u[pk], u["daughters"], trs):
                        dau[pv] = (du, tr)
                self.univ.append({"t": "unit", "surfs": surfs, "vols": vols, "dau": dau,
                                  "bbox": u.get("bbox")})
            elif u["_type"] == "rectarray":
                self.univ.append({"t": "rect", "g": [u["x"], u["y"], u["z"]], "dau": u["daughters"],
                                  "tr": u["translations"]})
            else:
                raise ValueError("unsupported universe type " + u["_type"])
        self.inv = any(ty == "inv" for u in self.univ if u["t"] == "unit" for ty, _ in u["surfs"])

    @staticmethod
    def down(tr, p):
        if not tr:
            return p
        if len(tr) == 3:
            return [p[i] - tr[i] for i in range(3)]
        q = [p[i] - tr[9 + i] for i in range(3)]
        # rotation matrix is daughter-to-parent (row-major); inverse = transpose
        return [sum(tr[3 * r + c] * q[r] for r in range(3)) for c in range(3)]

    @staticmethod
    def up_dir(tr, n):
        """rotate a direction from daughter to parent frame"""
        if not tr or len(tr) == 3:
            return n
        return [sum(tr[3 * r + c] * n[c] for c in range(3)) for r in range(3)]

    def surface_normal(self, chain, sl, surf, gpos):
        """unit normal, in the GLOBAL frame, of local surface `surf` of the universe at nesting
        level `sl` of the chain [(u, v)…], at the global point `gpos`: the point is transformed
        down through the daughter transforms of the OrangeInput, the gradient of the surface
        function is taken there (central differences) and rotated up through the levels
        sl-1 … 0 in that order.  Independent of the tracker.  None if not computable."""
        p, trs = list(gpos), []
        for k in range(sl):
            u, v = chain[k]
            un = self.univ[u]
            if un["t"] == "rect":
                tr = un["tr"][3 * v:3 * v + 3]
                tr = tr if any(tr) else []
            else:
                if v not in un["dau"]:
                    return None
                tr = un["dau"][v][1]
            trs.append(tr)
            p = self.down(tr, p)
        un = self.univ[chain[sl][0]]
        if un["t"] == "rect":
            nx, ny = len(un["g"][0]), len(un["g"][1])
            ax = 0 if surf < nx else (1 if surf < nx + ny else 2)
            n = [0.0, 0.0, 0.0]
            n[ax] = 1.0
        else:
            if surf >= len(un["surfs"]):
                return None
            ty, dat = un["surfs"][surf]
            h = 1e-6 * max(1.0, max(abs(c) for c in p))
            n = []
            for ax in range(3):
                a = list(p); b = list(p)
                a[ax] += h; b[ax] -= h
                n.append((quadric(ty, dat, a) - quadric(ty, dat, b)) / (2 * h))
        for tr in reversed(trs):
            n = self.up_dir(tr, n)
        nn = math.sqrt(sum(c * c for c in n))
        if not (nn > 1e-9) or not math.isfinite(nn):
            return None
        return [c / nn for c in n]

    @staticmethod
    def surf_class(ty):
        if ty in ("px", "py", "pz"):
            return "plane-aligned"
        if ty == "p":
            return "plane-general"
        if ty in ("cxc", "cyc", "czc"):
            return "cyl-centered"
        if ty in ("cx", "cy", "cz"):
            return "cyl-aligned"
        if ty in ("kx", "ky", "kz"):
            return "cone-aligned"
        if ty in ("sq", "gq"):
            return "quadric"
        return "sphere"

    def first_change(self, pos, dr, tmax):
        """independent of the tracker: the smallest path length t* at which the nested point
        location along pos + t dr changes (log-spaced scan, then bisection), and the classes of
        the surfaces whose sense flips there.  Returns (t*, {(level, surface index, class)}) or
        (None, set())."""
        at = lambda t: [pos[i] + t * dr[i] for i in range(3)]
        c0, _ = self.locate(pos, delta=0.0)
        if c0 is None or isinstance(c0, tuple):
            return None, set()
        lo, hi = 0.0, None
        N = 120
        for k in range(N + 1):
            t = tmax * 10 ** (-7.0 + 7.0 * k / N)
            c, _ = self.locate(at(t), delta=0.0)
            if c != c0:
                hi = t
                break
            lo = t
        if hi is None:
            return None, set()
        for _ in range(60):
            mid = 0.5 * (lo + hi)
            c, _ = self.locate(at(mid), delta=0.0)
            if c == c0:
                lo = mid
            else:
                hi = mid
        c1, _ = self.locate(at(hi), delta=0.0)
        classes = set()
        if c1 is not None and not isinstance(c1, tuple):
            L = 0
            while L < min(len(c0), len(c1)) and c0[L] == c1[L]:
                L += 1
            if L < len(c0) and L < len(c1) and c0[L][0] == c1[L][0]:
                un = self.univ[c0[L][0]]
                a, b = at(lo), at(hi)
                for k in range(L):
                    u, v = c0[k]
                    uu = self.univ[u]
                    if uu["t"] == "rect":
                        tr = uu["tr"][3 * v:3 * v + 3]
                        tr = tr if any(tr) else []
                    else:
                        tr = uu["dau"][v][1]
                    a, b = self.down(tr, a), self.down(tr, b)
                if un["t"] == "rect":
                    classes.add((L, -1, "plane-aligned"))
                else:
                    for si, (ty, dat) in enumerate(un["surfs"]):
                        if (quadric(ty, dat, a) > 0) != (quadric(ty, dat, b) > 0):
                            classes.add((L, si, self.surf_class(ty)))
        return 0.5 * (lo + hi), classes

    def nearest_surface(self, p):
        """index and class of the surface of the top universe nearest to the point
        (first-order distance |f| / |grad f|)"""
        un = self.univ[0]
        best = None
        h = 1e-6 * max(1.0, max(abs(c) for c in p))
        for si, (ty, dat) in enumerate(un["surfs"]):
            f = quadric(ty, dat, p)
            g = 0.0
            for ax in range(3):
                a = list(p); b = list(p)
                a[ax] += h; b[ax] -= h
                g += ((quadric(ty, dat, a) - quadric(ty, dat, b)) / (2 * h)) ** 2
            if g > 0:
                dist = abs(f) / math.sqrt(g)
                if best is None or dist < best[0]:
                    best = (dist, si, self.surf_class(ty))
        return best

    def coincident_levels(self, chain, gpos, fac=10.0):
        """geometric test: at the global point, do the universes of two DIFFERENT nesting levels
        of the chain each have a surface passing through it (first-order distance |f|/|grad f|
        within fac x tolerance)?  E.g. a daughter's own sphere lying on the parent's boundary
        sphere of that daughter.  Returns the list of (level, surface index) hits if >= 2 levels."""
        p, hits = list(gpos), []
        for k, (u, v) in enumerate(chain):
            un = self.univ[u]
            tolk = fac * self.tol * max(1.0, max(abs(c) for c in p))
            if un["t"] == "rect":
                for ax in range(3):
                    if min(abs(p[ax] - g) for g in un["g"][ax]) < tolk:
                        hits.append((k, -1))
                        break
                tr = un["tr"][3 * v:3 * v + 3]
                tr = tr if any(tr) else []
            else:
                h = 1e-6 * max(1.0, max(abs(c) for c in p))
                for si, (ty, dat) in enumerate(un["surfs"]):
                    f = quadric(ty, dat, p)
                    g2 = 0.0
                    for ax in range(3):
                        a = list(p); b = list(p)
                        a[ax] += h; b[ax] -= h
                        g2 += ((quadric(ty, dat, a) - quadric(ty, dat, b)) / (2 * h)) ** 2
                    if g2 > 0 and abs(f) / math.sqrt(g2) < tolk:
                        hits.append((k, si))
                        break
                if v not in un["dau"]:
                    break
                tr = un["dau"][v][1]
            p = self.down(tr, p)
        return hits if len({k for k, _ in hits}) >= 2 else []

    def is_curved(self, chain, sl, surf):
        un = self.univ[chain[sl][0]] if sl < len(chain) else None
        if un is None or un["t"] == "rect" or surf >= len(un["surfs"]):
            return False
        return un["surfs"][surf][0] not in ("px", "py", "pz", "p")

    def locate(self, p, ui=0, delta=None):
        """returns (chain [(u, v)…] or None, near) ; near = some surface sense (or array cell)
        changes within `delta` of the point at some level -> the point is within tolerance of a
        boundary and is not a valid probe"""
        chain, near = [], False
        while True:
            u = self.univ[ui]
            d = delta if delta is not None else 8 * self.tol * max(1.0, max(abs(c) for c in p))
            if u["t"] == "rect":
                idx = []
                for ax in range(3):
                    g = u["g"][ax]
                    if not (g[0] < p[ax] < g[-1]):
                        return None, True
                    k = 0
                    while k + 1 < len(g) and g[k + 1] <= p[ax]:
                        k += 1
                    if min(abs(p[ax] - g[k]), abs(g[k + 1] - p[ax])) < d:
                        near = True
                    idx.append(k)
                ny, nz = len(u["g"][1]) - 1, len(u["g"][2]) - 1
                v = (idx[0] * ny + idx[1]) * nz + idx[2]
                chain.append((ui, v))
                tr = u["tr"][3 * v:3 * v + 3]
                p = self.down(tr if any(tr) else [], p)
                ui = u["dau"][v]
                continue
            pts = [p] + [[p[i] + (s if i == ax else 0.0) for i in range(3)]
                         for ax in range(3) for s in (d, -d)]
            sense = []
            for ty, dat in u["surfs"]:
                vals = [quadric(ty, dat, q) > 0 for q in pts]
                if any(x != vals[0] for x in vals):
                    near = True
                sense.append(vals[0])
            found = [i for i, v in enumerate(u["vols"])
                     if not v["bg"] and eval_logic(v["logic"], [sense[f] for f in v["faces"]])]
            if len(found) > 1:
                return ("overlap", ui, found), near
            if found:
                v = found[0]
            elif u["vols"] and u["vols"][-1]["bg"]:
                v = len(u["vols"]) - 1
            else:
                return None, near
            chain.append((ui, v))
            if v in u["dau"]:
                du, tr = u["dau"][v]
                p = self.down(tr, p)
                ui = du
            else:
                return chain, near


# --------------------------------------------------------------------------- runtime data (def line)
def parse_def(line):
    """per universe: None (rect array) or dict(nvol, bbox=[(lo, hi)], inf=[…]) read from the
    `def …` line (the REAL BIH / bounding boxes built by OrangeParams, dumped by the harness)"""
    w = line.split()
    i = [1]

    def tok():
        i[0] += 1
        return w[i[0] - 1]

    def num():
        return int(tok())

    def opt():
        t = tok()
        return None if t == "-" else int(t)

    def real():
        return fl(tok())

    assert tok() == "tol"
    real(); real()
    assert tok() == "nuniv"
    out = []
    for _ in range(num()):
        assert tok() == "U"
        kind = tok()
        if kind == "simple":
            assert tok() == "nsurf"
            for _ in range(num()):
                tok()
                for _ in range(num()):
                    tok()
                for _ in range(num()):
                    tok()
            assert tok() == "nvol"
            bbox = []
            for _ in range(num()):
                for _ in range(num()):
                    tok()
                for _ in range(num()):
                    tok()
                tok(); tok()
                lo = [real() for _ in range(3)]
                hi = [real() for _ in range(3)]
                bbox.append((lo, hi))
            assert tok() == "bg"
            tok()
            assert tok() == "bih"
            inner = []
            for _ in range(num()):
                inner.append((opt(), num(), real(), opt(), real(), opt()))
            leaves = []
            for _ in range(num()):
                par = opt()
                leaves.append((par, [num() for _ in range(num())]))
            inf = [num() for _ in range(num())]
            out.append({"nvol": len(bbox), "bbox": bbox, "inf": inf, "inner": inner, "leaves": leaves})
        else:
            for _ in range(3):
                tok()
            for _ in range(3):
                for _ in range(num()):
                    tok()
            for _ in range(4):
                tok()
            for _ in range(num()):
                tok()
            out.append(None)
    return out


# --------------------------------------------------------------------------- harness session
class Session:
    def __init__(self, exe):
        env = dict(os.environ)
        env.update({"CELER_DISABLE_PARALLEL": "1", "CELER_LOG": "critical", "OMP_NUM_THREADS": "1"})
        self.p = subprocess.Popen([exe], stdin=subprocess.PIPE, stdout=subprocess.PIPE,
                                  stderr=subprocess.DEVNULL, text=True, bufsize=1, env=env)
        self.lines, self.out, self.model_skip = [], [], set()

    def ask(self, line, model=True):
        try:
            self.p.stdin.write(line + "\n")
            self.p.stdin.flush()
        except (BrokenPipeError, OSError):
            raise RuntimeError("harness died before: " + line[:200])
        o = self.p.stdout.readline()
        if not o:
            raise RuntimeError("harness died on: " + line[:200])
        o = o.rstrip("\n")
        if not model:
            self.model_skip.add(len(self.lines))
        self.lines.append(line)
        self.out.append(o)
        return o

    def close(self):
        try:
            self.p.stdin.close()
            self.p.wait(timeout=10)
        except Exception:
            self.p.kill()


def parse_state(o):
    """state line -> dict"""
    w = o.split()
    if w and w[0] == "prop":
        prop = (math.inf if w[1] == "7ff0000000000000" else fl(w[1]), w[2] == "1", w[1])
        w = w[3:]
    else:
        prop = None
    if not w or w[0] != "L":
        return None
    st = {"prop": prop, "level": w[1], "sl": w[3], "surf": w[5], "sense": w[6], "b": w[8],
          "ns": w[10], "nf": w[12], "nl": w[15], "levels": [], "out": False, "fail": w[-1] == "1"}
    i = 16
    while i < len(w) and w[i] == "|":
        if w[i + 1] == "u":
            st["levels"].append({"u": int(w[i + 2]), "v": int(w[i + 4]),
                                 "pos": [fl(x) for x in w[i + 5:i + 8]],
                                 "dir": [fl(x) for x in w[i + 8:i + 11]]})
            i += 11
        elif w[i + 1] == "vid":
            st["vid"], st["sid"], st["out"] = w[i + 2], w[i + 4], w[i + 6] == "1"
            i += 7
        else:
            break
    return st


def chain_of(st):
    return [(l["u"], l["v"]) for l in st["levels"]]


# --------------------------------------------------------------------------- geometry generators
def rnd_unit_vec(rng):
    while True:
        v = [rng.unit() * 2 - 1 for _ in range(3)]
        n = math.sqrt(sum(c * c for c in v))
        if 0.05 < n <= 1:
            return [c / n for c in v]


def rnd_rotation(rng):
    """row-major 3x3: exact signed permutation, or axis-angle; optionally a reflection"""
    k = rng.below(4)
    if k == 0:
        perm = [0, 1, 2]
        rng.shuffle(perm)
        m = [[0.0] * 3 for _ in range(3)]
        for r in range(3):
            m[r][perm[r]] = rng.choice([1.0, -1.0])
    else:
        ax, th = rnd_unit_vec(rng), rng.unit() * 2 * math.pi
        if k == 1:
            ax = [0.0, 0.0, 0.0]
            ax[rng.below(3)] = 1.0
            th = rng.choice([0.25, 0.5, 0.75, 0.125]) * 2 * math.pi
        c, s = math.cos(th), math.sin(th)
        x, y, z = ax
        m = [[c + x * x * (1 - c), x * y * (1 - c) - z * s, x * z * (1 - c) + y * s],
             [y * x * (1 - c) + z * s, c + y * y * (1 - c), y * z * (1 - c) - x * s],
             [z * x * (1 - c) - y * s, z * y * (1 - c) + x * s, c + z * z * (1 - c)]]
        if rng.chance(1, 4):
            a = rng.below(3)
            for r in range(3):
                m[r][a] = -m[r][a]
    return [v for row in m for v in row]


def fmt(v):
    return repr(float(v))


def rnd_transform(rng, pos, allow_rot=True):
    k = rng.below(3) if allow_rot else 0
    if k == 0:
        return ["tt"] + [fmt(c) for c in pos], False
    return ["tx"] + [fmt(c) for c in rnd_rotation(rng)] + [fmt(c) for c in pos], True


def rnd_convex(rng, r):
    """shape tokens with circumradius <= r, and its inradius"""
    k = rng.below(5)
    if k == 0:
        h = [r / math.sqrt(3) * (0.5 + 0.5 * rng.unit()) for _ in range(3)]
        return ["box"] + [fmt(c) for c in h], min(h)
    if k == 1:
        return ["sph", fmt(r)], r
    if k == 2:
        rr = r * (0.4 + 0.3 * rng.unit())
        hh = math.sqrt(max(r * r - rr * rr, 0.01 * r * r)) * 0.95
        return ["cyl", fmt(rr), fmt(hh)], min(rr, hh)
    if k == 3 and r >= 1.0:
        # (ellipsoids with radii below ~0.05 send the orangeinp SurfaceSimplifier into an
        #  unbounded recursion — a construction defect outside C03; not generated here)
        h = [r * (0.4 + 0.6 * rng.unit()) for _ in range(3)]
        return ["ell"] + [fmt(c) for c in h], min(h)
    if k == 3:
        return ["sph", fmt(r)], r
    r0 = r * 0.6 * rng.unit()
    r1 = r * (0.3 + 0.3 * rng.unit())
    hh = r * 0.6
    return ["cone", fmt(r0), fmt(r1), fmt(hh)], 0.0


def rnd_item_shape(rng, r):
    """material shape centred at the origin, circumradius <= r (convex, shell, union)"""
    k = rng.below(6)
    s, inr = rnd_convex(rng, r)
    if k <= 2 or inr <= 0:
        return s
    if k == 3:      # subtraction: outer minus a smaller inner (non-convex, internal surfaces)
        inner, _ = rnd_convex(rng, inr * (0.3 + 0.5 * rng.unit()))
        return ["all", "2"] + s + ["neg"] + inner
    if k == 4:      # union of two overlapping shapes
        a, _ = rnd_convex(rng, r * 0.6)
        b, _ = rnd_convex(rng, r * 0.5)
        u = rnd_unit_vec(rng)
        off = [c * r * 0.3 for c in u]
        return ["any", "2"] + a + ["tr", "tt"] + [fmt(c) for c in off] + b
    # intersection of two shapes
    s2, _ = rnd_convex(rng, r)
    return ["all", "2"] + s + s2


OCT = [(sx, sy, sz) for sx in (-1, 1) for sy in (-1, 1) for sz in (-1, 1)]


def axis_rotation(rng, ax):
    """row-major rotation by a generic angle about coordinate axis `ax`, sometimes composed with
    a reflection"""
    th = (0.15 + 0.7 * rng.unit()) * math.pi * rng.choice([1.0, -1.0])
    c, s_ = math.cos(th), math.sin(th)
    i, j = [(1, 2), (2, 0), (0, 1)][ax]
    m = [[1.0 if r == q else 0.0 for q in range(3)] for r in range(3)]
    m[i][i], m[i][j], m[j][i], m[j][j] = c, -s_, s_, c
    if rng.chance(1, 3):
        a = rng.below(3)
        for r in range(3):
            m[r][a] = -m[r][a]
    return [v for row in m for v in row]


def gen_unit(rng, units, depth, R, label, is_global, info, chain_axes=()):
    """append the spec of a unit (and, before it, of its daughters) to `units`; return its index.
    The unit's boundary has inradius >= R_in and circumradius <= R.  `chain_axes`: force the
    first item to be a daughter rotated about that axis (and so on down the chain); the unit at
    the end of the chain gets curved material shapes only."""
    if is_global:
        if rng.chance(1, 2):
            bnd, rin = ["sph", fmt(R)], R
        else:
            bnd, rin = ["box", fmt(R), fmt(R), fmt(R)], R
    else:
        bnd, rin = rnd_convex(rng, R)
        if rin <= 0 or bnd[0] in ("cone",) or "chain" in info:
            bnd, rin = ["sph", fmt(R)], R
    n_items = rng.range(0 if not is_global else 1, 4)
    chained = "chain" in info
    if chained:
        n_items = max(n_items, 1 if chain_axes else 3)
    octs = list(OCT)
    rng.shuffle(octs)
    mats, daus = [], []
    for k in range(n_items):
        o = octs[k]
        pos = [0.35 * rin * c for c in o]
        # octant centre at distance 0.606 rin; child circumradius below 0.27 rin
        r = rin * (0.12 + 0.15 * rng.unit())
        if chained and chain_axes and k == 0:
            r = rin * 0.27
            idx = gen_unit(rng, units, depth - 1, r, "%s_%d" % (label, k), False, info, chain_axes[1:])
            rot = axis_rotation(rng, chain_axes[0])
            info["chain"].append((rot, pos))
            info["rot_daughters"] += 1
            daus.append([str(idx), "tx"] + [fmt(c) for c in rot] + [fmt(c) for c in pos])
            continue
        if chained and not chain_axes:
            # deepest unit of the chain: curved surfaces (sphere, cylinder, cone, ellipsoid)
            r = rin * (0.2 + 0.07 * rng.unit())
            kind = rng.below(3)
            shp = (["sph", fmt(r)] if kind == 0 else
                   ["cyl", fmt(r * 0.6), fmt(r * 0.75)] if kind == 1 else
                   ["cone", fmt(r * 0.2), fmt(r * 0.6), fmt(r * 0.6)])
            tr, _ = rnd_transform(rng, pos)
            mats.append(["tr"] + tr + shp)
            info["deep_rin"] = rin
            continue
        if depth > 0 and not chained and rng.chance(3, 5):
            idx = gen_unit(rng, units, depth - 1, r, "%s_%d" % (label, k), False, info)
            tr, rot = rnd_transform(rng, pos)
            info["rot_daughters"] += rot
            daus.append([str(idx)] + tr)
        else:
            tr, _ = rnd_transform(rng, pos)
            mats.append(["tr"] + tr + rnd_item_shape(rng, r))
    bg = 1
    spec = ["unit", label] + bnd + ["bg", str(bg), "nmat", str(len(mats))]
    for m in mats:
        spec += m
    spec += ["ndau", str(len(daus))]
    for d in daus:
        spec += d
    units.append(spec)
    return len(units) - 1


def gen_deep_spec(rng):
    """>= 3 nesting levels whose consecutive daughter placements are rotations about DIFFERENT
    axes by generic angles (non-commuting; some with reflections); the deepest unit holds curved
    shapes.  Returns (tokens, R, info) with info['aim'] = (global centre, radius) of that unit."""
    units, info = [], {"rot_daughters": 0, "chain": []}
    depth = rng.range(2, 3)
    axes, prev = [], -1
    for _ in range(depth):
        ax = rng.choice([a for a in range(3) if a != prev])
        axes.append(ax)
        prev = ax
    R = rng.choice([50.0, 100.0])
    gen_unit(rng, units, depth, R, "g", True, info, tuple(axes))
    # chain entries were appended deepest-first (recursion returns before the append)
    centre = [0.0, 0.0, 0.0]
    for rot, pos in info["chain"]:
        centre = [pos[r] + sum(rot[3 * r + c] * centre[c] for c in range(3)) for r in range(3)]
    info["aim"] = (centre, info.get("deep_rin", 1.0))
    info["deep"] = depth
    toks = ["nunits", str(len(units))]
    for u in units:
        toks += u
    return toks, R, info


def gen_spec(rng):
    units, info = [], {"rot_daughters": 0}
    R = rng.choice([20.0, 50.0, 100.0])
    gen_unit(rng, units, rng.range(1, 3), R, "g", True, info)
    toks = ["nunits", str(len(units))]
    for u in units:
        toks += u
    return toks, R, info


def gen_rect_json(rng, path):
    """random rectangular array written directly as an ORANGE JSON input (the orangeinp API has
    no array proto): world sphere, a (possibly rotated / reflected) box holding a rect array whose
    cells are filled with small units (plain fill, sphere, z-cylinder, slab)."""
    n = [rng.range(1, 3) for _ in range(3)]
    grids = []
    for ax in range(3):
        g = [0.0]
        for _ in range(n[ax]):
            g.append(g[-1] + float(rng.range(2, 8)) * 0.5)
        grids.append(g)
    W = [g[-1] for g in grids]
    minhalf = min(min(g[i + 1] - g[i] for i in range(len(g) - 1)) for g in grids) / 2
    rot = None
    if rng.chance(1, 2):
        rot = rnd_rotation(rng)          # row-major, daughter-to-parent
    t = [float(rng.range(-6, 6)) for _ in range(3)]
    cols = [[1.0, 0.0, 0.0], [0.0, 1.0, 0.0], [0.0, 0.0, 1.0]] if rot is None else \
        [[rot[3 * r + c] for r in range(3)] for c in range(3)]
    # holder box in global coordinates: 6 planes
    types, sizes, data = ["sc"], [1], []
    Rw = math.sqrt(sum(c * c for c in t)) + math.sqrt(sum(c * c for c in W)) + 5.0
    data.append(Rw * Rw)
    for ax in range(3):
        nvec = cols[ax]
        off = sum(nvec[i] * t[i] for i in range(3))
        for c in (0.0, W[ax]):
            if rot is None:
                types.append("p" + AXES[ax]); sizes.append(1); data.append(c + t[ax])
            else:
                types.append("p"); sizes.append(4); data += nvec + [c + off]
    box = "1 2 ~ & 3 & 4 ~ & 5 & 6 ~ &"
    glob = {"_type": "unit", "md": {"name": "global"},
            "surfaces": {"types": types, "sizes": sizes, "data": data},
            "surface_labels": ["s%d" % i for i in range(len(types))],
            "volumes": [{"faces": [0], "logic": "0"},
                        {"faces": [1, 2, 3, 4, 5, 6], "logic": "0 1 ~ & 2 & 3 ~ & 4 & 5 ~ &"},
                        {"faces": [0, 1, 2, 3, 4, 5, 6], "flags": 1, "logic": "0 ~ " + box + " ~ &"}],
            "volume_labels": ["[EXTERIOR]", "arrfill", "interior"],
            "daughters": [1], "parent_cells": [1],
            "transforms": [([] if (rot is None and not any(t)) else (t if rot is None else rot + t))]}
    holder = {"_type": "unit", "md": {"name": "arr"},
              "surfaces": {"types": [], "sizes": [], "data": []}, "surface_labels": [],
              "volumes": [{"faces": [], "flags": 2, "logic": "* ~", "zorder": "x"},
                          {"faces": [], "logic": "*", "zorder": "A"}],
              "volume_labels": ["[EXTERIOR]", "arr+"],
              "daughters": [2], "parent_cells": [1], "transforms": [[]]}
    r = minhalf * (0.3 + 0.5 * rng.unit())

    def cell_unit(kind, name):
        ext = {"faces": [], "flags": 2, "logic": "* ~", "zorder": "x"}
        if kind == 0:
            return {"_type": "unit", "md": {"name": name},
                    "surfaces": {"types": [], "sizes": [], "data": []}, "surface_labels": [],
                    "volumes": [ext, {"faces": [], "logic": "*"}], "volume_labels": ["[EXTERIOR]", name + "f"]}
        if kind == 1:
            st, sd = ["sc"], [r * r]
        elif kind == 2:
            st, sd = ["czc"], [r * r]
        else:
            st, sd = ["px"], [0.0]
        return {"_type": "unit", "md": {"name": name},
                "surfaces": {"types": st, "sizes": [1], "data": sd}, "surface_labels": [name + "s"],
                "volumes": [ext, {"faces": [0], "logic": "0 ~"}, {"faces": [0], "logic": "0"}],
                "volume_labels": ["[EXTERIOR]", name + "i", name + "o"]}

    kinds = [rng.below(4) for _ in range(3)]
    units = [cell_unit(k, "c%d" % i) for i, k in enumerate(kinds)]
    dau, tra = [], []
    for i in range(n[0]):
        for j in range(n[1]):
            for k in range(n[2]):
                dau.append(3 + rng.below(len(units)))
                idx = (i, j, k)
                tra += [0.5 * (grids[a][idx[a]] + grids[a][idx[a] + 1]) for a in range(3)]
    arr = {"_type": "rectarray", "md": {"name": "arr+"}, "x": grids[0], "y": grids[1], "z": grids[2],
           "daughters": dau, "translations": tra}
    with open(path, "w") as f:
        json.dump({"_format": "ORANGE", "_version": 0, "universes": [glob, holder, arr] + units}, f)
    centre = [t[i] + sum(cols[a][i] * W[a] / 2 for a in range(3)) for i in range(3)]
    return Rw, (centre, 0.5 * math.sqrt(sum(c * c for c in W)))


GRAZE_CLASSES = ["cyl-aligned", "cyl-centered", "cone-aligned", "plane-aligned", "plane-general",
                 "quadric"]


def log_uniform(rng, lo, hi):
    return lo * (hi / lo) ** rng.unit()


def gen_grazing(rng, cls, n_rays):
    """one geometry whose single material volume is long / thin enough that a grazing ray's FIRST
    true crossing can be the grazed surface (rod 1000 radii long, needle cone, slab 1000 x its
    thickness), plus prepared rays starting inside it at a small distance from that surface and
    making a log-uniformly distributed small angle with it (cylinders: angle to the axis
    1e-7…1e-1 rad; cones: to the generator line; planes: to the plane 1e-9…1e-2 rad; the
    generically rotated rod / cone is a general quadric with leading coefficient ~ angle^2 around
    min_a = 1e-10).  Returns (tokens, R, info) with info['rays'] = [(pos, dir, cls)]."""
    perm = [0, 1, 2]
    rng.shuffle(perm)
    M = [[0.0] * 3 for _ in range(3)]
    for r_ in range(3):
        M[r_][perm[r_]] = 1.0
    if M[0][0] * (M[1][1] * M[2][2] - M[1][2] * M[2][1]) - M[0][1] * (M[1][0] * M[2][2] - M[1][2] * M[2][0]) \
            + M[0][2] * (M[1][0] * M[2][1] - M[1][1] * M[2][0]) < 0:
        M[0] = [-c for c in M[0]]
    M = [v for row in M for v in row]
    t = [float(rng.range(-8, 8)) + 0.25 * rng.below(4) for _ in range(3)]
    shape_kind = "rod"
    if cls == "cyl-centered":
        t = [0.0, 0.0, 0.0]
    elif cls == "quadric":
        M = rnd_rotation(rng)
        while max(abs(c) for c in M) > 0.97:     # generic: no (near-)permutation
            M = rnd_rotation(rng)
        shape_kind = rng.choice(["rod", "cone"])
    elif cls == "cone-aligned":
        shape_kind = "cone"
        if rng.chance(2, 3):       # needle cone: stays a ConeAligned only without a rotation
            M = [1.0, 0.0, 0.0, 0.0, 1.0, 0.0, 0.0, 0.0, 1.0]
        else:
            shape_kind = "widecone"
    elif cls == "plane-aligned":
        shape_kind = "slab"
    elif cls == "plane-general":
        shape_kind = "slab"
        M = rnd_rotation(rng)
        while max(abs(c) for c in M) > 0.97:
            M = rnd_rotation(rng)
    if shape_kind == "rod":
        r = 0.5 + 1.5 * rng.unit()
        hh = 500.0 * r if r <= 1.0 else 500.0
        shp = ["cyl", fmt(r), fmt(hh)]
    elif shape_kind == "cone":
        rlo, rhi, hh = 0.05 + 0.1 * rng.unit(), 0.8 + 0.6 * rng.unit(), 500.0
        shp = ["cone", fmt(rlo), fmt(rhi), fmt(hh)]
    elif shape_kind == "widecone":
        rlo, rhi, hh = 0.5 + 0.5 * rng.unit(), 20.0 + 20.0 * rng.unit(), 50.0 + 50.0 * rng.unit()
        shp = ["cone", fmt(rlo), fmt(rhi), fmt(hh)]
        shape_kind = "cone"
    else:
        hz = 0.2 + 0.8 * rng.unit()
        shp = ["box", "500.0", "500.0", fmt(hz)]
    toks = ["nunits", "1", "unit", "g", "sph", "1500.0", "bg", "1", "nmat", "1",
            "tr", "tx"] + [fmt(c) for c in M] + [fmt(c) for c in t] + shp + ["ndau", "0"]
    up = lambda v: [sum(M[3 * r_ + c] * v[c] for c in range(3)) for r_ in range(3)]
    rays = []

    def angle(k, d, lrem, lo, hi):
        """log-uniform over the whole range; every other ray restricted to angles for which the
        grazed surface is reached well before the far end (so that it IS the first crossing)"""
        if k % 2 == 0:
            return log_uniform(rng, lo, hi)
        return log_uniform(rng, min(hi * 0.5, max(lo, 2.5 * d / lrem)), hi)

    for k_ in range(n_rays):
        phi = rng.unit() * 2 * math.pi
        if shape_kind == "rod":
            d = r * 10 ** (-(0.3 + 2.0 * rng.unit()))
            rho, z0 = r - d, -hh * (0.2 + 0.7 * rng.unit())
            th = angle(k_, d, hh - z0, 1e-7, 1e-1)
            psi = phi + (rng.unit() * 2 - 1) * 1.0
            pl = [rho * math.cos(phi), rho * math.sin(phi), z0]
            dl = [math.sin(th) * math.cos(psi), math.sin(th) * math.sin(psi), math.cos(th)]
        elif shape_kind == "cone":
            tana = (rhi - rlo) / (2 * hh)
            al = math.atan(tana)
            z0 = -hh * (0.8 * rng.unit())
            rz = rlo + (z0 + hh) * tana
            d = rz * 10 ** (-(0.3 + 1.7 * rng.unit()))
            th = angle(k_, d, hh - z0, 1e-7, 1e-1)
            psi = phi + (rng.unit() * 2 - 1) * 0.3
            pl = [(rz - d) * math.cos(phi), (rz - d) * math.sin(phi), z0]
            dl = [math.sin(al + th) * math.cos(psi), math.sin(al + th) * math.sin(psi), math.cos(al + th)]
        else:
            d = hz * 10 ** (-(0.3 + 1.4 * rng.unit()))
            th = angle(k_, d, 380.0, 1e-9, 1e-2)
            sgn = rng.choice([1.0, -1.0])
            pl = [(rng.unit() * 2 - 1) * 100.0, (rng.unit() * 2 - 1) * 100.0, sgn * (hz - d)]
            dl = [math.cos(th) * math.cos(phi), math.cos(th) * math.sin(phi), sgn * math.sin(th)]
        pg = up(pl)
        pg = [pg[i] + t[i] for i in range(3)]
        dg = up(dl)
        nn = math.sqrt(sum(c * c for c in dg))
        rays.append((pg, [c / nn for c in dg], cls, th))
    return toks, 1500.0, {"rays": rays, "graze": cls}


# --------------------------------------------------------------------------- one geometry
class GeoRun:
    def __init__(self, ctx, exe, name, geo_line, json_path, extent):
        self.ctx, self.exe, self.name, self.geo_line = ctx, exe, name, geo_line
        self.json_path, self.extent = json_path, extent
        self.sess = None
        self.pg = None
        self.aim = None      # (centre, radius) of a region most rays should pass through
        self.tangent_num = 1   # near-tangent set_dir on a boundary with probability tangent_num/4
        self.bih_budget = 120  # direct BIH candidate probes per geometry
        self.rt = None
        self.n_bih = 0
        self.stats = {"tracks": 0, "ops": 0, "crossings": 0, "probes": 0, "near_skipped": 0,
                      "limited_checks": 0, "setdir_on_boundary": 0, "setdir_deeper": 0,
                      "reentrant": 0, "max_level": 0, "exits": 0, "init_fail": 0, "moves": 0}
        self.fail = []       # (key, what, info)
        self.overlap = None
        self.shared_hits, self.shared_pos = [], None

    LISTED_COINCIDENT = {"inputbuilder-universe-union-boundary":
                         "cross-failed:inputbuilder-universe-union-boundary"}

    def _fail(self, entry):
        """record a failure; a track that has sat on surfaces of two nesting levels passing
        through the same point (decided geometrically from its position) is a face of the
        coincident-level-surface defect: attributed to the listed key of that geometry, or to
        coincident-level-surfaces:<geo> for any other geometry"""
        key, what, info = entry
        if self.shared_hits and key.startswith(("no-boundary-found:", "cross-failed:",
                                                "nav-location-mismatch:", "init-failed:",
                                                "move-internal-desync:", "no-exit:")):
            base = self.name.split(":")[-1].replace(".ops", "")
            nk = None
            for stem, listed in self.LISTED_COINCIDENT.items():
                if stem in self.geo_line:
                    nk = listed
            nk = nk or ("coincident-level-surfaces:" + base)
            what = (what + f" [track sat on coincident surfaces of different levels "
                    f"(level, surface) = {self.shared_hits} at {self.shared_pos}; original key {key}]")
            key = nk
        self.fail.append((key, what, info))

    def note_boundary(self, st):
        if st is not None and st["sl"] != "-" and st["levels"] and not self.shared_hits:
            hits = self.pg.coincident_levels(chain_of(st), st["levels"][0]["pos"])
            if hits:
                self.shared_hits, self.shared_pos = hits, st["levels"][0]["pos"]
                self.stats["tracks_on_coincident_levels"] = \
                    self.stats.get("tracks_on_coincident_levels", 0) + 1

    def start(self):
        self.sess = Session(self.exe)
        o = self.sess.ask(self.geo_line)
        if o != "ok":
            return False, o
        d = self.sess.ask("dump", model=False)
        if not d.startswith("def "):
            return False, d[:200]
        self.def_line = d
        self.sess.ask(d)            # answered `ok` by both sides
        try:
            self.rt = parse_def(d)
        except (AssertionError, IndexError, ValueError):
            self.rt = None
        self.n_bih = 0
        try:
            self.pg = PGeo(json.load(open(self.json_path)))
        except ValueError as e:
            return False, str(e)
        if self.pg.inv:
            return False, "involute"
        return True, ""

    # ---- oracle helpers
    def bih_probe(self, u, p):
        """the candidates the REAL BIHTraverser offers at local point `p` of universe `u` must
        contain every volume whose (real, dumped) bounding box contains `p` in its interior and
        every inf_vol; and may contain only volumes whose box contains `p`"""
        if self.rt is None or u >= len(self.rt) or self.rt[u] is None:
            return
        o = self.sess.ask("bihcand %d %s" % (u, " ".join(map(hx, p))))
        self.n_bih += 1
        self.stats["bih_probes"] = self.stats.get("bih_probes", 0) + 1
        if not o.startswith("cand"):
            return
        got = [int(x) for x in o.split()[1:]]
        r = self.rt[u]
        for v, (lo, hi) in enumerate(r["bbox"]):
            inside = all(lo[a] < p[a] < hi[a] for a in range(3))
            within = all(lo[a] <= p[a] <= hi[a] for a in range(3))
            if inside:
                self.stats["bih_boxes_containing"] = self.stats.get("bih_boxes_containing", 0) + 1
            if (inside or v in r["inf"]) and v not in got:
                self._fail(("bih-lost-volume:" + self.name,
                                  f"BIH traversal of universe {u} at local point {p} offers {got} "
                                  f"but the bounding box {lo}..{hi} of volume {v} contains the point"
                                  + (" (inf_vol)" if v in r["inf"] else ""),
                                  {"geo": self.geo_line, "universe": u, "point": p, "candidates": got,
                                   "lost_volume": v, "ops": [self.sess.lines[-1]]}))
                return
            if v in got and not within and v not in r["inf"]:
                self._fail(("bih-spurious-candidate:" + self.name,
                                  f"BIH traversal of universe {u} at {p} offers volume {v} whose "
                                  f"bounding box {lo}..{hi} does not contain the point",
                                  {"geo": self.geo_line, "universe": u, "point": p, "candidates": got,
                                   "ops": [self.sess.lines[-1]]}))
                return

    def probe(self, p, chain, what, script_from, key_hint=None):
        loc, near = self.pg.locate(p)
        self.stats["probes"] += 1
        if near:
            self.stats["near_skipped"] += 1
            return True
        if isinstance(loc, tuple):
            # the INPUT is not a partition at this point (two volume definitions are true, e.g.
            # `inner_c` and `c` of the bundled universes.org.json): the property's premise (valid
            # geometry) does not hold there; not a navigation result — counted, named in evidence
            self.stats["overlap_probes"] = self.stats.get("overlap_probes", 0) + 1
            self.overlap = str(loc)
            return True
        if loc != chain:
            key = key_hint or ("nav-location-mismatch:" + self.name)
            self._fail((key, f"{what}: navigator reports volume chain {chain}, independent point "
                              f"location from the OrangeInput gives {loc} at {p}",
                              {"geo": self.geo_line, "point": p, "reported": chain, "located": loc,
                               "ops": self.sess.lines[script_from:]}))
            return False
        return True

    def track(self, rng, pos, dr, max_cross, straight=False, dense=0, graze_key=None):
        s, st_ = self.sess, self.stats
        t0 = len(s.lines)
        self.shared_hits, self.shared_pos = [], None
        o = s.ask("init %s %s" % (" ".join(map(hx, pos)), " ".join(map(hx, dr))))
        st = parse_state(o)
        st_["ops"] += 1
        if st is None or st["fail"]:
            loc, near = self.pg.locate(pos)
            st_["init_fail"] += 1
            if st is not None and not near and loc is not None and not isinstance(loc, tuple):
                self._fail(("init-failed:" + self.name,
                                  "initialisation failed at a point that the independent location "
                                  "places inside a volume away from every surface",
                                  {"geo": self.geo_line, "pos": pos, "located": loc,
                                   "ops": s.lines[t0:]}))
            return
        if st["out"]:
            return
        st_["tracks"] += 1
        self.probe(st["levels"][0]["pos"], chain_of(st), "after initialize", t0)
        if self.n_bih < self.bih_budget:
            for lv in st["levels"]:
                self.bih_probe(lv["u"], lv["pos"])
        n_setdir = 0
        n_tangent = 0
        hint = None          # set after a set_dir on a boundary below the surface level
        crossings = 0
        post_cross = False   # on the surface just crossed, no move since

        def set_dir(nd):
            """returns (state, abort).  A direction change on the surface just crossed that flips
            the boundary flag is the known post-crossing re-entry pattern: follow it to the next
            step, let the oracle judge it under its own key, and end the track."""
            nonlocal n_setdir
            was = st["b"]
            o2 = s.ask("set_dir " + " ".join(map(hx, nd)))
            st2 = parse_state(o2)
            st_["ops"] += 1
            n_setdir += 1
            if post_cross and st2["sl"] != "-" and was == "1" and st2["b"] == "0":
                st_["post_cross_reentry"] = st_.get("post_cross_reentry", 0) + 1
                s.ask("find")
                s.ask("cross")
                st3 = parse_state(s.ask("find"))
                st_["ops"] += 3
                if st3 and st3["prop"] and st3["prop"][1] and not st3["out"]:
                    d3 = st3["prop"][0]
                    p3, dr3 = st3["levels"][0]["pos"], st3["levels"][0]["dir"]
                    e3 = 20 * self.pg.tol * max(1.0, max(abs(c) for c in p3))
                    for tt in (min(e3, d3 / 4), d3 / 2):
                        if not self.probe([p3[i] + tt * dr3[i] for i in range(3)], chain_of(st3),
                                          "after set_dir on the surface just crossed + find + cross",
                                          t0, "setdir-post-crossing-reentry"):
                            break
                return st2, True
            return st2, False
        while crossings < max_cross:
            st_["max_level"] = max(st_["max_level"], len(st["levels"]) - 1)
            # --- find (sometimes limited first, then unlimited: must agree)
            lim = None
            if rng.chance(1, 4) and st["b"] == "1":
                lim = self.extent * (10 ** (-3 * rng.unit())) * rng.unit()
                if lim > 0:
                    ol = s.ask("find " + hx(lim))
                    stl = parse_state(ol)
                    st_["ops"] += 1
            o = s.ask("find")
            st = parse_state(o)
            st_["ops"] += 1
            d, bnd, dhex = st["prop"]
            if lim is not None and lim > 0 and stl is not None:
                st_["limited_checks"] += 1
                dl, bl, dlhex = stl["prop"]
                exp = (dhex, bnd) if d <= lim else (hx(lim), False)
                if (dlhex, bl) != exp or (bl and (stl["nf"], stl["nl"]) != (st["nf"], st["nl"])):
                    self._fail(("limited-vs-unlimited:" + self.name,
                                      f"find_next_step({lim}) = ({dl},{bl}) but unlimited = ({d},{bnd})",
                                      {"geo": self.geo_line, "ops": s.lines[t0:]}))
            pos0, dir0 = st["levels"][0]["pos"], st["levels"][0]["dir"]
            chain = chain_of(st)
            if st["b"] == "0":
                pass        # reentrant (pre-crossing direction reversal): distance 0, cross is a no-op
            else:
                if not bnd:
                    if st["out"]:
                        st_["exits"] += 1
                        return
                    self._fail(("no-boundary-found:" + self.name,
                                      "unlimited find_next_step found no boundary inside the world",
                                      {"geo": self.geo_line, "ops": s.lines[t0:]}))
                    return
                # probes along the step: just after the start, the middle, just before the end
                eps = 20 * self.pg.tol * max(1.0, max(abs(c) for c in pos0))
                tts = [min(eps, d / 4), d / 2, d - min(eps, d / 4), d * rng.unit()]
                tts += [d * (k + 0.5) / dense for k in range(dense)]
                for tt in tts:
                    ok = self.probe([pos0[i] + tt * dir0[i] for i in range(3)], chain,
                                    "inside a step (t=%g of %g)" % (tt, d), t0, hint or graze_key)
                    if not ok:
                        return
                hint = None
                # --- optional internal moves
                k = rng.below(8)
                if k == 0 and d > 0:
                    frac = rng.unit() * 0.9 + 0.05
                    o = s.ask("move_internal " + hx(d * frac))
                    st2 = parse_state(o)
                    st_["ops"] += 1
                    st_["moves"] += 1
                    post_cross = False
                    if st2 is not None:
                        self.probe(st2["levels"][0]["pos"], chain, "after move_internal", t0)
                        if rng.chance(1, 2):
                            o = s.ask("find")
                            st3 = parse_state(o)
                            st_["ops"] += 1
                            d3 = st3["prop"][0]
                            if st3["nf"] != st["nf"] and abs(d3 - d * (1 - frac)) <= 1e-9 * max(1.0, d):
                                # same distance, other surface id: two coincident surfaces
                                # (e.g. a daughter surface on the parent's boundary) — the
                                # property speaks about volumes and distances only
                                st_["coincident_next_surface"] = st_.get("coincident_next_surface", 0) + 1
                            elif abs(d3 - d * (1 - frac)) > 1e-6 * max(1.0, self.extent) \
                                    or st3["nf"] != st["nf"]:
                                self._fail(("move-internal-desync:" + self.name,
                                                  "distance to boundary after move_internal + find "
                                                  f"is {d3}, expected {d * (1 - frac)}",
                                                  {"geo": self.geo_line, "ops": s.lines[t0:]}))
                            st = st3
                            d = d3
                        else:
                            st = st2
                            d = d * (1 - frac)
                elif k == 1 and n_setdir < 4 and not straight:
                    # change direction inside the volume (after an optional partial move)
                    st, abort = set_dir(rnd_unit_vec(rng))
                    if abort:
                        return
                    continue
                elif k == 2 and st["sl"] == "-" and not straight:
                    # move to a nearby point of the same volume (harness-only safety query)
                    so = s.ask("safety", model=False)
                    sf = fl(so.split()[1]) if so.startswith("safety") else 0.0
                    if sf > 1e-3 and math.isfinite(sf):
                        u = rnd_unit_vec(rng)
                        npos = [pos0[i] + 0.5 * sf * rng.unit() * u[i] for i in range(3)]
                        o = s.ask("move_pos " + " ".join(map(hx, npos)))
                        st = parse_state(o)
                        st_["ops"] += 1
                        st_["moves"] += 1
                        post_cross = False
                        self.probe(st["levels"][0]["pos"], chain, "after move_internal(pos)", t0)
                        continue
                # --- to the boundary
                o = s.ask("move_to_boundary")
                st = parse_state(o)
                st_["ops"] += 1
                post_cross = False
                self.note_boundary(st)
                if st is None:
                    self._fail(("protocol:" + self.name, "move_to_boundary refused: " + o,
                                      {"geo": self.geo_line, "ops": s.lines[t0:]}))
                    return
            # --- on a boundary: maybe change direction (the set_dir clause of the property)
            if st["sl"] != "-" and not straight:
                # (a) directions sampled densely near the tangent plane of the surface (within
                #     ±20° of it, both sides), judged against a normal computed independently from
                #     the OrangeInput (local point, gradient, rotations sl-1 … 0)
                nrm = self.pg.surface_normal(chain_of(st), int(st["sl"]), int(st["surf"]),
                                             st["levels"][0]["pos"])
                k_tan = 0
                while (nrm is not None and n_tangent < 12 and k_tan < 3
                       and rng.chance(self.tangent_num, 4)):
                    th = math.radians((rng.unit() * 2 - 1) * 20.0)
                    if abs(th) < 2e-3:
                        continue
                    u_ = rnd_unit_vec(rng)
                    dn_ = sum(u_[i] * nrm[i] for i in range(3))
                    tau = [u_[i] - dn_ * nrm[i] for i in range(3)]
                    tn = math.sqrt(sum(c * c for c in tau))
                    if tn < 0.1:
                        continue
                    nd = [math.cos(th) * tau[i] / tn + math.sin(th) * nrm[i] for i in range(3)]
                    nn = math.sqrt(sum(c * c for c in nd))
                    nd = [c / nn for c in nd]
                    old = st["levels"][0]["dir"]
                    b0, lvl, sl_ = st["b"], int(st["level"]), int(st["sl"])
                    st_["setdir_on_boundary"] += 1
                    st_["tangent_setdir"] = st_.get("tangent_setdir", 0) + 1
                    if sl_ >= 2:
                        st_["tangent_setdir_sl2"] = st_.get("tangent_setdir_sl2", 0) + 1
                    if lvl > sl_:
                        st_["setdir_deeper"] += 1
                    hint = ("setdir-rotate-up-range" if lvl > sl_ else
                            "setdir-normal-frame" if sl_ >= 1 else None)
                    was_post = post_cross
                    st, abort = set_dir(nd)
                    n_setdir -= 1
                    n_tangent += 1
                    k_tan += 1
                    d_new = sum(nrm[i] * nd[i] for i in range(3))
                    d_old = sum(nrm[i] * old[i] for i in range(3))
                    if min(abs(d_new), abs(d_old)) > 1e-5:
                        st_["flag_checks"] = st_.get("flag_checks", 0) + 1
                        want = (d_new >= 0) != (d_old >= 0)
                        got = st["b"] != b0
                        if want != got:
                            self._fail((
                                "setdir-boundary-flag:" + ("curved" if self.pg.is_curved(
                                    chain_of(st), sl_, int(st["surf"])) else "plane")
                                + (":deep" if sl_ >= 2 else ""),
                                f"set_dir on a boundary (surface level {sl_}, track level {lvl}): the "
                                f"boundary flag {'was not flipped' if want else 'was flipped'} although "
                                f"the independent surface normal {nrm} gives n.new={d_new:.6g}, "
                                f"n.old={d_old:.6g}",
                                {"geo": self.geo_line, "normal": nrm, "newdir": nd, "olddir": old,
                                 "ops": s.lines[t0:]}))
                    if abort:
                        return
                if n_setdir < 4 and k_tan == 0 and rng.chance(1, 3):
                    nd = rnd_unit_vec(rng)
                    if rng.chance(1, 2):        # bias towards reversing through the surface
                        cur = st["levels"][0]["dir"]
                        nd = [-cur[i] * 0.7 + nd[i] * 0.7 for i in range(3)]
                        n = math.sqrt(sum(c * c for c in nd)) or 1.0
                        nd = [c / n for c in nd]
                    st_["setdir_on_boundary"] += 1
                    if int(st["level"]) > int(st["sl"]):
                        st_["setdir_deeper"] += 1
                        hint = "setdir-rotate-up-range"
                    elif int(st["sl"]) >= 1:
                        hint = "setdir-normal-frame"
                    st, abort = set_dir(nd)
                    if abort:
                        return
            if st["b"] == "0":
                st_["reentrant"] += 1
            o = s.ask("cross")
            st = parse_state(o)
            st_["ops"] += 1
            if st is None:
                self._fail(("protocol:" + self.name, "cross refused: " + o,
                                  {"geo": self.geo_line, "ops": s.lines[t0:]}))
                return
            crossings += 1
            st_["crossings"] += 1
            post_cross = True
            self.note_boundary(st)
            if self.n_bih < self.bih_budget and rng.chance(1, 4) and st["levels"]:
                for lv in st["levels"]:
                    self.bih_probe(lv["u"], lv["pos"])
            if st["fail"]:
                self._fail(("cross-failed:" + self.name, "cross_boundary failed to find a volume",
                                  {"geo": self.geo_line, "ops": s.lines[t0:]}))
                return
            if st["out"]:
                st_["exits"] += 1
                return
        self._fail(("no-exit:" + self.name,
                          f"ray did not leave the world after {max_cross} crossings",
                          {"geo": self.geo_line, "ops": s.lines[t0:][:400]}))

    def run_tracks(self, rng, n, max_cross=400):
        E = self.extent
        for _ in range(min(30, max(0, self.bih_budget - self.n_bih))):
            c = self.aim[0] if (self.aim is not None and rng.chance(1, 2)) else [0.0, 0.0, 0.0]
            sc = self.aim[1] if (self.aim is not None and c is self.aim[0]) else E
            self.bih_probe(0, [c[i] + (rng.unit() * 2 - 1) * sc for i in range(3)])
        for _ in range(n):
            pos = [(rng.unit() * 2 - 1) * E * 0.9 for _ in range(3)]
            if rng.chance(1, 3):
                pos = [c * 0.3 for c in pos]
            if self.aim is not None and rng.chance(1, 3):
                pos = [self.aim[0][i] + (rng.unit() * 2 - 1) * self.aim[1] * 0.55 for i in range(3)]
            tgt = [(rng.unit() * 2 - 1) * E * 0.5 for _ in range(3)]
            if self.aim is not None and rng.chance(3, 4):
                tgt = [self.aim[0][i] + (rng.unit() * 2 - 1) * self.aim[1] * 0.6 for i in range(3)]
            dr = [tgt[i] - pos[i] for i in range(3)]
            nn = math.sqrt(sum(c * c for c in dr))
            if nn < 1e-6 or rng.chance(1, 10):
                dr = rnd_unit_vec(rng)
                if rng.chance(1, 3):
                    dr = [0.0, 0.0, 0.0]
                    dr[rng.below(3)] = rng.choice([1.0, -1.0])
            else:
                dr = [c / nn for c in dr]
                n2 = math.sqrt(sum(c * c for c in dr))
                dr = [c / n2 for c in dr]
            self.track(rng, pos, dr, max_cross)
            if len(self.fail) > 5:
                break

    def run_grazing(self, rng, rays, max_cross=50):
        """prepared grazing / near-parallel rays: straight flight, dense point-location probes on
        every step; the independent first change of the location along the ray classifies
        whether the grazed surface is the first true crossing (coverage)"""
        for pos, dr, cls, th in rays:
            tstar, flipped = self.pg.first_change(pos, dr, 3200.0)
            near = self.pg.nearest_surface(pos)
            self.stats["graze_rays:" + cls] = self.stats.get("graze_rays:" + cls, 0) + 1
            # the grazed surface = the surface nearest to the start point; it must be of the
            # intended class and be THE surface whose sense flips at the first true crossing
            if near is not None and near[2] == cls and (0, near[1], cls) in flipped:
                self.stats["graze_first:" + cls] = self.stats.get("graze_first:" + cls, 0) + 1
                band = "graze_first_band:" + cls       # angle decade of the counted rays
                self.stats[band + ":1e%d" % math.floor(math.log10(th))] = \
                    self.stats.get(band + ":1e%d" % math.floor(math.log10(th)), 0) + 1
            self.track(rng, pos, dr, max_cross, straight=True, dense=24,
                       graze_key="grazing-skip:" + cls)
            if len(self.fail) > 8:
                break

    def finish(self):
        self.sess.close()
        s = self.sess
        lines = [l for i, l in enumerate(s.lines) if i not in s.model_skip]
        outs = [o for i, o in enumerate(s.out) if i not in s.model_skip]
        return lines, outs


def extent_of(path):
    j = json.load(open(path))
    bb = j["universes"][0].get("bbox")
    if bb:
        return max(1.0, max(abs(c) for c in bb[0] + bb[1]))
    return 100.0


def run(ctx):
    quick = ctx.quick()
    if os.environ.get("C03_DEV"):     # development aid: skip the (slow, lock-guarded) proof side
        ps = {"broken": [], "model_ok": True, "build": {"ok": False}}
    else:
        ps = common.proof_side(ctx, "C03")
    broken = list(ps["broken"])
    numself.run(ctx)
    exe, log, _ = vlib.build_harness("nav", HARNESS["nav"])
    if exe is None:
        ctx.violation("harness-build", "harness/nav.cc no longer builds against /repo",
                      {"correspondence": "harness build", "log": log[-2000:]}, found_input=False)
        ctx.coverage.update({"evaluations": 0, "distinct_nontrivial": 0,
                             "explanation": "harness did not build"})
        return LEVEL
    rng = ctx.rng
    t_start = time.time()
    tmp = tempfile.mkdtemp(prefix="c03-")
    geos = []
    for p in sorted(glob.glob(os.path.join(vlib.REPO, "test/orange/data/*.org.json"))):
        name = os.path.basename(p)[:-9]
        if "involute" in name:
            continue            # unknown surface type `inv`: the JSON importer crashes in this build
        geos.append((name, "geo file " + p, p, None, None))
    n_rand = 12 if quick else 80
    for k in range(n_rand):
        toks, R, info = gen_spec(rng)
        jp = os.path.join(tmp, "rand%d.json" % k)
        geos.append(("rand%d" % k, "geo build %s 1e-5 %s" % (jp, " ".join(toks)), jp, R, info))
    for k in range(8 if quick else 60):
        toks, R, info = gen_deep_spec(rng)
        jp = os.path.join(tmp, "deep%d.json" % k)
        geos.append(("deep%d" % k, "geo build %s 1e-5 %s" % (jp, " ".join(toks)), jp, R, info))
    for rep in range(1 if quick else 5):
        for cls in GRAZE_CLASSES:
            toks, R, info = gen_grazing(rng, cls, 28 if quick else 60)
            jp = os.path.join(tmp, "graze-%s-%d.json" % (cls, rep))
            geos.append(("graze-%s-%d" % (cls, rep), "geo build %s 1e-5 %s" % (jp, " ".join(toks)),
                         jp, R, info))
    for k in range(6 if quick else 40):
        jp = os.path.join(tmp, "rect%d.json" % k)
        Rw, aim = gen_rect_json(rng, jp)
        geos.append(("rect%d" % k, "geo file " + jp, jp, Rw, {"rect": True, "aim": aim}))
    n_tracks_bundled = 40 if quick else 400
    n_tracks_rand = 40 if quick else 250
    total = {}
    diverged, all_fail, skipped, crashed = [], [], [], []
    input_overlaps = {}
    bih_wf = {}
    evaluations, distinct = 0, set()
    samples = []
    corpus_lines = []
    cdir = os.path.join(vlib.CORPUS, "C03")
    model = vlib.model_exe("C03")

    def diff_model(lines, outs, name):
        nonlocal evaluations
        if not ps["model_ok"]:
            return
        _, om = vlib.run_lines([model], lines + ["bihwf"], timeout=3600)
        evaluations += len(lines)
        wf = om[len(lines)] if len(om) > len(lines) else "<missing>"
        bih_wf[name] = wf
        if wf != "bihwf ok":
            all_fail.append(("bih-ill-formed:" + name,
                             "the BIH built by OrangeParams for this geometry fails the decidable "
                             "well-formedness check BihWellFormed (universe:reason = " + wf + "): "
                             "bih_complete / bih_terminates do not apply to it",
                             {"geo": lines[0], "result": wf}))
        for i, l in enumerate(lines):
            b = om[i] if i < len(om) else "<missing>"
            if outs[i] != b:
                lo = max(0, i - 40)
                diverged.append({"geo": name, "op": l[:300], "impl": outs[i][:600], "model": b[:600],
                                 "ops_before": [x[:300] for x in lines[lo:i]]})
                break

    # corpus first
    if os.path.isdir(cdir):
        for fn in sorted(os.listdir(cdir)):
            if not fn.endswith(".ops"):
                continue
            ops = [l.rstrip("\n").replace("@TMP@", tmp) for l in open(os.path.join(cdir, fn))
                   if l.strip()]
            gr = GeoRun(ctx, exe, "corpus:" + fn, ops[0], None, 100.0)
            gr.sess = Session(exe)
            o = gr.sess.ask(ops[0])
            d = gr.sess.ask("dump", model=False)
            gr.sess.ask(d)
            m = ops[0].split()
            jp = m[2] if m[1] in ("file", "build") else None
            pg = PGeo(json.load(open(jp)))
            prev = None
            for op in ops[1:]:
                o = gr.sess.ask(op)
                st = parse_state(o)
                if op.split()[0] == "find" and st and st["prop"] and st["b"] == "1" and st["prop"][1]:
                    d0 = st["prop"][0]
                    p0, dr0 = st["levels"][0]["pos"], st["levels"][0]["dir"]
                    loc, near = pg.locate([p0[i] + 0.5 * d0 * dr0[i] for i in range(3)])
                    if not near and loc != chain_of(st):
                        key = "setdir-rotate-up-range" if "setdir" in fn else "corpus:" + fn
                        all_fail.append((key, f"corpus {fn}: navigator reports {chain_of(st)} but the "
                                         f"midpoint of the next step is located in {loc}",
                                         {"ops": ops, "at": op}))
                        break
            lines, outs = gr.finish()
            corpus_lines += lines
            diff_model(lines, outs, "corpus:" + fn)

    for name, geo_line, jp, R, info in geos:
        if time.time() - t_start > (200 if quick else 1300):
            skipped.append(name + " (time budget)")
            continue
        gr = GeoRun(ctx, exe, name, geo_line, jp, R or 1.0)
        if info and info.get("aim"):
            gr.aim = info["aim"]
        if info and info.get("deep"):
            gr.tangent_num = 3
        try:
            ok, why = gr.start()
        except (RuntimeError, BrokenPipeError, OSError):
            ok, why = False, "harness crashed while building the geometry"
            crashed.append(geo_line)
        if not ok:
            skipped.append(f"{name} ({why[:80]})")
            gr.sess.close()
            continue
        if R is None:
            gr.extent = extent_of(jp)
        if info and info.get("rays"):
            gr.run_grazing(rng, info["rays"])
            gr.run_tracks(rng, 6)
        else:
            gr.run_tracks(rng, n_tracks_bundled if R is None else n_tracks_rand)
        lines, outs = gr.finish()
        for k, v in gr.stats.items():
            total[k] = max(total.get(k, 0), v) if k == "max_level" else total.get(k, 0) + v
        all_fail += gr.fail
        if gr.overlap:
            input_overlaps[name] = gr.overlap
        for l in lines[2:]:
            distinct.add(l)
        if len(samples) < 4 and len(lines) > 6:
            samples.append({"geo": geo_line[:200], "ops": lines[2:8], "impl": [o[:160] for o in outs[2:8]]})
        diff_model(lines, outs, name)

    # coverage of the grazing family: per surface class, rays whose first TRUE crossing (found
    # independently of the tracker) is the grazed surface
    graze_cov = {c: (total.get("graze_first:" + c, 0), total.get("graze_rays:" + c, 0))
                 for c in GRAZE_CLASSES}
    for c, (nf, nr) in graze_cov.items():
        if nf == 0 and not any(c in sk for sk in skipped):
            ctx.violation("coverage:grazing-first:" + c,
                          f"no grazing ray of class {c} had the grazed surface as its first true "
                          f"crossing ({nr} rays generated): the check would not notice a "
                          "direction-dependent cut-off error of that surface class",
                          {"class": c, "rays": nr}, found_input=False)
    if not ps["model_ok"]:
        broken.append("model driver did not build")
    if diverged:
        broken.append(f"correspondence: model and implementation differ on {len(diverged)} geometries "
                      f"(first: {diverged[0]['geo']}: {diverged[0]['op'][:60]})")
    seen = set()
    for key, what, info in all_fail:
        if key in seen:
            continue
        seen.add(key)
        ctx.violation(key, "real ORANGE navigation: " + what, dict(info, harness="harness/nav.cc"))
    if broken and not ctx.violations:
        ctx.violation("unproved", "; ".join(broken)[:600],
                      {"no_longer_checks": broken, "diverging": diverged[:2]}, found_input=False)
    if not quick and ps["build"]["ok"]:
        common.leanchecker(ctx, ["CelerVerif.Props.C03"])
    ctx.assumptions += [
        "theorems about distances are stated at ℝ for the Num-generic definitions; the same definitions "
        "run at Float reproduce every state field of the real navigator bit-for-bit on all ops compared",
        "ray_trace_matches_location_unit: ray in general position w.r.t. every face (start off the "
        "surfaces, leading coefficient outside the solver's tolerance band or plane crossed "
        "transversally, all crossings simple, distances below max()); volumes partition the senses; "
        "coinciding events of different faces produce empty intervals reported by both sides alike",
        "nested_trace_first_change_partial: daughter transforms are translations or transformations "
        "with orthonormal rows; one step only",
        "std::sort of the intersection indices is modelled as a stable insertion sort (ties between "
        "exactly equal distances are not pinned by the C++ standard)",
        "documented call order (find before move/cross; cross only on a boundary) is enforced by both "
        "drivers; CELER_EXPECT preconditions are hypotheses",
        "involute surfaces, find_safety and the device code path are not modelled",
        "BIH: bih_complete / bih_terminates / bih_sound_order hold for trees satisfying the decidable "
        "bihWellFormed (links, covering planes, no stray node, every volume placed); that BIHBuilder "
        "produces such trees is proved only at tree level for the planes (bihBuild_covered_partial) and "
        "is otherwise a CHECKED hypothesis: evaluated on the real tree of every geometry of every run; "
        "completeness is for points in the interior of a bounding box (the traverser compares with <)",
    ]
    ctx.coverage.update({
        "evaluations": evaluations, "distinct_nontrivial": len(distinct),
        "rule": "op lines (init/find[max]/move_internal/move_pos/move_to_boundary/cross/set_dir) "
                "answered by the real navigator and compared field-by-field with the model; distinct = "
                "distinct op lines after the geometry definition; every track also feeds the "
                "independent point-location oracle",
        "geometries": len(geos) - len(skipped), "skipped": skipped, "build_crashes": crashed[:3],
        "oracle": total, "oracle_failures": len(all_fail), "diverging": diverged[:3],
        "input_overlaps": input_overlaps,
        "bih_wellformed": {"checked": len(bih_wf),
                           "ok": sum(1 for v in bih_wf.values() if v == "bihwf ok"),
                           "not_ok": {k: v for k, v in bih_wf.items() if v != "bihwf ok"}},
        "grazing_first_crossing": {c: {"first_is_grazed": a_, "rays": b_}
                                   for c, (a_, b_) in graze_cov.items()},
        "samples": samples, "corpus_ops": len(corpus_lines),
        "correspondence_broken": broken,
        "explanation": "proof covers the tracker control logic over recorded per-face answers, the "
                       "level-minimum, the set_dir flag and single-level ray tracing at ℝ; multi-level "
                       "composition, rounding and degenerate rays are carried by the bit-exact "
                       "differential run and the independent point-location oracle",
    })
    try:
        for f in os.listdir(tmp):
            os.unlink(os.path.join(tmp, f))
        os.rmdir(tmp)
    except OSError:
        pass
    return LEVEL


def replay(ctx, data):
    exe, log, _ = vlib.build_harness("nav", HARNESS["nav"])
    r = data["replay"]
    ops = r.get("ops")
    if ops and r.get("geo"):
        lines = [r["geo"]] + [o for o in ops if not o.startswith("def ")]
        _, o = vlib.run_lines([exe], lines)
        for l, a in zip(lines, o):
            print(l[:200], "->", a[:300])
    else:
        print(json.dumps(r, indent=1)[:4000])
    return 0
