"""C18 — device-portable algorithms and grid lookups agree with reference semantics."""
import math
import os
import struct

import vlib
from checks import common

LEVEL = "proof"
HARNESS = {"algo": ["corecel"]}
MANIFEST = {
    "category": "proof",
    "technique": "Lean 4 proof (loop invariants / induction over every input length, any strict "
                 "weak order) about an executable model written as the C++ is written; exhaustive "
                 "+ random differential correspondence model vs real templates; std:: / exact / "
                 "long-double oracles on the real code",
    "text": "Theorems over the model for every array length and every strict weak order: heapsort "
            "output is a sorted permutation; lower_bound/upper_bound/lower_bound_linear return "
            "exactly the std:: partition point; find_sorted, partition (permutation, true-before-"
            "false, index = count), min_element (first minimum), all_of/any_of/all_adjacent, clamp, "
            "ceil_div, LocalWorkCalculator, ipow, range/count stepping (incl. negative step), "
            "Hyperslab and RaggedRight indexers (mutually inverse bijections), NonuniformGrid::find "
            "bracket. The model is tied to the real header templates by an exact diff on every "
            "order pattern (all packed words = all permutations and multisets up to order "
            "isomorphism) up to length 7 plus long duplicate-heavy arrays, with the three "
            "comparator shapes used in the code base (Less, greater, indirect index-by-key). "
            "Floating-point part (UniformGrid::find, find_interp, Interpolator, TwodGridCalculator) "
            "is NOT modelled here: it is checked on the real code against long-double references "
            "at every grid point +- 1 ulp.",
    "design_ref": "DESIGN.md §6 C18",
    "note": "Integer part = proof. UniformGrid/Interpolator arithmetic = oracle only (numeric layer "
            "to follow). Known: UniformGrid::find returns size-1 just below the last knot "
            "(DESIGN §8 row d), reported under key uniformgrid-find-last-bin.",
}


def hx(d):
    return "%016x" % struct.unpack("<Q", struct.pack("<d", d))[0]


def unhx(s):
    return struct.unpack("<d", struct.pack("<Q", int(s, 16)))[0]


# --------------------------------------------------------------------------- generators
def packed_words(n):
    """all sequences of length n whose set of values is {0..k-1} for some k: one representative
    of every order pattern (every permutation and every arrangement of every multiset);
    their number is the ordered Bell number (1, 1, 3, 13, 75, 541, 4683, 47293, 545835)"""
    if n == 0:
        return [()]
    out = []
    for k in range(1, n + 1):
        word = [0] * n
        used = [0] * k

        def rec(pos, missing):
            if pos == n:
                if missing == 0:
                    out.append(tuple(word))
                return
            if n - pos < missing:
                return
            for v in range(k):
                word[pos] = v
                used[v] += 1
                rec(pos + 1, missing - (1 if used[v] == 1 else 0))
                used[v] -= 1
        rec(0, k)
    return out


_PW_CACHE = {}


def packed(n):
    if n not in _PW_CACHE:
        _PW_CACHE[n] = packed_words(n)
    return _PW_CACHE[n]


def sl(xs):
    return " ".join(str(x) for x in xs)


def ops_for_word(w, rng, full):
    """all comparator ops for one element sequence"""
    n = len(w)
    out = ["sort less : " + sl(w), "sort key : " + sl(range(n)) + " : " + sl(w)]
    if full or rng.chance(1, 2):
        out.append("sort greater : " + sl(w))
        out.append("make_heap less : " + sl(w))
        out.append("min_element less : " + sl(w))
        out.append("min_element key : " + sl(range(n)) + " : " + sl(w))
    if n and (full or rng.chance(1, 3)):
        m = rng.below(n + 1)
        out.append("psort less %d : %s" % (m, sl(w)))
        perm = list(range(n))
        rng.shuffle(perm)
        out.append("sort key : " + sl(perm) + " : " + sl(w))
        out.append("sort_heap less : " + sl(w))
        ln = rng.range(1, n)
        out.append("sift_down less %d %d : %s" % (ln, rng.below(ln), sl(w)))
        out.append("all_adjacent less : " + sl(w))
        out.append("min_element greater : " + sl(w))
    return out


def bound_ops(w, rng, full):
    """searches on a sorted word (and its reverse with `greater`) for every relevant value"""
    s = sorted(w)
    k = (max(s) + 1) if s else 0
    out = []
    for v in range(-1, k + 1):
        for op in ("lower_bound", "upper_bound", "lower_bound_linear", "find_sorted"):
            out.append("%s less %d : %s" % (op, 2 * v, sl(2 * x for x in s)))
            out.append("%s less %d : %s" % (op, 2 * v + 1, sl(2 * x for x in s)))
        if full or rng.chance(1, 2):
            out.append("lower_bound greater %d : %s" % (v, sl(reversed(s))))
            out.append("upper_bound greater %d : %s" % (v, sl(reversed(s))))
            out.append("find_sorted greater %d : %s" % (v, sl(reversed(s))))
    # indirect comparator: indices sorted by key
    if s:
        idx = sorted(range(len(w)), key=lambda i: w[i])
        for v in range(len(w)):
            out.append("lower_bound key %d : %s : %s" % (v, sl(idx), sl(w)))
            out.append("upper_bound key %d : %s : %s" % (v, sl(idx), sl(w)))
            if full:
                out.append("find_sorted key %d : %s : %s" % (v, sl(idx), sl(w)))
    # NonuniformGrid::find at every knot and +-1
    if len(s) >= 2:
        g = [2 * x for x in s]
        for v in range(g[0], g[-1]):
            out.append("nugrid_find %d : %s" % (v, sl(g)))
    return out


def random_array(rng):
    n = rng.choice([8, 9, 10, 12, 15, 16, 17, 31, 32, 33, 50, 64, 100, 127, 128, 200])
    kind = rng.below(8)
    alpha = rng.choice([1, 2, 3, 4, 8, n, 4 * n])
    xs = [rng.below(alpha) for _ in range(n)]
    if kind == 0:
        xs.sort()
    elif kind == 1:
        xs.sort(reverse=True)
    elif kind == 2:
        xs.sort()
        xs = xs[::2] + xs[1::2][::-1]          # organ pipe
    elif kind == 3:
        xs = [x - alpha // 2 for x in xs]        # negatives
    elif kind == 4:
        xs = [x * (1 << 40) - (1 << 61) for x in xs]   # large magnitudes
    return xs


def scalar_ops(rng, quick):
    out = []
    edge = [0, 1, 2, 3, 7, 8, 9, (1 << 31) - 1, 1 << 31, (1 << 32) - 1, 1 << 32, (1 << 63) - 1,
            1 << 63, (1 << 64) - 2, (1 << 64) - 1]
    for t in edge:
        for b in edge:
            out.append("ceil_div %d %d" % (t, b))
    for t in range(0, 13):
        for b in range(0, 6):
            out.append("ceil_div %d %d" % (t, b))
    for _ in range(200 if quick else 3000):
        bits = rng.range(1, 64)
        t = rng.next() & ((1 << bits) - 1)
        b = rng.next() & ((1 << rng.range(1, bits)) - 1)
        out.append("ceil_div %d %d" % (t, b))
        out.append("ceil_div %d %d" % (t - t % b if b else t, b))
        w = rng.range(1, 40)
        out.append("local_work %d %d %d" % (t, w, rng.below(w)))
    for total in range(0, 12):
        for w in range(1, 6):
            for i in range(w + 1):
                out.append("local_work %d %d %d" % (total, w, i))
    vs = [0, 1, 2, 3, 5, 10, 255, (1 << 32) - 1, (1 << 32) + 1, (1 << 64) - 1, 0xdeadbeefcafef00d]
    for n in range(0, 65):
        for v in vs if not quick or n < 12 else vs[:5]:
            out.append("ipow %d %d" % (n, v))
    out.append("ipow 65 2")
    for v in (-5, -1, 0, 1, 5, 1 << 62, -(1 << 62)):
        out.append("clamp_nonneg %d" % v)
        out.append("signum %d" % v)
        for lo in (-3, 0, 2):
            for hi in (-3, 0, 2, 9):
                out.append("clamp %d %d %d" % (v, lo, hi))
        for y in (-5, 0, 5, 7):
            out.append("min %d %d" % (v, y))
            out.append("max %d %d" % (v, y))
    # range / count
    R = range(-3, 6) if quick else range(-5, 9)
    for b in R:
        for e in R:
            out.append("range1 %d %d" % (b, e))
            for s in (-4, -3, -2, -1, 1, 2, 3, 4, 0):
                out.append("range i %d %d %d" % (b, e, s))
            if b >= 0 and e >= 0:
                for s in (1, 2, 3, 5):
                    out.append("range u %d %d %d" % (b, e, s))
    for _ in range(100 if quick else 1500):
        b = rng.range(-1000, 1000) * rng.choice([1, 1, 1000, 1 << 19])
        e = b + rng.range(-20, 300) * rng.choice([1, 1, 7, 1 << 10])
        s = rng.range(1, 50) * rng.choice([1, 1, 3, 1 << 9]) * rng.choice([1, -1])
        out.append("range i %d %d %d" % (b, e, s))
        out.append("count %d %d %d" % (b, rng.range(-1000, 1000), rng.below(65)))
        ub = rng.below(1 << 32)
        ue = min((1 << 32) - 1, ub + rng.below(5000))
        us = rng.range(1, 200)
        if ue + us < (1 << 32):      # no 32-bit wrap (wrap = endless loop in the real code)
            out.append("range u %d %d %d" % (ub, ue, us))
    out += ["range u 4294967000 4294967295 100", "range u 0 4294967295 2147483648",
            "range i 1073741824 -1073741824 -1073741824", "range i 0 1073741824 1073741823",
            "range i 0 1073741825 1", "count 1073741824 1048576 64", "count 5 0 3"]
    for ny in (1, 2, 5, 32767):
        for ix in (0, 1, 7, 32767):
            for iy in (0, 1, 4, 32766, 32767):
                out.append("twod_index %d %d %d" % (ny, ix, iy))
    return out


def indexer_ops(rng, quick):
    out = []
    shapes = [[1], [5], [1, 1], [2, 3], [3, 2], [4, 1, 3], [2, 3, 4], [1, 5, 1], [2, 2, 2, 2],
              [3, 1, 2, 2, 2], [2, 3, 1, 2, 3]]
    for _ in range(6 if quick else 60):
        shapes.append([rng.range(1, 5) for _ in range(rng.range(1, 5))])
    for d in shapes:
        prod = 1
        for x in d:
            prod *= x
        for idx in range(prod + 2):
            out.append("hyperslab_inv %s : %d" % (sl(d), idx))
            if idx < prod:
                c, r = [], idx
                for x in reversed(d):
                    c.append(r % x)
                    r //= x
                out.append("hyperslab %s : %s" % (sl(d), sl(reversed(c))))
        out.append("hyperslab %s : %s" % (sl(d), sl(d)))            # coords == dims: precond
    # big dims (product just below 2^32)
    for d in ([65536, 65535], [4294967295], [2, 2147483647], [1625, 1625, 1625], [255, 255, 255, 255],
              [84, 84, 84, 84, 84], [65536, 65536], [3, 0, 2]):
        prod = 1
        for x in d:
            prod *= x
        for idx in (0, 1, prod // 2, max(prod - 1, 0), prod, prod + 1):
            out.append("hyperslab_inv %s : %d" % (sl(d), idx))
        for _ in range(4):
            out.append("hyperslab %s : %s" % (sl(d), sl(rng.below(x) for x in d)))
        out.append("hyperslab %s : %s" % (sl(d), sl(max(x - 1, 0) for x in d)))
    rag = [[1], [3], [2, 3, 1], [1, 1, 1, 1], [4, 0, 2], [0, 0, 3], [3, 0, 0], [5, 1, 2, 2, 1, 3]]
    for _ in range(6 if quick else 60):
        rag.append([rng.below(5) for _ in range(rng.range(1, 6))])
    for szs in rag:
        tot = sum(szs)
        for idx in range(tot + 1):
            out.append("ragged_inv %s : %d" % (sl(szs), idx))
        for i in range(len(szs) + 1):
            for j in range((szs[i] if i < len(szs) else 0) + 1):
                out.append("ragged %s : %d %d" % (sl(szs), i, j))
    out += ["ragged 4294967295 1 : 1 0", "ragged 4294967294 1 : 1 0", "ragged_inv 4294967294 1 : 4294967294",
            "ragged_inv 2147483647 2147483647 1 : 4294967294"]
    return out


MALFORMED = ["", "frobnicate", "sort", "sort less", "sort less 3 : 1 2", "sort key : 0 1 2 : 5 6",
             "sort key : 0 1", "sort less : 1 x 2", "sort less : 99999999999999999999999",
             "sort less : 4611686018427387905", "sort less : 4611686018427387904 -4611686018427387904",
             "lower_bound less : 1 2", "lower_bound less 99999999999999999999 : 1 2",
             "lower_bound key 7 : 0 1 : 4 5", "partition lt : 1 2", "partition foo 1 : 1 2",
             "partition lt 1 : 1 : 2", "ceil_div 18446744073709551616 1", "ceil_div -1 1", "ipow 3",
             "range i 0 4", "range x 0 4 1", "range i 0 2000000000 1", "hyperslab : 1", "hyperslab 2 2 : 1",
             "hyperslab 1 1 1 1 1 1 : 0 0 0 0 0 0", "hyperslab_inv 2 2 : 1 1", "ragged 1 2 : 0",
             "ragged_inv 1 2 3 4 5 6 7 : 0", "nugrid_find 3 : 1", "nugrid_find 3 : 5 1 9",
             "nugrid_find 9 : 1 5 9", "nugrid_find 0 : 1 5 9", "nugrid_find : 1 5", "psort less 9 : 1 2",
             "psort less -1 : 1 2", "sift_down less 2 2 : 1 2 3", "sift_down less 4 0 : 1 2 3",
             "sort less : 0x10 -0x10 0xZ", "sort less : 0x10 -0x10 0Xa", "sort less : - 1", "sort less : 0x",
             "min_element less :", "sort less :", "partition odd 0 :", "all_of lt 3 :", "any_of lt 3 :",
             "all_adjacent less :", "lower_bound less 3 :", "find_sorted less 3 :"]


def tag(line):
    w = line.split()
    if not w:
        return "empty"
    t = w[0]
    if t in ("sort", "psort", "make_heap", "sort_heap", "sift_down", "lower_bound", "upper_bound",
             "lower_bound_linear", "find_sorted", "min_element", "all_adjacent") and len(w) > 1:
        t += ":" + w[1]
    return t


def nontrivial(line):
    """an op line is non-trivial when it carries a list of >= 2 elements or non-zero scalars"""
    if ":" in line:
        return len(line.split(":")[1].split()) >= 2
    w = line.split()
    return len(w) >= 3 and any(x not in ("0", "1") for x in w[1:])


# --------------------------------------------------------------------------- grid oracle
def grid_lines(rng, quick):
    """(deterministic DESIGN §8 row d grids first, then random ones)"""
    fixed, lines = [], []
    for emin, emax in ((1e-7, 10.0), (1e-4, 100.0), (1e-3, 1e8)):
        for n in (2, 3, 8, 50, 100):
            fixed.append("ugrid %s %s %d" % (hx(math.log(emin)), hx(math.log(emax)), n))
    lines += fixed
    for f, b, n in ((0.0, 1.0, 2), (0.0, 1.0, 11), (-1.0, 3.0, 5), (0.0, 10.0, 11), (1.0, 2.0, 1025),
                    (-5.0, -1.0, 9), (0.0, 100.0, 101), (1e-10, 1e10, 21), (0.1, 0.7, 7)):
        lines.append("ugrid %s %s %d" % (hx(f), hx(b), n))
    for _ in range(150 if quick else 4000):
        k = rng.below(4)
        if k == 0:
            f = math.log(10.0 ** rng.range(-9, 2) * rng.choice([1.0, 2.0, 5.0, 1 + rng.unit()]))
            b = f + math.log(10.0 ** rng.range(1, 12) * rng.choice([1.0, 1.0, 1 + rng.unit()]))
        elif k == 1:
            f = float(rng.range(-50, 50))
            b = f + float(rng.range(1, 200))
        elif k == 2:
            f = (rng.unit() - 0.5) * 10.0 ** rng.range(-3, 6)
            b = f + rng.unit() * 10.0 ** rng.range(-3, 6) + 1e-6
        else:
            f = -rng.unit() * 3
            b = rng.unit() * 3 + 1e-3
        n = rng.choice([2, 3, 4, 5, 7, 8, 10, 16, 33, 64, 100, 129, rng.range(2, 600)])
        if f < b:
            lines.append("ugrid %s %s %d" % (hx(f), hx(b), n))
    for _ in range(150 if quick else 4000):
        n = rng.range(2, 12)
        k = rng.below(3)
        if k == 0:
            xs = sorted(rng.unit() * 10.0 ** rng.range(-3, 3) for _ in range(n))
        elif k == 1:
            xs = sorted(float(rng.range(-20, 20)) for _ in range(n))       # duplicates
        else:
            x0 = 10.0 ** rng.range(-6, 2)
            ratio = 1 + rng.unit()
            xs = [x0 * ratio ** i for i in range(n)]
        if xs[0] < xs[-1]:
            lines.append("nugrid " + " ".join(hx(x) for x in xs))
        xl = (rng.unit() + 1e-3) * 10.0 ** rng.range(-6, 6)
        xr = xl * (1 + rng.unit() * rng.choice([1e-6, 1e-2, 1.0, 1e3])) + 1e-300
        yl = (rng.unit() + 1e-3) * 10.0 ** rng.range(-6, 6)
        yr = (rng.unit() + 1e-3) * 10.0 ** rng.range(-6, 6)
        kind = rng.choice(["linlin", "linlin", "loglin", "linlog", "loglog"])
        if kind == "linlin" and rng.chance(1, 2):
            yl, yr = -yl, yr * rng.choice([1.0, -1.0])
        if xl < xr:
            lines.append("interp %s %s %s %s %s" % (kind, hx(xl), hx(yl), hx(xr), hx(yr)))
    for _ in range(20 if quick else 300):
        nx, ny = rng.range(2, 6), rng.range(2, 6)
        xs, ys = [], []
        x = (rng.unit() - 0.5) * 4
        for _ in range(nx):
            x += rng.unit() + 1e-3
            xs.append(x)
        y = (rng.unit() - 0.5) * 4
        for _ in range(ny):
            y += rng.unit() * 10 + 1e-3
            ys.append(y)
        vals = [(rng.unit() - 0.3) * 100 for _ in range(nx * ny)]
        lines.append("twod %d %d %s" % (nx, ny, " ".join(hx(v) for v in xs + ys + vals)))
    return fixed, lines


def run_grid_oracle(ctx, exe, quick):
    fixed, lines = grid_lines(ctx.rng, quick)
    rc, out = vlib.run_lines([exe, "--grid"], lines)
    stats = {"lines": len(lines), "queries": 0, "ulp_level_bin_or_fraction_mismatch": 0,
             "last_bin_grids": 0, "last_bin_queries": 0, "zero_width_bins_selected": 0, "hard": 0}
    first_last = None
    if rc != 0 or len(out) != len(lines):
        ctx.violation("grid-oracle-crash", "harness --grid aborted or lost lines (rc=%s)" % rc,
                      {"mode": "grid", "ops": lines[max(0, len(out) - 2):len(out) + 1],
                       "tail": out[-3:]})
        return stats
    for l, o in zip(lines, out):
        w = o.split()
        kv = dict(x.split("=", 1) for x in w if "=" in x)
        if "q" in kv:
            stats["queries"] += int(kv["q"])
        if "soft" in kv:
            stats["ulp_level_bin_or_fraction_mismatch"] += int(kv["soft"])
        if "zero-width" in kv:
            stats["zero_width_bins_selected"] += int(kv["zero-width"])
        if "LAST-BIN" in w:
            stats["last_bin_grids"] += 1
            i = w.index("LAST-BIN")
            stats["last_bin_queries"] += int(w[i + 1].split("=")[1])
            if first_last is None:
                g = l.split()
                first_last = {"mode": "grid", "ops": [l], "impl": o,
                              "front": unhx(g[1]), "back": unhx(g[2]), "size": int(g[3]),
                              "front_bits": g[1], "back_bits": g[2],
                              "value_bits": w[i + 2].split("=")[1],
                              "value": unhx(w[i + 2].split("=")[1]),
                              "returned_bin": int(w[i + 3].split("=")[1]),
                              "construction": "UniformGridData::from_bounds(front, back, size); "
                                              "UniformGrid(data).find(value)",
                              "contradicts": "find postcondition bin + 1 < size (CELER_ENSURE compiled "
                                             "out); FindInterp doc: index in [0, size-1)"}
        if "HARD" in w or o in ("bad-op", "precond"):
            stats["hard"] += 1
            if stats["hard"] <= 3:
                ctx.violation("grid-oracle:" + l.split()[0] + (":" + l.split()[1] if l.startswith("interp") else ""),
                              "real grid code disagrees with the long-double reference: " + o[:200],
                              {"mode": "grid", "ops": [l], "impl": o})
    if first_last is not None:
        ctx.violation("uniformgrid-find-last-bin",
                      "UniformGrid::find(v) returns size-1 (bin+1 == size) for front <= v < back: "
                      "from_bounds(%r, %r, %d).find(%r) = %d (upper knot read one past the table by "
                      "every calculator; DESIGN.md §8 row d)"
                      % (first_last["front"], first_last["back"], first_last["size"],
                         first_last["value"], first_last["returned_bin"]),
                      first_last)
    stats["uniform_grids_tried"] = sum(1 for l in lines if l.startswith("ugrid"))
    stats["samples"] = [lines[0], out[0], lines[len(fixed) + 3], out[len(fixed) + 3]]
    return stats


# --------------------------------------------------------------------------- main
def build_scripts(ctx, quick):
    rng = ctx.rng
    lines = []
    counts = {}
    # 1. every order pattern up to length L exhaustively, sampled above
    full_upto = 6 if quick else 7
    n_patterns = 0
    for n in range(0, 8):
        ws = packed(n) if n <= (6 if quick else 7) else None
        if n <= full_upto:
            sel = ws
        elif ws is not None:
            sel = [ws[rng.below(len(ws))] for _ in range(700)]   # (unused: kept for tiers < full)
        else:
            # quick tier, n = 7: sample by random surjection without enumerating 7^7
            sel = []
            while len(sel) < 2500:
                k = rng.range(1, n)
                w = [rng.below(k) for _ in range(n)]
                if len(set(w)) == k:
                    sel.append(tuple(w))
        for w in sel:
            n_patterns += 1
            lines += ops_for_word(w, rng, full=(n <= 4) or (not quick and n <= 6))
            if tuple(sorted(w)) == w:
                lines += bound_ops(w, rng, full=not quick)
    if not quick:
        # every order pattern of length 8 (545835): the two sorts only
        for w in packed(8):
            n_patterns += 1
            lines.append("sort less : " + sl(w))
            lines.append("sort key : 0 1 2 3 4 5 6 7 : " + sl(w))
    counts["order_patterns"] = n_patterns
    # 2. partition / predicates: every boolean pattern up to length 10 (12 thorough)
    for n in range(0, 11 if quick else 13):
        for m in range(1 << n):
            bits = [(m >> i) & 1 for i in range(n)]
            lines.append("partition lt 1 : " + sl(bits))
            if n <= 6:
                lines.append("partition ge 1 : " + sl(bits))
                lines.append("partition odd 0 : " + sl(3 * b + 2 * i for i, b in enumerate(bits)))
                lines.append("all_of lt 1 : " + sl(bits))
                lines.append("any_of lt 1 : " + sl(bits))
    # 3. random longer arrays with many duplicates
    for _ in range(300 if quick else 6000):
        xs = random_array(rng)
        n = len(xs)
        lines.append("sort less : " + sl(xs))
        lines.append("sort greater : " + sl(xs))
        keys = [rng.below(max(1, n // 4)) for _ in range(n)]
        perm = list(range(n))
        rng.shuffle(perm)
        lines.append("sort key : " + sl(perm) + " : " + sl(keys))
        lines.append("psort less %d : %s" % (rng.below(n + 1), sl(xs)))
        lines.append("make_heap greater : " + sl(xs))
        lines.append("min_element less : " + sl(xs))
        lines.append("min_element key : " + sl(perm) + " : " + sl(keys))
        t = rng.choice(xs)
        lines.append("partition lt %d : %s" % (t, sl(xs)))
        lines.append("partition ge %d : %s" % (t, sl(xs)))
        lines.append("partition odd 0 : " + sl(xs))
        lines.append("all_of ge %d : %s" % (min(xs), sl(xs)))
        lines.append("any_of lt %d : %s" % (min(xs), sl(xs)))
        s = sorted(xs)
        for v in (t, t - 1, t + 1, s[0], s[-1], s[0] - 1, s[-1] + 1):
            op = rng.choice(["lower_bound", "upper_bound", "lower_bound_linear", "find_sorted"])
            lines.append("%s less %d : %s" % (op, v, sl(s)))
            lines.append("%s greater %d : %s" % (op, v, sl(reversed(s))))
        lines.append("lower_bound less %d : %s" % (t, sl(xs)))      # unsorted: still deterministic
        lines.append("upper_bound less %d : %s" % (t, sl(xs)))
        lines.append("all_adjacent less : " + sl(s))
        if s[0] < s[-1] and max(abs(s[0]), abs(s[-1])) < (1 << 53):
            for v in (t, t - 1, t + 1, s[0], s[-1] - 1):
                if s[0] <= v < s[-1]:
                    lines.append("nugrid_find %d : %s" % (v, sl(s)))
    # 4. scalars, ranges, indexers, malformed
    lines += scalar_ops(rng, quick)
    lines += indexer_ops(rng, quick)
    lines += MALFORMED
    return lines, counts


def run(ctx):
    quick = ctx.quick()
    ps = common.proof_side(ctx, "C18")
    broken = list(ps["broken"])
    ctx.assumptions += [
        "Model/Algo.lean is hand-written from Algorithms.hh / AlgorithmsImpl.hh / RangeImpl.hh / "
        "HyperslabIndexer.hh / RaggedRightIndexer.hh / NonuniformGrid.hh; iterators are array indices "
        "(first = 0), element moves are array writes; tied to the real templates by exact diff only",
        "theorems quantify over every array length and every comparator that is a strict weak order "
        "(irreflexive, transitive, transitive incomparability); the comparators of the code base "
        "(Less, greater, index-by-key) are such orders on non-NaN values",
        "integer helpers are modelled in unbounded Nat/Int; the theorems carry the no-overflow side "
        "conditions (product of dims < 2^32, values within int range) as hypotheses; ipow on "
        "unsigned long long is modelled with wrap-around",
        "range(b,e).step(s) with s<0 enumerates e+s, e+2s, ... >= b as written (not the reversal of "
        "the forward range unless s divides e-b); step 0 and unsigned wrap-around never terminate in "
        "the real code and are outside the modelled precondition",
        "floating-point arithmetic of UniformGrid::find / find_interp / Interpolator / "
        "TwodGridCalculator is not modelled: oracle against long double only (tolerances: bin may "
        "differ by one only within 8 eps of a knot; interpolation within 64 eps of the reference)",
    ]

    exe, log, _ = vlib.build_harness("algo", HARNESS["algo"])
    if exe is None:
        ctx.violation("harness-build", "harness/algo.cc no longer builds against /repo",
                      {"correspondence": "harness build", "log": log[-2000:]}, found_input=False)
        ctx.coverage.update({"evaluations": 0, "distinct_nontrivial": 0})
        return LEVEL

    # corpus first, then generated ops
    corpus = []
    cdir = os.path.join(vlib.CORPUS, "C18")
    if os.path.isdir(cdir):
        for fn in sorted(os.listdir(cdir)):
            corpus += [l.rstrip("\n") for l in open(os.path.join(cdir, fn))
                       if l.strip() and not l.startswith("#")]
    gen, counts = build_scripts(ctx, quick)
    lines = corpus + gen

    rc_h, oh = vlib.run_lines([exe], lines)
    tags, distinct = {}, set()
    for l in lines:
        t = tag(l)
        tags[t] = tags.get(t, 0) + 1
        if nontrivial(l):
            distinct.add(l)
    if rc_h != 0 or len(oh) != len(lines):
        k = min(len(oh), len(lines) - 1)
        ctx.violation("harness-crash", "harness aborted (rc=%s) at op %r" % (rc_h, lines[k]),
                      {"ops": lines[max(0, k - 1):k + 1], "impl": oh[-2:]})
    # impl-side oracle verdicts carried on the answer lines
    n_oracle = 0
    seen = set()
    for l, o in zip(lines, oh):
        if "!oracle:" in o:
            n_oracle += 1
            what = o.split("!oracle:")[1].split()[0]
            if what not in seen and len(seen) < 6:
                seen.add(what)
                ctx.violation("oracle:" + what,
                              "real code disagrees with the std::/exact reference for `%s`: %s"
                              % (l[:200], o[:200]),
                              {"ops": [l], "impl": o, "reference": "std:: algorithm / exact arithmetic "
                               "evaluated inside harness/algo.cc", "contradicts": what + " theorem"})
    # correspondence
    diverged = []
    if ps["model_ok"]:
        rc_m, om = vlib.run_lines([vlib.model_exe("C18")], lines)
        clean = [o.split(" !oracle:")[0] for o in oh]
        if rc_m != 0 or len(om) != len(lines):
            broken.append("model driver aborted or lost lines")
        for i, (a, b) in enumerate(zip(clean, om)):
            if a != b:
                diverged.append({"ops": [lines[i]], "impl": a, "model": b})
                if len(diverged) >= 50:
                    break
    else:
        broken.append("model driver did not build")
    if diverged:
        broken.append(f"correspondence: model and implementation differ on >= {len(diverged)} ops, "
                      f"first: {diverged[0]['ops'][0][:120]} impl={diverged[0]['impl'][:80]} "
                      f"model={diverged[0]['model'][:80]}")

    # floating-point grid oracle (real code only)
    gstats = run_grid_oracle(ctx, exe, quick)

    # sanitizer build (thorough): same ops must give the same answers without a report
    san = None
    if not quick:
        sexe, slog, _ = vlib.build_harness("algo", HARNESS["algo"], san=True)
        if sexe is None:
            ctx.notes.append("sanitizer harness did not build: " + slog[-300:])
        else:
            step = 3
            sub = lines[::step]
            rc_s, os_ = vlib.run_lines([sexe], sub, env={"ASAN_OPTIONS": "detect_leaks=0"})
            san = {"ops": len(sub), "rc": rc_s}
            if rc_s != 0 or os_[:len(sub)] != oh[::step][:len(sub)]:
                k = next((i for i, (a, b) in enumerate(zip(os_, oh[::step])) if a != b), len(os_) - 1)
                ctx.violation("sanitizer", "ASan/UBSan harness aborts or answers differently at `%s`"
                              % sub[min(k, len(sub) - 1)][:200],
                              {"ops": [sub[min(k, len(sub) - 1)]], "san": True, "tail": os_[-5:]})
            fixed, glines = grid_lines(vlib.SplitMix64(ctx.seed), True)
            rc_g, og = vlib.run_lines([sexe, "--grid"], glines, env={"ASAN_OPTIONS": "detect_leaks=0"})
            san["grid_ops"] = len(glines)
            if rc_g != 0:
                ctx.violation("sanitizer-grid", "ASan/UBSan harness aborts in --grid mode",
                              {"mode": "grid", "ops": glines[max(0, len(og) - 1):len(og) + 1], "san": True,
                               "tail": og[-5:]})

    if broken and not ctx.violations:
        ctx.violation("unproved", "; ".join(broken)[:700],
                      {"no_longer_checks": broken, "diverging_ops": diverged[:5]}, found_input=False)
    elif broken:
        ctx.notes.append("proof/correspondence broken: " + "; ".join(broken)[:700])

    if not quick and ps["build"]["ok"]:
        common.leanchecker(ctx, ["CelerVerif.Props.C18"])

    ctx.coverage.update({
        "evaluations": len(lines) + gstats.get("queries", 0),
        "distinct_nontrivial": len(distinct),
        "rule": "one evaluation = one op line answered by the real code and by the model (plus one "
                "per grid query of the long-double oracle); non-trivial = op with a list of >= 2 "
                "elements or a scalar argument other than 0/1; distinct = distinct op lines",
        "op_mix": dict(sorted(tags.items())),
        "order_patterns_enumerated": counts["order_patterns"],
        "exhaustive": "every order pattern (packed word: all permutations and all arrangements of "
                      "all multisets up to order isomorphism) of length <= %d%s; every boolean pattern "
                      "of length <= %d for partition" % (6 if quick else 7, "" if quick else
                                                         " (all ops) and of length 8 (sort)",
                                                         10 if quick else 12),
        "corpus_ops": len(corpus), "oracle_mismatches": n_oracle,
        "diverging_ops": len(diverged), "grid_oracle": gstats, "sanitizer": san,
        "samples": [gen[0], gen[1], gen[len(gen) // 3], gen[len(gen) // 2], oh[len(corpus)] if oh else ""],
        "correspondence_broken": broken,
    })
    return LEVEL


def replay(ctx, data):
    r = data["replay"]
    exe, log, _ = vlib.build_harness("algo", HARNESS["algo"], san=bool(r.get("san")))
    if "ops" not in r:
        print(vlib.json.dumps(r, indent=1))
        return 0
    if r.get("mode") == "grid":
        _, o = vlib.run_lines([exe, "--grid"], r["ops"])
        for l, x in zip(r["ops"], o):
            print(l, "->", x)
        bad = any(("LAST-BIN" in x) or ("HARD" in x) for x in o)
        print("violation reproduced" if bad else "no longer fails")
        return 1 if bad else 0
    _, oh = vlib.run_lines([exe], r["ops"])
    vlib.lean_build(["celer_model_c18"])
    _, om = vlib.run_lines([vlib.model_exe("C18")], r["ops"])
    bad = False
    for l, a, b in zip(r["ops"], oh, om):
        print(l, "-> impl:", a, "| model:", b)
        bad = bad or "!oracle:" in a or a.split(" !oracle:")[0] != b
    print("violation reproduced" if bad else "agree")
    return 1 if bad else 0
