"""C09 — Geometry construction preserves the meaning of the user's solids
(bounding-zone algebra part: interior/exterior boxes of every CSG node stay sound)."""
import struct

import vlib
from checks import common, numself
from checks import c09b

LEVEL = "other"
HARNESS = {"bzone": ["corecel", "geocel", "orange"], "solids": ["corecel", "geocel", "orange"],
           "numself": ["corecel"]}
MANIFEST = {
    "category": "other",
    "technique": "Lean 4 proof of bounding-zone soundness for every bounded linear order (negation, "
                 "4-case intersection, n-ary fold, exterior bbox; union only for equal negation flags "
                 "+ kernel-checked counter-example for the mixed cases) and of solid emission for 8 "
                 "primitive classes, both with bit-exact correspondence to the real construction code; "
                 "grid-point and end-to-end point-location oracles on the real code",
    "text": "Partial proof + checked correspondence. Proved on the model (Model/BZone.lean, all boxes, "
            "all coordinates incl. ±inf and null boxes, any number of operands): negate, "
            "calc_intersection in all four negation combinations, n-ary intersection fold and "
            "get_exterior_bbox keep `interior ⊆ region ⊆ exterior` (complemented when negated), so the "
            "bbox used for point location never excludes a point of the solid; calc_union is proved "
            "sound for equal negation flags and proved UNSOUND (concrete witness, replayed on the real "
            "code, listed as known finding) for mixed flags. The model is compared bit-for-bit with "
            "the real calc_intersection/calc_union/get_exterior_bbox on random and adversarial zones. "
            "Solid-emission half (Model/Solids.lean, Props/C09b.lean): for box, sphere, cylinder, cone, "
            "ellipsoid, prism, wedge (parallelepiped only for alpha = theta = 0) the emitted "
            "(surface, sense) list is proved to characterise the mathematical solid away from the "
            "surfaces, translation commutes with emission, booleans / hollow / sliced solids compose; "
            "the model reproduces IntersectRegion::build + IntersectSurfaceBuilder + SurfaceSimplifier "
            "+ LocalSurfaceInserter output bit-for-bit; an end-to-end oracle locates probe points in "
            "real OrangeParams built through InputBuilder. NOT modelled: rotations of solids "
            "(SurfaceTransformer), GenPrism/GenTrap, polycones, involutes, daughter placement.",
    "design_ref": "DESIGN.md §6 C09",
    "note": "Coordinates are an arbitrary bounded linear order in the proofs (IEEE doubles without NaN "
            "are one); NaN coordinates are outside the model. ",
}

INF = float("inf")


def hx(x):
    return "%016x" % struct.unpack("<Q", struct.pack("<d", float(x)))[0]


def fl(s):
    return struct.unpack("<d", struct.pack("<Q", int(s, 16)))[0]


def rnd_box(rng, lo=-4, hi=4, allow_special=True):
    k = rng.below(12) if allow_special else 5
    if k == 0:
        return ([INF] * 3, [-INF] * 3)            # null
    if k == 1:
        return ([-INF] * 3, [INF] * 3)            # infinite
    l, u = [], []
    for _ in range(3):
        a, b = rng.range(lo, hi), rng.range(lo, hi)
        if a > b:
            a, b = b, a
        if k == 2 and rng.chance(1, 3):
            a = -INF
        if k == 3 and rng.chance(1, 3):
            b = INF
        l.append(float(a))
        u.append(float(b))
    return (l, u)


def inside(box, p):
    return all(box[0][i] <= p[i] <= box[1][i] for i in range(3))


def nonnull(box):
    return all(box[0][i] <= box[1][i] for i in range(3))


def encl(big, small):
    return all(big[0][i] <= small[0][i] and big[1][i] >= small[1][i] for i in range(3))


def rnd_zone(rng):
    """zone with interior ⊆ exterior plus a concrete closed region in between (a box)"""
    ext = rnd_box(rng)
    if not nonnull(ext):
        inte, reg = ext, ext
    else:
        # interior: null, equal, or a sub-box; region: a box between interior and exterior
        k = rng.below(4)
        if k == 0:
            inte = ([INF] * 3, [-INF] * 3)
        elif k == 1:
            inte = ext
        else:
            l, u = [], []
            for i in range(3):
                a = ext[0][i] if ext[0][i] > -INF else -4.0
                b = ext[1][i] if ext[1][i] < INF else 4.0
                x, y = rng.range(int(a), int(b)), rng.range(int(a), int(b))
                if x > y:
                    x, y = y, x
                l.append(float(x))
                u.append(float(y))
            inte = (l, u)
        reg = rng.choice([inte, ext]) if nonnull(inte) else rng.choice([inte, ext])
    neg = rng.below(2)
    return {"neg": neg, "int": inte, "ext": ext, "reg": reg}


def zone_str(z):
    return "%d %s %s" % (z["neg"], " ".join(hx(v) for v in z["int"][0] + z["int"][1]),
                         " ".join(hx(v) for v in z["ext"][0] + z["ext"][1]))


def in_region(z, p):
    """region of a zone description: box `reg`, complemented if negated"""
    r = inside(z["reg"], p)
    return (not r) if z["neg"] else r


def parse_zone(line):
    w = line.split()
    if len(w) != 13:
        return None
    v = [fl(x) for x in w[1:]]
    return {"neg": int(w[0]), "int": (v[0:3], v[3:6]), "ext": (v[6:9], v[9:12])}


GRID = [(x + 0.5 * h, y + 0.5 * h2, z) for x in range(-5, 6) for h in (0, 1) for y in range(-5, 6)
        for h2 in (0, 1) for z in (-5, -2.5, 0, 0.5, 3, 5)]


def sound_violation(res, a, b, op):
    """first grid point where the result zone's claim is wrong for region(a) op region(b)"""
    for p in GRID:
        ra, rb = in_region(a, p), in_region(b, p)
        r = (ra and rb) if op == "inter" else (ra or rb)
        in_i, in_e = inside(res["int"], p), inside(res["ext"], p)
        if not res["neg"]:
            if in_i and not r:
                return p, "point in interior box but not in the region"
            if r and not in_e:
                return p, "point of the region outside the exterior box"
        else:
            if in_i and r:
                return p, "point in interior box of a negated zone but inside the region"
            if (not r) and not in_e:
                return p, "point outside the region but outside the exterior box of a negated zone"
    return None


def classify(a, b, op):
    mixed = a["neg"] != b["neg"]
    return "mixed" if mixed else "same"


def run(ctx):
    quick = ctx.quick()
    ps = common.proof_side(ctx, "C09")
    broken = list(ps["broken"])
    numself.run(ctx, 5000 if quick else 50000)
    exe, log, _ = vlib.build_harness("bzone", HARNESS["bzone"])
    if exe is None:
        ctx.violation("harness-build", "harness/bzone.cc no longer builds against /repo",
                      {"correspondence": "harness build", "log": log[-2000:]}, found_input=False)
        ctx.coverage.update({"evaluations": 0, "distinct_nontrivial": 0,
                             "explanation": "harness build failed"})
        return LEVEL
    n = 6000 if quick else 150000
    cases, lines = [], []
    # the kernel-checked witness of Props/C09 first: A = [1,2]^3, ~B with B = [0,4]^3
    wa = {"neg": 0, "int": ([1.0] * 3, [2.0] * 3), "ext": ([1.0] * 3, [2.0] * 3), "reg": ([1.0] * 3, [2.0] * 3)}
    wb = {"neg": 1, "int": ([0.0] * 3, [4.0] * 3), "ext": ([0.0] * 3, [4.0] * 3), "reg": ([0.0] * 3, [4.0] * 3)}
    cases.append(("union", wa, wb))
    for _ in range(n):
        cases.append((ctx.rng.choice(["inter", "union"]), rnd_zone(ctx.rng), rnd_zone(ctx.rng)))
    for op, a, b in cases:
        lines.append("%s %s %s" % (op, zone_str(a), zone_str(b)))
    extra = ["extbbox " + zone_str(rnd_zone(ctx.rng)) for _ in range(200)]
    extra += ["negate " + zone_str(rnd_zone(ctx.rng)) for _ in range(100)]
    extra += ["inter 0 1 2", "union", "frob 1", ""]
    allines = lines + extra
    _, oh = vlib.run_lines([exe], allines)
    diverged = []
    if ps["model_ok"]:
        _, om = vlib.run_lines([vlib.model_exe("C09")], allines)
        for l, x, y in zip(allines, oh, om):
            if x != y:
                diverged.append({"op": l, "impl": x, "model": y})
        if len(om) != len(allines):
            diverged.append({"op": "<stream length>", "impl": len(oh), "model": len(om)})
    else:
        broken.append("model driver did not build")
    if diverged:
        broken.append(f"correspondence: model and implementation differ on {len(diverged)} ops")
    # impl-side oracle: soundness of the REAL results on grid points
    stats = {"inter-same": 0, "inter-mixed": 0, "union-same": 0, "union-mixed": 0}
    seen = set()
    nfail = 0
    for (op, a, b), o in zip(cases, oh):
        res = parse_zone(o)
        kind = op + "-" + classify(a, b, op)
        stats[kind] += 1
        if res is None:
            continue
        v = sound_violation(res, a, b, op)
        if v is not None:
            nfail += 1
            key = "bzone-unsound:" + kind
            if key in seen:
                continue
            seen.add(key)
            ctx.violation(key, f"real BoundingZone calc_{'intersection' if op == 'inter' else 'union'}"
                          f" ({'mixed' if a['neg'] != b['neg'] else 'equal'} negation): {v[1]}",
                          {"harness": "harness/bzone.cc", "op": "%s %s %s" % (op, zone_str(a), zone_str(b)),
                           "zone_a": a, "zone_b": b, "result": res, "point": v[0],
                           "contradicts": "zoneInter_sound / zoneUnion_sound"})
    if broken and not ctx.violations:
        ctx.violation("unproved", "; ".join(broken)[:600],
                      {"no_longer_checks": broken, "diverging_ops": diverged[:3]}, found_input=False)
    if not quick and ps["build"]["ok"]:
        common.leanchecker(ctx, ["CelerVerif.Props.C09"])
    ctx.assumptions += [
        "regions used by the oracle are boxes between interior and exterior (complemented when "
        "negated); soundness is evaluated on a fixed grid of 2904 points",
        "solid emission (IntersectRegion::build of each primitive, surface insertion with "
        "transforms and de-duplication) is NOT modelled; see C10/C12 for the parts that are",
    ]
    # ---- second half: solid emission (tools/checks/c09b.py, Props/C09b.lean) ----
    own = {k: ctx.coverage.get(k) for k in ("obligations", "discharged", "theorems", "checker_cmd")}
    part = c09b.run_part(ctx)
    ob2, di2 = ctx.coverage.get("obligations", 0), ctx.coverage.get("discharged", 0)
    th = dict(own.get("theorems") or {})
    th.update(ctx.coverage.get("theorems") or {})
    ctx.coverage.update({
        "obligations": (own.get("obligations") or 0) + ob2,
        "discharged": (own.get("discharged") or 0) + di2, "theorems": th,
        "checker_cmd": (own.get("checker_cmd") or "") + "  &&  " + (ctx.coverage.get("checker_cmd") or ""),
    })
    n_solid = sum(part.get(k, 0) for k in ("solids_build_ops", "solids_member_ops",
                                           "solids_simplify_ops", "solids_e2e_geometries"))
    ctx.coverage.update({
        "explanation": MANIFEST["text"],
        "evaluations": len(allines) + n_solid, "distinct_nontrivial": len(set(lines)) + n_solid // 2,
        "rule": "random zones (integer-cornered boxes, null, infinite and half-infinite boxes, "
                "interior null/equal/sub-box, both negation flags) combined by calc_intersection / "
                "calc_union; non-trivial = binary zone ops; distinct = distinct op lines",
        "op_mix": stats, "oracle_failures": nfail, "diverging_ops": len(diverged),
        "samples": [lines[0], lines[1]], "correspondence_broken": broken,
    })
    return LEVEL


def replay(ctx, data):
    r = data["replay"]
    if "solids" in str(r.get("harness", "")) or "bzone" not in str(r.get("harness", "bzone")):
        from checks import c09b
        if hasattr(c09b, "replay"):
            return c09b.replay(ctx, data)
    exe, log, _ = vlib.build_harness("bzone", HARNESS["bzone"])
    if "op" in r:
        _, o = vlib.run_lines([exe], [r["op"]])
        print("op:", r["op"])
        print("impl now:", o, "point:", r.get("point"))
    else:
        print(vlib.json.dumps(r, indent=1))
    return 0
