"""C06 — event results are reproducible and independent of history and thread order."""
import os
from concurrent.futures import ThreadPoolExecutor

import vlib
from checks import common

LEVEL = "other"
LIBS = ["corecel", "geocel", "orange", "celeritas", "testcel_harness", "testcel_core",
        "testcel_geocel", "testcel_orange", "testcel_celeritas"]
HARNESS = {"repro": LIBS}
MANIFEST = {
    "category": "other",
    "technique": "Lean 4 proofs (decide over state-field inventories regenerated from the headers; "
                 "permutation invariance of slot-local updates; noninterference induction; action "
                 "ranges from the sorted key array) + exact correspondence of the re-indexing "
                 "functions + differential event replays on a real Stepper (H3)",
    "text": "Proved on the model: every per-slot state field of the current headers is assigned "
            "by track initialisation / reseed or is in a justified written-before-read list "
            "(a new un-reset field breaks the proof); reseeding is a function of (seed, event, "
            "slot count, slot) only (C13 init_eq); slot-local updates give the same per-slot "
            "states under any thread->slot permutation; sort_tracks (std::partition / std::sort "
            "models) only permutes the indirection array; for every key-sorted thread array, any "
            "size, the offsets computed by count_tracks_per_action + backfill_action_count AS "
            "WRITTEN have a closed form and [off[a], off[a+1]) contains exactly the threads of "
            "action a plus — only for the largest present action — the trailing unset-action "
            "threads; an event's visible result is a function of (primaries, seed, event id, "
            "slot count). "
            "Tested, not proved: that every real action is slot-local and reads only the visible "
            "fields — differential runs of the same event after random prefixes (other events, an "
            "aborted event + reset, warm-up), under every re-indexing TrackOrder, action timing "
            "on/off and the StatusChecker on/off, step streams sorted by (track, step) compared "
            "bitwise together with the StepperResult sequence and the diagnostics.",
    "design_ref": "DESIGN.md §6 C06",
    "note": "init_charge is a layout (not re-indexing) order: it changes which slot, hence which "
            "RNG stream, a track gets; it is compared only with itself across histories. "
            "std::sort is modelled by a stable insertion sort (exact for <= 16 elements, which is "
            "what libstdc++ runs; larger arrays are compared up to the order of equal keys). "
            "Action ids are compared by label (registering the StatusChecker shifts ids). "
            "Problems: SimpleTestBase (Compton; target = the first 40-120 iterations, in which "
            "many slots produce secondaries at once), MockTestBase (gamma/electron primaries) and "
            "MockTestBase with a uniform 1 T field along-step (electrons spiral in the near-vacuum "
            "world, are reported looping and are abandoned by the looping thresholds; more "
            "primaries than slots so that slots are re-used).",
}

REINDEX = ["none", "shuffle", "status", "particle", "along", "steplimit", "both"]


# --------------------------------------------------------------------------- reindex ops
def gen_sort_ops(rng, n):
    ops = []
    for _ in range(n):
        k = rng.below(10)
        if k < 2:
            m = rng.range(1, 24)
            slots = list(range(m))
            rng.shuffle(slots)
            status = [rng.choice([0, 0, 1, 2, 3, 4]) for _ in range(m)]
            ops.append("partition " + " ".join(map(str, slots)) + " / " + " ".join(map(str, status)))
        elif k < 5:
            big = k == 4
            m = rng.range(17, 120) if big else rng.range(1, 16)
            slots = list(range(m))
            rng.shuffle(slots)
            na = rng.range(1, 6)
            keys = ["x" if rng.chance(1, 4) else str(rng.below(na)) for _ in range(m)]
            ops.append(("sortc " if big else "sort ") + " ".join(map(str, slots)) + " / " + " ".join(keys))
        elif k < 9:
            m = rng.range(1, 40)
            na = rng.range(1, 8)
            nset = rng.below(m + 1)
            keys = sorted(rng.below(na) for _ in range(nset))
            if rng.chance(1, 8):
                rng.shuffle(keys)          # unsorted input: as-written behaviour still compared
            ops.append("count %d " % na + " ".join(map(str, keys + ["x"] * (m - nset))))
        else:
            na = rng.range(1, 8)
            offs = ["x" if rng.chance(1, 2) else str(rng.below(50)) for _ in range(na + 1)]
            ops.append("backfill %d " % rng.below(60) + " ".join(offs))
    return ops


def sort_oracle(op, out):
    """property-level predicates on the real functions' outputs"""
    w = op.split()
    if w[0] in ("partition", "sort", "sortc") and out.split()[0] in ("slots",):
        sep = w.index("/")
        slots = [int(x) for x in w[1:sep]]
        got = [int(x) for x in out.split()[1:]]
        if sorted(got) != sorted(slots):
            return "not a permutation of the slots"
        keys = w[sep + 1:]
        if w[0] == "partition":
            act = [keys[s] != "0" for s in got]
            if any((not a) and b for a, b in zip(act, act[1:])):
                return "active slot after an inactive one"
        else:
            ks = [10 ** 9 if keys[s] == "x" else int(keys[s]) for s in got]
            if ks != sorted(ks):
                return "keys not sorted along threads"
    if w[0] == "count" and out.startswith("offsets"):
        na = int(w[1])
        keys = w[2:]
        ks = [10 ** 9 if k == "x" else int(k) for k in keys]
        if ks != sorted(ks):
            return None
        offs = [int(x) for x in out.split()[1:]]
        present = [int(k) for k in keys if k != "x"]
        for a in range(na):
            rng_ = set(range(offs[a], offs[a + 1]))
            want = {t for t, k in enumerate(keys) if k == str(a)}
            extra = rng_ - want
            if not want <= rng_:
                return f"range of action {a} misses threads"
            if extra and not (present and a == max(present) and all(keys[t] == "x" for t in extra)):
                return f"range of action {a} contains threads of other actions"
    return None


# --------------------------------------------------------------------------- event replays
def gen_prefix(rng, target_id, prob="mock"):
    ops = []
    # Stepper::warm_up requires a state that has not transported anything yet
    # (counters().num_active == 0; after a completed event num_active still holds the last
    # step's count), so a warm-up can only open the history
    if rng.chance(1, 3):
        ops.append("w")
    # a complete event of the Compton problem takes thousands of iterations: there the history
    # consists of truncated events (k iterations, then the state is reset) and aborted ones
    ev = (lambda i, s: "t%d:%d:%d" % (i, s, rng.range(10, 80))) if prob == "simple" \
        else (lambda i, s: "e%d:%d" % (i, s))
    for _ in range(rng.below(4)):
        k = rng.below(6) if prob != "simple" else 1 + rng.below(5)
        if k == 0:
            # step limit where no track is alive but primaries are still queued, then reset
            ops.append("q%d:%d" % (rng.choice([target_id, rng.below(50)]), rng.below(1000)))
        elif k <= 2:
            ops.append(ev(rng.below(50), rng.below(1000)))
        elif k == 3:
            ops.append("a%d:%d:%d" % (rng.below(50), rng.below(1000), rng.range(1, 6)))
        elif k == 4:
            ops.append(ev(target_id, rng.below(1000)))      # same id, other primaries
        else:
            ops.append("a%d:%d:%d" % (target_id, rng.below(1000), rng.range(1, 4)))
    return ops


def _run_lines_retry(args, lines, **kw):
    """another check may be relinking a shared library of the common build tree at this very
    moment (`file too short` / `cannot open shared object`): wait and retry"""
    import time as _t
    for _ in range(12):
        rc, out = vlib.run_lines(args, lines, **kw)
        if not any("error while loading shared libraries" in l for l in out[:3]):
            return rc, out
        _t.sleep(5)
    return rc, out


def run_event(exe, cfg, script, dump=False):
    line = "run " + cfg + (" dump=1" if dump else "") + " script=" + ",".join(script)
    rc, out = _run_lines_retry([exe], [line], env={"CELER_LOG_LOCAL": "critical", "CELER_LOG": "critical"},
                               timeout=1200)
    return line, out


def target_line(out, tid, seed):
    key = "event id=%d seed=%d " % (tid, seed)
    hits = [l for l in out if l.startswith(key)]
    return hits[-1][len(key):] if hits else None


def first_step_diff(exe, cfg_a, script_a, cfg_b, script_b, tid, seed):
    """re-run both with a full dump and name the first differing (track, step, field)"""
    def steps(cfg, script):
        _, out = run_event(exe, cfg, script, dump=True)
        key = "event id=%d seed=%d " % (tid, seed)
        idx = max(i for i, l in enumerate(out) if l.startswith(key))
        res = []
        for l in out[idx + 1:]:
            if not l.startswith("s "):
                break
            res.append(l[2:].split())
        return res
    a, b = steps(cfg_a, script_a), steps(cfg_b, script_b)
    names = ["parent", "action", "step_length", "particle", "edep"] + \
            [p + f for p in ("pre.", "post.") for f in
             ("time", "x", "y", "z", "dx", "dy", "dz", "volume", "energy")]
    def parents(recs):
        out = {}
        for r in recs:
            out.setdefault(int(r[0].split("/")[0]), r[1])
        return out
    pa, pb = parents(a), parents(b)
    for t in sorted(set(pa) & set(pb)):
        if pa[t] != pb[t]:
            def show(x):
                return "none" if x == "ffffffff" else str(int(x, 16))
            return (f"track {t} has parent {show(pa[t])} in the reference run and parent "
                    f"{show(pb[t])} here (secondary track/parent ids depend on the history or "
                    "thread order)")
    for x, y in zip(a, b):
        if x != y:
            if x[0] != y[0]:
                return f"first differing record: {x[0]} vs {y[0]}"
            for k, (u, v) in enumerate(zip(x[1:], y[1:])):
                if u != v:
                    return f"track/step {x[0]} field {names[k]}: {u} vs {v}"
    if len(a) != len(b):
        return f"stream lengths {len(a)} vs {len(b)}"
    return ""


def run(ctx):
    quick = ctx.quick()
    ps = common.proof_side(ctx, "C06")
    broken = list(ps["broken"])
    ctx.assumptions += [
        "every real action is slot-local (reads/writes only its own slot, the allocator and the "
        "per-event counters) and reads only fields that initialisation/reseed assigned or that "
        "are written earlier in the same step: this is what the differential runs test",
        "the field inventories and assigned lists are regenerated from the current headers; the "
        "`written before read` justification list is hand-written with a source citation per "
        "entry (Props/C06.lean)",
        "reseed: subsequence index e*slots+i < 2^64 (C13)",
        "kernels run sequentially in this build; thread order within an action is 0..n-1 over "
        "the indirection array",
    ]
    ctx.coverage["explanation"] = (
        "PROVED (Lean, on the model): init_overwrites_every_field over the regenerated field "
        "lists; reseed is a function of (seed,event,slots,slot); slot_local_map_perm_invariant; "
        "sortTracks_perm; count_tracks_per_action_closed_form and action_ranges_exact for the loop "
        "+ backfill as written (induction over the thread index / right-to-left fill); "
        "event_result_is_function_of (noninterference induction given slot-locality). "
        "TESTED ONLY: that the C++ actions are slot-local and read no left-over state — by "
        "differential replays of the same event after random histories and under all re-indexing "
        "orders / timing / status checker, compared bitwise per (track id, step) including parent "
        "ids, on three problem families (continuous loss; magnetic field with looping counters "
        "and slot re-use; Compton with several slots producing secondaries per iteration — the "
        "evidence counts those iterations and the looping high-water mark, and the check fails if "
        "they did not occur); the exact correspondence of "
        "sort_tracks / count_tracks_per_action / backfill_action_count with the model.")
    exe, log, _ = vlib.build_harness("repro", LIBS)
    if exe is None:
        ctx.violation("harness-build", "harness/repro.cc no longer builds against /repo",
                      {"correspondence": "harness build", "log": log[-2000:]}, found_input=False)
        ctx.coverage.update({"evaluations": 0, "distinct_nontrivial": 0})
        return LEVEL

    # ---- (a) re-indexing functions: exact correspondence + property predicates
    ops = []
    cdir = os.path.join(vlib.CORPUS, "C06")
    if os.path.isdir(cdir):
        for fn in sorted(os.listdir(cdir)):
            ops += [l.strip() for l in open(os.path.join(cdir, fn)) if l.strip() and not l.startswith("#")]
    n_corpus = len(ops)
    ops += gen_sort_ops(ctx.rng, 400 if quick else 5000)
    ops += ["count 3", "sort 0 1 / 0", "frob", "backfill 3 1"]
    _, oh = _run_lines_retry([exe], ops, env={"CELER_LOG_LOCAL": "critical"})
    diverged = []
    if ps["model_ok"]:
        _, om = vlib.run_lines([vlib.model_exe("C06")], ops)
        for i, (a, b) in enumerate(zip(oh, om)):
            if a != b:
                diverged.append({"op": ops[i], "impl": a, "model": b})
        if len(oh) != len(om):
            diverged.append({"op": "<length>", "impl": len(oh), "model": len(om)})
    else:
        broken.append("model driver did not build")
    if diverged:
        broken.append(f"correspondence: Reindex model and TrackSortUtils differ on {len(diverged)} ops")
    for op, o in zip(ops, oh):
        msg = sort_oracle(op, o)
        if msg:
            ctx.violation("oracle:reindex-" + op.split()[0], f"real {op.split()[0]}: {msg}",
                          {"harness": "harness/repro.cc", "ops": [op], "impl": o})
            break

    # ---- (b) differential event replays
    # Three families of target events, all present in every run:
    #  mock       continuous loss, no secondaries: left-over physics/geometry state
    #  mockfield  uniform magnetic field along-step: electrons spiralling in the near-vacuum world
    #             are reported LOOPING, the per-slot looping counters become non-zero and tracks
    #             are abandoned by the looping thresholds; a later track re-uses the slot
    #  simple     Compton: many slots produce secondaries in the SAME iteration, so secondary
    #             track ids / parent ids are assigned while a re-indexing order is in effect
    #             (target = first k iterations of the event, reported in full)
    targets = []
    n_t = 4 if quick else 30
    fam = ["mock", "mockfield", "simple", "simple"]
    for k in range(n_t):
        prob = fam[k % 4]
        if prob == "simple":
            slots = ctx.rng.choice([8, 13, 16, 32])
            prims = ctx.rng.range(max(4, slots // 2), slots + 4)
        elif prob == "mockfield":
            slots = ctx.rng.choice([3, 4, 6, 8])
            prims = ctx.rng.range(2 * slots, 3 * slots + 2)      # more primaries than slots: re-use
        elif k % 8 == 0:
            # few slots, more primaries than slots: a step limit can fall on an iteration after
            # which no track is alive while primaries are still queued (`q` history ops)
            slots = ctx.rng.choice([1, 2, 3])
            prims = ctx.rng.range(slots + 3, slots + 12)
        else:
            slots = ctx.rng.choice([1, 2, 3, 5, 8, 13, 32])
            prims = ctx.rng.range(1, 24)
        targets.append((prob, slots, prims, ctx.rng.below(40), ctx.rng.below(1000)))
    # The coverage guards below must not depend on luck:
    #  (1) for every few-slot mock target the real harness is asked, now, which `q` cuts DO stop
    #      where no track is alive while primaries are queued; those are put into its histories;
    #  (2) three fixed targets from a small corpus, known to show each situation, are always run.
    qhits = {}
    for ti, (prob, slots, prims, tid, seed) in enumerate(targets):
        if prob == "mock" and ti % 8 == 0:
            cand = list(range(48))
            lines = ["run prob=mock slots=%d prims=%d order=none script=q1:%d" % (slots, prims, c_)
                     for c_ in cand]
            _, qo = _run_lines_retry([exe], lines, env={"CELER_LOG_LOCAL": "critical",
                                                        "CELER_LOG": "critical"}, timeout=1200)
            ql = [l_ for l_ in qo if l_.startswith("qcut ")]
            qhits[ti] = [c_ for c_, l_ in zip(cand, ql) if " hit=1" in l_][:6]
    n_random = len(targets)
    FIXED = [
        # (prob, slots, prims, event, seed, target op, histories)
        ("mock", 2, 7, 5, 11, "e5:11", [["q3:5"], ["q3:5", "e6:12"], ["w", "q3:5", "a9:3:4"]]),
        ("mockfield", 8, 10, 5, 11, "e5:11", [["e6:12"], ["a9:3:4"], []]),
        ("simple", 16, 12, 5, 11, "t5:11:80", [[], ["t1:3:30"], []]),
    ]
    for f_ in FIXED:
        targets.append(f_[:5])
    jobs = []        # (target index, class, cfg, script)
    for ti, (prob, slots, prims, tid, seed) in enumerate(targets):
        base = "prob=%s slots=%d prims=%d" % (prob, slots, prims)
        if ti >= n_random:
            _, _, _, _, _, tgt, hists = FIXED[ti - n_random]
            jobs.append((ti, "reindex", base + " order=none", [tgt]))
            for order, hist in zip(["shuffle", "status", "steplimit"], hists):
                jobs.append((ti, "reindex", base + " order=%s timing=0 checker=0" % order, hist + [tgt]))
            continue
        tgt = ("t%d:%d:%d" % (tid, seed, ctx.rng.range(40, 120))) if prob == "simple" \
            else "e%d:%d" % (tid, seed)
        jobs.append((ti, "reindex", base + " order=none", [tgt]))                 # reference
        n_var = 8 if quick else 30
        for v in range(n_var):
            order = REINDEX[v % len(REINDEX)] if v < len(REINDEX) else ctx.rng.choice(REINDEX)
            cfg = base + " order=%s timing=%d checker=%d" % (order, ctx.rng.below(2), ctx.rng.below(2))
            # every re-indexing order is also run once WITHOUT history, so that a pure
            # order dependence and a pure history dependence are told apart
            hist = [] if v < len(REINDEX) and v % 2 == 0 else gen_prefix(ctx.rng, tid, prob)
            if ti % 8 == 0 and v % 2 == 1:
                qop = ("q1:%d" % ctx.rng.choice(qhits[ti])) if qhits.get(ti) \
                    else "q%d:%d" % (ctx.rng.below(50), ctx.rng.below(1000))
                hist = [h for h in hist if h == "w"] + [qop] + [h for h in hist if h != "w"]
            jobs.append((ti, "reindex", cfg, hist + [tgt]))
        jobs.append((ti, "init_charge", base + " order=init_charge", [tgt]))
        for v in range(2 if quick else 5):
            cfg = base + " order=init_charge timing=%d checker=%d" % (ctx.rng.below(2), ctx.rng.below(2))
            jobs.append((ti, "init_charge", cfg, gen_prefix(ctx.rng, tid, prob) + [tgt]))
        # negative control: one more slot => other RNG streams => a different stream is expected
        jobs.append((ti, "control", "prob=%s slots=%d prims=%d order=none" % (prob, slots + 1, prims), [tgt]))
    with ThreadPoolExecutor(max_workers=8) as ex:
        outs = list(ex.map(lambda j: run_event(exe, j[2], j[3]), jobs))
    ref = {}
    fam_stats = {}
    qcuts = {"cuts": 0, "cuts_with_alive0_queued": 0}

    def order_of(cfg):
        return dict(w.split("=", 1) for w in cfg.split())["order"]
    n_cmp = n_diff_control = 0
    failing = []
    seen_scripts = set()
    for (ti, cls, cfg, script), (line, out) in zip(jobs, outs):
        prob, slots, prims, tid, seed = targets[ti]
        got = target_line(out, tid, seed)
        if any(l.startswith("exception") for l in out) or got is None:
            failing.append((ti, cls, cfg, script, "harness: " + " ".join(out[-2:])[:300]))
            continue
        seen_scripts.add((cfg, tuple(script)))
        for l_ in out:
            if l_.startswith("qcut "):
                qcuts["cuts"] += 1
                qcuts["cuts_with_alive0_queued"] += " hit=1" in l_
        kvs = dict(w.split("=", 1) for w in got.split() if "=" in w)
        if cls != "control":
            fam_stats.setdefault(prob, {"runs": 0, "multisec_iterations": 0, "looping_hw_max": 0,
                                        "delivered_steps": 0})
            fs = fam_stats[prob]
            fs["runs"] += 1
            fs["multisec_iterations"] += int(kvs.get("multisec", 0))
            fs["looping_hw_max"] = max(fs["looping_hw_max"], int(kvs.get("loophw", 0)))
            fs["delivered_steps"] += int(kvs.get("steps", 0))
            if order_of(cfg) != "none" and int(kvs.get("multisec", 0)) > 0:
                fs["reindexed_runs_with_multisec"] = fs.get("reindexed_runs_with_multisec", 0) + 1
        if cls == "control":
            if (ti, "reindex") in ref and got != ref[(ti, "reindex")][0]:
                n_diff_control += 1
            continue
        if (ti, cls) not in ref:
            ref[(ti, cls)] = (got, cfg, script)
            continue
        n_cmp += 1
        if got != ref[(ti, cls)][0]:
            failing.append((ti, cls, cfg, script, got))
    for ti, cls, cfg, script, got in failing[:3]:
        prob, slots, prims, tid, seed = targets[ti]
        r = ref.get((ti, cls))
        detail = ""
        if r and not got.startswith("harness:"):
            try:
                detail = first_step_diff(exe, r[1], r[2], cfg, script, tid, seed)
            except Exception as e:       # noqa: BLE001
                detail = "dump comparison failed: %r" % (e,)
            if not detail:
                # identical step streams: name the summary entries that differ (StepperResult
                # sequence, diagnostics, looping-counter high-water mark, ...)
                ka = dict(w.split("=", 1) for w in r[0].split() if "=" in w)
                kb = dict(w.split("=", 1) for w in got.split() if "=" in w)
                detail = "step streams equal; differing: " + ", ".join(
                    f"{k} {ka.get(k)} vs {kb.get(k)}" for k in kb if ka.get(k) != kb.get(k))
        ctx.violation("event-not-reproducible:" + cls,
                      f"event {tid} (primaries seed {seed}, {slots} slots, {prob}) gives a different "
                      f"result under `{cfg}` after history {script[:-1]}: {detail or got}",
                      {"harness": "harness/repro.cc",
                       "ops_A": ["run " + (r[1] if r else "") + " script=" + ",".join(r[2] if r else [])],
                       "ops_B": ["run " + cfg + " script=" + ",".join(script)],
                       "event": {"id": tid, "seed": seed}, "result_A": r[0] if r else None,
                       "result_B": got, "first_difference": detail,
                       "contradicts": "C06 event_result_is_function_of"})

    # the replays are only worth something if the situations they are about really occurred
    fsim, ffld = fam_stats.get("simple", {}), fam_stats.get("mockfield", {})
    if not failing and fsim.get("reindexed_runs_with_multisec", 0) == 0:
        ctx.violation("coverage:no-concurrent-secondaries-under-reindexing",
                      "no replay under a re-indexing order had an iteration in which two or more "
                      "slots produced secondaries: the order-independence of secondary track/parent "
                      "ids was not exercised", {"families": fam_stats}, found_input=False)
    if not failing and qcuts["cuts_with_alive0_queued"] == 0:
        ctx.violation("coverage:no-cut-with-queued-primaries",
                      "no history contained an event stopped where no track was alive while "
                      "primaries were still queued (followed by CoreState::reset)",
                      {"qcuts": qcuts}, found_input=False)
    if not failing and ffld.get("looping_hw_max", 0) == 0:
        ctx.violation("coverage:no-looping-counters",
                      "no field replay made a per-slot looping counter non-zero: re-use of a slot "
                      "after a looping track was not exercised", {"families": fam_stats},
                      found_input=False)
    if broken and not ctx.violations:
        ctx.violation("unproved", "; ".join(broken)[:600],
                      {"no_longer_checks": broken, "diverging": diverged[:3]}, found_input=False)
    if not quick and ps["build"]["ok"]:
        common.leanchecker(ctx, ["CelerVerif.Props.C06"])
    ctx.coverage.update({
        "evaluations": len(ops) + len(jobs), "distinct_nontrivial": len(set(ops)) + len(seen_scripts),
        "rule": "one evaluation = one re-indexing op on the real TrackSortUtils functions, or one "
                "scripted run (history + target event) of a real Stepper; distinct = distinct op "
                "lines / distinct (configuration, history) pairs that completed the target event",
        "reindex_ops": len(ops), "corpus_ops": n_corpus, "reindex_diverging": len(diverged),
        "event_targets": [dict(zip(["prob", "slots", "prims", "event", "seed"], t)) for t in targets],
        "event_runs": len(jobs), "event_comparisons": n_cmp, "event_mismatches": len(failing),
        "families": fam_stats, "step_limit_cuts": qcuts,
        "fixed_corpus_targets": len(FIXED), "scanned_q_cuts": {str(k_): v_ for k_, v_ in qhits.items()},
        "controls_that_differ": n_diff_control, "controls": n_random,
        "samples": [ops[n_corpus], "run " + jobs[1][2] + " script=" + ",".join(jobs[1][3])],
        "correspondence_broken": broken,
    })
    return LEVEL


def replay(ctx, data):
    exe, log, _ = vlib.build_harness("repro", LIBS)
    r = data["replay"]
    if "ops_A" in r:
        res = []
        for ops in (r["ops_A"], r["ops_B"]):
            _, out = vlib.run_lines([exe], ops, env={"CELER_LOG_LOCAL": "critical", "CELER_LOG": "critical"})
            res.append(target_line(out, r["event"]["id"], r["event"]["seed"]))
            print(ops[0], "->", res[-1])
        same = res[0] == res[1]
        print("agree" if same else "DISAGREE (violation reproduced)")
        return 0 if same else 1
    for op in r.get("ops", []):
        _, out = vlib.run_lines([exe], [op])
        print(op, "->", out)
        if sort_oracle(op, out[0]):
            print("DISAGREE:", sort_oracle(op, out[0]))
            return 1
    return 0
