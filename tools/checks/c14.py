"""C14 — Physics table lookups, continuous loss and MSC path conversions are consistent."""
import bisect
import math
import struct
from fractions import Fraction as Fr

import vlib
from checks import common, numself

LEVEL = "proof"
HARNESS = {"calc": ["corecel", "celeritas"], "numself": ["corecel"]}
MANIFEST = {
    "category": "proof",
    "technique": "Lean 4 proof at ℝ of the Num-generic model of UniformGrid / XsCalculator / "
                 "RangeCalculator / InverseRangeCalculator / calc_mean_energy_loss / MscStepToGeo / "
                 "MscStepFromGeo (any table size; order lemmas, floor bracket, interpolation "
                 "algebra); the same definitions run at Float bit-exactly against the real classes",
    "text": "Model/Calc.lean is written once over a law-free number class, expression trees copied "
            "from the headers (std::fma in the interpolator, static_cast<size_type> bin index, 1/E "
            "scaling at the prime index, sqrt(E) range scaling below the grid). Proved at ℝ for "
            "well-formed log grids and positive tables of any size: bracket of UniformGrid::find, "
            "table reproduced at knots, value between neighbouring knot values (also across the "
            "prime index), continuity at knots, extrapolation, range monotone, inverse-range ∘ range "
            "= id and range ∘ inverse-range = id, mean-loss bounds and monotonicity per branch, "
            "0 ≤ geom ≤ true on every exit of MscStepToGeo (Eq. 8.10 closed form, Bernoulli), "
            "true-from-geom between geom and true for every exit and exact on the small-step and "
            "range-limited exits, GenericCalculator knots / between / inverse∘calc = id, and (for "
            "every number type) find + 1 < size and monotonicity of find from monotone operations. "
            "The model's constants are regenerated from the source text (tools/gen/calc.py -> "
            "Generated/CalcConsts.lean, pinned by a decide). Executed at Float the model must "
            "reproduce the real classes bit-for-bit on generated tables (with/without prime index) "
            "at every knot ± 1 ulp, grid ends ± ulps, interior energies, steps in (0, range], MSC "
            "parameters. An impl-side oracle evaluates the property's inequalities on the real "
            "results and searches for failing inputs.",
    "design_ref": "DESIGN.md §6 C14",
    "note": "Proved at ℝ: rounding is not modelled by the ℝ theorems; the oracle compares every "
            "interpolated value of the real code with the EXACT rational interpolant of the chosen "
            "bin and holds it to 8*eps*max|y| (error analysis of the formula as written; standard-"
            "model theorem interp_error_bound_standard_model); values that leave the interval of "
            "the neighbouring knots within that bound (or by slope * the few ulp of bin-edge "
            "ambiguity) are the known findings interp-cancellation-beyond-neighbour[:negative] / "
            "interp-bin-edge-extrapolation[:negative] (kernel-checked binary64 witnesses "
            "interp_float_undershoots / interp_float_negative on the bit-level model B64, itself "
            "diffed against the hardware by the bitop ops); anything larger is a violation. UniformGrid::find + 1 < size failed in IEEE arithmetic a few ulp below "
            "the last knot until /repo f1d81dd (clamp, now modelled and proved for every number "
            "type incl. Float); the oracle still reports key uniformgrid-find-last-bin if the real "
            "find returns size-1 and the thorough tier re-runs the witness unguarded under ASan. "
            "Monotonicity of the mean loss across the linear/range-curve switch and loss = E at "
            "step = range need hypotheses the code does not enforce (theorems named _partial, "
            "kernel-checked counter-examples meanLoss_*_fails, known findings replayed on the real "
            "code from corpus/C14/meanloss_findings.ops). expm1/log1p enter the model as "
            "oracle inputs checked against libm by the harness. Log-interpolation variants of "
            "Interpolator are not used by these calculators and are not modelled.",
}

NAN_OK = numself.is_nan_bits


def hx(x):
    return "%016x" % struct.unpack("<Q", struct.pack("<d", float(x)))[0]


def fl(s):
    return struct.unpack("<d", struct.pack("<Q", int(s, 16)))[0]


def ulps(x, k):
    """x moved by k ulps towards +inf (k < 0: towards -inf)"""
    if x == 0.0:
        return k * 5e-324
    if x < 0:
        return -ulps(-x, -k)
    b = struct.unpack("<Q", struct.pack("<d", x))[0] + k
    return struct.unpack("<d", struct.pack("<Q", b))[0]


def log1p(x):
    if x == -1.0:
        return -math.inf
    if x < -1.0:
        return math.nan
    return math.log1p(x)


def logu(rng, lo, hi):
    return math.exp(math.log(lo) + rng.unit() * (math.log(hi) - math.log(lo)))


def is_val(o):
    return len(o) == 16 and all(c in "0123456789abcdef" for c in o)


# --------------------------------------------------------------------------- generators
ROUND_GRIDS = [(1e-7, 10.0), (1e-4, 1e2), (1e-3, 1e3), (1e-4, 1e8), (1e-6, 1e2), (0.001, 100.0),
               (1e-5, 2e1), (1.0, 1e4), (1e-2, 1e1), (1e-7, 1e-1)]


def gen_grid(rng, nmax):
    k = rng.below(4)
    if k == 0:
        emin, emax = rng.choice(ROUND_GRIDS)
    else:
        emin = logu(rng, 1e-8, 1.0)
        emax = emin * logu(rng, 1.5, 1e9)
    if rng.chance(1, 5):     # narrow bins far from the origin: E / (E_{i+1} - E_i) large
        emin = logu(rng, 1e-6, 1e4)
        emax = emin * (1.0 + logu(rng, 1e-3, 1.0))
        return emin, emax, rng.range(max(2, nmax // 2), nmax)
    if rng.chance(1, 6):
        n = rng.range(2, 4)
    elif rng.chance(1, 3):   # Geant4-like: bins per decade
        n = max(2, min(nmax, int(rng.choice([3, 5, 7, 8, 10, 14, 20])
                                 * math.log10(emax / emin)) + 1))
    else:
        n = rng.range(2, nmax)
    return emin, emax, n


def gen_table(rng, n, kind=None):
    """positive values"""
    kind = rng.below(5) if kind is None else kind
    if kind == 0:
        return [logu(rng, 1e-6, 1e6) for _ in range(n)]
    if kind == 1:     # smooth random walk
        v, out = logu(rng, 1e-3, 1e3), []
        for _ in range(n):
            out.append(v)
            v *= math.exp((rng.unit() - 0.5) * 1.2)
        return out
    if kind == 2:     # constant / few distinct values
        c = logu(rng, 1e-3, 1e3)
        return [c * rng.choice([1.0, 1.0, 2.0, 0.5]) for _ in range(n)]
    if kind == 4:     # moderate values with a few knots many orders of magnitude below
        c = logu(rng, 1e-3, 1e3)
        return [c * logu(rng, 0.5, 2.0) * (logu(rng, 1e-24, 1e-8) if rng.chance(1, 4) else 1.0)
                for _ in range(n)]
    a, p = logu(rng, 1e-3, 1e3), (rng.unit() - 0.5) * 3
    return [a * (i + 1) ** p for i in range(n)]


def gen_increasing(rng, n):
    v, out = logu(rng, 1e-6, 1e-1), []
    for _ in range(n):
        out.append(v)
        v *= 1.0 + logu(rng, 0.05, 9.0)
    return out


class Block:
    """one problem: slots 0 xs, 1 loss, 2 range, 3 msc-xs share one log grid"""

    def __init__(self, rng, nmax):
        self.emin, self.emax, self.n = gen_grid(rng, nmax)
        self.front, self.back = math.log(self.emin), math.log(self.emax)
        # by how many EPS*E a point may sit outside the bin chosen from rounded log arithmetic
        self.kd = 4 * (max(abs(self.front), abs(self.back)) + (self.back - self.front)) + 8
        n = self.n
        self.prime = {}
        self.tables = {}
        self.offs = {}
        self.words = {}
        self.consistent = rng.chance(1, 2)
        for slot in range(4):
            if slot == 2:
                t = gen_increasing(rng, n)
                self.prime[slot] = None
            else:
                t = gen_table(rng, n, 1 if (slot == 1 and self.consistent) else None)
                self.prime[slot] = rng.below(n) if rng.chance(1, 2) else None
            self.tables[slot] = t
        self.delta = None     # filled from the harness reply
        self.en = None

    def finish_tables(self, rng):
        """needs the grid energies (from the real UniformGrid)"""
        n, en = self.n, self.en
        if self.consistent:
            # range table = integral of 1/loss (trapezoid in E), first point 2 E0 / L0
            L = self.tables[1]
            r = [2.0 * en[0] / L[0]]
            for i in range(n - 1):
                r.append(r[-1] + (en[i + 1] - en[i]) * 0.5 * (1.0 / L[i] + 1.0 / L[i + 1]))
            if all(r[i] < r[i + 1] for i in range(n - 1)):
                self.tables[2] = r
            else:
                self.consistent = False
        for slot in range(4):
            t = list(self.tables[slot])
            p = self.prime[slot]
            if p is not None:       # stored values at/above the prime index are scaled by E
                t = [t[i] * en[i] if i >= p else t[i] for i in range(n)]
            self.tables[slot] = t
            off = rng.below(3) if rng.chance(1, 3) else 0
            trail = rng.below(3) if rng.chance(1, 2) else 0
            self.offs[slot] = off
            self.words[slot] = ([logu(rng, 1e-3, 1e3) for _ in range(off)] + t
                                + [logu(rng, 1e-3, 1e3) for _ in range(trail)])

    def grid_line(self, slot):
        p = self.prime[slot]
        return "xsgrid %d %s %s %s %d %d %s" % (
            slot, hx(self.front), hx(self.back), "none" if p is None else str(p), self.n,
            self.offs[slot], " ".join(hx(v) for v in self.words[slot]))


def gen_energies(rng, blk, n_interior):
    en, out = blk.en, []
    for i, e in enumerate(en):
        out += [(ulps(e, -1), "knot-"), (e, "knot"), (ulps(e, 1), "knot+")]
    for e in (blk.emin, blk.emax):
        for k in (-3, -2, -1, 0, 1, 2, 3):
            out.append((ulps(e, k), "end"))
    for k in range(4, 40):           # just below the last knot
        out.append((ulps(blk.emax, -k), "end"))
    for _ in range(4):
        out.append((ulps(blk.emax, -rng.range(1, 4096)), "end"))
    out += [(blk.emin * logu(rng, 1e-6, 1.0), "below") for _ in range(3)]
    out += [(blk.emax * logu(rng, 1.0, 1e6), "above") for _ in range(3)]
    for _ in range(n_interior):
        out.append((logu(rng, blk.emin, blk.emax), "interior"))
    return out


# --------------------------------------------------------------------------- script
def build_script(ctx, exe, nblocks, nmax, n_interior, n_loss, n_msc):
    """Two passes over the real code: (1) grids -> real grid points; tables; range values
    -> (2) dependent ops (inverse range of real ranges, steps in (0, range], MSC)."""
    rng = ctx.rng
    blocks = [Block(rng, nmax) for _ in range(nblocks)]
    # pass 0: real delta and grid points
    lines = []
    for b in blocks:
        lines.append("xsgrid 0 %s %s none %d 0 %s" % (hx(b.front), hx(b.back), b.n,
                                                     " ".join([hx(1.0)] * b.n)))
        lines += ["ugat 0 %d" % i for i in range(b.n)]
    _, out = vlib.run_lines([exe], lines)
    k = 0
    for b in blocks:
        b.delta = fl(out[k].split()[1])
        b.x = [fl(out[k + 1 + i]) for i in range(b.n)]
        k += 1 + b.n
    # the knot energies exactly as the real code computes them: std::exp(loge_grid[i])
    _, eout = vlib.run_lines([exe], ["exp %s" % hx(x) for b in blocks for x in b.x])
    k = 0
    for b in blocks:
        b.en = [fl(eout[k + i]) for i in range(b.n)]
        k += b.n
        b.finish_tables(rng)
        b.energies = gen_energies(rng, b, n_interior)
    # pass 1: range at the energies used for loss / msc; std::log of every probe energy
    lines = []
    for b in blocks:
        lines.append(b.grid_line(2))
        b.loss_e = [logu(rng, b.emin * 0.3, b.emax * 1.5) for _ in range(n_loss)]
        b.loss_e += [b.en[rng.below(b.n)] for _ in range(2)]
        lines.append(b.grid_line(1))
        lines += ["range 2 %s" % hx(e) for e in b.loss_e]
        lines += ["xs 1 %s" % hx(e) for e in b.loss_e]
        b.all_e = sorted(set([e for e, _ in b.energies] + b.loss_e))
        lines += ["log %s" % hx(e) for e in b.all_e]
    _, out = vlib.run_lines([exe], lines)
    k = 0
    for b in blocks:
        k += 2
        b.loss_r, b.loss_rate = [], []
        for e in b.loss_e:
            b.loss_r.append(fl(out[k]) if is_val(out[k]) else None)
            k += 1
        for e in b.loss_e:
            b.loss_rate.append(fl(out[k]) if is_val(out[k]) else None)
            k += 1
        b.loge = {}
        for e in b.all_e:
            b.loge[e] = fl(out[k])
            k += 1
    # final script
    script = ["consts"]
    meta = [("consts",)]

    def add(line, *m):
        script.append(line)
        meta.append(m)

    for bi, b in enumerate(blocks):
        for slot in range(4):
            add(b.grid_line(slot), "grid", bi, slot)
        for i in range(b.n):
            add("ugat 0 %d" % i, "ugat", bi, i)
            for slot in (0, 1):
                add("xsat %d %d" % (slot, i), "xsat", bi, slot, i)
        # uniform grid find: std::log of every probe energy (the bin the calculators use) ...
        for e in b.all_e:
            add("ugfind 0 %s" % hx(b.loge[e]), "ebin", bi, e)
        # ... + grid points +- ulp, values just below back
        vs = []
        for x in b.x:
            vs += [x, ulps(x, 1), ulps(x, -1)]
        for kk in range(1, 12):
            vs.append(ulps(b.back, -kk))
        for v in vs:
            add("ugfind 0 %s" % hx(v), "ugfind", bi, v)
        for e, tag in b.energies:
            for slot in (0, 1):
                add("xs %d %s" % (slot, hx(e)), "xs", bi, slot, e, tag)
            add("range 2 %s" % hx(e), "range", bi, e, tag)
        # inverse range: table values +- ulp, below, above, real range values
        rt = b.tables[2]
        rs = []
        for r in rt:
            rs += [ulps(r, -1), r, ulps(r, 1)]
        rs += [rt[0] * logu(rng, 1e-8, 1.0) for _ in range(3)] + [0.0, rt[-1] * 1.5]
        rs += [logu(rng, rt[0], rt[-1]) for _ in range(max(4, n_interior // 2))]
        for r in rs:
            add("invrange 2 %s" % hx(r), "invrange", bi, r)
        for e, r, rate0 in zip(b.loss_e, b.loss_r, b.loss_rate):
            if r is None or not (r > 0) or not math.isfinite(r):
                continue
            add("invrange 2 %s" % hx(r), "roundtrip", bi, e, r)
            add("xs 1 %s" % hx(e), "rate", bi, e)
            lim = rng.choice([0.01, 0.01, 0.05, 0.2, 1.0, logu(rng, 1e-4, 1.0)])
            steps = [r, ulps(r, -1), r * 0.5, r * logu(rng, 1e-9, 1.0), r * logu(rng, 1e-3, 1.0),
                     r * rng.unit(), r * rng.unit()]
            if rate0 and rate0 > 0:       # either side of the linear / range-curve switch
                sw = lim * e / rate0
                steps += [t for t in (sw * (1 - 1e-6), ulps(sw, -2), sw, ulps(sw, 2),
                                      sw * (1 + 1e-6)) if 0 < t <= r]
            grp = rng.next()
            for s in sorted(set(steps)):
                if s > 0:
                    add("eloss 1 2 %s %s %s %s" % (hx(lim), hx(e), hx(r), hx(s)),
                        "eloss", bi, grp, lim, e, r, s)
            # true path -> geometrical path -> true path
            for _ in range(n_msc):
                emass = rng.choice([0.51099891, 0.51099891, 105.6583745])
                lam = logu(rng, 1e-7, 1e4)
                if rng.chance(1, 4):
                    # near-vacuum / very high energy: MSC mean free path many orders of magnitude
                    # above the range, where the expm1 / exp(w*log(slope)) formulas can round the
                    # geometrical path a few ulp above the true path before the final min()
                    lam = r * logu(rng, 1e10, 1e18)
                kk = rng.below(8)
                if kk == 0:
                    t = logu(rng, 1e-12, 1e-7)
                elif kk == 1:
                    t = r * logu(rng, 1e-6, 0.05)
                elif kk == 2:
                    t = r
                elif kk == 3:
                    t = ulps(r, -rng.range(1, 3))
                elif kk == 4:
                    t = r * 0.05
                else:
                    t = r * rng.unit()
                t = min(t, r)
                add("togeo 2 3 %s %s %s %s %s %s" % (hx(emass), hx(e), hx(lam), hx(r), hx(t),
                                                     hx(math.expm1(-t / lam))),
                    "togeo", bi, emass, e, lam, r, t)
    return blocks, script, meta


def gen_misc(rng, n):
    """ops without tables: range_to_step, MscStepFromGeo, GenericCalculator"""
    script, meta = [], []
    for _ in range(n):
        rho = logu(rng, 1e-4, 1.0)
        alpha = rng.choice([0.2, 0.2, rng.unit() * 0.999 + 1e-3, 1.0])
        k = rng.below(5)
        rngv = (rho * (1 + 1e-6) if k == 0 else ulps(rho * (1 + 1e-6), rng.range(-2, 2)) if k == 1
                else rho * logu(rng, 1e-3, 1.0) if k == 2 else rho * logu(rng, 1.0, 1e6))
        script.append("r2s %s %s %s" % (hx(rho), hx(alpha), hx(rngv)))
        meta.append(("r2s", rho, alpha, rngv))
    for _ in range(2 * n):
        rg = logu(rng, 1e-6, 1e2)
        tr = rg if rng.chance(1, 4) else rg * rng.unit()
        lam = logu(rng, 1e-7, 1e4)
        k = rng.below(6)
        alpha = (0.0 if k < 2 else 1.0 / rg if k < 4 else logu(rng, 1e-3, 1e3) / rg if k == 4
                 else -logu(rng, 1e-3, 1.0) / rg)
        kk = rng.below(6)
        g = (tr if kk == 0 else logu(rng, 1e-12, 1e-7) if kk == 1 else tr * rng.unit())
        g = min(g, tr)
        if alpha == 0.0:
            # small-step branch: only geometrical steps up to lam (1 - exp(-tr/lam)) < lam are
            # reachable (beyond lam the real code evaluates log1p of a value <= -1: NaN)
            gmax = min(tr, -lam * math.expm1(-tr / lam))
            g = gmax if kk in (0, 2) else min(g, gmax * rng.unit())
        script.append("fromgeo %s %s %s %s %s %s" % (hx(tr), hx(alpha), hx(rg), hx(lam), hx(g),
                                                     hx(log1p(-g / lam))))
        meta.append(("fromgeo", tr, alpha, rg, lam, g))
    for gi in range(max(2, n // 8)):
        m = rng.range(2, 24)
        xs = gen_increasing(rng, m)
        if rng.chance(1, 3):     # narrow bins far from the origin
            base, w = logu(rng, 1.0, 1e6), logu(rng, 1e-7, 1e-2)
            xs = [base * (1.0 + w * (i + rng.unit() * 0.5)) for i in range(m)]
        ys = gen_increasing(rng, m) if rng.chance(1, 2) else gen_table(rng, m)
        inc = all(ys[i] < ys[i + 1] for i in range(m - 1))
        script.append("gengrid %d %d %s" % (gi % 8, m, " ".join(hx(v) for v in xs + ys)))
        meta.append(("gengrid", xs, ys))
        probes = []
        for x in xs:
            probes += [ulps(x, -1), x, ulps(x, 1)]
        probes += [xs[0] * 0.5, xs[-1] * 2] + [logu(rng, xs[0], xs[-1]) for _ in range(12)]
        for x in probes:
            script.append("gen %d %s" % (gi % 8, hx(x)))
            meta.append(("gen", xs, ys, x, gi % 8))
        if inc:
            for y in [ys[0] * 0.5, ys[-1] * 2] + ys + [logu(rng, ys[0], ys[-1]) for _ in range(8)]:
                script.append("geninv %d %s" % (gi % 8, hx(y)))
                meta.append(("geninv", xs, ys, y, gi % 8))
    return script, meta


# --------------------------------------------------------------------------- oracle
def rel_close(a, b, tol, scale=None):
    s = max(abs(a), abs(b)) if scale is None else scale
    return abs(a - b) <= tol * s


EPS = 2.0 ** -52

# Error analysis of the interpolation AS WRITTEN (Interpolator<linear,linear> + the calculators),
# u = EPS/2, standard model fl(a op b) = (a op b)(1 + d), |d| <= u, one rounding for std::fma:
#   a = fl(yr - yl), b = fl(xr - xl), s = fl(a / b), d = fl(x - xl), r = fl(s*d + yl)   (fma)
#   s*d = S*D*(1 + t), |t| <= 4u + O(u^2);   r = (yl + S*D*(1 + t))(1 + d5)
#   |r - R| <= 4u |S D| + u |R| + O(u^2) <= 4u |yr - yl| + u max|y| <= 5u M   for x in the bin,
#   M = max(|yl|, |yr|) (same-sign knots).  XsCalculator adds fl(yr / E_r) at the prime bin and the
#   final fl(result / E): + 2u M.  Total <= 7u M = 3.5 EPS M; C = 8 leaves a factor 2 for the
#   second-order terms and the few-ulp extrapolation D/dx <= 1 + O(EPS x/dx).
# Consequence: the Float result can leave [min(yl,yr), max(yl,yr)] by up to C EPS M although the
# real-number interpolant cannot (Props/C14 xs_between_neighbours): when one knot is tiny and
# the other huge, that is far more than an ulp of the small knot and can even be negative.
C_INTERP = 8


def judge_interp(orc, kind, bi, setup, line, xl, yl, xr, yr, x, v, kl, kr, *, upper_div=None,
                 final_div=False, dist_ulps_ok=0.0):
    """One interpolated value of the real code against the exact rational interpolant of the
    bin the code chose.  (xl, yl), (xr, yr): the two points as stored (floats);
    upper_div: E_r when the upper value is un-scaled by it first (prime bin); final_div: result
    divided by x; kl, kr: the neighbouring knot values the property speaks about;
    dist_ulps_ok: by how many EPS*x the point may lie outside [xl, xr] because the bin is chosen
    from rounded log-space arithmetic.  Returns False when the point needs no further checks."""
    FX, Fxl, Fxr, Fyl, Fyr = Fr(x), Fr(xl), Fr(xr), Fr(yl), Fr(yr)
    if upper_div is not None:
        Fyr = Fyr / Fr(upper_div)
    R = Fyl + (Fyr - Fyl) / (Fxr - Fxl) * (FX - Fxl)
    M = max(abs(Fyl), abs(Fyr))
    if final_div:
        R, M = R / FX, M / FX
    Mf = float(M)
    err = abs(float(Fr(v) - R))
    bound = C_INTERP * EPS * Mf
    orc.count(kind + "_interp")
    info = {"x": x, "value": v, "exact_interpolant": float(R), "abs_error": err,
            "bound_C_eps_maxy": bound, "C": C_INTERP, "points": [[xl, yl], [xr, yr]],
            "neighbour_knot_values": [kl, kr]}
    if err > orc.worst_interp_err[0] * max(bound, 1e-300) and bound > 0:
        orc.worst_interp_err = (err / bound, dict(info, op=line))
    if not (err <= bound):
        orc.fail(kind + "-interp-error-bound", "interpolated value differs from the exact "
                 "interpolant of the chosen bin by more than C*eps*max|y| (rounding analysis of "
                 "the formula as written)", bi, setup + [line], info)
        return False
    dist = max(0.0, float(Fxl - FX), float(FX - Fxr))
    if dist > dist_ulps_ok * EPS * abs(x):
        orc.fail(kind + "-wrong-bin", "value interpolated in a bin that does not contain the "
                 "point (beyond what the rounded log-space bin search explains)", bi,
                 setup + [line], dict(info, outside_by=dist, allowed=dist_ulps_ok * EPS * abs(x)))
        return False
    lo, hi = min(kl, kr), max(kl, kr)
    excess = max(0.0, lo - v, v - hi)
    if excess > 0 or (v < 0 and lo >= 0):
        # (a) explained by rounding: C*eps*M for the formula + the exact slope over the few ulps
        # by which the rounded bin search lets the point sit outside the bin
        # how far the EXACT line of the chosen bin is outside the neighbours at this point
        # (non-zero only when the point sits the few allowed ulps outside the bin)
        exact_excess = float(max(Fr(0), Fr(lo) - R, R - Fr(hi)))
        allowed = bound + exact_excess * (1 + 1e-9) + 4 * EPS * max(abs(kl), abs(kr))
        info.update({"beyond_neighbour_by": excess, "allowed_by_rounding": allowed,
                     "outside_bin_by_ulps_of_x": dist / (EPS * abs(x)) if x else 0.0})
        if excess <= allowed:
            # specific keys: (i) within C*eps*max|y| of the neighbour: rounding of the formula;
            # (ii) more than that, but explained by the exact line of the chosen bin evaluated
            # the few ulps outside the bin that the rounded log-space bin search allows
            # (slope * distance; only matters for narrow bins, x/dx >> 1)
            base = ("interp-cancellation-beyond-neighbour" if excess <= bound
                    + 4 * EPS * max(abs(kl), abs(kr)) else "interp-bin-edge-extrapolation")
            key = base + (":negative" if v < 0 <= lo else "")
            orc.count(key)
            orc.cancel.setdefault(key, []).append((excess / Mf if Mf else 0.0, kind, bi,
                                                  setup + [line], info))
            return True
        orc.fail(kind + "-between", "value inside a bin is not between the neighbouring knot "
                 "values (beyond the rounding of the interpolation formula)", bi, setup + [line],
                 info)
        return False
    return True




class Oracle:
    """the property's own inequalities, evaluated on the REAL code's results"""

    def __init__(self, ctx, blocks):
        self.ctx, self.blocks = ctx, blocks
        self.fails = []           # (key, what, replay)
        self.stats = {}
        self.lastbin = []         # (bi, value, bin)
        self.lastbin_effect = (0.0, None)   # largest relative deviation from the last knot value
        self.back, self.switch, self.fullrange = [], [], []
        self.worst_round = (0.0, None)
        self.worst_interp_err = (0.0, None)
        self.cancel = {}          # finding key -> [(rel excess, kind, bi, ops, info)]
        self.ebin = {}            # (bi, E) -> bin returned by the real find | None outside

    def count(self, k, n=1):
        self.stats[k] = self.stats.get(k, 0) + n

    def fail(self, key, what, bi, lines, info):
        b = self.blocks[bi] if bi is not None else None
        setup = [b.grid_line(s) for s in range(4)] if b else []
        self.fails.append((key, what, {"harness": "harness/calc.cc", "ops": setup + lines,
                                       "info": info}))

    def region(self, bi, e):
        """'below' | 'above' | 'lastbin' | bin index, as the real code sees this energy"""
        b = self.blocks[bi]
        le = b.loge[e]
        if le <= b.front:
            return "below"
        if le >= b.back:
            return "above"
        k = self.ebin.get((bi, e))
        if k is None or k + 1 >= b.n:
            return "lastbin"
        return k

    def run(self, script, meta, out):
        blocks = self.blocks
        knot = {}     # (bi, slot) -> list of unscaled knot values
        rng_pts = {}  # bi -> list of (E, range)
        xs_pts = {}   # (bi, slot) -> list of (E, value, tag)
        loss = {}     # (bi, grp) -> list of (step, loss, lim, e, r, line)
        inv_pts = {}  # bi -> list of (r, E)
        rate = {}     # (bi, E) -> dE/dx
        trips = []
        for line, m, o in zip(script, meta, out):
            kind = m[0]
            if kind == "xsat":
                knot.setdefault((m[1], m[2]), []).append(fl(o))
            elif kind in ("ugfind", "ebin"):
                b = blocks[m[1]]
                if o == "precond":
                    continue
                idx = int(o)
                self.count("ugfind")
                v = m[2] if kind == "ugfind" else b.loge[m[2]]
                if kind == "ebin":
                    self.ebin[(m[1], m[2])] = idx
                if idx + 1 >= b.n:
                    self.lastbin.append((m[1], v, idx))
                    continue
                lo, hi = b.x[idx], b.x[idx + 1]
                # bracket within rounding of the grid points
                slack = 4 * EPS * (abs(v) + abs(b.front) + abs(b.delta))
                if not (lo - slack <= v <= hi + slack):
                    self.fail("ugfind-bracket", "UniformGrid::find: value outside the returned bin",
                              m[1], [line], {"v": v, "bin": idx, "lo": lo, "hi": hi})
            elif kind == "xs":
                if o == "oob":
                    self.count("xs_oob")
                    continue
                xs_pts.setdefault((m[1], m[2]), []).append((m[3], fl(o), m[4], line))
            elif kind == "rate":
                if is_val(o):
                    rate[(m[1], m[2])] = fl(o)
            elif kind == "range":
                if o == "oob":
                    self.count("range_oob")
                    continue
                rng_pts.setdefault(m[1], []).append((m[2], fl(o), line))
            elif kind == "invrange":
                inv_pts.setdefault(m[1], []).append((m[2], fl(o), line))
            elif kind == "roundtrip":
                trips.append((m, fl(o), line))
            elif kind == "eloss":
                if o in ("oob", "precond"):
                    continue
                loss.setdefault((m[1], m[2]), []).append((m[6], fl(o), m[3], m[4], m[5], line))
            elif kind == "togeo":
                if o in ("oob", "precond") or o.startswith("oracle"):
                    self.count("togeo_" + o.split()[0])
                    continue
                g, alpha = (fl(w) for w in o.split())
                t = m[6]
                self.count("togeo")
                if math.isnan(g):
                    self.count("togeo_nan")
                    self.fail("msc-geom-nan", "MscStepToGeo returns NaN", m[1], [line],
                              {"true": t, "alpha": alpha})
                    continue
                if not (0 <= g <= t):
                    self.fail("msc-geom-gt-true", "MscStepToGeo: geometrical path longer than the "
                              "true path (or negative)", m[1], [line], {"true": t, "geom": g})
                self.back.append((m, g, alpha, line))
        self.check_xs(knot, xs_pts)
        self.check_range(rng_pts, inv_pts)
        self.check_trips(trips)
        self.check_loss(loss, rate)

    def check_xs(self, knot, xs_pts):
        for (bi, slot), pts in xs_pts.items():
            b = self.blocks[bi]
            kn = knot[(bi, slot)]
            p = b.prime[slot]
            y = b.tables[slot]
            byknot = {}
            for e, v, tag, line in pts:
                self.count("xs")
                reg = self.region(bi, e)
                if reg == "lastbin":
                    # attributed to uniformgrid-find-last-bin: value computed from the word that
                    # follows the table
                    self.count("xs_lastbin")
                    dev = abs(v - kn[-1]) / kn[-1] if kn[-1] else 0.0
                    if not (dev <= self.lastbin_effect[0]):
                        self.lastbin_effect = (dev, {"op": line, "value": v, "last_knot": kn[-1],
                                                     "block": bi, "slot": slot})
                    continue
                if not math.isfinite(v):
                    self.fail("xs-nonfinite-or-negative", "lookup is not a finite non-negative value",
                              bi, [line], {"E": e, "value": v})
                    continue
                if reg in ("below", "above"):
                    i = 0 if reg == "below" else b.n - 1
                    want = y[i] / e if (p is not None and i >= p) else y[i]
                    self.count("xs_extrapolated")
                    if v != want or v < 0:
                        self.fail("xs-extrapolation", "value outside the grid is not the documented "
                                  "extrapolation", bi, [line], {"E": e, "value": v, "expected": want})
                    if tag.startswith("knot") or tag == "end":
                        byknot.setdefault(i, []).append((e, v, line))
                    continue
                k = reg
                for j in (k, k + 1):
                    if abs(e - b.en[j]) <= 16 * EPS * e and (tag.startswith("knot") or tag == "end"):
                        byknot.setdefault(j, []).append((e, v, line))
                ok = judge_interp(
                    self, "xs", bi, [], line, b.en[k], y[k], b.en[k + 1], y[k + 1], e, v,
                    kn[k], kn[k + 1],
                    upper_div=(b.en[k + 1] if (p is not None and k + 1 == p) else None),
                    final_div=(p is not None and k >= p), dist_ulps_ok=b.kd)
                if not ok:
                    continue
                if tag == "knot":
                    j = min(range(b.n), key=lambda q: abs(b.en[q] - e))
                    loc = max(kn[max(j - 1, 0)], kn[j], kn[min(j + 1, b.n - 1)])
                    self.count("xs_at_knot")
                    if not rel_close(v, kn[j], 1e-10, loc):
                        self.fail("xs-at-knot", "table not reproduced at a knot", bi, [line],
                                  {"E": e, "value": v, "knot": j, "table": kn[j]})
            # continuity across knots: values a few ulp either side (incl. the prime knot)
            for j, tr in byknot.items():
                vs = [t[1] for t in tr]
                loc = max(kn[max(j - 1, 0)], kn[j], kn[min(j + 1, b.n - 1)])
                self.count("continuity")
                if p is not None and j == p:
                    self.count("continuity_prime_knot")
                # the probes span a few ulp of E and may be evaluated by either adjacent bin up to
                # b.kd ulp outside it: allow the steeper adjacent slope over that distance
                es = [t[0] for t in tr]
                sl = max(abs(kn[q + 1] - kn[q]) / (b.en[q + 1] - b.en[q])
                         for q in (max(j - 1, 0), min(j, b.n - 2)))
                if p is not None:      # d/dE of y(E)/E has the extra term sigma/E
                    sl += 2 * loc / min(es)
                span = (max(es) - min(es)) + 2 * b.kd * EPS * max(es)
                if max(vs) - min(vs) > 1e-10 * loc + 2 * sl * span:
                    self.fail("xs-discontinuous", "jump across a knot (a few ulp either side)", bi,
                              [t[2] for t in tr], {"knot": j, "values": vs,
                                                   "prime": b.prime[slot]})

    def check_range(self, rng_pts, inv_pts):
        for bi, pts in rng_pts.items():
            b = self.blocks[bi]
            pts.sort(key=lambda t: t[0])
            prev = None
            for e, r, line in pts:
                self.count("range")
                if self.region(bi, e) == "lastbin":
                    self.count("range_lastbin")
                    dev = abs(r - b.tables[2][-1]) / b.tables[2][-1]
                    if not (dev <= self.lastbin_effect[0]):
                        self.lastbin_effect = (dev, {"op": line, "value": r,
                                                     "last_knot": b.tables[2][-1], "block": bi,
                                                     "slot": 2})
                    continue
                if not (math.isfinite(r) and r > 0):
                    self.fail("range-nonpositive", "range is not finite positive", bi, [line],
                              {"E": e, "range": r})
                reg = self.region(bi, e)
                if isinstance(reg, int):
                    rt = b.tables[2]
                    judge_interp(self, "range", bi, [], line, b.en[reg], rt[reg], b.en[reg + 1],
                                 rt[reg + 1], e, r, rt[reg], rt[reg + 1], dist_ulps_ok=b.kd)
                if prev is not None and r < prev[1] * (1 - 1e-13):
                    self.fail("range-not-monotone", "range decreases with energy", bi,
                              [prev[2], line], {"E": [prev[0], e], "range": [prev[1], r]})
                if prev is not None and r < prev[1]:
                    self.count("range_ulp_dips")
                prev = (e, r, line)
        for bi, pts in inv_pts.items():
            b = self.blocks[bi]
            pts.sort(key=lambda t: t[0])
            prev = None
            for r, e, line in pts:
                self.count("invrange")
                if not (math.isfinite(e) and e >= 0):
                    self.fail("invrange-negative", "inverse range is not finite non-negative", bi,
                              [line], {"range": r, "E": e})
                rt = b.tables[2]
                if rt[0] <= r < rt[-1]:
                    k = bisect.bisect_right(rt, r) - 1
                    judge_interp(self, "invrange", bi, [], line, rt[k], b.en[k], rt[k + 1],
                                 b.en[k + 1], r, e, b.en[k], b.en[k + 1])
                if prev is not None and e < prev[1] * (1 - 1e-13):
                    self.fail("invrange-not-monotone", "inverse range decreases", bi,
                              [prev[2], line], {"range": [prev[0], r], "E": [prev[1], e]})
                prev = (r, e, line)

    def check_trips(self, trips):
        for m, e2, line in trips:
            _, bi, e, r = m
            b = self.blocks[bi]
            reg = self.region(bi, e)
            if reg == "lastbin":
                continue
            self.count("roundtrip")
            rt = b.tables[2]
            want = min(e, math.exp(b.back)) if reg == "above" else e
            cond = 1.0
            if isinstance(reg, int):     # conditioning of the two interpolations in this bin
                cond += rt[reg + 1] / (rt[reg + 1] - rt[reg]) * (b.en[reg + 1] - b.en[reg]) / e
            if not rel_close(e2, want, 64 * EPS * cond):
                self.fail("invrange-roundtrip", "InverseRangeCalculator(RangeCalculator(E)) != E "
                          "beyond the conditioning of the bin", bi, ["range 2 " + hx(e), line],
                          {"E": e, "range": r, "back": e2, "condition": cond})

    def check_loss(self, loss, rate):
        for (bi, grp), pts in loss.items():
            b = self.blocks[bi]
            pts.sort(key=lambda t: t[0])
            prev = None
            for s, l, lim, e, r, line in pts:
                self.count("eloss")
                rt = rate.get((bi, e))
                if rt is None or self.region(bi, e) == "lastbin":
                    continue
                if rt < 0:
                    # the energy-loss lookup itself is negative: known finding
                    # interp-*:negative (judged on the `xs 1 E` op), not a defect of the loss code
                    self.count("eloss_negative_rate_attributed")
                    continue
                linear = not (s * rt >= e * lim)      # the branch the real code takes
                self.count("eloss_linear" if linear else "eloss_curve")
                if not (0 <= l <= e):
                    # the curve branch computes E - InverseRange(Range(E) - step): its rounding
                    # error is that of the range round trip (conditioning of the bin of E)
                    reg = self.region(bi, e)
                    cond = 1.0
                    rtab = b.tables[2]
                    if isinstance(reg, int):
                        cond += (rtab[reg + 1] / (rtab[reg + 1] - rtab[reg])
                                 * (b.en[reg + 1] - b.en[reg]) / e)
                    slack = 64 * EPS * cond * e
                    if linear and lim > 1:
                        self.count("excluded_limit_gt_1")
                    elif not linear and -slack <= l <= e + slack:
                        self.count("loss_outside_bounds_within_rounding")
                        if abs(min(l, e - l)) > self.worst_round[0]:
                            self.worst_round = (abs(min(l, e - l)), {"op": line, "E": e, "loss": l,
                                                                     "step": s, "range": r})
                    else:
                        self.fail("meanloss-bounds", "mean energy loss outside [0, E]", bi, [line],
                                  {"E": e, "range": r, "step": s, "loss": l, "limit": lim,
                                   "linear_branch": linear})
                if s == r and l != e:
                    # excluded point of meanLoss_full_at_range_partial: the linear branch is taken
                    # at step = range (range * dE/dx(E) < limit * E)
                    self.count("excluded_full_at_range")
                    if b.consistent and e <= b.en[-1] and e >= b.en[0]:
                        self.fullrange.append((bi, [line], {"E": e, "range": r, "loss": l,
                                                            "limit": lim, "dedx": rt}))
                if prev is not None:
                    if prev[6] == linear:
                        if l < prev[1] - 1e-12 * abs(prev[1]) - 64 * EPS * e:
                            self.fail("meanloss-not-monotone", "mean loss decreases with step "
                                      "length within one branch", bi, [prev[5], line],
                                      {"E": e, "range": r, "steps": [prev[0], s],
                                       "loss": [prev[1], l], "limit": lim, "linear": linear})
                    elif l < prev[1] - 1e-12 * abs(prev[1]) - 64 * EPS * e:
                        # excluded point of meanLoss_monotone_across_switch_partial
                        self.count("excluded_switch_decrease")
                        if b.consistent and e <= b.en[-1] and e >= b.en[0]:
                            self.switch.append((bi, [prev[5], line],
                                                {"E": e, "range": r, "steps": [prev[0], s],
                                                 "loss": [prev[1], l], "limit": lim, "dedx": rt}))
                prev = (s, l, lim, e, r, line, linear)


def check_misc(orc, script, meta, out):
    for line, m, o in zip(script, meta, out):
        if m[0] == "r2s":
            _, rho, alpha, r = m
            s = fl(o)
            orc.count("r2s")
            if not (0 < s <= r * (1 + 1e-15)):
                orc.fail("range-to-step", "range_to_step outside (0, range]", None, [line],
                         {"rho": rho, "alpha": alpha, "range": r, "step": s})
        elif m[0] == "fromgeo":
            if o.startswith("oracle"):
                continue
            _, tr, alpha, rg, lam, g = m
            t = fl(o)
            orc.count("fromgeo")
            if not (g <= t <= tr):
                orc.fail("msc-true-not-between", "MscStepFromGeo result not in [geom, true]", None,
                         [line], {"true": tr, "geom": g, "result": t, "alpha": alpha})
        elif m[0] in ("gen", "geninv"):
            _, xs, ys, x = m[:4]
            if m[0] == "geninv":
                xs, ys = ys, xs
            v = fl(o)
            orc.count("generic")
            setup = ["gengrid %d %d %s" % (m[4], len(m[1]), " ".join(hx(t) for t in m[1] + m[2]))]
            if x <= xs[0] or x >= xs[-1]:
                want = ys[0] if x <= xs[0] else ys[-1]
                if v != want:
                    orc.fail("generic-extrapolation", "GenericCalculator outside the grid is not "
                             "the end value", None, setup + [line], {"x": x, "value": v,
                                                                    "expected": want})
                continue
            k = bisect.bisect_right(xs, x) - 1
            judge_interp(orc, "generic", None, setup, line, xs[k], ys[k], xs[k + 1], ys[k + 1], x, v,
                         ys[k], ys[k + 1])


# --------------------------------------------------------------------------- round 3: real builders
def gen_builder_cases(rng, n_cases):
    """(emin, eprime, emax, n, j, sigma): eprime meant to sit on grid point j"""
    out = []
    for _ in range(n_cases):
        k = rng.below(4)
        if k <= 1:      # decade bounds, integer bins per decade, eprime a power of ten
            a, span = rng.range(-7, 2), rng.range(1, 12)
            b = a + span
            per = rng.choice([1, 2, 3, 4, 5, 6, 7, 8, 10, 12, 14, 20])
            n = span * per + 1
            c = rng.range(a, b - 1)
            emin, emax, eprime = float("1e%d" % a), float("1e%d" % b), float("1e%d" % c)
            j = (c - a) * per
        else:
            emin = logu(rng, 1e-8, 1.0)
            emax = emin * logu(rng, 3.0, 1e10)
            n = rng.range(2, 120)
            j = rng.below(n - 1)
            front, back = math.log(emin), math.log(emax)
            delta = (back - front) / (n - 1)
            m = rng.below(3)
            eprime = (math.exp(front + delta * j) if m == 0
                      else emin * (emax / emin) ** (j / (n - 1)) if m == 1
                      else math.exp(math.log(emin) * (1 - j / (n - 1)) + math.log(emax) * (j / (n - 1))))
            if j == 0:
                eprime = emin
        if rng.chance(1, 3) and j > 0:
            eprime = ulps(eprime, rng.range(-2, 2))
        if not (emin <= eprime < emax) or n < 2:
            continue
        sigma = gen_table(rng, n)
        out.append((emin, eprime, emax, n, j, sigma))
    return out


def builder_script(rng, cases):
    script, meta = [], []
    for ci, (emin, eprime, emax, n, j, sigma) in enumerate(cases):
        front, back = math.log(emin), math.log(emax)
        delta = (back - front) / (n - 1)
        en = [math.exp(front + delta * i) for i in range(n)]
        xs = [sigma[i] * en[i] if i >= j else sigma[i] for i in range(n)]
        script.append("xsbuild 4 %s %s %s %d %s" % (hx(emin), hx(eprime), hx(emax), n,
                                                     " ".join(hx(v) for v in xs)))
        meta.append(("xsbuild", ci))
        idx = sorted(set([0, n - 1, max(j - 1, 0), j, min(j + 1, n - 1)]
                         + [rng.below(n) for _ in range(4)]))
        for i in idx:
            script.append("xsat 4 %d" % i)
            meta.append(("bknot", ci, i, sigma[i], xs[i], en[i]))
            script.append("xs 4 %s" % hx(en[i]))
            meta.append(("bxs", ci, i, sigma))
    return script, meta


def check_builder(orc, cases, script, meta, out):
    cur = None
    for line, m, o in zip(script, meta, out):
        if m[0] == "xsbuild":
            cur = line
            emin, eprime, emax, n, j, sigma = cases[m[1]]
            w = o.split()
            orc.count("xsbuild")
            if len(w) != 3 or w[0] != "ok":
                orc.fail("xsbuilder-build", "ValueGridXsBuilder::build failed", None, [line],
                         {"answer": o})
                continue
            if int(w[2]) != j:
                orc.fail("xsbuilder-prime-index", "ValueGridXsBuilder::build stores a prime_index "
                         "that is not the grid point of eprime: values at/above eprime are then "
                         "(un)scaled by E at the wrong knots", None, [line],
                         {"emin": emin, "eprime": eprime, "emax": emax, "size": n,
                          "expected_prime_index": j, "stored_prime_index": int(w[2])})
        elif m[0] == "bknot":
            _, ci, i, sig, stored, e = m
            if not is_val(o):
                continue
            v = fl(o)
            orc.count("builder_knot")
            if not rel_close(v, sig, 1e-11):
                c = cases[ci]
                orc.fail("xsbuilder-knot-values", "table built by ValueGridXsBuilder does not "
                         "reproduce the input cross section at a knot", None, [cur, line],
                         {"emin": c[0], "eprime": c[1], "emax": c[2], "size": c[3],
                          "prime_knot": c[4], "knot": i, "input_xs": sig, "value": v,
                          "ratio": v / sig if sig else None})
        elif m[0] == "bxs":
            _, ci, i, sigma = m
            if not is_val(o):
                continue
            v = fl(o)
            c = cases[ci]
            n = c[3]
            near = [sigma[q] for q in (max(i - 1, 0), i, min(i + 1, n - 1))]
            orc.count("builder_xs")
            # log(exp(x_i)) may fall in the neighbouring bin: between the neighbours, close to i
            if not (min(near) - 1e-11 * max(near) <= v <= max(near) * (1 + 1e-11)) or \
                    not rel_close(v, sigma[i], 1e-9, max(near)):
                orc.fail("xsbuilder-knot-values", "XsCalculator on the table built by "
                         "ValueGridXsBuilder does not reproduce the input cross section at a knot "
                         "energy", None, [cur, line],
                         {"emin": c[0], "eprime": c[1], "emax": c[2], "size": n, "prime_knot": c[4],
                          "knot": i, "input_xs": sigma[i], "value": v})


def gen_sequences(rng, n_problems, n_steps):
    """multi-step sequences on ONE track slot of a real PhysicsParams: decreasing energy, mean
    free paths chosen so that range-limited and discrete-limited steps alternate"""
    script, meta = [], []
    for pi in range(n_problems):
        emin, emax, n = gen_grid(rng, 60)
        front, back = math.log(emin), math.log(emax)
        delta = (back - front) / (n - 1)
        en = [math.exp(front + delta * i) for i in range(n)]
        L = gen_table(rng, n, 1)
        r = [2.0 * en[0] / L[0]]
        for i in range(n - 1):
            r.append(r[-1] + (en[i + 1] - en[i]) * 0.5 * (1.0 / L[i] + 1.0 / L[i + 1]))
        if not all(r[i] < r[i + 1] for i in range(n - 1)):
            continue
        sig = gen_table(rng, n)
        if rng.chance(1, 2) and n > 2:
            j = rng.below(n - 1)
            eprime = math.exp(front + delta * j) if j else emin
            xs = [sig[i] * en[i] if i >= j else sig[i] for i in range(n)]
            script.append("xsbuild 5 %s %s %s %d %s" % (hx(emin), hx(eprime), hx(emax), n,
                                                         " ".join(hx(v) for v in xs)))
        else:
            script.append("logbuild 5 %s %s %d %s" % (hx(emin), hx(emax), n,
                                                       " ".join(hx(v) for v in sig)))
        meta.append(("setup",))
        script.append("logbuild 6 %s %s %d %s" % (hx(emin), hx(emax), n, " ".join(hx(v) for v in L)))
        meta.append(("setup",))
        script.append("logbuild 7 %s %s %d %s" % (hx(emin), hx(emax), n, " ".join(hx(v) for v in r)))
        meta.append(("setup",))
        lim = rng.choice([0.01, 0.01, 0.05, 0.2, logu(rng, 1e-3, 0.5)])
        rho = logu(rng, r[0] * 0.1, r[-1])
        alpha = rng.choice([0.2, 0.2, rng.unit() * 0.98 + 0.01, 1.0])
        fixed = 0.0 if rng.chance(2, 3) else logu(rng, r[0], r[-1])
        script.append("physbuild 5 6 7 %s %s %s %s" % (hx(lim), hx(rho), hx(alpha), hx(fixed)))
        meta.append(("physbuild", pi))
        setup = script[-4:]
        e = logu(rng, emin * 2, emax * 1.2)
        rng_mid = r[n // 2]
        seq = []
        for k in range(n_steps):
            # large mfp/xs -> range limited; small -> discrete limited
            mfp = logu(rng, 1e-6, 1e-2) if rng.chance(1, 2) else logu(rng, 1.0, 1e6)
            frac = 1.0 if rng.chance(2, 3) else rng.unit() * 0.999 + 0.001
            line = "pstep %s %s %s" % (hx(e), hx(mfp), hx(frac))
            script.append(line)
            seq.append(line)
            meta.append(("pstep", pi, k, e, lim, frac, list(setup), list(seq)))
            script.append("range 7 %s" % hx(e))
            meta.append(("prange", pi, k, e))
            e *= logu(rng, 0.2, 0.98)
            if e < emin * 0.05:
                break
        del rng_mid
    return script, meta


def check_sequences(orc, script, meta, out):
    last = None
    for line, m, o in zip(script, meta, out):
        if m[0] == "physbuild" and o != "ok":
            orc.fail("physbuild", "PhysicsParams could not be built from the tables", None, [line],
                     {"answer": o})
        elif m[0] == "pstep":
            last = (m, o)
        elif m[0] == "prange" and last is not None:
            pm, po = last
            last = None
            w = po.split()
            if len(w) != 5 or not is_val(o):
                orc.count("pstep_" + (w[0] if w else "empty"))
                continue
            _, pi, k, e, lim, frac, setup, seq = pm
            step, act, stored, macro = fl(w[0]), w[1], fl(w[2]), fl(w[3])
            cur = fl(o)
            orc.count("pstep")
            orc.count("pstep_" + act)
            replay_ops = setup + seq + [line]
            if hx(stored) != o:
                orc.fail("steplimit-stale-range", "after calc_physics_step_limit the stored "
                         "dedx_range is not RangeCalculator(E) of the current step", None,
                         replay_ops, {"step_index": k, "E": e, "stored_dedx_range": stored,
                                      "RangeCalculator(E)": cur, "action": act})
            if not (0 <= step <= stored * (1 + 4 * EPS)) and act != "f":
                orc.fail("steplimit-exceeds-range", "physics step limit larger than the range",
                         None, replay_ops, {"step_index": k, "E": e, "step": step, "range": stored})
            if w[4] == "nostep":
                continue
            loss = fl(w[4])
            slack = 1e-9 * e
            if not (-slack <= loss <= e + slack):
                orc.fail("meanloss-bounds-sequence", "mean energy loss outside [0, E] on a step of "
                         "a multi-step sequence (same track slot)", None, replay_ops,
                         {"step_index": k, "E": e, "loss": loss, "step": frac * step,
                          "stored_dedx_range": stored, "RangeCalculator(E)": cur, "limit": lim})

# --------------------------------------------------------------------------- run
def patch_oracles(exe, script):
    """expm1/log1p oracle inputs are computed by Python's libm binding; the harness checks
    them against std::expm1/std::log1p and reports the value to use on mismatch"""
    idx = [i for i, l in enumerate(script) if l.startswith(("togeo", "fromgeo"))]
    if not idx:
        return 0
    # tables must be set for togeo: run the whole script once
    _, out = vlib.run_lines([exe], script)
    patched = 0
    for i in idx:
        if i < len(out) and out[i].startswith("oracle-mismatch"):
            w = script[i].split()
            w[-1] = out[i].split()[1]
            script[i] = " ".join(w)
            patched += 1
    return patched


def diff_streams(script, a, b):
    diverged = []
    for i, l in enumerate(script):
        x = a[i] if i < len(a) else "<missing>"
        y = b[i] if i < len(b) else "<missing>"
        if x != y:
            xw, yw = x.split(), y.split()
            if len(xw) == len(yw) and xw and all(
                    p == q or (NAN_OK(p) and NAN_OK(q)) for p, q in zip(xw, yw)):
                continue
            diverged.append({"line": i, "op": l[:400], "impl": x, "model": y})
    if len(a) != len(script) or len(b) != len(script):
        diverged.append({"line": -1, "op": "<stream length>", "impl": len(a), "model": len(b)})
    return diverged


def corpus_files():
    d = vlib.os.path.join(vlib.CORPUS, "C14")
    if not vlib.os.path.isdir(d):
        return []
    return sorted(vlib.os.path.join(d, f) for f in vlib.os.listdir(d) if f.endswith(".ops"))


def run_corpus(ctx, exe, model_ok):
    """minimised past disagreements / witnesses: model = implementation, and the real find
    never returns size-1"""
    n, bad, last = 0, [], []
    for f in corpus_files():
        ops = [l.rstrip("\n") for l in open(f) if l.strip() and not l.startswith("#")]
        _, a = vlib.run_lines([exe], ops)
        n += len(ops)
        size = None
        for l, o in zip(ops, a):
            w = l.split()
            if w[0] == "xsgrid":
                size = int(w[5])
            if w[0] == "ugfind" and o.isdigit() and size and int(o) + 1 >= size:
                last.append({"file": f, "ops": ops, "op": l, "returned_bin": int(o), "size": size})
            if o == "oob":
                last.append({"file": f, "ops": ops, "op": l, "answer": "oob"})
        if model_ok:
            _, b = vlib.run_lines([vlib.model_exe("C14")], ops)
            for d in diff_streams(ops, a, b):
                d["file"] = f
                bad.append(d)
    return n, bad, last


def asan_replay(ops_raw):
    """run ops (with the unguarded `xsraw` / `rangeraw`) on the ASan build of the harness"""
    exe, log, _ = vlib.build_harness("calc", HARNESS["calc"], san=True)
    if exe is None:
        return {"asan_build": "failed", "log": log[-800:]}
    rc, out = vlib.sh([exe], input="\n".join(ops_raw) + "\n", timeout=300)
    rep = [l for l in out.split("\n") if "ERROR" in l or "READ of" in l or "located" in l
           or "runtime error" in l][:4]
    return {"ops": ops_raw, "asan_exit": rc, "asan_report": rep}


def asan_lastbin(ctx, blocks, wit):
    """does XsCalculator read past the table when find returns size-1?  (ASan build, table
    alone and last in its `reals` collection)"""
    bi, v, _ = wit
    b = blocks[bi]
    line = "xsgrid 0 %s %s none %d 0 %s" % (hx(b.front), hx(b.back), b.n,
                                            " ".join(hx(t) for t in b.tables[0][:b.n]))
    cands = [e for e in b.all_e if b.loge.get(e) == v] + [math.exp(v)] \
        + [ulps(b.emax, -k) for k in range(1, 64)]
    return asan_replay([line] + ["xsraw 0 " + hx(c) for c in cands[:8]])


def judge_ops(orc, exe, ops):
    """apply the interpolation judge to deterministic ops (corpus): `gengrid`/`gen` and
    `xsgrid`/`xs` (no prime index, offset 0)"""
    _, out = vlib.run_lines([exe], ops)
    gen, xsg = None, None
    for l, o in zip(ops, out):
        w = l.split()
        if w[0] == "gengrid":
            n = int(w[2])
            vals = [fl(t) for t in w[3:]]
            gen = (l, vals[:n], vals[n:])
        elif w[0] == "gen" and gen and is_val(o):
            xs, ys = gen[1], gen[2]
            x = fl(w[2])
            if xs[0] < x < xs[-1]:
                k = bisect.bisect_right(xs, x) - 1
                judge_interp(orc, "generic", None, [gen[0]], l, xs[k], ys[k], xs[k + 1], ys[k + 1],
                             x, fl(o), ys[k], ys[k + 1])
        elif w[0] == "xsgrid":
            xsg = (l, fl(w[2]), fl(w[3]), int(w[5]), [fl(t) for t in w[7:]])
        elif w[0] == "xs" and xsg and is_val(o):
            g, front, back, n, tab = xsg
            e = fl(w[2])
            _, q = vlib.run_lines([exe], [g, "log " + w[2]])
            loge = fl(q[1])
            if not (front < loge < back):
                continue
            _, q = vlib.run_lines([exe], [g, "ugfind %s %s" % (w[1], hx(loge))])
            k = int(q[1])
            _, q = vlib.run_lines([exe], [g, "ugat %s %d" % (w[1], k), "ugat %s %d" % (w[1], k + 1)])
            _, q2 = vlib.run_lines([exe], ["exp " + q[1], "exp " + q[2]])
            kd = 4 * (max(abs(front), abs(back)) + (back - front)) + 8
            judge_interp(orc, "xs", None, [g], l, fl(q2[0]), tab[k], fl(q2[1]), tab[k + 1], e, fl(o),
                         tab[k], tab[k + 1], dist_ulps_ok=kd)


def run(ctx):
    quick = ctx.quick()
    ps = common.proof_side(ctx, "C14")
    broken = list(ps["broken"])
    numself.run(ctx, n=20000 if quick else 200000)
    exe, log, _ = vlib.build_harness("calc", HARNESS["calc"])
    if exe is None:
        ctx.violation("harness-build", "harness/calc.cc no longer builds against /repo",
                      {"correspondence": "harness build", "log": log[-2000:]}, found_input=False)
        ctx.coverage.update({"evaluations": 0, "distinct_nontrivial": 0})
        return LEVEL
    mult = 1 if quick else 8
    if broken:
        mult *= 2
    n_corpus, corpus_bad, corpus_last = run_corpus(ctx, exe, ps["model_ok"])
    if corpus_bad:
        broken.append(f"correspondence: corpus ops differ ({corpus_bad[0]['file']}: "
                      f"{corpus_bad[0]['op'][:60]})")
    blocks, script, meta = build_script(ctx, exe, nblocks=40 * mult, nmax=48 if quick else 200,
                                        n_interior=24, n_loss=6, n_msc=3)
    mscript, mmeta = gen_misc(ctx.rng, 400 * mult)
    script += mscript
    meta += mmeta
    bcases = gen_builder_cases(ctx.rng, 300 * mult)
    bscript, bmeta = builder_script(ctx.rng, bcases)
    b0 = len(script)
    script += bscript
    meta += bmeta
    sscript, smeta = gen_sequences(ctx.rng, 40 * mult, 12)
    s0 = len(script)
    script += sscript
    meta += smeta
    s1 = len(script)
    # the kernel-evaluable bit-level arithmetic behind the Float witnesses of Props/C14
    for _ in range(3000 * mult):
        bop = ctx.rng.choice(["add", "sub", "mul", "div", "div", "lt", "le", "eq", "fma", "lerp"])
        script.append("bitop %s %s" % (bop, " ".join(
            "%x" % numself.rnd_bits(ctx.rng) for _ in range({"fma": 3, "lerp": 5}.get(bop, 2)))))
        meta.append(("bitop",))
    script += ["xs 3 3ff0000000000000", "frob", "", "xsgrid 0 1 2", "eloss 0 0 1 2 3", "pstep 1 2",
               "xsbuild 0 1 2 3 2 1 1"]
    meta += [("bad",)] * 7
    patched = patch_oracles(exe, script)
    _, oh = vlib.run_lines([exe], script)
    diverged = []
    if ps["model_ok"]:
        _, om = vlib.run_lines([vlib.model_exe("C14")], script)
        diverged = diff_streams(script, oh, om)
    else:
        broken.append("model driver did not build")
    if diverged:
        broken.append(f"correspondence: model and implementation differ on {len(diverged)} ops "
                      f"(first: {diverged[0]['op'][:80]})")
    orc = Oracle(ctx, blocks)
    orc.run(script, meta, oh)
    check_misc(orc, script, meta, oh)
    check_builder(orc, bcases, script[b0:s0], meta[b0:s0], oh[b0:s0])
    check_sequences(orc, script[s0:s1], meta[s0:s1], oh[s0:s1])
    # geometrical -> true with the alpha the real MscStepToGeo returned
    back_lines, back_meta = [], []
    for m, g, alpha, line in orc.back:
        _, bi, emass, e, lam, r, t = m
        back_lines.append("fromgeo %s %s %s %s %s %s" % (hx(t), hx(alpha), hx(r), hx(lam), hx(g),
                                                         hx(log1p(-g / lam) if lam else 0.0)))
        back_meta.append(("fromgeo", t, alpha, r, lam, g))
    if back_lines:
        patched += patch_oracles(exe, back_lines)
        _, ob = vlib.run_lines([exe], back_lines)
        check_misc(orc, back_lines, back_meta, ob)
        if ps["model_ok"]:
            _, obm = vlib.run_lines([vlib.model_exe("C14")], back_lines)
            d2 = diff_streams(back_lines, ob, obm)
            if d2:
                diverged += d2
                broken.append(f"correspondence: fromgeo round trip differs on {len(d2)} ops")
    # deterministic witnesses of the rounding-level deviations (corpus/C14/interp_*.ops)
    for f in corpus_files():
        if vlib.os.path.basename(f).startswith("interp_"):
            judge_ops(orc, exe, [l.rstrip("\n") for l in open(f) if l.strip()
                                 and not l.startswith("#")])
    for key, cases in sorted(orc.cancel.items()):
        rel, kind, bi, ops, info = max(cases, key=lambda t: t[0])
        setup = [blocks[bi].grid_line(sl) for sl in range(4)] if bi is not None else []
        ctx.violation(key,
                      ("interpolated value leaves the interval of its two neighbouring knot values "
                       "by at most C*eps*max|y| (C = 8): rounding of fma(slope, x - x_l, y_l), "
                       "visible when the knot values inside one bin differ by many orders of "
                       "magnitude" if key.startswith("interp-cancellation") else
                       "interpolated value leaves the interval of its two neighbouring knot values "
                       "by slope * (a few ulp of x): the rounded log-space bin search puts an "
                       "energy within a few ulp of a knot into the adjacent bin, whose line is then "
                       "evaluated just outside the bin (narrow bins, large |slope|); the value is "
                       "within C*eps*max|y| of that exact line")
                      + ("; the returned value is NEGATIVE although all knots are >= 0"
                         if key.endswith(":negative") else ""),
                      {"harness": "harness/calc.cc", "calculator": kind, "ops": setup + ops,
                       "info": info, "cases_this_run": len(cases)})
    # findings
    seen = set()
    for key, what, replay in orc.fails:
        if key in seen:
            continue
        seen.add(key)
        ctx.violation("oracle:" + key, "real code: " + what, replay)
    asan_info = None
    if not quick:
        # sanitizer run of the unguarded calculators on the corpus witnesses (thorough tier)
        raw = []
        for f in corpus_files():
            for l in open(f):
                w = l.split()
                if w and w[0] == "xsgrid":
                    raw.append(l.strip())
                elif w and w[0] in ("xs", "range"):
                    raw.append(w[0] + "raw " + " ".join(w[1:]))
        if raw:
            asan_info = asan_replay(raw)
            if asan_info.get("asan_exit", 0) != 0:
                ctx.violation("uniformgrid-find-last-bin",
                              "sanitizer abort in the unguarded calculators on the corpus witness "
                              "(read past the table)", asan_info)
    if corpus_last and not orc.lastbin:
        ctx.violation("uniformgrid-find-last-bin",
                      "UniformGrid::find returns size-1 on the corpus witness: bin+1 is not a grid "
                      "point and XsCalculator reads one past its table", corpus_last[0])
    if orc.lastbin:
        bi, v, idx = orc.lastbin[0]
        b = blocks[bi]
        info = {"grid": {"front": hx(b.front), "back": hx(b.back), "size": b.n,
                         "emin": b.emin, "emax": b.emax},
                "value": hx(v), "value_float": v, "returned_bin": idx,
                "ops": ["xsgrid 0 %s %s none %d 0 %s" % (hx(b.front), hx(b.back), b.n,
                                                        " ".join([hx(1.0)] * b.n)),
                        "ugfind 0 " + hx(v)],
                "cases_this_run": len(orc.lastbin),
                "largest_numerical_effect": {"relative_deviation_from_last_knot":
                                             orc.lastbin_effect[0], "at": orc.lastbin_effect[1]},
                "asan": asan_lastbin(ctx, blocks, orc.lastbin[0])}
        ctx.violation("uniformgrid-find-last-bin",
                      "UniformGrid::find returns size-1 for a value just below back: bin+1 is not a "
                      "grid point and XsCalculator reads one past its table", info)
    if orc.fullrange:
        # prefer the smallest loss limit
        bi, lines, info = min(orc.fullrange, key=lambda t: t[2]["limit"])
        b = blocks[bi]
        ctx.violation("meanloss-step-eq-range-linear-branch",
                      "calc_mean_energy_loss: step == range returns step*dE/dx < E (linear branch, "
                      "range*dE/dx(E) < linear_loss_limit*E) although the range table integrates "
                      "the loss table",
                      {"harness": "harness/calc.cc", "ops": [b.grid_line(1), b.grid_line(2)] + lines,
                       "info": info, "cases_this_run": len(orc.fullrange),
                       "limits_seen": sorted(set(t[2]["limit"] for t in orc.fullrange))[:6]})
    if orc.switch:
        bi, lines, info = min(orc.switch, key=lambda t: t[2]["limit"])
        b = blocks[bi]
        ctx.violation("meanloss-decreases-across-linear-switch",
                      "calc_mean_energy_loss: a longer step loses LESS energy across the switch from "
                      "the linear approximation to the range curve (range table = integral of the "
                      "loss table)",
                      {"harness": "harness/calc.cc", "ops": [b.grid_line(1), b.grid_line(2)] + lines,
                       "info": info, "cases_this_run": len(orc.switch),
                       "limits_seen": sorted(set(t[2]["limit"] for t in orc.switch))[:6]})
    if broken and not ctx.violations:
        ctx.violation("unproved", "; ".join(broken)[:600],
                      {"no_longer_checks": broken, "diverging_ops": diverged[:3]}, found_input=False)
    elif broken:
        ctx.notes.append({"proof_or_correspondence_broken": broken, "diverging_ops": diverged[:3]})
    if not quick and ps["build"]["ok"]:
        common.leanchecker(ctx, ["CelerVerif.Props.C14"])
    kinds = {}
    distinct = set()
    for l, o in zip(script, oh):
        k = (l.split() or ["empty"])[0]
        kinds[k] = kinds.get(k, 0) + 1
        if o not in ("bad-op", "precond"):
            distinct.add(l)
    ctx.assumptions += [
        "theorems are about the real-number reading of Model/Calc.lean; the same definitions "
        "executed at Float equal the C++ results bit-for-bit on every op compared in this run",
        "tables well-formed as XsGridData::operator bool / from_bounds guarantee; positive values; "
        "range tables strictly increasing; 0 < linear_loss_limit <= 1; dedx_range = "
        "RangeCalculator(E)",
        "expm1 / log1p are oracle inputs (libm results, checked by the harness against "
        "std::expm1/std::log1p); at ℝ they are assumed to be exp x - 1 and log (1 + x)",
        "static_cast<size_type>(double) is truncation (Nat.floor at ℝ, Float.toUInt64 at Float) "
        "on the non-negative in-range quotients the code produces",
    ]
    ctx.coverage.update({
        "evaluations": len(script) + len(back_lines), "distinct_nontrivial": len(distinct),
        "rule": "log grids (round and random bounds, 2..%d points, Geant4-like bins per decade), "
                "positive tables (random / smooth / flat / power law; with and without prime index; "
                "stored at offsets with and without trailing words), range tables increasing (half "
                "of them the integral of the loss table); energies at every knot and +-1 ulp, grid "
                "ends +-1..3 ulp, 4..39 ulp below the last knot, below/above the grid, log-uniform "
                "interior; steps in (0, range] incl. range and range-1ulp; MSC lambda/range/true "
                "path incl. tiny, 5%% of range, range; distinct = distinct op lines not answered "
                "bad-op/precond" % (48 if quick else 200),
        "op_mix": dict(sorted(kinds.items())), "oracle_counts": dict(sorted(orc.stats.items())),
        "oracle_failures": len(orc.fails), "diverging_ops": len(diverged),
        "find_last_bin_cases": len(orc.lastbin) + len(corpus_last), "oracle_inputs_patched": patched,
        "corpus_ops": n_corpus, "asan_corpus": asan_info,
        "loss_rounding_worst": {"abs": orc.worst_round[0], "at": orc.worst_round[1]},
        "interp_error_worst_over_bound": {"ratio": orc.worst_interp_err[0],
                                          "at": orc.worst_interp_err[1], "C": C_INTERP},
        "interp_cancellation_cases": {k: len(v) for k, v in orc.cancel.items()},
        "blocks": len(blocks),
        "samples": [script[1][:200], script[len(script) // 2][:200], script[-6][:200]],
        "correspondence_broken": broken,
    })
    return LEVEL


def replay(ctx, data):
    exe, log, _ = vlib.build_harness("calc", HARNESS["calc"])
    r = data["replay"]
    if "ops" in r:
        _, o = vlib.run_lines([exe], r["ops"])
        for l, x in zip(r["ops"], o):
            vals = " ".join(("%.17g" % fl(w)) if is_val(w) else w for w in x.split())
            print(l[:160], "->", x, "(", vals, ")")
        print(vlib.json.dumps(r.get("info", {}), indent=1))
    else:
        print(vlib.json.dumps(r, indent=1))
    return 0
