"""C13 — RNG skip-ahead equals sequential generation and streams never overlap."""
import vlib
from checks import common

LEVEL = "proof"
HARNESS = {"xorwow": ["corecel", "celeritas"]}
MANIFEST = {
    "category": "proof",
    "technique": "Lean 4 proof: GF(2)[z]/(P) certificates by kernel evaluation over regenerated "
                 "jump tables + induction; differential correspondence model vs real engine",
    "text": "Theorems over the model for all 2^160 states, all Weyl values and all n<2^64: "
            "discard n = n draws; discard_subsequence k = k*2^67 steps; exact period 2^160-1 "
            "(Cayley-Hamilton + order certificates + Lucas primality of the factors); streams "
            "of different (event,slot) disjoint; canonical numerator < 2^53. Jump tables and "
            "all constants are regenerated from the source each run so a changed table breaks "
            "a kernel-checked certificate; the engine's control flow is hand-modelled and "
            "compared with the real XorwowRngEngine/XorwowRngParams/reseed_rng on random and "
            "adversarial op scripts; impl-side oracle discard(a+b)=discard(a);discard(b) etc. "
            "searches a failing input when anything breaks.",
    "design_ref": "DESIGN.md §6 C13",
    "note": "Hypotheses: n,k < 2^64 (ull_int); streams_disjoint assumes non-zero seed state and "
            "event*size+slot < 2^64 (beyond that reseed_rng wraps). IEEE exactness of n*2^-53 "
            "for n<2^53 is assumed, checked at run time by the harness. " ,
}
M64 = (1 << 64) - 1


def gen_state(rng):
    k = rng.below(10)
    if k == 0:
        ws = [0, 0, 0, 0, 0]
        ws[rng.below(5)] = 1 << rng.below(32)
    elif k == 1:
        ws = [0xFFFFFFFF] * 5
    else:
        ws = [rng.next() & 0xFFFFFFFF for _ in range(5)]
    w = rng.choice([0, 0xFFFFFFFF, rng.next() & 0xFFFFFFFF])
    return "set " + " ".join("%x" % x for x in ws) + " %x" % w


def gen_count(rng):
    k = rng.below(9)
    if k == 0:
        return rng.below(1000)
    if k == 1:
        return 4 ** rng.below(32)
    if k == 2:
        return (4 ** rng.below(32) * rng.range(1, 3)) & M64
    if k == 3:
        return M64 - rng.below(4)
    if k == 4:
        return (rng.below(1 << 32) << 32) & M64
    if k == 5:
        return rng.next() & M64
    bits = rng.range(1, 64)          # log-uniform
    return rng.next() & ((1 << bits) - 1)


def gen_script(rng, n_ops):
    lines = [gen_state(rng)]
    for _ in range(n_ops):
        k = rng.below(20)
        if k < 8:
            lines.append("discard %x" % gen_count(rng))
        elif k < 12:
            lines.append("draw")
        elif k < 15:
            lines.append("canon")
        elif k < 17:
            lines.append("init %x %x %x" % (rng.next() & 0xFFFFFFFF, gen_count(rng), gen_count(rng)))
        elif k < 19:
            size = rng.range(1, 64)
            ev = rng.choice([rng.below(100), gen_count(rng) // size])
            lines.append("reseed %x %x %x %x" % (rng.next() & 0xFFFFFFFF, ev, size, rng.below(size)))
        else:
            lines.append(gen_state(rng))
    return lines


def tag(line):
    w = line.split()
    if w[0] == "discard":
        try:
            n = int(w[1], 16)
        except (ValueError, IndexError):
            return "malformed"
        if n > M64:
            return "malformed"
        return "discard-0" if n == 0 else "discard-%d-digits" % ((n.bit_length() + 1) // 2)
    return w[0]


def oracle_scripts(rng, n, focus=()):
    """impl-side predicate `discard(a+b) = discard(a);discard(b)` etc.
    Returns list of (description, lines_A, lines_B): the final lines must agree."""
    out = []
    for c in focus:
        st = gen_state(rng)
        a = rng.below(c + 1)
        out.append((f"discard({a:#x}+{c - a:#x}) vs discard;discard", [st, "discard %x" % a,
                    "discard %x" % (c - a)], [st, "discard %x" % c]))
        if c <= 5000:
            out.append((f"discard({c}) vs {c} draws", [st, "discard %x" % c], [st] + ["draw"] * c))
    for _ in range(n):
        st = gen_state(rng)
        k = rng.below(6)
        if k == 5:
            # real reseed_rng(event e) on `size` slots, slot i  ==  operator=({seed, e*size+i, 0})
            seed = rng.next() & 0xFFFFFFFF
            size = rng.choice([rng.range(1, 64), rng.choice([3, 5, 6, 7, 12, 100, 1000])])
            e = rng.choice([rng.range(1, 100), rng.below(1 << 40)])
            i = rng.below(size)
            if (e * size + i) >> 64 == 0:
                out.append((f"reseed_rng(event {e}, {size} slots, slot {i}) vs init(seed, e*size+i, 0)",
                            ["reseed %x %x %x %x" % (seed, e, size, i)],
                            ["init %x %x 0" % (seed, e * size + i)]))
            continue
        if k == 0:
            t = gen_count(rng)
            a = rng.below(t + 1)
            out.append((f"discard({a:#x}+{t - a:#x}) vs discard;discard",
                        [st, "discard %x" % a, "discard %x" % (t - a)], [st, "discard %x" % t]))
        elif k == 1:
            m = rng.below(3000)
            out.append((f"discard({m}) vs {m} draws", [st, "discard %x" % m], [st] + ["draw"] * m))
        elif k == 2:
            i = rng.range(1, 31)
            out.append((f"discard(4^{i}) vs 4 x discard(4^{i - 1})", [st, "discard %x" % 4 ** i],
                        [st] + ["discard %x" % 4 ** (i - 1)] * 4))
        elif k == 3:
            seed = rng.next() & 0xFFFFFFFF
            sub = rng.range(1, 3)
            out.append((f"init(seed,{sub},0) vs init(seed,0,0) + {16 * sub} x discard(2^63)",
                        ["init %x %x 0" % (seed, sub)],
                        ["init %x 0 0" % seed] + ["discard %x" % (1 << 63)] * (16 * sub)))
        else:
            seed = rng.next() & 0xFFFFFFFF
            sub, off = gen_count(rng), rng.below(2000)
            out.append((f"init(seed,{sub:#x},{off}) vs init(seed,{sub:#x},0) + {off} draws",
                        ["init %x %x %x" % (seed, sub, off)],
                        ["init %x %x 0" % (seed, sub)] + ["draw"] * off))
    return out


def strip_val(line):
    i = line.find("st ")
    return line[i:] if i >= 0 else line


def run_oracles(ctx, exe, scripts):
    """returns list of failing (desc, A, B, outA, outB)"""
    fails = []
    for desc, A, B in scripts:
        _, oa = vlib.run_lines([exe], A)
        _, ob = vlib.run_lines([exe], B)
        if not oa or not ob or strip_val(oa[-1]) != strip_val(ob[-1]):
            fails.append((desc, A, B, oa[-1:] , ob[-1:]))
    return fails


def run(ctx):
    quick = ctx.quick()
    ps = common.proof_side(ctx, "C13")
    broken = list(ps["broken"])
    ctx.assumptions += [
        "model of XorwowRngEngine is hand-written (Model/Xorwow.lean); jump tables, shift "
        "amounts, Weyl increments, SplitMix64 and canonical constants are regenerated from the "
        "source on every run",
        "theorems quantify over all 2^160 xorshift states, all Weyl values and all n < 2^64; "
        "the seed state written by operator=(Initializer) is proved non-zero for every seed (SplitMix64 output function injective), so reseed_streams_disjoint_all_seeds has no hypothesis on the seed",
        "IEEE: an integer below 2^53 times 2^-53 is exact (canonical value) — not modelled, "
        "checked by the harness on every canonical draw",
        "reseed index e*size+i is modelled with 64-bit wrap; disjointness is proved for "
        "e*size+i < 2^64 (beyond that the code wraps and streams collide: arithmetic fact, "
        "stated as hypothesis)",
    ]

    exe, log, _ = vlib.build_harness("xorwow", ["corecel", "celeritas"])
    if exe is None:
        ctx.violation("harness-build", "harness/xorwow.cc no longer builds against /repo",
                      {"correspondence": "harness build", "log": log[-2000:]}, found_input=False)
        ctx.coverage.update({"evaluations": 0, "distinct_nontrivial": 0})
        return LEVEL

    # translator cross-check: tables of the running code vs Generated
    rc, dump = vlib.sh([exe, "--tables"])
    try:
        from gen import xorwow as _gx
        tj, ts = _gx.xorwow_tables()
        want = [" ".join("%08x" % w for w in r) for r in tj + ts]
        got = [l.strip() for l in dump.strip().split("\n")]
        if want != got:
            broken.append("translator cross-check: tables dumped by the running "
                          "XorwowRngParams differ from the regenerated ones")
    except vlib.translate.TranslateError:
        pass

    # correspondence: corpus, then generated scripts
    n_scripts, n_ops = (150, 40) if quick else (2500, 60)
    evals, tags, distinct = 0, {}, set()
    diverged = []
    scripts = []
    corpus_dir = vlib.os.path.join(vlib.CORPUS, "C13")
    if vlib.os.path.isdir(corpus_dir):
        for fn in sorted(vlib.os.listdir(corpus_dir)):
            scripts.append([l.strip() for l in open(vlib.os.path.join(corpus_dir, fn))
                            if l.strip() and not l.startswith("#")])
    n_corpus = len(scripts)
    for _ in range(n_scripts):
        scripts.append(gen_script(ctx.rng, n_ops))
    malformed = ["discard zz", "discard 10000000000000000", "init 1 2", "frobnicate", ""]
    scripts.append(["set 1 2 3 4 5 6"] + malformed + ["draw"])
    if ps["model_ok"]:
        flat, bounds = [], []
        for s in scripts:
            bounds.append((len(flat), len(flat) + len(s)))
            flat += s
        _, oh = vlib.run_lines([exe], flat)
        _, om = vlib.run_lines([vlib.model_exe("C13")], flat)
        for (a, b), s in zip(bounds, scripts):
            d = vlib.first_diff(oh[a:b], om[a:b])
            if d is not None:
                diverged.append({"script": s[:d[0] + 1], "impl": d[1], "model": d[2]})
            for l in s:
                evals += 1
                t = tag(l) if l.split() else "empty"
                tags[t] = tags.get(t, 0) + 1
                if t not in ("set", "empty") and not l.startswith("discard 0"):
                    distinct.add(l)
        if any("OUT-OF-RANGE" in l for l in oh):
            k = next(i for i, l in enumerate(oh) if "OUT-OF-RANGE" in l)
            ctx.violation("canonical-out-of-range", "generate_canonical returned a value "
                          "outside [0,1) or not a multiple of 2^-53",
                          {"ops": flat[max(0, k - 3):k + 1], "impl": oh[k]})
    else:
        broken.append("model driver did not build")
    if diverged:
        broken.append(f"correspondence: model and implementation differ on {len(diverged)} scripts")

    # impl-side oracle (always a modest number; many more when something is broken)
    focus = []
    for d in diverged[:20]:
        last = d["script"][-1].split()
        if last and last[0] == "discard":
            focus.append(int(last[1], 16))
    n_or = (40 if quick else 400) * (6 if broken else 1)
    osc = oracle_scripts(ctx.rng, n_or, focus)
    if broken:
        for i in range(32):     # every table row, directly
            st = gen_state(ctx.rng)
            if i > 0:
                osc.append((f"discard(4^{i}) vs 4 x discard(4^{i - 1})", [st, "discard %x" % 4 ** i],
                            [st] + ["discard %x" % 4 ** (i - 1)] * 4))
            osc.append((f"init(seed,4^{i},0) vs init(seed,4^{i}-1,0) + 16 x discard(2^63)",
                        ["init 1 %x 0" % 4 ** i],
                        ["init 1 %x 0" % (4 ** i - 1)] + ["discard %x" % (1 << 63)] * 16))
    fails = run_oracles(ctx, exe, osc)
    for desc, A, B, oa, ob in fails[:5]:
        ctx.violation("oracle:" + desc.split(" vs ")[0].split("(")[0],
                      f"real XorwowRngEngine: {desc} disagree",
                      {"harness": "harness/xorwow.cc", "ops_A": A[:50] + (["..."] if len(A) > 50 else []),
                       "n_ops_A": len(A), "ops_B": B[:50] + (["..."] if len(B) > 50 else []),
                       "n_ops_B": len(B), "state_A": oa, "state_B": ob,
                       "contradicts": "discard_eq_draws / discardSubsequence_eq / discard_compose / discard_subsequence_commute"})
    if broken and not ctx.violations:
        ctx.violation("unproved", "; ".join(broken)[:600],
                      {"no_longer_checks": broken, "diverging_scripts": diverged[:3]},
                      found_input=False)

    if not quick and ps["build"]["ok"]:
        common.leanchecker(ctx, ["CelerVerif.Props.C13"])

    ctx.coverage.update({
        "evaluations": evals + len(osc), "distinct_nontrivial": len(distinct),
        "rule": "random op scripts (set/draw/discard/canon/init/reseed) with adversarial skip "
                "counts (0, 4^i, k*4^i, 2^64-1-j, multiples of 2^32, log-uniform); an op is "
                "non-trivial if it is not `set`/empty/discard 0; distinct = distinct op lines",
        "op_mix": dict(sorted(tags.items())), "corpus_scripts": n_corpus,
        "scripts": len(scripts), "oracle_pairs": len(osc), "oracle_failures": len(fails),
        "diverging_scripts": len(diverged),
        "samples": [scripts[n_corpus][:6], osc[0][0] if osc else ""],
        "correspondence_broken": broken,
    })
    return LEVEL


def replay(ctx, data):
    exe, log, _ = vlib.build_harness("xorwow", ["corecel", "celeritas"])
    r = data["replay"]
    if "ops_A" in r and r.get("n_ops_A", 0) <= 50 and r.get("n_ops_B", 0) <= 50:
        _, oa = vlib.run_lines([exe], r["ops_A"])
        _, ob = vlib.run_lines([exe], r["ops_B"])
        print("A:", oa[-1:], "B:", ob[-1:])
        same = strip_val(oa[-1]) == strip_val(ob[-1])
        print("agree" if same else "DISAGREE (violation reproduced)")
        return 0 if same else 1
    print(vlib.json.dumps(r, indent=1))
    return 0
