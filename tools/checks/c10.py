"""C10 — CSG logic rewriting and encoding preserve the region's boolean function."""
import os
import re
import select
import shutil
import subprocess
import time

import vlib
from checks import common

LEVEL = "proof"
HARNESS = {"csg": ["corecel", "geocel", "orange"], "csgrt": ["corecel", "geocel", "orange"]}
MANIFEST = {
    "category": "proof",
    "technique": "Lean 4 proof over an executable model of CsgTree / NodeSimplifier / "
                 "replace_and_simplify / DeMorganSimplifier / PostfixLogicBuilder / LogicStack / "
                 "InternalSurfaceFlagger; differential correspondence model vs real classes on "
                 "structured op scripts; exhaustive truth-table oracle on the real code",
    "text": "Theorems over the model (Props/C10.lean, 42 obligations) for all trees, nodes and "
            "sense assignments, no size bound: (a) the 32-bit LogicStack evaluator refines the "
            "list-stack reference for every well-formed logic with calc_max_depth <= 32 (bound "
            "shown sharp at 33), calc_max_depth bounds the stack at every point; (b) the logic "
            "emitted by PostfixLogicBuilder (with or without the sorted surface mapping, incl. face "
            "remapping) evaluates to the node's value; InfixEvaluator as written is correct on "
            "every expression of the explicit infix grammar and on the infix encoding of every "
            "node (infixOf; the code base has no C++ infix builder, the harness encoder mirrors "
            "it); (c) insert keeps the full tree invariant and every denotation; exchange / "
            "simplify(node) / simplify_up / simplify(tree) keep every node's value under every "
            "sense assignment and the soundness of the dedup map (order-free `Models` form, all "
            "branches); (d) replace_and_simplify raises no contradiction and keeps every value on "
            "every assignment with key = value; (e) transform_negated_joins under its documented "
            "precondition always returns (none of the compiled-out assertions can fire), the new "
            "tree satisfies the invariant, every volume keeps its denotation and no negated join "
            "remains, also on trees WITH alias chains of any depth (deMorgan_preserves_alias: the "
            "code reads the tree only through dealias, so a successful run equals the run on the "
            "resolved tree; the check feeds transform_negated_joins trees with alias chains of "
            "depth >= 2 in every run and counts the depths); outside the documented precondition "
            "the unchanged code throws (negation of an alias of a join) or crashes (double "
            "negation through an alias) - kernel-checked witnesses, replayed, keyed findings; "
            "(f) a node flagged `simple` is a constant times a conjunction of surface "
            "literals when no negation points through aliases at a join (hypothesis shown "
            "necessary); the RUNTIME flag the tracker reads (runtimeFlag_sound / "
            "runtimeFlag_sound_proto: UnitProto::build -> UnitInserter::insert_volume / "
            "process_daughter -> VolumeView::internal_surfaces never clear the bit, the forced-limit "
            "replacement logic is constant false; flag values and statement texts regenerated and "
            "pattern-checked), tied to the real OrangeParams by harness/csgrt.cc: every bundled "
            "test/orange/data/*.org.json and API-built geometries with daughters in convex and "
            "non-convex parents, nested universes, arrays and background volumes are loaded, every "
            "VolumeRecord's flags are diffed with the model and every volume with "
            "internal_surfaces unset must have a stored logic that is a conjunction of literals "
            "(exhaustive table); END-TO-END (reachable_preserves / reachable_postfix_correct / "
            "reachable_infix_correct): for every tree in the closure of the empty tree under "
            "insert, insert_volume, replace_and_simplify, simplify(tree,start) and "
            "transform_negated_joins, every volume keeps the value it was declared with and its "
            "postfix/infix encodings evaluate to it, for every assignment consistent with the "
            "replaced constants - with no ordering hypothesis. NOT proved: the documented "
            "topological order (children < id) is NOT an invariant of reachable trees "
            "(kernel-checked witness replace_twice_breaks_order: 14 inserts + 2 "
            "replace_and_simplify, replayed on the real code), so the `denote` forms of (c4)/(d) "
            "keep `Sorted t'` as a hypothesis (..._partial); termination of the sweeps (budget "
            "4*size+16 never exhausted in the runs); absence of negated aliases after whole-tree "
            "simplify (never observed). Logic token values, stack width, NodeRepl lattice order, "
            "special node ids and the text of calc_max_depth / LogicStack operations are "
            "regenerated or pattern-checked from the source each run. The hand-written model is "
            "tied to the real code by an exact diff of the full node array, volumes and every "
            "builder/evaluator output after every op of generated scripts (n-ary joins with "
            "duplicate and complementary operands, shared sub-expressions, aliases, constants, "
            "nesting, re-insertion, exchange, replace, De Morgan, arbitrary token lists for the "
            "LogicStack incl. underflow and depth > 32, random explicit-infix expressions for the "
            "real InfixEvaluator). Impl-side oracle: truth tables (all 2^k assignments, k <= 12) "
            "of every node of the real tree before/after every rewriting op, real LogicEvaluator "
            "and real InfixEvaluator vs real SenseEvaluator, printed postfix/infix re-evaluated "
            "independently, sub-cube test of `simple` flags.",
    "design_ref": "DESIGN.md §6 C10",
    "note": "Hypotheses: release build (CELER_EXPECT preconditions explicit), node count < 2^32-1, "
            "surface ids < lbegin, De Morgan only under its documented precondition (no alias, no "
            "double negation), postfix depth <= 32 (OrangeParams validates < 32). Confirmed "
            "behaviours of the unchanged code outside the theorems' hypotheses are kept as replays "
            "in corpus/C10/findings (exchange-cycle: exchange with an EQUIVALENT node can self-alias "
            "a node via a stale dedup key; flag-negated-alias: Negated(Aliased(and-join)) flagged "
            "simple; demorgan-crash-outside-precondition: double negation through an alias "
            "crashes transform_negated_joins); they are reported through ctx.violation "
            "(KNOWN-FINDING when listed in known_findings.txt, VIOLATION otherwise); "
            "demorgan-negated-alias-of-join.ops is a regression script for repo fix 9889e64. "
            "The first two were not reached by scripts restricted to insert / simplify / "
            "replace_and_simplify / transform_negated_joins. Raw exchange with a non-equivalent "
            "node is not meaning preserving by contract: only correspondence is checked after it.",
}

REWRITE_OPS = ("simplify", "simplifyup", "simplifyall", "replace", "demorgan", "demorganx",
               "exchange")
OUTCOME_OPS = ("simplify", "simplifyall", "replace", "demorgan", "demorganx", "flag", "insert-join",
               "insert-negated", "insert-aliased", "exchange-join", "exchange-aliased")
UNDEFINED = ("undefined", "out-of-fuel", "error assert", "error fuel")
MAXK = 12


# --------------------------------------------------------------------------- bit-parallel tables
_VM = {}


def var_masks(k):
    """(N, full, var[0..63]) for the exhaustive table over surfaces 0..k-1: assignment a is bit a
    of every table, surface s is true in a iff bit s of a (surfaces >= k are false)"""
    if k not in _VM:
        n = 1 << k
        var = []
        for s in range(k):
            blk = 1 << s
            m = ((1 << blk) - 1) << blk
            width = 2 * blk
            while width < n:
                m |= m << width
                width *= 2
            var.append(m)
        _VM[k] = (n, (1 << n) - 1, var + [0] * (64 - k))
    return _VM[k]


def sample_masks(seed, n=256):
    """tables over a fixed sample of 64-bit assignments (scripts with surface ids >= 12)"""
    r = vlib.SplitMix64(seed)
    asg = [0, (1 << 64) - 1] + [r.next() for _ in range(n - 2)]
    var = [sum(((a >> s) & 1) << i for i, a in enumerate(asg)) for s in range(64)]
    return n, (1 << n) - 1, var


def universe(ops):
    """('ex', k) when every surface id is < 12, else ('wide', seed); the seed of the sample is
    carried by a leading `eval 0 <hex>` op"""
    smax, kmax = -1, 0
    for l in ops:
        w = l.split()
        for i, t in enumerate(w[:-1]):
            if t == "surface" and w[i + 1].isdigit():
                smax = max(smax, int(w[i + 1]))
        if len(w) == 3 and w[0] in ("tt", "ttpost", "ttinfix") and w[2].isdigit() \
                and int(w[2]) <= MAXK:
            kmax = max(kmax, int(w[2]))
    if smax < MAXK:
        return ("ex", max(smax + 1, kmax, 1))
    for l in ops[:3]:
        w = l.split()
        if len(w) == 3 and w[0] == "eval" and w[1] == "0":
            try:
                return ("wide", int(w[2], 16))
            except ValueError:
                pass
    return ("wide", 0xC10)


class Cycle(Exception):
    pass


def eval_tables(nodes, var, full):
    n = len(nodes)
    tab = [None] * n
    busy = [False] * n

    def go(i):
        if tab[i] is not None:
            return tab[i]
        if busy[i]:
            raise Cycle()
        busy[i] = True
        k, a = nodes[i]
        if k == "T":
            r = full
        elif k == "F":
            r = 0
        elif k == "S":
            r = var[a] if a < len(var) else 0
        elif k == ">":
            r = go(a)
        elif k == "~":
            r = full ^ go(a)
        elif k == "&":
            r = full
            for c in a:
                r &= go(c)
        else:
            r = 0
            for c in a:
                r |= go(c)
        tab[i] = r
        busy[i] = False
        return r

    for i in range(n):
        go(i)
    return tab


def parse_dump(d):
    toks = d.split()
    vi = toks.index("vols")
    nodes = []
    for t in toks[1:vi]:
        s = t.split(":", 1)[1]
        c = s[0]
        if c in "TF":
            nodes.append((c, None))
        elif c in ">~S":
            nodes.append((c, int(s[1:])))
        else:
            inner = s[2:-1]
            nodes.append((c, tuple(int(x) for x in inner.split(",")) if inner else ()))
    return nodes, [int(x) for x in toks[vi + 1:]]


def children(node):
    k, a = node
    if k in ">~":
        return (a,)
    if k in "&|":
        return a
    return ()


def spec_of(node):
    k, a = node
    if k == "T":
        return "true"
    if k == "F":
        return "false"
    if k == "S":
        return "surface %d" % a
    if k == "~":
        return "negated %d" % a
    if k == ">":
        return "aliased %d" % a
    return "join %s %s" % ("and" if k == "&" else "or", " ".join(map(str, a)))


def tt_int(hexs):
    """`tt` payload (4 assignments per digit, lowest first) -> table integer"""
    return int(hexs[::-1], 16) if hexs else 0


def ref_stack(tokens, val, full):
    """reference (unbounded list stack) evaluation of a postfix token list; literals are looked up
    by `val`; returns (table, peak depth sampled like calc_max_depth, wellformed)"""
    st, peak = [], 0
    for t in tokens:
        if t == "*":
            st.append(full)
        elif t == "~":
            if not st:
                return None, peak, False
            st[-1] ^= full
        elif t in "&|":
            if len(st) < 2:
                return None, peak, False
            peak = max(peak, len(st))
            b = st.pop()
            st[-1] = (st[-1] & b) if t == "&" else (st[-1] | b)
        else:
            st.append(val(int(t)))
    if len(st) != 1:
        return None, peak, False
    return st[0], max(peak, 1), True


_INFIX_TOK = re.compile(r"all\(|any\(|\)|,|!|[+-]\d+|T|F|\s+")


def infix_table(s, var, full):
    """independent evaluation of build_infix_string's output; None when it does not parse"""
    toks = [t for t in _INFIX_TOK.findall(s) if t.strip()]
    if "".join(toks) != s.replace(" ", ""):
        return None
    pos = [0]

    def expr():
        t = toks[pos[0]]
        pos[0] += 1
        if t == "!":
            return full ^ expr()
        if t == "T":
            return full
        if t == "F":
            return 0
        if t[0] in "+-":
            v = var[int(t[1:])]
            return v if t[0] == "+" else full ^ v
        if t in ("all(", "any("):
            r = expr()
            while toks[pos[0]] == ",":
                pos[0] += 1
                x = expr()
                r = (r & x) if t == "all(" else (r | x)
            if toks[pos[0]] != ")":
                raise ValueError
            pos[0] += 1
            return r
        raise ValueError
    try:
        r = expr()
        return r if pos[0] == len(toks) else None
    except (IndexError, ValueError):
        return None


# --------------------------------------------------------------------------- the oracle
def alias_chain_depth(nodes):
    """longest run of consecutive alias links starting at any node"""
    best = 0
    for i, (k, a) in enumerate(nodes):
        d, j = 0, i
        while nodes[j][0] == ">" and d <= len(nodes):
            j = nodes[j][1]
            d += 1
            if j >= len(nodes):
                break
        best = max(best, d)
    return best


def double_neg_via_alias(nodes):
    """some negation's operand is, after following aliases, itself a negation"""
    def end(j):
        d = 0
        while j < len(nodes) and nodes[j][0] == ">" and d <= len(nodes):
            j = nodes[j][1]
            d += 1
        return j
    for i in range(2, len(nodes)):
        j = end(i)
        if j < len(nodes) and nodes[j][0] == "~":
            c = end(nodes[j][1])
            if c < len(nodes) and nodes[c][0] == "~":
                return True
    return False


def alias_of_join(nodes):
    """some alias node's chain ends in a join"""
    for i, (k, a) in enumerate(nodes):
        if k != ">":
            continue
        d, j = 0, i
        while j < len(nodes) and nodes[j][0] == ">" and d <= len(nodes):
            j = nodes[j][1]
            d += 1
        if j < len(nodes) and nodes[j][0] in "&|":
            return True
    return False


class View:
    """State of one script reconstructed from the REAL code's output lines only, and the
    property's predicates evaluated on it.  Also the generator's view of the live tree."""

    def __init__(self, uni):
        self.uni = uni
        self.N, self.full, self.var = var_masks(uni[1]) if uni[0] == "ex" else sample_masks(uni[1])
        self.fails = []          # dict(key, what, at)
        self.idx = -1
        self.cmp = 0             # truth-table comparisons
        self.max_depth = 0
        self.order_violation = False
        self.order_violation_clean = False     # ... in a script without raw exchange
        self.changed_rewrites = 0
        self.flag_na = 0         # `simple` answers with a reachable ~(alias)
        self.dm_depths = []      # max alias-chain depth of the trees given to De Morgan (answer ok)
        self.dm_errors = {}      # demorganx answers `error <kind>`
        self.raw_exchanges = 0
        self.tainted_cycle = False
        self.tainted_cycle_equiv = False
        self.fresh()

    def fresh(self):
        self.nodes = [("T", None), ("~", 0)]
        self.vols = []
        self.tab = [self.full, 0]
        self.M = self.full       # assignments consistent with all `replace` constraints so far
        self.vbase = []          # table of each volume when it was marked
        self.stop = False        # cyclic tree: nothing after it is defined
        self.exchanged = False   # an explicit `exchange` op was applied to this tree

    # ---- helpers
    def fail(self, key, what):
        self.fails.append({"key": key, "what": what, "at": self.idx})

    def spec_table(self, w):
        """table of a node spec over the current tables; None if not a valid spec"""
        try:
            if w == ["true"]:
                return self.full
            if w == ["false"]:
                return 0
            if len(w) == 2 and w[0] == "surface":
                return self.var[int(w[1])]
            if len(w) == 2 and w[0] == "negated":
                return self.full ^ self.tab[int(w[1])]
            if len(w) == 2 and w[0] == "aliased":
                return self.tab[int(w[1])]
            if len(w) >= 2 and w[0] == "join" and w[1] in ("and", "or"):
                r = self.full if w[1] == "and" else 0
                for c in w[2:]:
                    r = (r & self.tab[int(c)]) if w[1] == "and" else (r | self.tab[int(c)])
                return r
        except (ValueError, IndexError):
            pass
        return None

    def other_table(self, n, k):
        """table of node n over surfaces 0..k-1 (the `tt n k` semantics)"""
        if self.uni == ("ex", k):
            return self.tab[n], self.full
        _, full, var = var_masks(k)
        return eval_tables(self.nodes, var, full)[n], full

    def postfix_depth(self, n, memo=None):
        memo = {} if memo is None else memo
        if n in memo:
            return memo[n]
        k, a = self.nodes[n]
        if k in ">~":
            d = self.postfix_depth(a, memo)
        elif k in "&|":
            d = 0
            for i, c in enumerate(a):
                d = max(d, self.postfix_depth(c, memo) + (1 if i else 0))
        else:
            d = 1
        memo[n] = d
        return d

    def nest_depth(self, n, memo):
        if n in memo:
            return memo[n]
        memo[n] = 0
        d = 1 + max([self.nest_depth(c, memo) for c in children(self.nodes[n])] or [0])
        memo[n] = d
        return d

    def reach(self, n):
        seen, todo = set(), [n]
        while todo:
            i = todo.pop()
            if i in seen:
                continue
            seen.add(i)
            todo += list(children(self.nodes[i]))
        return seen

    def negated_alias(self, n):
        return any(self.nodes[i][0] == "~" and self.nodes[self.nodes[i][1]][0] == ">"
                   for i in self.reach(n))

    def has_alias(self):
        return any(k in ">F" for k, _ in self.nodes) or any(
            k == "~" and self.nodes[a][0] == "~" for k, a in self.nodes[2:])

    def structure(self, nodes, vols):
        n = len(nodes)
        if n < 2 or nodes[0] != ("T", None) or nodes[1] != ("~", 0):
            self.fail("structure", "node 0/1 are not T/~0")
        for i, nd in enumerate(nodes):
            if nd[0] == "F":
                self.fail("structure", f"explicit False node {i}")
            if nd[0] in "&|" and len(nd[1]) < 2:
                self.fail("structure", f"join node {i} has {len(nd[1])} operands")
            for c in children(nd):
                if c >= n:
                    self.fail("structure", f"node {i} references {c} >= size {n}")
                    return False
                if c >= i:
                    self.order_violation = True
                    if self.M:
                        self.order_violation_clean = True
        if any(v >= n for v in vols):
            self.fail("structure", "volume id >= size")
            return False
        return True

    def same_tables(self, old, new, mask, key, what):
        for i in range(min(len(old), len(new))):
            self.cmp += 1
            if (old[i] ^ new[i]) & mask:
                self.fail(key, f"{what}: node {i} changed its truth table on an admissible "
                               f"assignment ({bin((old[i] ^ new[i]) & mask).count('1')} of "
                               f"{bin(mask).count('1')} assignments)")
                return False
        return True

    # ---- one op
    def step(self, op, out):
        self.idx += 1
        w = op.split()
        if not w or out == "bad-op" or out.startswith("<"):
            return
        name = w[0]
        if name == "reset":
            self.fresh()
            return
        if self.stop:
            return
        if out.startswith("exception"):
            self.fail("exception", f"`{op}` raised {out}")
            return
        head, dump = (out.split(" # ", 1) + [None])[:2]
        if dump is not None:
            try:
                nodes, vols = parse_dump(dump)
            except (ValueError, IndexError):
                self.fail("structure", "unparsable dump")
                return
            if name == "exchange":
                # an exchange with a node that is not equivalent (on the admissible assignments)
                # is outside the contract: it leaves stale keys in the dedup map, after which
                # neither the denotations nor acyclicity are promised (only correspondence)
                self.exchanged = True
                want = self.spec_table(w[2:])
                if w[2:] in (["true"], ["false"]) and int(w[1]) < len(self.tab):
                    # declaring a node constant is the constraint replace_and_simplify imposes
                    # on a literal: from here on only assignments with node = constant count
                    t_n = self.tab[int(w[1])]
                    self.M &= t_n if w[2] == "true" else (self.full ^ t_n)
                    if not self.M:
                        self.raw_exchanges += 1
                elif want is None or ((want ^ self.tab[int(w[1])]) & self.M):
                    self.M = 0
                    self.raw_exchanges += 1
            if not self.structure(nodes, vols):
                self.stop = True
                return
            try:
                tab = eval_tables(nodes, self.var, self.full)
            except Cycle:
                # CsgTree::exchange keeps the old definition's key in the dedup map; its
                # swap-with-higher-duplicate branch can then turn a later exchange/simplify into
                # a self-alias (real code and model agree).  Only insert/simplify/replace/De
                # Morgan streams promise acyclicity: after an explicit exchange it is counted.
                if self.M and not self.exchanged:
                    self.fail("cycle", f"`{op}` left a cyclic node graph")
                else:
                    self.tainted_cycle = True
                    self.tainted_cycle_equiv = bool(self.M)
                self.stop = True
                return
            self.tree_op(name, w, head, nodes, vols, tab, op)
            return
        self.query(name, w, out, op)

    def tree_op(self, name, w, head, nodes, vols, tab, op):
        pre_nodes, pre_vols, pre_tab, M = self.nodes, self.vols, self.tab, self.M
        n0 = len(pre_nodes)
        vbase = self.vbase
        if name in REWRITE_OPS and (nodes != pre_nodes):
            self.changed_rewrites += 1
        if name == "insert":
            if nodes[:n0] != pre_nodes or vols != pre_vols or len(nodes) > n0 + 1:
                self.fail("insert-modifies", f"`{op}` modified existing nodes or volumes")
            h = head.split()
            want = self.spec_table(w[1:])
            nid = int(h[1])
            self.cmp += 1
            if nid >= len(nodes) or (h[2] == "1") != (len(nodes) == n0 + 1):
                self.fail("insert-id", f"`{op}` answered {head} for a tree of {len(nodes)} nodes")
            elif want is not None and (tab[nid] ^ want) & M:
                self.fail("insert-denotation", f"`{op}` returned id {nid} whose truth table "
                          "differs from the inserted node's")
        elif name == "volume":
            if nodes != pre_nodes or vols != pre_vols + [int(w[1])]:
                self.fail("volume", f"`{op}` did not just append the volume")
            vbase = vbase + [pre_tab[int(w[1])]]
        elif name in ("simplify", "simplifyup", "simplifyall"):
            if len(nodes) != n0 or vols != pre_vols:
                self.fail("simplify-shape", f"`{op}` changed the tree size or the volumes")
            self.same_tables(pre_tab, tab, M, "simplify-changes-function", f"`{op}`")
        elif name == "exchange":
            if len(nodes) != n0 or vols != pre_vols:
                self.fail("simplify-shape", f"`{op}` changed the tree size or the volumes")
            if M:            # equivalent replacement (else M was cleared in step())
                self.same_tables(pre_tab, tab, M, "exchange-changes-function",
                                 f"`{op}` (equivalent replacement)")
        elif name == "replace":
            key = int(w[1])
            step = pre_tab[key] if w[2] == "T" else self.full ^ pre_tab[key]
            if head.startswith("validate-error"):
                if M & step:
                    self.fail("replace-spurious-contradiction",
                              f"`{op}` raised a contradiction although node {key} = {w[2]} is "
                              "satisfiable together with the earlier constraints")
                M = 0
            else:
                M &= step
                if len(nodes) != n0 or vols != pre_vols:
                    self.fail("simplify-shape", f"`{op}` changed the tree size or the volumes")
                self.same_tables(pre_tab, tab, M, "replace-changes-function", f"`{op}`")
        elif name == "demorgan":
            if not head.startswith("error"):
                self.dm_depths.append(alias_chain_depth(pre_nodes))
            if head.startswith("error"):
                self.fail("demorgan-exception", f"transform_negated_joins threw ({head}) on a "
                          "tree satisfying its documented precondition")
            else:
                if len(vols) != len(pre_vols):
                    self.fail("demorgan-volumes", "transform_negated_joins changed the number "
                              "of volumes")
                else:
                    for i, (a, b) in enumerate(zip(pre_vols, vols)):
                        self.cmp += 1
                        if (pre_tab[a] ^ tab[b]) & M:
                            self.fail("demorgan-changes-function", f"volume {i} (node {a} -> "
                                      f"{b}) changed its truth table under De Morgan rewriting")
                            break
                for i, (k, a) in enumerate(nodes):
                    if k == "~" and nodes[a][0] in "&|":
                        self.fail("demorgan-negated-join", f"node {i} still negates join {a}")
                        break
        elif name == "demorganx":
            depth = alias_chain_depth(pre_nodes)
            if head.startswith("error"):
                kind = head.split()[1] if len(head.split()) > 1 else "?"
                self.dm_errors[kind] = self.dm_errors.get(kind, 0) + 1
                doc_pre = not any(k in ">F" for k, _ in pre_nodes) and not any(
                    k == "~" and pre_nodes[a][0] == "~" for k, a in pre_nodes[2:])
                if nodes != pre_nodes or vols != pre_vols:
                    self.fail("demorgan-exception", f"`{op}` answered {head} and changed the tree")
                elif doc_pre:
                    self.fail("demorgan-exception", f"`{op}` answered {head} on a tree satisfying "
                              "the documented precondition (no alias, no double negation)")
                elif kind == "crash" and not double_neg_via_alias(pre_nodes):
                    self.dm_errors["crash-other"] = self.dm_errors.get("crash-other", 0) + 1
                    self.fail("demorgan-crash-outside-precondition",
                              f"`{op}`: transform_negated_joins crashed on a tree with alias "
                              "nodes but without a double negation")
                elif kind == "crash":
                    # outside the documented precondition the compiled-out assertions of
                    # DeMorganSimplifier can fail: a null NodeId reaches CsgTree::insert and the
                    # release build crashes (the model stops with .error "assert" at that point)
                    self.fail("demorgan-crash-outside-precondition",
                              f"`{op}`: transform_negated_joins crashed (a compiled-out assertion "
                              "failed: null id inserted) on a tree with alias nodes / a negation "
                              "of an alias of a negation")
                elif kind == "bad-variant":
                    # fixed by repo commit 9889e64 (add_negation_for_operands de-aliases): must
                    # not come back
                    self.fail("demorgan-negated-alias-of-join",
                              f"`{op}`: transform_negated_joins threw std::bad_variant_access")
                else:
                    self.fail("demorgan-exception", f"`{op}` answered {head}")
            else:
                self.dm_depths.append(depth)
                # with a double negation through an alias the compiled-out assertions may fail
                # (the model then stops with "assert"; the real code has undefined behaviour and
                # may return a garbage tree): a wrong result there is the known crash class
                dn = double_neg_via_alias(pre_nodes)
                kvol = "demorgan-crash-outside-precondition" if dn else "demorgan-changes-function"
                if len(vols) != len(pre_vols):
                    self.fail("demorgan-crash-outside-precondition" if dn else "demorgan-volumes",
                              "transform_negated_joins changed the number of volumes")
                else:
                    for i, (a, b) in enumerate(zip(pre_vols, vols)):
                        self.cmp += 1
                        if (pre_tab[a] ^ tab[b]) & M:
                            self.fail(kvol, f"volume {i} (node {a} -> "
                                      f"{b}) changed its truth table under De Morgan rewriting "
                                      f"(input tree had alias chains of depth {depth}"
                                      + (", and a double negation through an alias: undefined "
                                         "behaviour after a failed compiled-out assertion)"
                                         if dn else ")"))
                            break
                for i, (k, a) in enumerate(nodes):
                    if k == "~" and nodes[a][0] in "&|":
                        self.fail("demorgan-negated-join", f"node {i} still negates join {a}")
                        break
                    if k == ">":
                        self.fail("demorgan-alias-copied", f"node {i} of the transformed tree is "
                                  f"an alias (->{a}): aliases must be resolved, not copied")
                        break
        elif name == "dump":
            if nodes != pre_nodes or vols != pre_vols:
                self.fail("dump", "dump differs from the last reported tree")
        self.nodes, self.vols, self.tab, self.M, self.vbase = nodes, vols, tab, M, vbase
        # property-level statement: every volume still denotes what it denoted when marked
        if len(vbase) == len(vols):
            for i, v in enumerate(vols):
                self.cmp += 1
                if (tab[v] ^ vbase[i]) & M:
                    self.fail("volume-changed", f"after `{op}` volume {i} (node {v}) differs "
                              "from its original truth table on an admissible assignment")
                    break

    def query(self, name, w, out, op):
        try:
            n = int(w[1]) if name not in ("logic", "infixlogic") else 0
        except (ValueError, IndexError):
            return
        if name not in ("logic", "infixlogic") and n >= len(self.nodes):
            return
        if name == "ttinfix":
            # infix encoding of the node (harness encoder, mirrors the model's infixOf) evaluated
            # by the REAL InfixEvaluator; `undefined` = node not expressible (negated join, ...)
            if out == "undefined":
                self.infix_undefined = getattr(self, "infix_undefined", 0) + 1
                return
            k = int(w[2])
            want, full = self.other_table(n, k)
            got = tt_int(out.split()[1]) if out.startswith("tt ") else None
            self.cmp += 1
            self.infix_defined = getattr(self, "infix_defined", 0) + 1
            if got != want:
                self.fail("infix-eval", f"`{op}`: infix encoding evaluated by InfixEvaluator "
                          "differs from the SenseEvaluator table of the same node")
        elif name == "infixof":
            return
        elif name == "infixlogic":
            m = re.match(r"val ([TF])$", out)
            if not m:
                self.fail("logic-format", f"`{op}` answered {out[:80]}")
                return
            toks = w[1:w.index(";")]
            bits = int(w[-1], 16)
            want = infix_ref(toks, lambda f: (bits >> f) & 1)
            self.cmp += 1
            if want is None or (m.group(1) == "T") != bool(want):
                self.fail("infix-logic-eval", f"`{op}`: InfixEvaluator = {m.group(1)}, reference "
                          f"evaluation = {want}")
        elif name in ("tt", "ttpost"):
            k = int(w[2])
            want, full = self.other_table(n, k)
            got = tt_int(out.split()[1]) if out.startswith("tt ") else None
            self.cmp += 1
            if name == "tt" and got != want:
                self.fail("senseeval", f"`{op}`: SenseEvaluator table differs from the table of "
                          "the printed tree")
            if name == "ttpost" and self.postfix_depth(n) <= 32 and got != want:
                self.fail("postfix-eval", f"`{op}`: PostfixLogicBuilder + LogicEvaluator table "
                          "differs from the SenseEvaluator table of the same node")
        elif name in ("eval", "evalpost"):
            bits = int(w[2], 16)
            var = [(bits >> s) & 1 for s in range(64)]
            want = eval_tables(self.nodes, var, 1)[n]
            self.cmp += 1
            if name == "evalpost" and self.postfix_depth(n) > 32:
                return
            if out not in ("T", "F") or (out == "T") != bool(want):
                self.fail("senseeval" if name == "eval" else "postfix-eval",
                          f"`{op}` answered {out}, the printed tree evaluates to {bool(want)}")
        elif name in ("postfix", "postfixm"):
            m = re.match(r"faces((?: \d+)*) logic((?: \S+)+) depth (-?\d+)$", out)
            if not m:
                self.fail("postfix-format", f"`{op}` answered {out[:80]}")
                return
            faces = [int(x) for x in m.group(1).split()]
            toks, depth = m.group(2).split(), int(m.group(3))
            self.max_depth = max(self.max_depth, depth)
            if faces != sorted(set(faces)):
                self.fail("postfix-faces", f"`{op}`: faces not sorted/unique")
            mapping = sorted(a for k, a in self.nodes if k == "S") if name == "postfixm" else None
            try:
                def val(f):
                    s = faces[f]
                    return self.var[mapping[s] if mapping is not None else s]
                got, peak, ok = ref_stack(toks, val, self.full)
            except (IndexError, ValueError):
                got, peak, ok = None, 0, False
            self.cmp += 1
            if not ok:
                self.fail("postfix-malformed", f"`{op}`: emitted logic is not a well-formed "
                          "postfix expression over its faces")
            elif got != self.tab[n]:
                self.fail("postfix-logic", f"`{op}`: the emitted postfix expression does not "
                          "denote the node's truth table")
            elif depth != peak:
                self.fail("calc-max-depth", f"`{op}`: calc_max_depth = {depth}, true peak "
                          f"operand-stack depth = {peak}")
        elif name == "infix":
            got = infix_table(out[4:], self.var, self.full) if out.startswith("str ") else None
            self.cmp += 1
            if got is None:
                self.fail("infix-format", f"`{op}` answered {out[:80]}")
            elif got != self.tab[n]:
                self.fail("infix-logic", f"`{op}`: infix string {out[4:][:80]} does not denote "
                          "the node's truth table")
        elif name == "flag":
            if out == "simple":
                sat = self.tab[n]
                cube = self.full
                for s in range(64):
                    v = self.var[s]
                    if not (sat & (self.full ^ v)):
                        cube &= v
                    elif not (sat & v):
                        cube &= self.full ^ v
                self.cmp += 1
                na = self.negated_alias(n)
                self.flag_na += na
                if sat and cube != sat:
                    self.fail("flag-negated-alias" if na else "flag-unsound",
                              f"`{op}` answered simple but node {n} is not an intersection of "
                              "half-spaces" + (" (a reachable negation points at an alias)"
                                               if na else ""))
        elif name == "logic":
            m = re.match(r"depth (-?\d+) val ([TF])$", out)
            if not m:
                self.fail("logic-format", f"`{op}` answered {out[:80]}")
                return
            toks = w[1:w.index(";")]
            bits = int(w[-1], 16)
            got, peak, ok = ref_stack(toks, lambda f: (bits >> f) & 1, 1)
            depth = int(m.group(1))
            if ok:
                self.max_depth = max(self.max_depth, depth)
                self.cmp += 1
                if depth != peak:
                    self.fail("calc-max-depth", f"`{op}`: calc_max_depth = {depth}, true peak "
                              f"depth = {peak}")
                elif depth <= 32 and (m.group(2) == "T") != bool(got):
                    self.fail("logic-eval", f"`{op}`: LogicEvaluator = {m.group(2)}, reference "
                              f"stack evaluation = {bool(got)}")


def run_oracle(ops, outs):
    v = View(universe(ops))
    for op, out in zip(ops, outs):
        v.step(op, out)
    return v


# --------------------------------------------------------------------------- live harness
class Live:
    """the harness as a line-by-line server (stdout line-buffered through stdbuf or a pty), so the
    generator can build valid scripts against the ids the real code hands out"""

    def __init__(self, exe):
        self.exe, self.p, self.buf, self.restarts = exe, None, b"", 0

    def start(self):
        env = dict(os.environ)
        env.setdefault("CELER_DISABLE_PARALLEL", "1")
        env.setdefault("CELER_LOG", "error")
        env.setdefault("OMP_NUM_THREADS", "1")
        self.buf = b""
        if shutil.which("stdbuf"):
            self.p = subprocess.Popen(["stdbuf", "-oL", self.exe], stdin=subprocess.PIPE,
                                      stdout=subprocess.PIPE, stderr=subprocess.DEVNULL,
                                      env=env, bufsize=0)
            self.rfd = self.p.stdout.fileno()
        else:
            import pty
            import tty
            m, s = pty.openpty()
            tty.setraw(s)
            self.p = subprocess.Popen([self.exe], stdin=subprocess.PIPE, stdout=s,
                                      stderr=subprocess.DEVNULL, env=env, bufsize=0)
            os.close(s)
            self.rfd = m

    def stop(self):
        if self.p is not None:
            try:
                self.p.kill()
                self.p.wait(timeout=5)
            except Exception:
                pass
            for f in (self.p.stdin, self.p.stdout):
                try:
                    if f:
                        f.close()
                except Exception:
                    pass
            self.p = None

    def ask(self, line, timeout=20.0):
        """answer line, or None when the process died / hung (it is restarted)"""
        if self.p is None:
            self.start()
        try:
            self.p.stdin.write((line + "\n").encode())
            t_end = time.time() + timeout
            while b"\n" not in self.buf:
                left = t_end - time.time()
                if left <= 0 or not select.select([self.rfd], [], [], left)[0]:
                    raise OSError("timeout")
                data = os.read(self.rfd, 1 << 16)
                if not data:
                    raise OSError("eof")
                self.buf += data
        except OSError:
            self.stop()
            self.restarts += 1
            return None
        out, self.buf = self.buf.split(b"\n", 1)
        return out.decode(errors="replace").rstrip("\r")


# --------------------------------------------------------------------------- generator
JOIN_ARITY = [0, 1, 1, 2, 2, 2, 2, 2, 2, 2, 3, 3, 3, 3, 3, 4, 4, 4, 5, 5, 6]


def infix_ref(toks, val):
    """reference value of an explicit-infix expression of grammar G (None if not in G):
    E ::= A | A (| A)+ | A (& A)+ ; A ::= face | ~ face | * | ( E )"""
    pos = [0]

    def atom():
        if pos[0] >= len(toks):
            return None
        t = toks[pos[0]]
        if t.isdigit():
            pos[0] += 1
            return bool(val(int(t)))
        if t == "*":
            pos[0] += 1
            return True
        if t == "~":
            if pos[0] + 1 >= len(toks) or not toks[pos[0] + 1].isdigit():
                return None
            pos[0] += 2
            return not val(int(toks[pos[0] - 1]))
        if t == "(":
            pos[0] += 1
            r = chain()
            if r is None or pos[0] >= len(toks) or toks[pos[0]] != ")":
                return None
            pos[0] += 1
            return r
        return None

    def chain():
        op, acc = None, None
        while True:
            a = atom()
            if a is None:
                return None
            acc = a if acc is None else ((acc and a) if op == "&" else (acc or a))
            if pos[0] < len(toks) and toks[pos[0]] in ("&", "|") and op in (None, toks[pos[0]]):
                op = toks[pos[0]]
                pos[0] += 1
                continue
            return acc
    r = chain()
    return r if (r is not None and pos[0] == len(toks)) else None


def gen_infixlogic(rng):
    """`infixlogic` op: random expressions of the explicit infix grammar (nesting up to 7, arity
    up to 5), or arbitrary token lists (mostly rejected as bad-op on both sides)"""
    def atom(d):
        r = rng.below(10)
        if d <= 0 or r < 4:
            if rng.chance(1, 10):
                return ["*"]
            f = str(rng.below(64) if rng.chance(1, 5) else rng.below(6))
            return ["~", f] if rng.chance(1, 3) else [f]
        return ["("] + chain(d - 1) + [")"]

    def chain(d):
        op = rng.choice(["&", "|"])
        t = atom(d)
        for _ in range(rng.choice([0, 1, 1, 1, 2, 2, 3, 4])):
            t += [op] + atom(d)
        return t
    if rng.chance(4, 5):
        toks = chain(rng.range(0, 7))
        if len(toks) > 120:
            toks = chain(2)
    else:
        toks = [rng.choice(["0", "1", "2", "63", "*", "|", "&", "~", "(", ")", "(", ")"])
                for _ in range(rng.range(1, 14))]
    return "infixlogic " + " ".join(toks) + " ; %x" % rng.next()


def gen_logic(rng):
    """`logic` op: well-formed expressions up to depth 40, or arbitrary token lists"""
    def lit():
        t = ["*"] if rng.chance(1, 8) else [str(rng.below(64) if rng.chance(1, 4) else rng.below(6))]
        while rng.chance(1, 4):
            t.append("~")
        return t

    def expr(d, budget):
        if d <= 1 or budget[0] <= 0:
            return lit()
        budget[0] -= 1
        left = expr(rng.range(1, min(d, 3)) if rng.chance(3, 4) else d, budget)
        right = expr(d - 1, budget)
        t = left + right + [rng.choice(["&", "|"])]
        if rng.chance(1, 6):
            t.append("~")
        return t
    if rng.chance(3, 5):
        d = rng.choice([1, 2, 3, 4, 6, 8, 12, 16, 24, 30, 31, 32, 33, 34, 36, 40])
        toks = expr(d, [60])
    else:
        toks = [rng.choice(["0", "1", "2", "5", "63", "*", "|", "&", "~", "&", "|"])
                for _ in range(rng.range(1, 24))]
    return "logic " + " ".join(toks) + " ; %x" % rng.next()


class ScriptGen:
    def __init__(self, rng, live, deep):
        self.rng, self.live, self.deep = rng, live, deep
        self.ops, self.outs, self.dead = [], [], None
        self.build_size = self.build_depth = self.build_nonconst = 0
        self.chain_family = rng.chance(1, 5)
        r = rng.below(20)
        self.wide = r == 0 or r == 1
        if self.wide:
            ids = list(range(64))
            rng.shuffle(ids)
            self.surf = sorted(ids[:rng.range(2, 12)])
            if self.surf[-1] < MAXK:
                self.surf[-1] = rng.range(MAXK, 63)
            self.seed = rng.next()
            self.k = MAXK
            self.v = View(("wide", self.seed))
        else:
            self.k = (rng.range(2, 6) if r < 11 else rng.range(7, 8) if r < 16 else
                      rng.range(9, 10) if r < 19 else rng.range(11, 12))
            if self.chain_family and self.k < 5:
                self.k = rng.range(5, 7)
            self.surf = list(range(self.k))
            self.v = View(("ex", self.k))
        self.use_alias = rng.chance(1, 5)
        self.raw_exchange = rng.chance(3, 20)

    # ---- plumbing
    def emit(self, op):
        if self.dead is not None or self.v.stop:
            return None
        out = self.live.ask(op)
        self.ops.append(op)
        if out is None:
            self.dead = op
            self.outs.append("<crash>")
            return None
        self.outs.append(out)
        self.v.step(op, out)
        return out

    def emit_id(self, op):
        out = self.emit(op)
        return int(out.split()[1]) if out and out.startswith("id ") else None

    def size(self):
        return len(self.v.nodes)

    def pick(self, bound=None):
        """operand: recent nodes (depth), any node (sharing), rarely a constant; mostly nodes
        whose truth table is not constant so that the functions stay interesting"""
        n = self.size() if bound is None else bound
        if n <= 2 or self.rng.chance(1, 80):
            return self.rng.below(2)
        v = self.v
        x = 0
        for _ in range(4):
            if self.rng.chance(1, 2):
                x = n - 1 - self.rng.below(min(4, n - 2))
            else:
                x = self.rng.range(2, n - 1)
            if (v.tab[x] & v.M) not in (0, v.M) or self.rng.chance(1, 8):
                break
        return x

    def complement(self, x):
        k, a = self.v.nodes[x]
        if k == "~":
            return a
        for i, nd in enumerate(self.v.nodes):
            if nd == ("~", x):
                return i
        out = self.emit("insert negated %d" % x)
        return int(out.split()[1]) if out and out.startswith("id ") else x

    def join_spec(self, bound=None):
        rng, v = self.rng, self.v
        xs = []
        for _ in range(rng.choice(JOIN_ARITY)):
            q = rng.below(100)
            if xs and q < 8:
                xs.append(rng.choice(xs))
            elif xs and q < 13 and bound is None:
                xs.append(self.complement(rng.choice(xs)))
            else:
                xs.append(self.pick(bound))
        op = rng.choice(["and", "or"])
        if xs and rng.chance(4, 5):         # prefer the operator that keeps the function non-constant
            a, o = v.full, 0
            for x in xs:
                a &= v.tab[x]
                o |= v.tab[x]
            if (a & v.M) == 0 and (o & v.M) != v.M:
                op = "or"
            elif (o & v.M) == v.M and (a & v.M) != 0:
                op = "and"
        return "join %s%s" % (op, "".join(" %d" % x for x in xs))

    def insert_random(self):
        rng, r = self.rng, self.rng.below(100)
        if r < 12 or self.size() <= 3:
            self.emit("insert surface %d" % rng.choice(self.surf))
        elif r < 28:
            self.emit("insert negated %d" % self.pick())
        elif r < 86:
            self.emit("insert " + self.join_spec())
        elif r < 91:
            nd = self.v.nodes[rng.below(self.size())]
            if nd[0] in "&|":
                xs = list(nd[1]) + [rng.choice(nd[1]) for _ in range(rng.below(3))]
                rng.shuffle(xs)
                nd = (nd[0], xs)
            self.emit("insert " + spec_of(nd))
        elif r < 94:
            self.emit("insert " + rng.choice(["true", "false"]))
        elif self.use_alias:
            self.emit("insert aliased %d" % self.pick())
        else:
            xs = [self.pick() for _ in range(rng.range(1, 3))] + [rng.below(2)]
            rng.shuffle(xs)
            self.emit("insert join %s %s" % (rng.choice(["and", "or"]), " ".join(map(str, xs))))

    def target(self):
        v = self.v
        if v.vols and self.rng.chance(1, 2):
            return self.rng.choice(v.vols)
        return self.pick() if self.rng.chance(9, 10) else self.rng.below(self.size())

    def query(self, n=None):
        rng = self.rng
        n = self.target() if n is None else n
        kind = rng.choice(["postfix", "postfixm", "flag", "flag", "infix", "eval", "evalpost",
                           "tt", "tt", "ttpost", "ttpost", "ttinfix", "ttinfix", "infixof"])
        if kind in ("tt", "ttpost", "ttinfix"):
            k = self.k if not self.wide else rng.range(0, 8)
            if rng.chance(1, 10):
                k = rng.below(k + 1)
            self.emit("%s %d %d" % (kind, n, k))
        elif kind in ("eval", "evalpost"):
            bits = rng.next() if (self.wide or rng.chance(1, 8)) else rng.below(1 << self.k)
            self.emit("%s %d %x" % (kind, n, bits))
        else:
            self.emit("%s %d" % (kind, n))

    def replace(self):
        rng, v = self.rng, self.v
        r = rng.below(100)
        joins = [i for i, nd in enumerate(v.nodes) if nd[0] in "&|"]
        surfs = [i for i, nd in enumerate(v.nodes) if nd[0] == "S"]
        if r < 15 and v.vols:
            key = rng.choice(v.vols)
        elif r < 40 and joins:
            key = rng.choice(joins)
        elif r < 88 and surfs:
            key = rng.choice(surfs)
        else:
            key = self.target()
        sat = [val for val, m in (("T", v.tab[key]), ("F", v.full ^ v.tab[key])) if m & v.M]
        val = rng.choice(sat) if sat and rng.chance(11, 12) else rng.choice(["T", "F"])
        self.emit("replace %d %s" % (key, val))

    def exchange(self, raw):
        rng, v = self.rng, self.v
        if self.size() <= 3:
            return
        n = rng.range(2, self.size() - 1)
        if raw:
            r = rng.below(10)
            spec = ("surface %d" % rng.choice(self.surf) if r < 2 else
                    "negated %d" % self.pick(n) if r < 4 else
                    rng.choice(["true", "false"]) if r < 5 else
                    "aliased %d" % self.pick(n) if r < 6 else self.join_spec(n))
            self.emit("exchange %d %s" % (n, spec))
            return
        nd, t, M, full = v.nodes[n], v.tab[n], v.M, v.full
        cands = []
        if all(c < n for c in children(nd)):
            cands.append(spec_of(nd))
            if nd[0] in "&|":
                xs = list(nd[1]) + [rng.choice(nd[1]) for _ in range(rng.below(3))]
                if rng.chance(1, 3):
                    xs.append(0 if nd[0] == "&" else 1)
                rng.shuffle(xs)
                cands.append(spec_of((nd[0], xs)))
        eq = [m for m in range(n) if not ((v.tab[m] ^ t) & M)]
        ne = [m for m in range(n) if not ((v.tab[m] ^ t ^ full) & M)]
        if eq:
            cands.append("aliased %d" % rng.choice(eq))
            cands.append("join %s %d %d" % (rng.choice(["and", "or"]), rng.choice(eq),
                                            rng.choice(eq)))
        if ne:
            cands.append("negated %d" % rng.choice(ne))
        if not (t & M):
            cands.append("false")
        if not ((t ^ full) & M):
            cands.append("true")
        if cands:
            self.emit("exchange %d %s" % (n, rng.choice(cands)))

    def ladder(self):
        """nested joins over shared operands: J2 = op(x1,x2), J3 = op(x1,x2,x3), ...; declaring
        the last operands constant and simplifying the UPPER joins first dedups each join onto
        the next lower one: alias chains of depth >= 2 (and, in the other order, none)"""
        rng, v = self.rng, self.v
        have = {nd[1] for nd in v.nodes if nd[0] == "S"}
        for sfc in self.surf:
            if len(have) >= 6:
                break
            if sfc not in have:
                self.emit("insert surface %d" % sfc)
                have.add(sfc)
        leaves = [i for i, nd in enumerate(v.nodes) if i >= 2 and nd[0] in "S~"
                  and v.tab[i] not in (0, v.full)]
        rng.shuffle(leaves)
        xs = []
        for x in leaves:
            if all((v.tab[x] ^ v.tab[y]) & v.M and (v.tab[x] ^ v.tab[y] ^ v.full) & v.M
                   for y in xs):
                xs.append(x)
            if len(xs) >= rng.range(4, 6):
                break
        if len(xs) < 4:
            return None
        op = "and" if rng.chance(2, 3) else "or"
        rungs = []
        nested = rng.chance(2, 3)
        for k in range(2, len(xs) + 1):
            if nested and rungs:
                # R_k = op(R_{k-1}, x_k): simplifying R_k first makes it an alias of R_{k-1},
                # which then becomes an alias of R_{k-2}: a chain; the other order gives none
                j = self.emit_id("insert join %s %d %d" % (op, rungs[-1], xs[k - 1]))
            else:
                j = self.emit_id("insert join %s %s" % (op, " ".join(map(str, xs[:k]))))
            if j is None:
                return None
            rungs.append(j)
        top = rungs[-1]
        users = [top]
        if rng.chance(1, 4):
            n = self.emit_id("insert negated %d" % top)
            if n is not None:
                users.append(n)
        if rng.chance(1, 2):
            y = self.pick()
            j = self.emit_id("insert join %s %d %d" % (rng.choice(["and", "or"]), top, y))
            if j is not None:
                users.append(j)
                if rng.chance(1, 4):
                    n = self.emit_id("insert negated %d" % j)
                    if n is not None:
                        users.append(n)
        for u in users:
            if rng.chance(2, 3):
                self.emit("volume %d" % u)
        return op, xs, rungs, users

    def chain_scenario(self):
        """partially simplified trees: constants declared by CsgTree::exchange (or
        replace_and_simplify) and single-node simplification in both orders, queried by every
        builder/evaluator BEFORE re-simplification, then handed to transform_negated_joins"""
        rng, v = self.rng, self.v
        lad = self.ladder() if rng.chance(3, 4) else None
        consts = []
        strict = 3
        if lad:
            op, xs, rungs, users = lad
            neutral = "true" if op == "and" else "false"
            strict = rng.below(4)          # 0,1: every rung, descending; 2: ascending; 3: loose
            for x in reversed(xs[2:]):
                if strict < 3 or rng.chance(5, 6):
                    self.emit("exchange %d %s" % (x, neutral if strict < 3 or rng.chance(7, 8)
                                                  else rng.choice(["true", "false"])))
                    consts.append(x)
            todo = list(rungs) + [u for u in users if u not in rungs]
        else:
            cand = [i for i, nd in enumerate(v.nodes) if i >= 2 and nd[0] in "S&|"]
            rng.shuffle(cand)
            for x in cand[:rng.range(1, 3)]:
                val = "true" if (v.tab[x] & v.M) and rng.chance(2, 3) else "false"
                self.emit("exchange %d %s" % (x, val))
                consts.append(x)
            lo = min(consts) if consts else 2
            todo = [i for i in range(lo + 1, self.size()) if v.nodes[i][0] in "&|~>"]
        # (C) constants left without re-simplification: every builder / evaluator sees them
        for _ in range(rng.range(2, 5)):
            n = rng.choice(todo) if todo and rng.chance(3, 4) else self.target()
            k = self.k if not self.wide else rng.range(0, 8)
            self.emit(rng.choice(["infix %d" % n, "infixof %d" % n, "ttinfix %d %d" % (n, k),
                                  "tt %d %d" % (n, k), "ttpost %d %d" % (n, k), "flag %d" % n,
                                  "postfix %d" % n]))
        mode = rng.below(8)
        if lad and strict < 3:
            # both orders of simplification: upper joins first leaves alias chains R_k -> R_{k-1}
            # -> ... (depth >= 2), lower joins first leaves none
            for n in sorted(rungs, reverse=(strict < 2)):
                self.emit("simplify %d" % n)
            for u in users:
                if u not in rungs and rng.chance(1, 2):
                    self.emit("simplify %d" % u)
        elif mode == 0:
            pass                                  # leave everything unsimplified
        elif mode == 1:
            key = consts[0] if consts else self.target()
            self.emit("replace %d %s" % (key, rng.choice(["T", "F"])))
        else:
            order = sorted(set(todo), reverse=(mode >= 4))       # upper first: chains
            if mode == 7:
                rng.shuffle(order)
            keep = [n for n in order if rng.chance(5, 6)]
            for n in keep:
                self.emit("simplify %d" % n)
            if rng.chance(1, 3):
                for n in keep[: rng.range(1, 3)]:
                    self.emit("simplify %d" % n)
        for _ in range(rng.range(1, 4)):
            n = self.target()
            k = self.k if not self.wide else rng.range(0, 8)
            self.emit(rng.choice(["infix %d" % n, "ttinfix %d %d" % (n, k), "tt %d %d" % (n, k),
                                  "flag %d" % n, "ttpost %d %d" % (n, k)]))
        self.emit("demorganx")
        for vol in self.v.vols[:4]:
            k = self.k if not self.wide else rng.range(0, 8)
            self.emit("%s %d %d" % (rng.choice(["tt", "ttpost", "ttinfix"]), vol, k))

    def rewrite_step(self):
        rng, v = self.rng, self.v
        if self.size() <= 3:
            self.insert_random()
            return
        r = rng.below(100)
        hi = self.size() - 1
        if r < 40:
            self.query()
        elif r < 50:
            self.emit("simplify %d" % rng.range(2, hi))
        elif r < 55:
            self.emit("simplifyup %d" % (2 if rng.chance(1, 2) else rng.range(2, hi)))
        elif r < 63:
            self.emit("simplifyall %d" % (2 if rng.chance(2, 3) else rng.range(2, hi)))
        elif r < 70:
            self.replace()
        elif r < 77:
            self.emit("demorganx" if (v.has_alias() and rng.chance(2, 3)) or rng.chance(1, 8)
                      else "demorgan")
        elif r < 86:
            self.insert_random()
        elif r < 88:
            self.emit("volume %d" % self.target())
        elif r < 91:
            self.emit(gen_logic(rng) if rng.chance(1, 2) else gen_infixlogic(rng))
        elif r < 96:
            self.exchange(False)
        elif self.raw_exchange:
            self.exchange(True)
        else:
            self.emit("dump")
            return
        if r >= 40 and v.vols and rng.chance(1, 2):      # look at the volumes after a rewrite
            for vol in v.vols[:4]:
                self.emit("%s %d %d" % (rng.choice(["tt", "ttpost", "ttinfix"]), vol,
                                        self.k if not self.wide else rng.range(0, 8)))
            if rng.chance(1, 2):
                self.emit("flag %d" % rng.choice(v.vols))

    def run(self):
        rng = self.rng
        self.emit("reset")
        if self.wide:
            self.emit("eval 0 %x" % self.seed)
        first = list(self.surf)
        rng.shuffle(first)
        for s in first[:rng.range(2, min(len(first), 5))]:
            self.emit("insert surface %d" % s)
        if rng.chance(1, 2):
            # CSG-like start: a few "shapes" (joins of literals over distinct surfaces), which the
            # random inserts below then combine, negate and share
            shapes = []
            for _ in range(rng.range(2, 5)):
                ss = list(self.surf)
                rng.shuffle(ss)
                lits = []
                for s in ss[:rng.range(2, min(6, len(ss)))]:
                    x = self.emit_id("insert surface %d" % s)
                    if x is not None and rng.chance(1, 2):
                        x = self.emit_id("insert negated %d" % x)
                    if x is not None:
                        lits.append(x)
                x = self.emit_id("insert join %s %s" % ("and" if rng.chance(4, 5) else "or",
                                                        " ".join(map(str, lits))))
                if x is not None:
                    shapes.append(x)
            for _ in range(rng.range(1, 4)):
                if len(shapes) >= 2:
                    a, b = rng.choice(shapes), rng.choice(shapes)
                    if rng.chance(1, 2):
                        b = self.complement(b)
                    x = self.emit_id("insert join %s %d %d" % (rng.choice(["and", "or"]), a, b))
                    if x is not None:
                        shapes.append(x)
        for _ in range(rng.range(6, 45 if self.deep else 28)):
            self.insert_random()
        for _ in range(rng.range(1, 4)):
            n = self.size() - 1 - rng.below(min(5, self.size() - 2)) if rng.chance(2, 3) \
                else self.target()
            if self.v.tab[n] in (0, self.v.full) and rng.chance(4, 5):
                rich = [i for i in range(2, self.size()) if self.v.tab[i] not in (0, self.v.full)]
                if rich:
                    n = rich[-1 - rng.below(min(6, len(rich)))]
            self.emit("volume %d" % n)
        memo = {}
        self.build_size = self.size()
        self.build_depth = max([self.v.nest_depth(n, memo) for n in self.v.vols] or [0])
        self.build_nonconst = sum(1 for n in self.v.vols if self.v.tab[n] not in (0, self.v.full))
        if self.chain_family:
            # scenario family kept in every run (1 script in 5): alias chains for De Morgan and
            # constants left by exchange without re-simplification
            self.chain_scenario()
            for _ in range(rng.range(2, 12)):
                self.rewrite_step()
            if rng.chance(1, 2) and self.size() > 3:
                self.chain_scenario()
            return self
        if not self.v.has_alias() and rng.chance(2, 5):
            self.emit("demorgan")
        for _ in range(rng.range(8, 50 if self.deep else 32)):
            self.rewrite_step()
        return self


MALFORMED = [
    "", "frobnicate", "RESET", "reset now", "dump it", "insert", "insert surface",
    "insert surface 64", "insert surface 999999999999", "insert surface 0x1", "insert surface -1",
    "insert surface 1 2", "insert negated 99", "insert negated", "insert aliased 1000",
    "insert join xor 2 3", "insert join and 2 x", "insert join and 2 99", "insert joined and 2 3",
    "exchange 0 true", "exchange 1 true", "exchange 2", "exchange 99 true", "exchange 3 negated 3",
    "exchange 4 join and 2 4", "exchange x true", "volume", "volume 99", "volume 1 2", "simplify",
    "simplify 99", "simplify 0000000002", "simplify 2 2", "simplifyall 0", "simplifyall 1",
    "simplifyall 99", "simplifyup 99", "simplifyup", "replace 2", "replace 2 X", "replace 99 T",
    "replace 2 T F", "replace 2 true", "demorgan 1", "postfix", "postfix 99", "postfixm 99",
    "flag 99", "flag", "infix x", "infix 99", "eval 2", "eval 2 xyz", "eval 2 12345678901234567",
    "eval 99 0", "evalpost 2", "evalpost 99 0", "tt 2 13", "tt 2", "ttpost 2 13", "tt 99 2",
    "tt 2 1 1", "logic ; 0", "logic 64 ; 0", "logic 1 2 &", "logic 1 2 & ;", "logic 1 ( 2 ) ; 0",
    "infixlogic ( 0 ; 1", "infixlogic 0 & 1 | 2 ; 0", "infixlogic ~ * ; 0", "infixlogic ; 0",
    "infixlogic 0 ) ; 0", "infixlogic ( ) ; 0", "infixlogic 64 ; 0", "ttinfix 2 13", "infixof 99",
    "logic 1 ; zz", "logic 1 ; 0 0", "logic 1 ; 12345678901234567", "logic",
]


def malformed_script(rng):
    body = list(MALFORMED)
    for _ in range(12):
        body.append(rng.choice(["simplify", "volume", "flag", "postfix", "insert negated",
                                "tt", "replace"]) + " " + rng.choice(
            ["5", "1000000000", "99999999999", "-2", "2.0", "4294967298", "0x2", "७"]))
    rng.shuffle(body)
    return (["reset", "insert surface 0", "insert surface 1", "insert join and 2 3"] + body
            + ["dump"])


# --------------------------------------------------------------------------- batch running
def run_batch(cmd, scripts, timeout, stats):
    """outputs per script; a process that dies or hangs is bisected down to the script"""
    res = [None] * len(scripts)

    def go(lo, hi):
        flat = [l for s in scripts[lo:hi] for l in s]
        out = None
        for attempt in range(12):
            try:
                _, out = vlib.run_lines(cmd, flat, timeout=timeout if hi - lo > 1 else 30)
            except subprocess.TimeoutExpired:
                stats["timeouts"] = stats.get("timeouts", 0) + 1
                break
            if out and any("error while loading shared libraries" in l for l in out[:2]):
                # another check is relinking /repo's libraries in the shared build tree: wait
                # for its build lock, then run again (not a property of the code under test)
                stats["loader_retries"] = stats.get("loader_retries", 0) + 1
                out = None
                with vlib.Lock("celer"):
                    pass
                time.sleep(3)
                continue
            break
        if out is not None and len(out) == len(flat):
            k = 0
            for i in range(lo, hi):
                res[i] = out[k:k + len(scripts[i])]
                k += len(scripts[i])
            return
        if hi - lo == 1:
            out = out or []
            stats.setdefault("dead", []).append(lo)
            res[lo] = out[:len(scripts[lo])] + ["<no-output>"] * (len(scripts[lo]) - len(out))
            return
        mid = (lo + hi) // 2
        go(lo, mid)
        go(mid, hi)
    if scripts:
        go(0, len(scripts))
    return res


def tag(line):
    w = line.split()
    if not w:
        return "empty"
    if w[0] in ("insert", "exchange") and len(w) > (2 if w[0] == "exchange" else 1):
        return w[0] + "-" + w[2 if w[0] == "exchange" else 1]
    return w[0]


def minimise(exe, ops, key):
    """greedy delta debugging on the real code: drop ops while the oracle still reports `key`"""
    def fails(cand):
        try:
            _, out = vlib.run_lines([exe], cand, timeout=30)
        except subprocess.TimeoutExpired:
            return None
        if len(out) != len(cand):
            return None
        v = run_oracle(cand, out)
        for f in v.fails:
            if f["key"] == key:
                return f
        return None
    f = fails(ops)
    if f is None:
        return ops, None
    ops = ops[:f["at"] + 1]
    budget = 400
    i = len(ops) - 2
    while i >= 1 and budget > 0:
        cand = ops[:i] + ops[i + 1:]
        budget -= 1
        g = fails(cand)
        if g is not None:
            ops, f = cand[:g["at"] + 1], g
        i = min(i, len(ops) - 1) - 1
    return ops, f


CONTRADICTS = {
    "demorgan-alias-copied": "deMorgan_preserves_alias",
    "demorgan-crash-outside-precondition": "deMorgan_defined (hypothesis DMPre)",
    "demorgan-negated-alias-of-join": "deMorgan_defined (hypothesis: no alias nodes)",
    "simplify-changes-function": "simplify_preserves / simplifyAll_preserves",
    "exchange-changes-function": "exchange_preserves", "insert-denotation": "insert_preserves",
    "insert-modifies": "insert_preserves", "replace-changes-function": "replaceAndSimplify_sound",
    "replace-spurious-contradiction": "replaceAndSimplify_sound (contradiction => unsatisfiable)",
    "demorgan-changes-function": "deMorgan_preserves", "demorgan-negated-join": "deMorgan_preserves",
    "demorgan-exception": "deMorgan_preserves", "demorgan-volumes": "deMorgan_preserves",
    "volume-changed": "property statement (volumes keep their boolean function)",
    "postfix-eval": "postfix_correct + bitstack_refines", "postfix-logic": "postfix_correct",
    "postfix-malformed": "postfix_correct", "postfix-faces": "postfix_correct",
    "calc-max-depth": "calcMaxDepth_eq_peak", "logic-eval": "bitstack_refines",
    "infix-logic": "infix_correct", "infix-eval": "infixOf_correct / infixEvaluator_correct",
    "infix-logic-eval": "infixEvaluator_correct", "flag-unsound": "flagSimple_sound",
    "flag-negated-alias": "flagSimple_sound (hypothesis noNegatedAlias)",
    "cycle": "TreeInv (children < id)", "structure": "TreeInv",
}


def report_fail(ctx, exe, ops, f, reported):
    if f["key"] in reported or len(reported) >= 6:
        return
    reported.add(f["key"])
    mops, mf = minimise(exe, ops[:f["at"] + 1], f["key"])
    mf = mf or f
    try:
        _, out = vlib.run_lines([exe], mops, timeout=30)
    except subprocess.TimeoutExpired:
        out = ["<timeout>"]
    ctx.violation(f["key"], "real CSG code: " + mf["what"],
                  {"kind": "oracle", "harness": "harness/csg.cc", "key": f["key"], "ops": mops,
                   "impl_last": out[-1:] and out[-1][:400], "what": mf["what"],
                   "contradicts": CONTRADICTS.get(f["key"], "C10")}, found_input=True)


def histo(xs):
    h = {}
    for x in xs:
        h[str(x)] = h.get(str(x), 0) + 1
    return dict(sorted(h.items(), key=lambda kv: int(kv[0])))


# --------------------------------------------------------------------------- the check

# ----------------------------------------------------------------------------- confirmed findings
def _finding_reproduces(key, out):
    """does the real code still show the recorded behaviour on this findings script?"""
    if not out:
        return False, "no output"
    if key == "flag-negated-alias":
        ok = len(out) >= 2 and out[-1] == "simple" and out[-2] == "tt 7"
        return ok, f"tt={out[-2] if len(out) > 1 else None} flag={out[-1]}"
    if key == "exchange-cycle":
        m = [a for a, b in re.findall(r" (\d+):>(\d+)", out[-1]) if a == b]
        return bool(m), "self-aliased nodes " + ",".join(m) if m else out[-1][:120]
    if key == "demorgan-negated-alias-of-join":
        ok = out[-1].startswith("error bad-variant")
        return ok, out[-1][:60]
    if key == "demorgan-crash-outside-precondition":
        ok = out[-1].startswith("error crash")
        return ok, out[-1][:60]
    if key in ("simplify-start-order", "replace-order"):
        body = out[-1].split("#")[1].split(" vols")[0] if "#" in out[-1] else ""
        bad = []
        for i, txt in re.findall(r" (\d+):(\S+)", body):
            if txt[0] in ">~&|":
                bad += [i for c in re.findall(r"\d+", txt) if int(c) >= int(i)]
        return bool(bad), ("nodes mentioning a higher id: " + ",".join(bad)) if bad else body[:120]
    return False, "unknown finding key"


NOTE_KEYS = {"simplify-start-order", "replace-order"}
# fixed defects: key -> predicate on the harness answers telling that the old behaviour is back
REGRESSION_KEYS = {
    "demorgan-negated-alias-of-join": lambda out: any(o.startswith("error") for o in out),
}

FINDING_TEXT = {
    "flag-negated-alias": "InternalSurfaceFlagger answers `simple` for Negated(Aliased(Joined and)) "
                          "(not an intersection of half-spaces); contradicts the property unless "
                          "no negation points at an alias (theorem flagSimple_sound hypothesis "
                          "NoNegAlias; witness flag_unsound_with_negated_alias)",
    "simplify-start-order": "simplify(tree, start) with unsimplified nodes below `start` leaves a "
                            "node aliased to a higher node (documented topological order broken, "
                            "values preserved; witness simplifyAll_can_break_order)",
    "replace-order": "two replace_and_simplify calls on an insert-built tree leave a node aliased to "
                     "a higher node (documented topological order broken by production-API calls "
                     "only; values preserved: reachable_preserves; witness "
                     "replace_twice_breaks_order)",
    "demorgan-negated-alias-of-join": "transform_negated_joins throws std::bad_variant_access when "
                                      "a Negated node (or an operand of a negated join) is an "
                                      "ALIAS of a Joined node: add_negation_for_operands calls "
                                      "std::get<Joined>(tree_[node_id]) on the un-dealiased id",
    "demorgan-crash-outside-precondition": "transform_negated_joins crashes (release build: a "
                                           "compiled-out CELER_ASSERT fails and a null NodeId is "
                                           "inserted) on a tree with a negation of an alias of a "
                                           "negation/constant, i.e. outside its documented "
                                           "precondition",
    "exchange-cycle": "CsgTree::exchange with a logically equivalent node makes a node an alias of "
                      "itself through the swap-with-higher-duplicate branch and a stale dedup key "
                      "(theorem exchange_preserves hypothesis SwapSafe; witness "
                      "exchange_equivalent_can_create_cycle)",
}


def run_findings(ctx, exe):
    """corpus/C10/findings/*.ops: behaviours of the UNCHANGED code that contradict the property
    outside the hypotheses of the theorems.  Each is replayed on the real code (and the model);
    a reproduced finding is reported through ctx.violation (KNOWN-FINDING when its key is listed
    in known_findings.txt, VIOLATION otherwise).  Scripts whose key is in REGRESSION_KEYS pin a
    defect that was fixed in /repo: they must run cleanly."""
    d = os.path.join(vlib.CORPUS, "C10", "findings")
    res = []
    if not os.path.isdir(d):
        return res
    for fn in sorted(os.listdir(d)):
        if not fn.endswith(".ops"):
            continue
        lines = open(os.path.join(d, fn)).read().split("\n")
        key = next((l.split(":", 1)[1].strip() for l in lines if l.startswith("# key:")), None)
        ops = [l.strip() for l in lines if l.strip() and not l.startswith("#")]
        try:
            _, out = vlib.run_lines([exe], ops, timeout=60)
        except Exception as e:          # timeout / crash
            out = ["<harness failed: %r>" % (e,)]
        try:
            _, om = vlib.run_lines([vlib.model_exe("C10")], ops, timeout=60)
        except Exception:
            om = None
        if key in REGRESSION_KEYS:
            # fixed in /repo: the script must now run cleanly (every op answered, nothing the
            # oracle objects to); the old behaviour coming back is a violation with this input
            bad = None
            if len(out) != len(ops):
                bad = "harness did not answer every op"
            elif REGRESSION_KEYS[key](out):
                bad = "old behaviour is back: " + next(o for o in out if o.startswith("error"))[:60]
            else:
                v = run_oracle(ops, out)
                if v.fails:
                    bad = v.fails[0]["what"]
            res.append({"file": fn, "key": key, "regression": True, "passes": bad is None,
                        "model_agrees": om == out})
            if bad is not None:
                ctx.violation(key, f"regression script corpus/C10/findings/{fn}: {bad}",
                              {"ops": ops, "impl": out[-2:], "file": fn,
                               "contradicts": "deMorgan_handles_negated_alias_of_join"},
                              found_input=True)
            continue
        rep, detail = _finding_reproduces(key, out)
        listed = any(k["key"] == key for k in ctx.known)
        res.append({"file": fn, "key": key, "reproduced": rep, "detail": detail,
                    "model_agrees": om == out, "listed_in_known_findings": listed})
        if rep and key in NOTE_KEYS:
            # ordering-only observations: truth values are preserved, not a C10 violation
            ctx.notes.append(f"{key}: {FINDING_TEXT.get(key, key)} [replayed, reproduces]")
        elif rep:
            # a genuine defect: KNOWN-FINDING when listed in known_findings.txt, else VIOLATION
            # (vlib.Ctx.violation / finish do the split)
            ctx.violation(key, FINDING_TEXT.get(key, key),
                          {"ops": ops, "impl": out[-2:], "file": fn}, found_input=True)
    return res



# ----------------------------------------------------------------------------- runtime flags
RT_BUILDS = ["convex-daughter", "nonconvex-daughter", "universes", "nested-nonconvex", "bgspheres"]
FLAG_INTERNAL, FLAG_IMPLICIT, FLAG_SIMPLE, FLAG_EMBEDDED = 1, 2, 4, 8


def rt_parse(line):
    """`ok units n | U u label unit | V ... ; V ... | U ...` -> list of (u, label, kind, [vol dict])"""
    units = []
    parts = [p.strip() for p in line.split(" | ")]
    cur = None
    for p in parts[1:]:
        if p.startswith("U "):
            w = p.split()
            cur = (int(w[1]), w[2], w[3], [])
            units.append(cur)
        elif p.startswith("V ") and cur is not None:
            for vs in p.split(" ; "):
                w = vs.split()
                d = {"v": int(w[1])}
                for kv in w[2:]:
                    k, _, val = kv.partition("=")
                    d[k] = val
                cur[3].append(d)
    return units


def logic_is_conj(tokens, nf):
    """True/False: the postfix logic over faces 0..nf-1 is a constant or a conjunction of
    literals (its satisfying set is empty or a sub-cube); None when it cannot be decided
    (malformed, or too many faces for the exhaustive table and not syntactically a conjunction)"""
    if nf <= 16:
        n, full, var = var_masks(max(nf, 1))
        st = []
        for t in tokens:
            if t.isdigit():
                if int(t) >= max(nf, 1):
                    return None
                st.append(var[int(t)])
            elif t == "*":
                st.append(full)
            elif t == "~":
                if not st:
                    return None
                st.append(full ^ st.pop())
            elif t in "&|":
                if len(st) < 2:
                    return None
                b, a = st.pop(), st.pop()
                st.append(a & b if t == "&" else a | b)
            else:
                return None
        if len(st) != 1:
            return None
        sat = st[0]
        cube = full
        for f in range(max(nf, 1)):
            if not (sat & (full ^ var[f])):
                cube &= var[f]
            elif not (sat & var[f]):
                cube &= full ^ var[f]
        return sat == 0 or cube == sat
    # syntactic: literals joined by & only
    if "|" in tokens:
        return None
    for i, t in enumerate(tokens):
        if t == "~" and not (i > 0 and (tokens[i - 1].isdigit() or tokens[i - 1] == "*")):
            return None
    return True


def run_runtime(ctx, broken):
    """(1) load every bundled .org.json and the API-built geometries into a real OrangeParams,
    (2) oracle: `internal_surfaces` unset => stored logic is a conjunction of literals,
    (3) exact diff of the stored flags with the Lean model of UnitInserter's flag statements."""
    cov = {"geometries": 0, "load_errors": {}, "units": 0, "arrays": 0, "volumes": 0,
           "daughter_volumes": 0, "daughter_in_nonconvex_parent": 0, "background_volumes": 0,
           "flag_unset_checked": 0, "flag_unset_undecided": 0, "model_compared": 0,
           "forced_limit_replacements": 0}
    exe, log, _ = vlib.build_harness("csgrt", HARNESS["csgrt"])
    if exe is None:
        broken.append("harness/csgrt.cc no longer builds against /repo")
        ctx.coverage["runtime_flags"] = cov
        return
    ddir = os.path.join(vlib.REPO, "test", "orange", "data")
    files = sorted(f for f in os.listdir(ddir) if f.endswith(".org.json")) \
        if os.path.isdir(ddir) else []
    ops = ["build " + n for n in RT_BUILDS] + ["load " + f for f in files]
    runs = [(None, ops), ("4,9", ["build " + n for n in RT_BUILDS[:4]] + ["load universes.org.json"])]
    model_lines, model_expect = [], []
    for env_limit, oplist in runs:
        env = {"ORANGE_MAX_FACE_INTERSECT": env_limit} if env_limit else None
        outs = []
        for op in oplist:
            # one process per geometry: a crash inside the real loader (e.g. the JSON reader
            # segfaults on inputbuilder-involute*.org.json, outside C10) only loses that file
            try:
                rc, o = vlib.run_lines([exe], [op], timeout=600, env=env)
            except subprocess.TimeoutExpired:
                rc, o = -1, ["error timeout"]
            outs.append(o[0] if o and o[0] else f"error crashed rc={rc}")
        limit = int(env_limit.split(",")[0]) if env_limit else None
        for op, line in zip(oplist, outs):
            if not line.startswith("ok "):
                cov["load_errors"][op] = line[:160]
                continue
            cov["geometries"] += 1
            for u, label, kind, vols in rt_parse(line):
                if kind != "unit":
                    cov["arrays"] += 1
                    continue
                cov["units"] += 1
                for d in vols:
                    cov["volumes"] += 1
                    fin, fout = int(d["in"]), int(d["out"])
                    toks = d["L"].split(",") if d["L"] else []
                    dau, ss = d["dau"] == "1", d["ss"] == "1"
                    ex = limit is not None and (int(d["mi"]) > limit or int(d["inf"]) > limit)
                    cov["daughter_volumes"] += dau
                    cov["background_volumes"] += d["bg"] == "1"
                    cov["forced_limit_replacements"] += ex
                    if dau and "|" in toks:
                        cov["daughter_in_nonconvex_parent"] += 1
                    # (3) model
                    model_lines.append("rtflags %d %d %d %d" % (fin, ss, ex, dau))
                    model_expect.append((op, env_limit, u, label, d["v"], fout))
                    # (2) oracle on what the tracker reads
                    if not (fout & FLAG_INTERNAL):
                        ok = logic_is_conj(toks, int(d["nf"]))
                        if ok is None:
                            cov["flag_unset_undecided"] += 1
                        else:
                            cov["flag_unset_checked"] += 1
                            if not ok:
                                ctx.violation(
                                    "runtime-flag-internal-surfaces-unsound",
                                    f"real OrangeParams ({op}, unit {u} `{label}`, volume "
                                    f"{d['v']}): VolumeRecord flags {fout} have internal_surfaces "
                                    f"unset but the stored logic `{' '.join(toks)}` is not an "
                                    "intersection of half-spaces",
                                    {"harness": "harness/csgrt.cc", "ops": [op],
                                     "env": {"ORANGE_MAX_FACE_INTERSECT": env_limit},
                                     "unit": u, "unit_label": label, "volume": d["v"],
                                     "logic": toks, "input_flags": fin, "stored_flags": fout,
                                     "has_daughter": dau,
                                     "contradicts": "runtimeFlag_sound / runtimeFlag_sound_proto"})
                    # stored logic must be the input logic unless replaced by the unreachable volume
                    if ("IL" in d) != ex or (ex and toks != ["*", "~"]):
                        broken.append(f"runtime logic: {op} unit {u} volume {d['v']}: stored logic "
                                      f"`{d['L']}` vs input `{d.get('IL', d['L'])}` (exceeds={ex})")
    if model_lines and os.path.exists(vlib.model_exe("C10")):
        _, mo = vlib.run_lines([vlib.model_exe("C10")], model_lines, timeout=300)
        for ml, exp, got in zip(model_lines, model_expect, mo):
            cov["model_compared"] += 1
            m = re.match(r"out (\d+) internal ([01])$", got)
            if not m or int(m.group(1)) != exp[5]:
                broken.append(f"runtime flags: model `{ml}` -> `{got}` but the real UnitInserter "
                              f"stored {exp[5]} ({exp[0]}, limit {exp[1]}, unit {exp[2]} "
                              f"`{exp[3]}`, volume {exp[4]})")
                break
    ctx.coverage["runtime_flags"] = cov


def run(ctx):
    quick = ctx.quick()
    rng = ctx.rng
    ps = common.proof_side(ctx, "C10")
    # only the `csg` extractor feeds Generated/CsgConsts.lean, the one generated file the C10
    # theorems import; a failing extractor of another property is that property's business
    broken = [b for b in ps["broken"]
              if not b.startswith("translator: ") or b.startswith("translator: csg")]
    foreign = [b for b in ps["broken"] if b not in broken]
    if foreign:
        ctx.notes.append("ignored translator errors of other properties: " + "; ".join(foreign)[:400])
    ctx.assumptions += [
        "model of CsgTree/NodeSimplifier/CsgTreeUtils/NodeReplacer/DeMorganSimplifier/"
        "PostfixLogicBuilder/InfixStringBuilder/InternalSurfaceFlagger/LogicStack/calc_max_depth is "
        "hand-written (Model/Csg*.lean) and tied to the real classes by exact diff of the full node "
        "array, volumes and all outputs after every op only",
        "logic token values, LogicStack width, NodeRepl order, true/false node ids and "
        "invalid_max_depth are regenerated from the source on every run (tools/gen/csg.py)",
        "the theorems quantify over all trees and all assignments; the implementation-side truth "
        "tables are exhaustive only up to 12 distinct surfaces (256 sampled assignments for "
        "scripts with surface ids up to 63)",
        "std::sort / std::unique / std::unordered_map (dedup map) are modelled by their "
        "specification (sorted-unique list, association list), not by libstdc++'s algorithms",
        "De Morgan rewriting is proved and checked only under DeMorganSimplifier's documented "
        "precondition (no alias node, no double negation); other trees answer `precondition`",
        "postfix evaluation is claimed only for calc_max_depth <= 32 (OrangeParams validates "
        "max_logic_depth < 32); deeper token lists are compared bit for bit with the model only",
        "a raw `exchange` with a non-equivalent node voids the dedup map's soundness by contract: "
        "after it only correspondence and structural checks run for that script",
    ]

    exe, log, _ = vlib.build_harness("csg", HARNESS["csg"])
    if os.environ.get("VERIF_C10_HARNESS"):
        # validation only: run the check against a harness binary built elsewhere (e.g. with a
        # scratch mutant of one translation unit linked in); recorded in the evidence
        exe = os.environ["VERIF_C10_HARNESS"]
        ctx.coverage["harness_override"] = exe
    if exe is None:
        ctx.violation("harness-build", "harness/csg.cc no longer builds against /repo",
                      {"correspondence": "harness build", "log": log[-2000:]}, found_input=False)
        ctx.coverage.update({"evaluations": 0, "distinct_nontrivial": 0})
        return LEVEL

    # translator cross-check: the constants read from the source vs the running code's tokens
    try:
        from gen import csg as _g
        c = _g.csg_consts()
        toks = c["tok"]
        probe = ["reset", "insert surface 0", "insert surface 1", "insert join or 2 3",
                 "insert negated 4", "insert join and 0 5 2", "postfix 6", "postfix 0"]
        _, po = vlib.run_lines([exe], probe, timeout=60)
        if po[-2:] != ["faces 0 1 logic 0 0 1 | ~ & depth 3", "faces logic * depth 1"]:
            broken.append("translator cross-check: the running PostfixLogicBuilder prints "
                          f"{po[-2:]} for the probe tree")
        if not (toks["lbegin"] <= toks["ltrue"] < toks["lor"] < toks["land"] < toks["lnot"]
                < toks["lend"] <= 1 << c["bits"]) or c["true_id"] != 0 or c["false_id"] != 1:
            broken.append(f"translator cross-check: unexpected token layout {toks}")
    except vlib.translate.TranslateError:
        pass        # already reported by proof_side

    # ---------------- scripts: corpus, malformed, then generated against the live harness
    n_scripts = 2000 if quick else 14000
    chunk_size = 500
    live = Live(exe)
    model = [vlib.model_exe("C10")] if ps["model_ok"] else None
    if model is None:
        broken.append("model driver did not build")
    S = {"evals": 0, "extra": 0, "cmp": 0, "scripts": 0, "tags": {}, "outcomes": {},
         "distinct": set(), "diverged": [], "undefined": 0, "order": 0, "order_sample": None,
         "flag_na": 0, "flag_na_sample": None, "tainted_cycles": 0, "tainted_cycle_sample": None,
         "raw_exchanges": 0, "equiv_cycles": 0, "equiv_cycle_sample": None, "order_clean": 0, "order_clean_sample": None, "max_depth": 0, "fail_scripts": 0, "crashed": 0,
         "nondet": 0, "meta": [], "samples": [], "t_gen": 0.0, "t_impl": 0.0, "t_model": 0.0,
         "t_oracle": 0.0, "stats": {}}
    reported = set()

    def process(scripts, valid, views, with_model):
        """run one chunk on both sides, diff, oracle on the real code's output"""
        t0 = time.time()
        st = {}
        oh = run_batch([exe], scripts, 1800, st)
        S["t_impl"] += time.time() - t0
        om = None
        if with_model and model is not None:
            t0 = time.time()
            om = run_batch(model, scripts, 3000, S["stats"])
            S["t_model"] += time.time() - t0
        t0 = time.time()
        dead = set(st.get("dead", []))
        for i, s in enumerate(scripts):
            S["scripts"] += 1
            for l, o in zip(s, oh[i]):
                t = tag(l)
                S["tags"][t] = S["tags"].get(t, 0) + 1
                if t in OUTCOME_OPS:
                    oc = t + ":" + o.split(" ", 1)[0]
                    S["outcomes"][oc] = S["outcomes"].get(oc, 0) + 1
            if om is not None:
                S["evals"] += len(s)
                d = vlib.first_diff(oh[i], om[i])
                if d is not None and s[d[0]] == "demorganx" and d[2].startswith("error crash"):
                    # the model stopped at a compiled-out assertion (a null id reaches
                    # CsgTree::insert: undefined behaviour); the real code usually crashes but
                    # may also return garbage: nothing to compare from here on in this script
                    S["ub_divergence"] = S.get("ub_divergence", 0) + 1
                    d = vlib.first_diff(oh[i][:d[0]], om[i][:d[0]])
                if d is not None:
                    S["diverged"].append({"script": s[:d[0] + 1], "impl": d[1][:300],
                                          "model": d[2][:300], "impl_out": oh[i][:d[0] + 1]})
                # `undefined` is a regular answer of the infix encoder ops (node not expressible)
                S["undefined"] += sum(1 for op_, l in zip(s, om[i]) if l.startswith(UNDEFINED)
                                      and not op_.startswith(("ttinfix", "infixof")))
            else:
                S["extra"] += len(s)
            if not valid[i]:
                continue
            g = views[i]
            if g is not None and g.dead is not None:
                dead.add(i)
            if g is not None and g.outs == oh[i]:
                v = g.v                    # same answers as when generated: same verdicts
            else:
                if g is not None and i not in dead:
                    S["nondet"] += 1
                v = run_oracle(s, oh[i])
            S["cmp"] += v.cmp
            S["infix_defined"] = S.get("infix_defined", 0) + getattr(v, "infix_defined", 0)
            S["infix_undefined"] = S.get("infix_undefined", 0) + getattr(v, "infix_undefined", 0)
            S["max_depth"] = max(S["max_depth"], v.max_depth)
            for d_ in v.dm_depths:
                S.setdefault("dm_depths", {})
                S["dm_depths"][d_] = S["dm_depths"].get(d_, 0) + 1
            for k_, n_ in v.dm_errors.items():
                S.setdefault("dm_errors", {})
                S["dm_errors"][k_] = S["dm_errors"].get(k_, 0) + n_
            if v.flag_na:
                S["flag_na"] += v.flag_na
                S["flag_na_sample"] = S["flag_na_sample"] or s[:80]
            if v.order_violation:
                S["order"] += 1
                S["order_sample"] = S["order_sample"] or s[:80]
            if v.order_violation_clean:
                S["order_clean"] += 1
                S["order_clean_sample"] = S["order_clean_sample"] or s[:80]
            if v.tainted_cycle:
                S["tainted_cycles"] += 1
                S["tainted_cycle_sample"] = S["tainted_cycle_sample"] or s
                if v.tainted_cycle_equiv:
                    S["equiv_cycles"] += 1
                    S["equiv_cycle_sample"] = S["equiv_cycle_sample"] or s
            S["raw_exchanges"] += v.raw_exchanges
            if v.changed_rewrites:
                S["distinct"].add(hash(tuple(s)))
            if v.fails:
                S["fail_scripts"] += 1
                report_fail(ctx, exe, s, v.fails[0], reported)
            if i in dead:
                # re-run alone with a generous timeout: a loaded machine (or an executable being
                # relinked by a concurrent check) can make a chunk time out spuriously
                try:
                    _, again = vlib.run_lines([exe], s, timeout=300)
                except subprocess.TimeoutExpired:
                    again = None
                if again is not None and len(again) == len(s):
                    S["transient"] = S.get("transient", 0) + 1
                    continue
                S["crashed"] += 1
                if "crash" not in reported:
                    reported.add("crash")
                    n_out = len([o for o in oh[i] if not o.startswith("<")])
                    ctx.violation("crash", "real CSG code crashed or hung on a valid op script",
                                  {"kind": "crash", "harness": "harness/csg.cc",
                                   "ops": s[:n_out + 1]}, found_input=True)
        S["t_oracle"] += time.time() - t0
        return oh

    def campaign(n, with_model):
        done = 0
        while done < n:
            m = min(chunk_size, n - done)
            t0 = time.time()
            gens = [ScriptGen(rng, live, deep=(not quick and (done + i) % 4 == 0)).run()
                    for i in range(m)]
            S["t_gen"] += time.time() - t0
            for g in gens:
                S["meta"].append((len(g.surf), g.wide, g.build_size, g.build_depth))
            if len(S["samples"]) < 2:
                S["samples"] += [g.ops[:40] for g in gens[:2]]
            process([g.ops for g in gens], [True] * m, gens, with_model)
            done += m

    run_runtime(ctx, broken)

    corpus, cvalid = [], []
    corpus_dir = os.path.join(vlib.CORPUS, "C10")
    if os.path.isdir(corpus_dir):
        for fn in sorted(os.listdir(corpus_dir)):
            if fn.endswith(".ops"):
                corpus.append([l.strip() for l in open(os.path.join(corpus_dir, fn))
                               if l.strip() and not l.startswith("#")])
                cvalid.append(not fn.startswith("nc-"))     # nc-*: correspondence only
    n_corpus = len(corpus)
    mal = malformed_script(rng)
    oh = process(corpus + [mal], cvalid + [False], [None] * (n_corpus + 1), True)
    notbad = [l for l, o in zip(mal[4:-1], oh[-1][4:-1]) if o != "bad-op"]
    if notbad:
        broken.append(f"malformed stream: harness accepts {notbad[:3]}")
    campaign(n_scripts, True)

    diverged = S["diverged"]
    if diverged:
        broken.append(f"correspondence: model and implementation differ on {len(diverged)} "
                      f"scripts (first: `{diverged[0]['script'][-1]}` impl "
                      f"`{diverged[0]['impl'][:80]}` model `{diverged[0]['model'][:80]}`)")
    if S["undefined"] and not diverged:
        broken.append("model answered undefined/out-of-fuel on a valid stream")
    if S["nondet"]:
        broken.append(f"harness answered differently in batch and line-by-line mode on "
                      f"{S['nondet']} scripts")

    # ---------------- proof/correspondence broke: search harder for a concrete failing input
    if broken:
        focus = []
        for d in diverged[:20]:        # the diverging state, looked at through every query
            pre = d["script"]
            v = run_oracle(pre, d["impl_out"])
            k = v.uni[1] if v.uni[0] == "ex" else 8
            foc = list(pre)
            for n in range(len(v.nodes)):
                foc += ["tt %d %d" % (n, k), "ttpost %d %d" % (n, k), "flag %d" % n,
                        "postfix %d" % n, "postfixm %d" % n, "infix %d" % n]
            foc += ["simplifyall 2"] + ["tt %d %d" % (n, k) for n in range(len(v.nodes))]
            if not v.stop and len(v.nodes) > 2:
                focus.append(foc)
        if focus:
            process(focus, [True] * len(focus), [None] * len(focus), False)
        campaign(n_scripts * (4 if quick else 1), False)
    live.stop()
    if broken and not ctx.violations:
        ctx.violation("unproved", "; ".join(broken)[:600],
                      {"kind": "correspondence", "no_longer_checks": broken,
                       "diverging_scripts": [{k: d[k] for k in ("script", "impl", "model")}
                                             for d in diverged[:3]],
                       "ops": diverged[0]["script"] if diverged else None},
                      found_input=False)

    if not quick and ps["build"]["ok"]:
        common.leanchecker(ctx, ["CelerVerif.Props.C10"])

    gm = S["meta"]
    ctx.coverage.update({
        "evaluations": S["evals"] + S["extra"] + S["cmp"],
        "ops_compared": S["evals"], "oracle_only_ops": S["extra"],
        "truth_table_comparisons": S["cmp"],
        "distinct_nontrivial": len(S["distinct"]),
        "rule": "op scripts generated against the live real tree (build phase: surfaces, "
                "negations, n-ary joins with duplicate/complementary/constant operands, shared "
                "sub-expressions, re-insertions, aliases; 1-4 volumes; then simplify/simplifyup/"
                "simplifyall/replace/demorgan/exchange interleaved with postfix/postfixm/flag/"
                "infix/eval/evalpost/tt/ttpost/logic queries and further inserts); a script is "
                "non-trivial if at least one rewriting op changed the node array; distinct = "
                "distinct op sequences",
        "op_mix": dict(sorted(S["tags"].items())), "outcomes": dict(sorted(S["outcomes"].items())),
        "scripts": S["scripts"], "corpus_scripts": n_corpus,
        "diverging_scripts": len(diverged), "oracle_failing_scripts": S["fail_scripts"],
        "crashed_scripts": S["crashed"], "model_undefined_answers": S["undefined"],
        "model_dead_scripts": len(S["stats"].get("dead", [])),
        "order_violations": S["order"], "order_violation_sample": S["order_sample"],
        "order_violations_without_raw_exchange": S["order_clean"],
        "order_violation_without_raw_exchange_sample": S["order_clean_sample"],
        "raw_exchanges": S["raw_exchanges"],
        "cycles_after_explicit_exchange": S["tainted_cycles"],
        "cycle_after_explicit_exchange_sample": S["tainted_cycle_sample"],
        "cycles_after_equivalent_exchange_only": S["equiv_cycles"],
        "cycle_after_equivalent_exchange_sample": S["equiv_cycle_sample"],
        "demorgan_alias_chain_depths": {str(k): v for k, v in sorted(S.get("dm_depths", {}).items())},
        "demorgan_alias_chain_depth_max": max(S.get("dm_depths", {0: 0})),
        "demorganx_errors": S.get("dm_errors", {}),
        "demorganx_undefined_behaviour_divergences": S.get("ub_divergence", 0),
        "coverage_gaps": (["transform_negated_joins never saw an alias chain of depth >= 2"]
                          if max(S.get("dm_depths", {0: 0})) < 2 else []),
        "infix_tables_compared": S.get("infix_defined", 0),
        "infix_not_expressible": S.get("infix_undefined", 0),
        "flag_negated_alias_cases": S["flag_na"],
        "flag_negated_alias_sample": S["flag_na_sample"],
        "max_logic_depth_seen": S["max_depth"],
        "tree_size_after_build": histo([m[2] // 5 * 5 for m in gm]),
        "nesting_depth_of_volumes": histo([m[3] for m in gm]),
        "surface_count": histo([m[0] for m in gm]),
        "wide_scripts": sum(1 for m in gm if m[1]),
        "timing_s": {k[2:]: round(S[k], 1) for k in ("t_gen", "t_impl", "t_model", "t_oracle")},
        "harness_restarts": live.restarts,
        "samples": S["samples"][:2],
        "correspondence_broken": broken,
    })
    ctx.coverage["findings_replayed"] = run_findings(ctx, exe)
    ctx.coverage["transient_harness_failures"] = S.get("transient", 0)
    return LEVEL


def replay(ctx, data):
    exe, log, _ = vlib.build_harness("csg", HARNESS["csg"])
    if os.environ.get("VERIF_C10_HARNESS"):
        # validation only: run the check against a harness binary built elsewhere (e.g. with a
        # scratch mutant of one translation unit linked in); recorded in the evidence
        exe = os.environ["VERIF_C10_HARNESS"]
        ctx.coverage["harness_override"] = exe
    r = data["replay"]
    ops = r.get("ops")
    if exe is None or not ops:
        print(vlib.json.dumps(r, indent=1)[:4000])
        return 0
    try:
        _, oh = vlib.run_lines([exe], ops, timeout=60)
    except subprocess.TimeoutExpired:
        oh = ["<timeout>"]
    print("impl :", oh[-1:] and oh[-1][:400])
    om = None
    if os.path.exists(vlib.model_exe("C10")):
        try:
            _, om = vlib.run_lines([vlib.model_exe("C10")], ops, timeout=120)
            print("model:", om[-1:] and om[-1][:400])
        except subprocess.TimeoutExpired:
            print("model: <timeout>")
    kind = r.get("kind")
    if len(oh) != len(ops):
        print("harness produced %d lines for %d ops (crash/hang reproduced)" % (len(oh), len(ops)))
        return 1
    v = run_oracle(ops, oh)
    for f in v.fails:
        print("oracle:", f["key"], "-", f["what"], "(op %d: %s)" % (f["at"], ops[f["at"]]))
    if kind == "oracle":
        hit = any(f["key"] == r.get("key") for f in v.fails)
        print("violation reproduced" if hit else "not reproduced")
        return 1 if hit else 0
    if om is not None and vlib.first_diff(oh, om) is not None:
        d = vlib.first_diff(oh, om)
        print("model and implementation DISAGREE at op %d `%s`" % (d[0], ops[d[0]]))
        return 1
    if v.fails:
        return 1
    print("agree")
    return 0
