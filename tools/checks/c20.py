"""C20 — Generated optical photons are physically valid."""
import bisect
import math
import struct

import vlib
from checks import common, numself

LEVEL = "other"
HARNESS = {"optical": ["corecel", "celeritas"], "numself": ["corecel"]}
MANIFEST = {
    "category": "other",
    "technique": "Lean 4 proof at ℝ of the Num-generic model of from_spherical / rotate (3 branches) / "
                 "Cerenkov and scintillation generators / dN/dx threshold / offload helpers; the same "
                 "definitions run at Float bit-exactly against the real classes with a scripted "
                 "random stream; per-photon oracle on the real outputs",
    "text": "Model/Optical.lean is written once over a law-free number class with random numbers "
            "taken from an explicit script of canonical uniforms. Proved at ℝ: from_spherical is "
            "unit; rotate is an isometry in all three branches (dot products and norms kept; image "
            "of the z axis is rot except in the near-axis branch where it is (rx,|ry|,rz): known "
            "finding rotate-near-axis-sign); Cerenkov "
            "and scintillation photons have unit direction, unit polarisation, dir·pol = 0; Cerenkov "
            "photons are on the cone cosθ = 1/(n β̄), energies inside the grid; positions on the step "
            "segment; times ≥ pre-step time; dN/dx = 0 and no photons requested below threshold; "
            "scintillation energy > 0 only if the sampled wavelength is > 0 (partial: not guaranteed "
            "by the code). The model executed at Float must reproduce the real generators, "
            "CerenkovDndxCalculator, CerenkovParams integral, Scintillation/Material params "
            "validation and the offload helpers bit-for-bit, driven by vh::ScriptedEngine.",
    "design_ref": "DESIGN.md §6 C20",
    "note": "Proved at ℝ: rounding not modelled (measured by the oracle). Termination of the "
            "rejection loops is described as 'accepts at the first script index where the predicate "
            "holds'; worst-case draw counts are a statement about the random stream. expm1 / "
            "sincospi / double→unsigned are parameters of the model (theorems hold for every such "
            "function; sincospi needs only (s,c) ≠ (0,0)); their Float instances are self-tested "
            "bit-for-bit against the C++ functions on every run.",
}

MASK = (1 << 64) - 1


def hx(x):
    return "%016x" % struct.unpack("<Q", struct.pack("<d", float(x)))[0]


def fl(s):
    return struct.unpack("<d", struct.pack("<Q", int(s, 16)))[0]


def hxs(xs):
    return " ".join(hx(v) for v in xs)


# --------------------------------------------------------------------------- generators
def canon(rng):
    """a canonical uniform in [0,1): mostly random 53-bit, sometimes extreme"""
    k = rng.below(24)
    if k == 0:
        return rng.choice([2.0 ** -53, 1.0 - 2.0 ** -53, 0.5, 0.25, 0.75, 2.0 ** -30,
                           1.0 - 2.0 ** -30, 2.0 ** -52, 0.125])
    if k == 1:
        return rng.unit() * 1e-6
    if k == 2:
        return 1.0 - rng.unit() * 1e-6
    return rng.unit()


def script(rng, n, zero_ok=False):
    s = [canon(rng) for _ in range(n)]
    if zero_ok and rng.chance(1, 12):
        s[rng.below(n)] = 0.0
    return s


def unit_dir(rng):
    k = rng.below(12)
    if k == 0:
        v = [0.0, 0.0, 0.0]
        v[rng.below(3)] = rng.choice([1.0, -1.0])
        return v
    if k in (1, 2):      # within the near-axis branch of rotate (sinθ < 0.005), either sign of y
        r = rng.unit() * 0.0049
        a = rng.unit() * 2 * math.pi
        v = [r * math.cos(a), r * math.sin(a), rng.choice([1.0, -1.0])]
    elif k == 3:         # around the branch threshold sinθ ≈ 0.005
        r = 0.005 * (1 + (rng.unit() - 0.5) * 1e-3)
        a = rng.unit() * 2 * math.pi
        v = [r * math.cos(a), r * math.sin(a), rng.choice([1.0, -1.0])]
    else:
        v = [rng.unit() * 2 - 1 for _ in range(3)]
    n = math.sqrt(sum(c * c for c in v)) or 1.0
    return [c / n for c in v]


def gen_step(rng, neutral_ok=False, speeds=None):
    """charge, time, step (path) length, pre speed/pos, post speed/pos.
    The path length `sl` (GeneratorDistributionData::step_length) is what the parent travelled;
    the chord |post − pre| is shorter for curved / MSC-shortened steps: about half of the steps
    have sl = chord·f with f in (1, 1.5], some barely longer (1 + 1e-3 … 1.02), the rest f = 1."""
    charge = rng.choice([-1.0, 1.0, 2.0, -2.0, 1.0 / 3.0, 26.0])
    if neutral_ok and rng.chance(1, 6):
        charge = 0.0
    time = rng.choice([0.0, rng.unit() * 1e-8, rng.unit() * 1e-3, 1.0])
    chord = 10.0 ** (rng.unit() * 7 - 5)
    k = rng.below(10)
    if k < 4:
        f = 1.0
    elif k < 6:
        f = 1.0 + 10.0 ** (rng.unit() * 1.3 - 3)        # 1.001 … 1.02
    else:
        f = 1.0 + rng.unit() * 0.5                      # up to 1.5
    sl = chord * f
    if speeds is None:
        v0 = rng.unit() * 0.999 + 0.0005
        v1 = v0 * (1 - rng.unit() * 0.2) if rng.chance(2, 3) else rng.unit() * 0.999 + 0.0005
        if rng.chance(1, 10):
            v1 = v0
    else:
        v0, v1 = speeds
    pre = [(rng.unit() * 2 - 1) * 100 for _ in range(3)] if rng.chance(3, 4) else [0.0, 0.0, 0.0]
    d = unit_dir(rng)
    post = [pre[i] + chord * d[i] for i in range(3)]
    return {"charge": charge, "time": time, "sl": sl, "chord": chord, "path_over_chord": f,
            "v0": v0, "pre": pre, "v1": v1, "post": post}


def dist_words(st):
    return hxs([st["charge"], st["time"], st["sl"], st["v0"]] + st["pre"] + [st["v1"]] + st["post"])


def gen_scint_mat(rng, wide=None, invalid_ok=True):
    ncomp = rng.range(1, 3)
    comps = []
    for _ in range(ncomp):
        mean = 10.0 ** (rng.unit() * 1.2 - 5)            # 1e-5 .. 1.6e-4 cm
        if wide is None:
            w = rng.chance(1, 5)
        else:
            w = wide
        ratio = (0.3 + rng.unit() * 9) if w else (12 + rng.unit() * 200)
        sigma = mean / ratio
        rise = 0.0 if rng.chance(1, 2) else 10.0 ** (rng.unit() * 3 - 10)
        fall = 10.0 ** (rng.unit() * 4 - 10)
        comps.append([0.05 + rng.unit(), mean, sigma, rise, fall])
    ype = 10.0 ** (rng.unit() * 4)
    rs = rng.choice([0.0, 1.0, rng.unit() * 3])
    if invalid_ok and rng.chance(1, 25):
        c = rng.choice(comps)
        k = rng.below(7)
        if k == 0:
            c[1] = rng.choice([0.0, -c[1]])
        elif k == 1:
            c[2] = rng.choice([0.0, -c[2], float("nan")])
        elif k == 2:
            c[3] = -1e-9
        elif k == 3:
            c[4] = 0.0
        elif k == 4:
            c[0] = rng.choice([0.0, -0.5])
        elif k == 5:
            ype = rng.choice([0.0, -1.0])
        else:
            rs = -0.5
    return {"ype": ype, "rs": rs, "comps": comps}


def scint_mat_words(m):
    return "%s | %s" % (hxs([m["ype"], m["rs"]]), hxs([v for c in m["comps"] for v in c]))


def scint_valid(m):
    return (m["rs"] >= 0 and m["ype"] > 0
            and all(c[1] > 0 and c[2] > 0 and c[3] >= 0 and c[4] > 0 and c[0] > 0
                    for c in m["comps"]))


def gen_ri_table(rng, mode):
    """energy grid (MeV, increasing) and refractive index values"""
    n = rng.choice([2, 2, 3, 4, 5, 8, 16, 40])
    e0 = 10.0 ** (rng.unit() * 1.0 - 6.3)
    es = [e0]
    for _ in range(n - 1):
        es.append(es[-1] * (1 + 0.01 + rng.unit() * 0.6))
    n0 = rng.choice([1.0003, 1.2, 1.33, 1.5, 2.4]) * (1 + rng.unit() * 0.05)
    ns = [n0]
    shape = rng.below(5) if mode == "R" else rng.below(2)
    for _ in range(n - 1):
        if shape <= 1:
            ns.append(ns[-1] * (1 + 1e-4 + rng.unit() * (0.05 if shape == 0 else 0.002)))
        elif shape == 2:     # non-monotone
            ns.append(max(1.0001, ns[-1] * (1 + (rng.unit() - 0.5) * 0.1)))
        elif shape == 3:     # constant
            ns.append(ns[-1])
        else:                # decreasing
            ns.append(max(1.0001, ns[-1] * (1 - rng.unit() * 0.03)))
    if mode == "P" and rng.chance(1, 20):       # invalid for MaterialParams
        i = rng.range(1, n - 1)
        if rng.chance(1, 2):
            ns[i] = ns[i - 1] * rng.choice([1.0, 0.99])
        else:
            es[i] = es[i - 1] * rng.choice([1.0, 0.9])
    return es, ns


def py_integral(es, ns):
    out = [0.0]
    for i in range(1, len(es)):
        out.append(out[-1] + 0.5 * (es[i] - es[i - 1]) * (1 / ns[i - 1] ** 2 + 1 / ns[i] ** 2))
    return out


def gen_cer_mat(rng):
    mode = "P" if rng.chance(3, 5) else "R"
    es, ns = gen_ri_table(rng, mode)
    m = {"mode": mode, "es": es, "ns": ns}
    if mode == "R":
        ints = py_integral(es, ns)
        if rng.chance(1, 4):      # arbitrary table: the generators only read it
            ints = [v * (1 + (rng.unit() - 0.5) * 0.2) for v in ints]
        m["ints"] = ints
    return m


def cer_mat_words(m):
    w = "%s | %s" % (hxs(m["es"]), hxs(m["ns"]))
    if m["mode"] == "R":
        w += " | " + hxs(m["ints"])
    return w


def ri_valid(m):
    if m["mode"] == "R":
        return True
    inc = lambda v: all(a < b for a, b in zip(v, v[1:]))
    return inc(m["es"]) and inc(m["ns"])


def speeds_for(rng, m):
    """pre/post speeds placed relative to the Cerenkov threshold 1/n_max"""
    nmax, nmin = max(m["ns"]), min(m["ns"])
    k = rng.below(10)
    if k < 5:        # comfortably above threshold
        lo = min(0.9995, 1 / nmin * (1 + rng.unit() * 0.1))
        v0 = lo + (0.9999 - lo) * rng.unit()
        v1 = v0 - (v0 - lo) * rng.unit() * rng.choice([0.0, 0.1, 1.0])
    elif k < 8:      # mean speed just above 1/n_max (partial grid, many rejections)
        t = 1 / nmax
        v0 = min(0.9999, t * (1 + rng.unit() * 0.05))
        v1 = min(0.9999, max(1e-3, t * (1 + (rng.unit() - 0.3) * 0.04)))
    else:            # anywhere
        v0 = rng.unit() * 0.999 + 0.0005
        v1 = rng.unit() * 0.999 + 0.0005
    return v0, v1


def mean_above_threshold(m, v0, v1):
    """2/(v0+v1) < n at the top of the grid: the generator's own precondition (inv_beta·… ≤ 1
    reachable) — otherwise its energy loop never accepts and only drains the script"""
    return 2 / (v0 + v1) < m["ns"][-1] * (1 - 1e-9)


# --------------------------------------------------------------------------- op lines
def op_scint(rng, wide=None, zero_ok=False):
    st = gen_step(rng, neutral_ok=True)
    m = gen_scint_mat(rng, wide=wide)
    n = rng.range(1, 6)
    sc = script(rng, rng.choice([0, 3, 8 * n, 12 * n, 40]), zero_ok) if rng.chance(1, 8) \
        else script(rng, 14 * n + 8, zero_ok)
    line = "scint %d | %s | %s | %s" % (n, dist_words(st), scint_mat_words(m), hxs(sc))
    return line, ("scint", st, m, n, sc)


def op_cer(rng):
    m = gen_cer_mat(rng)
    v0, v1 = speeds_for(rng, m)
    st = gen_step(rng, speeds=(v0, v1))
    n = rng.range(1, 5)
    ok = mean_above_threshold(m, v0, v1)
    ln = (30 * n + 20) if ok else rng.choice([0, 5, 17])
    if rng.chance(1, 10):
        ln = rng.choice([0, 1, 2, 3, 5, 9])
    sc = script(rng, ln)
    line = "cer %s %d | %s | %s | %s" % (m["mode"], n, dist_words(st), cer_mat_words(m), hxs(sc))
    return line, ("cer", st, m, n, sc)


def op_dndx(rng):
    m = gen_cer_mat(rng)
    nmax = max(m["ns"])
    k = rng.below(4)
    if k == 0:
        beta = rng.unit() * 0.999 + 0.001
    elif k == 1:
        beta = min(1.0, (1 / nmax) * (1 + (rng.unit() - 0.5) * 1e-3))
    elif k == 2:
        beta = min(1.0, 1 / rng.choice(m["ns"]))
    else:
        beta = 1.0 - rng.unit() * 0.05
    z = rng.choice([-1.0, 1.0, 2.0, 1.0 / 3.0])
    line = "dndx %s | %s | %s" % (m["mode"], hxs([z, beta]), cer_mat_words(m))
    return line, ("dndx", m, z, beta)


def gen_offload_step(rng, v0=None, v1=None):
    mass = rng.choice([0.51099895, 105.6583755, 938.272, 3727.379])
    if v1 is None:
        v1 = rng.unit() * 0.99 + 0.005
    # kinetic energy giving speed v1: gamma = 1/sqrt(1-v²); E = m (gamma-1)
    en = mass * (1 / math.sqrt(1 - v1 * v1) - 1)
    st = gen_step(rng, speeds=(v0 if v0 is not None else rng.unit() * 0.99 + 0.005, v1))
    st["mass"], st["energy"] = mass, en
    return st


def offload_words(st, extra=()):
    return hxs([st["charge"], st["mass"], st["energy"], st["sl"], st["v0"]] + st["pre"]
               + [st["time"]] + st["post"] + list(extra))


def op_ceroff(rng, below=False):
    m = gen_cer_mat(rng)
    nmax = max(m["ns"])
    if below:
        t = 1 / nmax
        v0 = t * (1 - rng.unit() * 0.3)
        v1 = max(1e-3, min(0.999, 2 * t * (1 - rng.unit() * 1e-3 * rng.below(2)) - v0 - 1e-12))
        v1 = min(v1, 2 * t - v0)
        v1 = max(1e-3, v1 * (1 - 1e-12))
    else:
        v0, v1 = speeds_for(rng, m)
    st = gen_offload_step(rng, v0, v1)
    if rng.chance(1, 3):
        st["sl"] = max(st["chord"], 10.0 ** (rng.unit() * 2 - 1.5))
    sc = script(rng, rng.choice([0, 2, 60, 200]))
    if len(sc) >= 2 and rng.chance(1, 4):
        # Poisson Gaussian branch (mean > 16) with a far negative Box–Muller tail:
        # sin(2π·0.75) = −1, r = sqrt(−2 ln u₂) up to 8.57 — the count must clamp to 0
        sc[0] = 0.75 + (rng.unit() - 0.5) * 0.05
        sc[1] = rng.choice([2.0 ** -53, 2.0 ** -40, 1e-9, 1e-6, 1e-4])
    line = "ceroff %s | %s | %s | %s" % (m["mode"], offload_words(st), cer_mat_words(m), hxs(sc))
    return line, ("ceroff", st, m, sc, below)


def op_scoff(rng):
    m = gen_scint_mat(rng)
    st = gen_offload_step(rng)
    edep = rng.choice([0.0, rng.unit() * 1e-3, rng.unit() * 0.1, rng.unit() * 10])
    if rng.chance(1, 3):
        edep = rng.choice([5.0, 10.0, 11.0, 16.0, 16.5, 20.0]) / max(m["ype"], 1e-300)
    sc = script(rng, rng.choice([0, 1, 2, 40, 120]))
    line = "scoff | %s | %s | %s" % (offload_words(st, [edep]), scint_mat_words(m), hxs(sc))
    return line, ("scoff", st, m, edep, sc)


def op_vec(rng):
    k = rng.below(4)
    if k == 0:
        c = rng.choice([1.0, -1.0, 0.0, rng.unit() * 2 - 1, 1 - rng.unit() * 1e-9])
        return "sph %s" % hxs([c, rng.unit() * 2 * math.pi]), ("sph",)
    if k == 1:
        v = [(rng.unit() * 2 - 1) * 10.0 ** rng.range(-8, 8) for _ in range(3)]
        return "unit %s" % hxs(v), ("unit",)
    d, r = unit_dir(rng), unit_dir(rng)
    return "rot %s" % hxs(d + r), ("rot", d, r)


def op_prim(rng):
    k = rng.below(4)
    if k == 0:
        x = rng.choice([canon(rng), canon(rng), (rng.unit() - 0.5) * 8, (rng.unit() - 0.5) * 1e6,
                        0.0, 0.5, 1.0, 0.25, -0.75, 1e300, 2.0 ** 52 + 1])
        return "sincospi %s" % hx(x), ("sincospi", x)
    if k == 1:
        x = rng.choice([-rng.unit() * 50, -rng.unit() * 1e-3, -rng.unit() * 1e-12, -rng.unit() * 800,
                        rng.unit() * 5, 0.0, -0.0, -1e-300, float("-inf")])
        return "expm1 %s" % hx(x), ("expm1", x)
    if k == 2:
        x = rng.choice([rng.unit() * 100, -rng.unit() * 100, rng.unit() * 4294967296 * 3,
                        -rng.unit() * 1e10, 0.5, -0.5, 4294967295.5, 1e19, -1e19, float("nan"),
                        float("inf"), 9.3e18, -9.2e18])
        return "cast %s" % hx(x), ("cast", x)
    m = rng.choice([0.51099895, 105.66, 938.272, 0.0])
    e = 10.0 ** (rng.unit() * 8 - 4)
    return "speed %s" % hxs([e, m]), ("speed",)


def gen_lines(rng, n):
    lines, meta = ["consts"], [("consts",)]
    for _ in range(n):
        k = rng.below(20)
        if k < 6:
            l, m = op_scint(rng, zero_ok=False)
        elif k < 12:
            l, m = op_cer(rng)
        elif k < 14:
            l, m = op_dndx(rng)
        elif k < 16:
            l, m = op_ceroff(rng, below=rng.chance(1, 3))
        elif k < 17:
            l, m = op_scoff(rng)
        elif k < 19:
            l, m = op_vec(rng)
        else:
            l, m = op_prim(rng)
        lines.append(l)
        meta.append(m)
        if m[0] == "cer" and m[2]["mode"] == "P" and rng.chance(1, 6):
            lines.append("integral %s | %s" % (hxs(m[2]["es"]), hxs(m[2]["ns"])))
            meta.append(("integral",))
    return lines, meta


# --------------------------------------------------------------------------- oracle
def dot(a, b):
    return sum(x * y for x, y in zip(a, b))


def norm(a):
    return math.sqrt(dot(a, a))


def parse_photons(out):
    """[(E, pos, dir, pol, t, draws)], exhausted"""
    if out in ("none", "validate-error", "bad-op", "debug-error"):
        return [], False
    ph, ex = [], False
    for part in out.split(" ; "):
        w = part.split()
        if w == ["exhausted"]:
            ex = True
            continue
        v = [fl(t) for t in w[:11]]
        ph.append((v[0], v[1:4], v[4:7], v[7:10], v[10], int(w[11])))
    return ph, ex


def near_axis_negy(d):
    """step direction in rotate's near-axis branch (0 < sinθ < 0.005) with negative y"""
    st = math.sqrt(max(0.0, 1 - d[2] * d[2]))
    return 0 < st < 0.005 and d[1] < 0


def py_ri(m, e):
    es, ns = m["es"], m["ns"]
    if e <= es[0]:
        return ns[0]
    if e >= es[-1]:
        return ns[-1]
    i = bisect.bisect_right(es, e) - 1
    return ns[i] + (ns[i + 1] - ns[i]) / (es[i + 1] - es[i]) * (e - es[i])


C_LIGHT = 2.99792458e10
# polar-angle tolerance (a numerically-on-axis rot with rho = 0 is treated as exactly on the axis
# since repo commit 1e0a0e8, so no sqrt(ulp) tilt remains)
CONE_TOL = 1e-9


def check_common(st, p, fails, tag, line, out, dot_tol):
    E, pos, d, pol, t, _ = p
    info = {"photon": {"E": E, "pos": pos, "dir": d, "pol": pol, "t": t}}
    dl0 = [st["post"][i] - st["pre"][i] for i in range(3)]
    if tag == "cerenkov" and any(math.isnan(v) for v in d + pol) and dl0[0] == 0 and dl0[1] == 0:
        # make_unit_vector((0,0,dz)) = (0,0,±(1−2⁻⁵³)) for ~14 % of dz; rotate then takes the
        # near-axis branch and evaluates rot_x / sqrt(rot_x² + rot_y²) = 0/0
        fails.append(("rotate-nan-z-parallel", line, out,
                      dict(info, step_delta=dl0, expected="unit direction and polarisation")))
        return None
    if not (abs(norm(d) - 1) <= 1e-13):
        fails.append((tag + "-dir-not-unit", line, out, dict(info, norm=norm(d))))
    if not (abs(norm(pol) - 1) <= 1e-13):
        fails.append((tag + "-pol-not-unit", line, out, dict(info, norm=norm(pol))))
    if not (abs(dot(d, pol)) <= dot_tol):
        fails.append((tag + "-dir-pol-not-perpendicular", line, out, dict(info, dot=dot(d, pol))))
    # time: not earlier than the pre-step time; NaN / infinite times are violations too
    if not (t >= st["time"]):
        fails.append((tag + "-time-before-pre-step", line, out, dict(info, pre_time=st["time"])))
    elif not math.isfinite(t):
        fails.append((tag + "-time-not-finite", line, out, dict(info, pre_time=st["time"])))
    # position on the segment [pre, post]: finite; fractional coordinate in [0,1]; perpendicular
    # offset ~0; every component inside the bounding box of the two end points (few ulp)
    pre, post = st["pre"], st["post"]
    dl = [post[i] - pre[i] for i in range(3)]
    L2 = dot(dl, dl)
    scale = max(1.0, max(abs(v) for v in pre + post))
    pinfo = dict(info, pre=pre, post=post, step_length=st["sl"], chord=math.sqrt(L2))
    if not all(math.isfinite(v) for v in pos):
        fails.append((tag + "-position-off-segment", line, out, dict(pinfo, why="not finite")))
    elif L2 > 0:
        u = dot([pos[i] - pre[i] for i in range(3)], dl) / L2
        off = max(abs(pos[i] - (pre[i] + u * dl[i])) for i in range(3))
        box = 4 * 2.220446049250313e-16 * scale
        inside = all(min(pre[i], post[i]) - box <= pos[i] <= max(pre[i], post[i]) + box
                     for i in range(3))
        if not (-1e-9 <= u <= 1 + 1e-9 and off <= 1e-12 * scale and inside):
            fails.append((tag + "-position-off-segment", line, out,
                          dict(pinfo, fractional_coordinate=u, perpendicular_offset=off,
                               inside_bounding_box=inside,
                               expected="pre + u (post - pre) with 0 <= u <= 1")))
    elif not all(pos[i] == pre[i] for i in range(3)):
        fails.append((tag + "-position-off-segment", line, out, dict(pinfo, why="pre == post")))
    return info


def scint_lambda(m, sc, start, spare):
    """python re-evaluation of the component choice and Box–Muller wavelength of one photon
    (returns lambda or None when it cannot be followed)"""
    try:
        comps = m["comps"]
        tot = 0.0
        for c in comps:
            tot += c[0]
        acc = -1.0 * sc[start]
        idx = len(comps) - 1
        for i in range(len(comps) - 1):
            acc += comps[i][0] / tot
            if acc > 0:
                idx = i
                break
        c = comps[idx]
        if spare is not None:
            return c[1] + spare * c[2], None
        u1, u2 = sc[start + 1], sc[start + 2]
        r = math.sqrt(-2 * math.log(u2)) if u2 > 0 else float("inf")
        th = 2 * math.pi * u1
        return c[1] + r * math.sin(th) * c[2], r * math.cos(th)
    except (IndexError, ValueError):
        return None, None


def oracle_line(line, meta, out, fails):
    kind = meta[0]
    if kind == "scint":
        _, st, m, n, sc = meta
        ph, _ = parse_photons(out)
        spare, start = None, 0
        for p in ph:
            lam, spare = scint_lambda(m, sc, start, spare)
            start = p[5]
            info = check_common(st, p, fails, "scint", line, out, 1e-7)
            E = p[0]
            if not (math.isfinite(E) and E > 0):
                if lam is not None and not (lam > 0 and math.isfinite(lam)):
                    fails.append(("scint-wavelength-nonpositive", line, out,
                                  dict(info, sampled_wavelength=lam)))
                else:
                    fails.append(("scint-energy-not-positive", line, out, dict(info, wl=lam)))
    elif kind == "cer":
        _, st, m, n, sc = meta
        ph, _ = parse_photons(out)
        dl = [st["post"][i] - st["pre"][i] for i in range(3)]
        L = norm(dl)
        sd = [c / L for c in dl] if L > 0 else None
        for p in ph:
            info = check_common(st, p, fails, "cerenkov", line, out, 1e-9)
            if info is None:
                continue
            E = p[0]
            if not (math.isfinite(E) and E > 0):
                fails.append(("cerenkov-energy-not-positive", line, out, info))
            if not (m["es"][0] <= E <= m["es"][-1]):
                fails.append(("cerenkov-energy-outside-grid", line, out,
                              dict(info, grid=(m["es"][0], m["es"][-1]))))
            if sd is not None:
                cos_expected = (2 / (st["v0"] + st["v1"])) / py_ri(m, E)
                cos_actual = dot(p[2], sd)
                if not (abs(cos_actual - cos_expected) <= CONE_TOL):
                    key = "rotate-near-axis-sign" if near_axis_negy(sd) else "cerenkov-off-cone"
                    fails.append((key, line, out, dict(info, cos_expected=cos_expected,
                                                      cos_actual=cos_actual, step_dir=sd)))
    elif kind == "ceroff":
        _, st, m, sc, below = meta
        if out in ("validate-error", "exhausted", "bad-op"):
            return
        nmax = max(m["ns"])
        beta = 0.5 * (st["v0"] + fl_speed(st))
        if (1 / beta) >= nmax * (1 + 1e-12) and out.split()[0] != "0":
            fails.append(("cerenkov-photons-below-threshold", line, out,
                          {"beta_mean": beta, "n_max": nmax}))
    elif kind == "dndx":
        _, m, z, beta = meta
        if out in ("validate-error", "bad-op"):
            return
        v = fl(out)
        if (1 / beta) >= max(m["ns"]) * (1 + 1e-12) and v != 0.0:
            fails.append(("dndx-nonzero-below-threshold", line, out, {"beta": beta}))
        if not (v >= 0):
            fails.append(("dndx-negative", line, out, {"beta": beta, "dndx": v}))
    elif kind == "rot":
        _, d, r = meta
        v = [fl(w) for w in out.split()]
        if not abs(norm(v) - 1) <= 1e-13:
            fails.append(("rotate-not-unit", line, out, {"dir": d, "rot": r, "result": v}))
            return
        if not abs(dot(v, r) - d[2]) <= CONE_TOL:
            key = "rotate-near-axis-sign" if near_axis_negy(r) else "rotate-polar-angle"
            fails.append((key, line, out, {"dir": d, "rot": r, "result": v,
                                            "result_dot_rot": dot(v, r), "expected": d[2]}))
    elif kind == "sincospi":
        s, c = [fl(w) for w in out.split()]
        if math.isfinite(meta[1]) and not abs(s * s + c * c - 1) <= 1e-15:
            fails.append(("sincospi-contract", line, out, {"s2+c2-1": s * s + c * c - 1}))


def fl_speed(st):
    m, e = st["mass"], st["energy"]
    g = m / (e + m)
    return math.sqrt(1 - g * g)


# --------------------------------------------------------------------------- targeted probes
def wide_component_probe(exe):
    """DESIGN.md §8 row i on the REAL code: a component admitted by ScintillationParams whose
    normal-sampled wavelength is ≤ 0 for an ordinary pair of uniforms."""
    st = {"charge": -1.0, "time": 0.0, "sl": 0.1, "v0": 0.9, "pre": [0.0, 0.0, 0.0], "v1": 0.85,
          "post": [0.1, 0.0, 0.0]}
    m = {"ype": 100.0, "rs": 1.0, "comps": [[1.0, 4.0e-5, 1.0e-5, 0.0, 1e-9]]}   # mean = 4 σ
    # selector u, Box–Muller (u1 → θ = 2π·0.75 : sin = −1 ; u2 = 1e-5 → r = 4.8), cost, φ, pol, u, time
    sc = [0.5, 0.75, 1e-5, 0.3, 0.2, 0.6, 0.5, 0.5]
    line = "scint 1 | %s | %s | %s" % (dist_words(st), scint_mat_words(m), hxs(sc))
    _, out = vlib.run_lines([exe], [line])
    ph, _ = parse_photons(out[0])
    lam, _ = scint_lambda(m, sc, 0, None)
    return line, out[0], ph, lam, m, sc


def z_parallel_probe(exe):
    """a step exactly along +z whose normalised direction is (0,0,1−2⁻⁵³)"""
    z = 0.1500002850002295
    st = {"charge": -1.0, "time": 0.0, "sl": z, "v0": 0.95, "pre": [0.0, 0.0, 0.0], "v1": 0.94,
          "post": [0.0, 0.0, z]}
    m = {"mode": "P", "es": [1e-6, 2e-6, 4e-6], "ns": [1.3, 1.35, 1.4]}
    sc = [0.5, 0.3, 0.25, 0.5, 0.9, 0.1, 0.2, 0.3, 0.4, 0.5, 0.6, 0.7]
    line = "cer P 1 | %s | %s | %s" % (dist_words(st), cer_mat_words(m), hxs(sc))
    _, out = vlib.run_lines([exe], [line, "unit %s" % hxs(st["post"])])
    ph, _ = parse_photons(out[0])
    return line, out[0], ph, st, [fl(w) for w in out[1].split()]


def long_path_probes(exe):
    """steps whose path length is 1.25× the chord, photons sampled at u = 0.99 / 0.97 of the
    step: the emission point must still be on the chord [pre, post]"""
    pre = [1.0, -2.0, 0.5]
    d = [0.6, 0.0, 0.8]
    chord = 0.2
    post = [pre[i] + chord * d[i] for i in range(3)]
    st = {"charge": -1.0, "time": 1e-9, "sl": 1.25 * chord, "chord": chord, "v0": 0.95, "pre": pre,
          "v1": 0.94, "post": post}
    ms = {"ype": 100.0, "rs": 1.0, "comps": [[1.0, 4.0e-5, 1.0e-6, 0.0, 1e-9]]}
    # selector, Box–Muller pair, cost, φ, polarisation angle, step fraction u = 0.99, delay
    sc = [0.5, 0.1, 0.5, 0.3, 0.2, 0.6, 0.99, 0.5]
    l1 = "scint 1 | %s | %s | %s" % (dist_words(st), scint_mat_words(ms), hxs(sc))
    mc = {"mode": "P", "es": [1e-6, 2e-6, 4e-6], "ns": [1.3, 1.35, 1.4]}
    # energy, rejection, φ, step fraction u = 0.97 (accepted: second value 0)
    sc2 = [0.5, 0.3, 0.25, 0.97, 0.0, 0.5]
    l2 = "cer P 1 | %s | %s | %s" % (dist_words(st), cer_mat_words(mc), hxs(sc2))
    _, out = vlib.run_lines([exe], [l1, l2])
    return [(l1, ("scint", st, ms, 1, sc), out[0]), (l2, ("cer", st, mc, 1, sc2), out[1])]


def near_axis_probe(exe):
    rot = [0.0003, -0.0004, math.sqrt(1 - 25e-8)]
    line = "rot %s" % hxs([0.0, 0.0, 1.0] + rot)
    _, out = vlib.run_lines([exe], [line])
    return line, out[0], rot, [fl(w) for w in out[0].split()]


# --------------------------------------------------------------------------- run
def run(ctx):
    quick = ctx.quick()
    ps = common.proof_side(ctx, "C20")
    broken = list(ps["broken"])
    numself.run(ctx, n=10000 if quick else 100000)
    exe, log, _ = vlib.build_harness("optical", HARNESS["optical"])
    if exe is None:
        ctx.violation("harness-build", "harness/optical.cc no longer builds against /repo",
                      {"correspondence": "harness build", "log": log[-2000:]}, found_input=False)
        ctx.coverage.update({"evaluations": 0, "distinct_nontrivial": 0})
        return LEVEL
    n = 6000 if quick else 60000
    lines, meta = gen_lines(ctx.rng, n)
    lines += ["scint x | 1", "cer Q 1 | 2", "frob", "", "rot 1 2"]
    meta += [("malformed",)] * 5
    corpus = read_corpus()
    lines += corpus
    meta += [("corpus",)] * len(corpus)
    diverged, kinds, distinct, fails = [], {}, set(), []
    photons = 0
    long_path = {}
    _, oh = vlib.run_lines([exe], lines)
    if ps["model_ok"]:
        _, om = vlib.run_lines([vlib.model_exe("C20")], lines)
        for i, l in enumerate(lines):
            a = oh[i] if i < len(oh) else "<missing>"
            b = om[i] if i < len(om) else "<missing>"
            if a != b and not nan_equal(a, b):
                diverged.append({"op": l, "impl": a, "model": b})
    else:
        broken.append("model driver did not build")
    for i, l in enumerate(lines):
        a = oh[i] if i < len(oh) else "<missing>"
        k = meta[i][0]
        tag = k + (":" + a if a in ("validate-error", "none", "bad-op", "exhausted") else "")
        if " ; exhausted" in a:
            tag = k + ":partial"
        kinds[tag] = kinds.get(tag, 0) + 1
        if a not in ("bad-op", "<missing>"):
            distinct.add(l)
        if k in ("scint", "cer"):
            nph = len(parse_photons(a)[0])
            photons += nph
            if meta[i][1].get("path_over_chord", 1.0) > 1.0:
                long_path[k] = long_path.get(k, 0) + nph
        try:
            oracle_line(l, meta[i], a, fails)
        except (ValueError, IndexError, ZeroDivisionError, OverflowError) as e:
            fails.append(("oracle-parse", l, a, {"error": repr(e)}))
    if min(long_path.get("scint", 0), long_path.get("cer", 0)) < 200:
        fails.append(("generator-coverage", "gen_lines", str(long_path),
                      {"expected": "at least 200 scintillation and 200 Cerenkov photons from steps "
                                   "with step_length > |post - pre| in every run"}))
    if diverged:
        broken.append(f"correspondence: model and implementation differ on {len(diverged)} ops "
                      f"(first: {diverged[0]['op'][:60]})")
    # targeted probes of the two side conditions the proofs force
    wl_line, wl_out, wl_ph, wl_lam, wl_m, wl_sc = wide_component_probe(exe)
    if wl_ph and not (wl_ph[0][0] > 0 and math.isfinite(wl_ph[0][0])):
        fails.insert(0, ("scint-wavelength-nonpositive", wl_line, wl_out,
                      {"component": {"lambda_mean": wl_m["comps"][0][1],
                                     "lambda_sigma": wl_m["comps"][0][2]},
                       "accepted_by_ScintillationParams": True, "script": wl_sc,
                       "sampled_wavelength": wl_lam, "photon_energy_MeV": wl_ph[0][0],
                       "expected": "finite positive photon energy"}))
    na_line, na_out, na_rot, na_res = near_axis_probe(exe)
    if not abs(dot(na_res, na_rot) - 1.0) <= 1e-9:
        fails.insert(0, ("rotate-near-axis-sign", na_line, na_out,
                      {"dir": [0, 0, 1], "rot": na_rot, "expected": na_rot, "actual": na_res}))
    lp_photons = 0
    for lp_line, lp_meta, lp_out in long_path_probes(exe):
        lp_photons += len(parse_photons(lp_out)[0])
        pf = []
        oracle_line(lp_line, lp_meta, lp_out, pf)
        for f in reversed(pf):
            fails.insert(0, f)
    if lp_photons != 2:
        fails.insert(0, ("long-path-probe-no-photon", "long_path_probes", str(lp_photons),
                         {"expected": "one photon from each of the two probe ops"}))
    zp_line, zp_out, zp_ph, zp_st, zp_unit = z_parallel_probe(exe)
    if zp_ph and any(math.isnan(v) for v in zp_ph[0][2] + zp_ph[0][3]):
        fails.insert(0, ("rotate-nan-z-parallel", zp_line, zp_out,
                      {"step": "pre (0,0,0) → post (0,0,%r)" % zp_st["post"][2],
                       "make_unit_vector(step)": zp_unit,
                       "expected": "unit direction and polarisation",
                       "actual_direction": zp_ph[0][2], "actual_polarization": zp_ph[0][3]}))
    if broken:
        # failing-input search: a fresh, larger sample through the oracle only
        l2, m2 = gen_lines(ctx.rng, n * 2)
        _, o2 = vlib.run_lines([exe], l2)
        for l, mm, o in zip(l2, m2, o2):
            try:
                oracle_line(l, mm, o, fails)
            except (ValueError, IndexError, ZeroDivisionError, OverflowError):
                pass
    seen = {}
    for what, l, o, info in fails:
        seen.setdefault(what, []).append((l, o, info))
    for key, items in sorted(seen.items()):
        l, o, info = items[0]
        ctx.violation(key, f"real optical code: {key.replace('-', ' ')} ({len(items)} case(s); "
                           f"op {l.split()[0]})",
                      {"harness": "harness/optical.cc", "op": l, "impl_output": o, "info": info,
                       "cases": len(items)})
    if broken and not ctx.violations:
        ctx.violation("unproved", "; ".join(broken)[:600],
                      {"no_longer_checks": broken, "diverging_ops": diverged[:3]}, found_input=False)
    if not quick and ps["build"]["ok"]:
        common.leanchecker(ctx, ["CelerVerif.Props.C20"])
    ctx.coverage["trusted_base"] = list(ctx.coverage.get("trusted_base", [])) + [
        "executable-only bindings in Model/OpticalDriver.lean (no theorem depends on them; they are "
        "parameters of the model): glibc expm1 bound via @[extern \"expm1\"]; transcription of "
        "celeritas detail/Sincospi.hh with the exact fma; x86-64 cvttsd2si double→unsigned cast — "
        "each compared bit-for-bit with the C++ function by the expm1/sincospi/cast ops of this run",
    ]
    ctx.assumptions += [
        "theorems are about the real-number reading of Model/Optical.lean; the same definitions "
        "executed at Float equal the C++ results bit-for-bit on every op compared in this run",
        "hypotheses: speeds > 0, step direction well defined (pre ≠ post), canonical uniforms in "
        "[0,1], refractive index values > 0 on a strictly increasing energy grid, physical "
        "constants > 0; scintillation energy additionally needs the sampled wavelength > 0",
        "expm1, sincospi and the double→unsigned cast are parameters of the model; their Float "
        "instances (glibc expm1 via extern, transcription of Sincospi.hh, x86 cvttsd2si) are "
        "compared bit-for-bit with the C++ functions by the self-test ops of this run",
        "worst-case draw counts of the rejection loops are not bounded (random-stream statement)",
    ]
    ctx.coverage.update({
        "evaluations": len(lines), "distinct_nontrivial": len(distinct), "photons_checked": photons,
        "photons_with_path_longer_than_chord": long_path,
        "rule": "random steps (speeds in (0,1) incl. near the Cerenkov threshold, positions, path "
                "length = chord × (1 … 1.5) for ~60 % of the steps, step "
                "directions incl. ±z and the near-axis branch of rotate, step lengths, charges "
                "incl. neutral), refractive-index tables (through MaterialParams+CerenkovParams, or "
                "raw incl. non-monotone/constant/decreasing with arbitrary integral tables), "
                "scintillation materials (1–3 components, narrow and wide, rise time zero/non-zero, "
                "invalid inputs), scripts incl. extreme canonical values and too-short scripts; "
                "non-trivial = not answered bad-op; distinct = distinct op lines",
        "op_mix": dict(sorted(kinds.items())), "oracle_failures": len(fails),
        "diverging_ops": len(diverged), "samples": [lines[1][:300], lines[2][:300], lines[3][:300]],
        "correspondence_broken": broken,
        "explanation": "ℝ-level theorems (unit/perpendicular/cone/segment/time/threshold) are "
                       "machine-checked; floating-point rounding, the statistical behaviour of the "
                       "rejection loops and positivity of the scintillation wavelength are not "
                       "proved: the first is measured by the per-photon oracle, the last is a "
                       "confirmed defect of the code (scint-wavelength-nonpositive).",
    })
    return LEVEL


def read_corpus():
    """corpus/C20/*.ops: past findings / disagreements, compared model-vs-implementation first"""
    import glob
    import os
    out = []
    for f in sorted(glob.glob(os.path.join(vlib.CORPUS, "C20", "*.ops"))):
        out += [l.rstrip("\n") for l in open(f) if l.strip() and not l.startswith("#")]
    return out


def nan_equal(a, b):
    wa, wb = a.split(), b.split()
    if len(wa) != len(wb):
        return False
    for x, y in zip(wa, wb):
        if x != y and not (numself.is_nan_bits(x) and numself.is_nan_bits(y)
                           and len(x) == 16 and len(y) == 16):
            return False
    return True


def replay(ctx, data):
    exe, log, _ = vlib.build_harness("optical", HARNESS["optical"])
    r = data["replay"]
    if "op" in r:
        _, o = vlib.run_lines([exe], [r["op"]])
        print("op:", r["op"])
        print("impl now:", o[0] if o else o)
        print("recorded:", r.get("impl_output"))
        print("info:", vlib.json.dumps(r.get("info"), indent=1, default=str))
        return 0 if o and o[0] != r.get("impl_output") else 1
    print(vlib.json.dumps(r, indent=1))
    return 0
